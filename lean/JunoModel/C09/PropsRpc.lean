import JunoModel.C09.ProofsRpc
import JunoModel.C09.ProofsDedup
/-!
C09 — property theorems about the RPC layer (round 5; model in `ModelRpc.lean`, lemmas in
`ProofsRpc.lean`). Same namespace as `Props.lean`: every theorem here is an obligation.

Reading guide. `rpcEvents api cfg n env r` is `starknet_getEvents` of rpc v8 / v9 / v10 on node `n`
(`env`: L1 head, scan limit, pre-confirmed chain of the sync reader): validator and decoder, the
checks of `Handler.Events` in their order (`rpcCheck`), block ids resolved by `setEventFilterRange`
(`resolveBound`), the page of the event filter, its continuation token PRINTED. `collectRpc` is a
client that sends the printed token back until the answer carries none. `parseTok` / `printTok` are
`ContinuationToken.FromString` (`fmt.Sscanf("%d-%d")`) / `String`; strings are lists of code points.
`subscribeEvents` / `resolveBlockRange` / `subReplay` / `matchingEvents` / `onPreConfirmed` are the
pieces of `starknet_subscribeEvents`.

Clause → theorem (continuing the map of `Props.lean`): "concatenating the pages obtained by
following continuation tokens yields the same list" AT THE RPC BOUNDARY, i.e. through the token
strings — `token_string_round_trip`, `rpc_paging_complete`, `rpc_events_exact`; "a block range" as the
request states it (ids) — `resolveBound` inside `rpc_paging_complete`, `rpc_numeric_to_block_excludes_preconfirmed`
("plus pre-confirmed blocks WHEN ASKED": a numeric bound never asks); "address filters" with
repetitions — `rpc_address_duplicates_harmless`; invalid requests are refused before anything is read
or cached — `rpc_decision_order`, `rpc_refused_request_changes_nothing`; subscriptions —
`subscription_range_number`, `subscribe_key_check_forms_agree`, `subscription_replay_exact`,
`live_block_exact`, `preconfirmed_update_never_resends`, `preconfirmed_round_sent_exactly_once`.
-/
namespace Juno.C09.Props
open Juno.C09

/-! ## Continuation tokens as strings -/

/-- What the server prints parses back to the same token, for every token whose fields fit
`uint64` (they are `uint64` in the code): `FromString (String t) = t`. -/
theorem token_string_round_trip (t : Token) (hb : t.b < 2 ^ 64) (hp : t.p < 2 ^ 64) :
    parseTok (printTok t) = some t :=
  parse_print t hb hp

/-- Whatever string is accepted yields `uint64` fields (no wrap-around: `strconv.ParseUint` range
error), and a printed token is never the empty string (the empty string means "first page"). -/
theorem token_parse_yields_uint64 (s : List Nat) (t : Token) (h : parseTok s = some t) :
    t.b < 2 ^ 64 ∧ t.p < 2 ^ 64 ∧ printTok t ≠ [] :=
  ⟨(parseTok_lt s t h).1, (parseTok_lt s t h).2, printTok_ne_nil t⟩

/-! ## `starknet_getEvents` -/

/-- A refused request changes nothing (no cache entry, no initialisation). -/
theorem rpc_refused_request_changes_nothing (api : Api) (cfg : Cfg) (n : Node) (env : RpcEnv) (r : RpcReq) (e : RpcErr)
    (h : rpcCheck api n env r = .error e) : rpcEvents api cfg n env r = (n, .err e) := by
  simp [rpcEvents, h]

/-- The order in which a request is judged: chunk size 0 (validator) before everything; then the
page size; then the number of keys; then the chain; then the token; then the block ids. Each line
holds whatever the later parts of the request are. -/
theorem rpc_decision_order (api : Api) (n : Node) (env : RpcEnv) (r : RpcReq) :
    (r.chunk = 0 → rpcCheck api n env r = .error .invalidParams) ∧
    (r.chunk ≠ 0 → ¬ (api = .v8 ∧ (r.from_ = some .l1Accepted ∨ r.to = some .l1Accepted)) → (api ≠ .v10 → r.addrs.length ≤ 1) →
      (maxEventChunkSize < r.chunk → rpcCheck api n env r = .error .pageTooBig) ∧
      (r.chunk ≤ maxEventChunkSize →
        (maxEventFilterKeys < keysCount r.keys → rpcCheck api n env r = .error .tooManyKeys) ∧
        (keysCount r.keys ≤ maxEventFilterKeys →
          (n.chain = [] → rpcCheck api n env r = .error .internal) ∧
          (n.chain ≠ [] → r.tok ≠ [] → parseTok r.tok = none → rpcCheck api n env r = .error .badToken) ∧
          (n.chain ≠ [] → (r.tok = [] ∨ (parseTok r.tok).isSome) →
            (resolveBound api n env (n.chain.length - 1) false r.from_ = none ∨
             resolveBound api n env (n.chain.length - 1) true r.to = none) →
            rpcCheck api n env r = .error .blockNotFound)))) := by
  refine ⟨fun h => by simp [rpcCheck, h], fun h0 hdec haddr => ?_⟩
  have h1 : (r.chunk == 0) = false := by simp [h0]
  have h2 : (api == Api.v8 && (r.from_ == some BlockId.l1Accepted || r.to == some BlockId.l1Accepted)) = false := by
    by_cases ha : api = .v8
    · have : ¬ (r.from_ = some .l1Accepted ∨ r.to = some .l1Accepted) := fun h => hdec ⟨ha, h⟩
      simp only [not_or] at this
      simp [this.1, this.2]
    · simp [ha]
  have h3 : (api != Api.v10 && decide (r.addrs.length > 1)) = false := by
    by_cases ha : api = .v10
    · simp [ha]
    · have := haddr ha
      simp only [Bool.and_eq_false_iff, decide_eq_false_iff_not]
      right; omega
  refine ⟨fun h => by simp [rpcCheck, h1, h2, h3, h], fun h4 => ⟨fun h => by
    have : ¬ r.chunk > maxEventChunkSize := by omega
    simp [rpcCheck, h1, h2, h3, this, h], fun h5 => ?_⟩⟩
  have h4' : ¬ r.chunk > maxEventChunkSize := by omega
  have h5' : ¬ keysCount r.keys > maxEventFilterKeys := by omega
  refine ⟨fun h => by simp [rpcCheck, h1, h2, h3, h4', h5', h], fun hne htok hp => ?_, fun hne htok hres => ?_⟩
  · cases hl : n.chain.length with
    | zero => exact absurd (List.eq_nil_of_length_eq_zero hl) hne
    | succ height =>
      have : r.tok.isEmpty = false := by cases h : r.tok with | nil => exact absurd h htok | cons _ _ => rfl
      simp [rpcCheck, h1, h2, h3, h4', h5', hl, this, hp]
  · cases hl : n.chain.length with
    | zero => exact absurd (List.eq_nil_of_length_eq_zero hl) hne
    | succ height =>
      rw [hl] at hres
      simp only [Nat.add_sub_cancel] at hres
      have hdecode : ∃ tok, (if r.tok.isEmpty then some none else (parseTok r.tok).map some) = some tok := by
        rcases htok with h | h
        · exact ⟨none, by simp [h]⟩
        · obtain ⟨t, ht⟩ := Option.isSome_iff_exists.mp h
          by_cases he : r.tok.isEmpty = true
          · exact ⟨none, by simp [he]⟩
          · exact ⟨some t, by simp [he, ht]⟩
      obtain ⟨tok, htk⟩ := hdecode
      unfold rpcCheck
      simp only [h1, h2, h3, h4', h5', hl, htk, if_false, Bool.false_eq_true]
      rcases hres with h | h
      · simp [h]
      · rw [h]
        cases resolveBound api n env height false r.from_ <;> rfl

/-- **paging_complete through the RPC boundary**: on a node whose index has no false negatives, a
request inside the handler's limits whose block ids resolve to `[fromB, toB]` with `toB` a canonical
block (every id except `pre_confirmed`, and `l1_accepted` while the L1 head is not ahead of the
chain), from the retained part: a client that sends the printed continuation token back until none
is returned receives exactly the naive scan of the range, for every chunk size the handler admits
and every scan limit — the token strings carry the position faithfully. -/
theorem rpc_paging_complete (api : Api) (cfg : Cfg) (hW : 1 ≤ cfg.W) (n : Node) (env : RpcEnv) (r : RpcReq)
    (hok : ReqOK api r) (hne : n.chain ≠ []) (hnf : NoFalseNeg cfg n)
    (hfit : n.chain.length < 2 ^ 64) (hev : EventsFit n.chain) (fromB toB : Nat)
    (hf : resolveBound api n env (n.chain.length - 1) false r.from_ = some fromB)
    (ht : resolveBound api n env (n.chain.length - 1) true r.to = some toB)
    (hto : toB < n.chain.length) (hfl : n.floor ≤ fromB) (fuel : Nat)
    (hfuel : (naive (rpcFilter api r) n.chain fromB toB).length + n.chain.length < fuel) :
    collectRpc api cfg env r fuel n [] = some (naive (rpcFilter api r) n.chain fromB toB) := by
  cases hl : n.chain.length with
  | zero => exact absurd (List.eq_nil_of_length_eq_zero hl) hne
  | succ height =>
    rw [hl] at hf ht hto hfit
    simp only [Nat.add_sub_cancel] at hf ht
    have hsent : toB ≠ sentinel := by unfold sentinel; omega
    have := collectRpc_eq api cfg hW env r hok n.chain height n.floor hl (by omega) hev fromB toB hsent (by omega)
      fuel n none rfl rfl hnf hf ht (by simpa [startOf] using hfl) (Or.inl rfl) trivial
    simp only [encTok] at this
    rw [this]
    have hmin : min toB (n.chain.length - 1) = toB := by rw [hl]; simp; omega
    have := paging_complete cfg hW n (rpcFilter api r) fromB toB r.chunk env.limit hok.chunk1 hne hnf hfl fuel
      (by rw [hmin]; exact hfuel)
    rw [hmin] at this
    exact this

/-- … end to end over histories (faults and crash points included). -/
theorem rpc_events_exact (api : Api) (cfg : Cfg) (hW : 1 ≤ cfg.W) (hr : Repaired cfg) (ops : List Op)
    (hok : StoresOK cfg Node.init ops) (hne : (run cfg Node.init ops).chain ≠ []) (env : RpcEnv) (r : RpcReq)
    (hreq : ReqOK api r) :
    let n := run cfg Node.init ops
    n.chain.length < 2 ^ 64 → EventsFit n.chain → ∀ fromB toB,
    resolveBound api n env (n.chain.length - 1) false r.from_ = some fromB →
    resolveBound api n env (n.chain.length - 1) true r.to = some toB →
    toB < n.chain.length → n.floor ≤ fromB →
    ∀ fuel, (naive (rpcFilter api r) n.chain fromB toB).length + n.chain.length < fuel →
      collectRpc api cfg env r fuel n [] = some (naive (rpcFilter api r) n.chain fromB toB) := by
  intro n hfit hev fromB toB hf ht hto hfl fuel hfuel
  have hnf := (index_no_false_neg cfg hW hr ops hok).2 hne
  obtain ⟨hc, hfw, _⟩ := wake_fields cfg n
  have hl : (wake cfg n).chain.length = n.chain.length := by rw [hc]
  rw [collectRpc_wake api cfg env r fuel n [] hnf.2.1.live]
  have := rpc_paging_complete api cfg hW (wake cfg n) env r hreq (by rw [hc]; exact hne) hnf (by rw [hl]; exact hfit)
    (by rw [hc]; exact hev) fromB toB
    (by rw [hl, resolveBound_congr api n (wake cfg n) env _ false r.from_ hl hfw]; exact hf)
    (by rw [hl, resolveBound_congr api n (wake cfg n) env _ true r.to hl hfw]; exact ht)
    (by rw [hl]; exact hto) (by rw [hfw]; exact hfl) fuel (by rw [hc]; exact hfuel)
  rw [hc] at this
  exact this

/-- Repeated addresses in a v10 address list change nothing: the de-duplicated filter selects the
same events (so `rpc_paging_complete` is about the filter as the client wrote it). -/
theorem rpc_address_duplicates_harmless (api : Api) (r : RpcReq) (chain : List Block) (lo hi : Nat) :
    naive (rpcFilter api r) chain lo hi = naive ⟨r.addrs, r.keys⟩ chain lo hi := by
  have hm : ∀ e : Event, «matches» (rpcFilter api r) e = «matches» ⟨r.addrs, r.keys⟩ e := by
    intro e
    unfold rpcFilter
    by_cases ha : (api == Api.v10) = true
    · simp only [ha, if_true, «matches», matchesAddr]
      congr 1
      cases h : r.addrs with
      | nil => simp [List.eraseDups]
      | cons a as =>
        have h1 : (a :: as).isEmpty = false := rfl
        have h2 : (a :: as).eraseDups.isEmpty = false := by
          cases h' : (a :: as).eraseDups with
          | nil =>
            have : a ∈ (a :: as).eraseDups := List.mem_eraseDups.mpr (by simp)
            rw [h'] at this; cases this
          | cons _ _ => rfl
        rw [h1, h2]
        simp only [Bool.false_or]
        rw [Bool.eq_iff_iff]
        simp [List.mem_eraseDups]
    · simp [ha]
  have hs : ∀ l, sel (rpcFilter api r) l = sel ⟨r.addrs, r.keys⟩ l := by
    intro l
    unfold sel
    congr 1
    funext e
    exact hm e.ev
  unfold naive
  congr 1
  funext b
  cases chain[b]? with
  | none => rfl
  | some blk => exact hs _

/-- **A numeric `to_block` never reaches the pre-confirmed chain** ("plus pre-confirmed blocks when
asked" — a number does not ask): whatever pre-confirmed chain the node holds, the answer is the one
given without it. (`setEventFilterRange` cuts the number at the head; all three versions.) -/
theorem rpc_numeric_to_block_excludes_preconfirmed (api : Api) (cfg : Cfg) (n : Node) (env : RpcEnv) (r : RpcReq) (k : Nat)
    (hto : r.to = some (.number k)) (hfit : n.chain.length < 2 ^ 64) :
    rpcEvents api cfg n env r = rpcEvents api cfg n { env with pre := [] } r := by
  have hchk : rpcCheck api n { env with pre := [] } r =
      (rpcCheck api n env r).map (fun c => { c with pre := [] }) := by
    unfold rpcCheck
    have hres : ∀ height isTo id, resolveBound api n { env with pre := [] } height isTo id = resolveBound api n env height isTo id := by
      intro height isTo id
      cases id with
      | none => rfl
      | some id => cases id <;> rfl
    simp only [hres]
    repeat' split
    all_goals simp_all [Except.map]
  have hinv : ∀ c, rpcCheck api n env r = .ok c → c.toB ≠ sentinel ∧ c.toB < n.chain.length := by
    intro c hc
    obtain ⟨height, hl, _, ht, _⟩ := rpcCheck_ok_inv api n env r c hc
    simp only [hto, resolveBound, resolveId, if_true, Option.some.injEq] at ht
    rw [← ht, hl]
    refine ⟨?_, by omega⟩
    unfold sentinel
    omega
  unfold rpcEvents
  rw [hchk]
  cases hc : rpcCheck api n env r with
  | error e => rfl
  | ok c =>
    obtain ⟨h1, h2⟩ := hinv c hc
    simp only [Except.map]
    rw [preconfirmed_ignored_below_head cfg n c.f c.fromB c.toB c.tok r.chunk env.limit env.base c.pre h1 h2,
      preconfirmed_ignored_below_head cfg n c.f c.fromB c.toB c.tok r.chunk env.limit env.base [] h1 h2]

/-! ## `starknet_subscribeEvents` -/

/-- The two ways the key-count limit is written (v8 sums, then compares; v9 / v10 compare inside
the loop) decide alike. -/
theorem subscribe_key_check_forms_agree (keys : List (List Nat)) :
    keysOverLoop maxEventFilterKeys keys keys.length = decide (keysCount keys > maxEventFilterKeys) :=
  keysOverLoop_eq maxEventFilterKeys keys

/-- `resolveBlockRange` for a block number, in plain arithmetic (the `latest ≥ 1024 &&` guard of the
code is what keeps `latest - 1024` from wrapping): a block above the head is not found; a start
1024 or more blocks behind the head is refused; otherwise the range is `[k, latest]`. -/
theorem subscription_range_number (n : Node) (k latest : Nat) (hlen : n.chain.length = latest + 1) :
    resolveBlockRange n (some (.number k)) =
      if latest < k then .error .blockNotFound
      else if k + maxBlocksBack ≤ latest then .error .tooManyBlocksBack
      else .ok (k, latest) := by
  unfold resolveBlockRange maxBlocksBack
  simp only [hlen]
  by_cases h1 : latest < k
  · simp [h1]
  · have : ¬ k > latest := by omega
    simp only [this, if_false]
    by_cases h2 : k + 1024 ≤ latest
    · have : (decide (latest ≥ 1024) && decide (k ≤ latest - 1024)) = true := by
        simp only [Bool.and_eq_true, decide_eq_true_eq]; omega
      simp [this, h2]
    · have : (decide (latest ≥ 1024) && decide (k ≤ latest - 1024)) = false := by
        simp only [Bool.and_eq_false_iff, decide_eq_false_iff_not]; omega
      simp [this, h2]

/-- **The historical replay of a subscription is exact**: after every admissible history, the replay
from a retained block `start` to the head delivers exactly the matching events of the canonical
chain in `[start, head]`, in chain order. -/
theorem subscription_replay_exact (cfg : Cfg) (hW : 1 ≤ cfg.W) (hr : Repaired cfg) (ops : List Op)
    (hok : StoresOK cfg Node.init ops) (hne : (run cfg Node.init ops).chain ≠ []) (f : Filter) (start : Nat)
    (hfl : (run cfg Node.init ops).floor ≤ start) (fuel : Nat)
    (hfuel : (naive f (run cfg Node.init ops).chain start ((run cfg Node.init ops).chain.length - 1)).length +
      (run cfg Node.init ops).chain.length < fuel) :
    subReplay cfg (run cfg Node.init ops) f start ((run cfg Node.init ops).chain.length - 1) fuel =
      some (naive f (run cfg Node.init ops).chain start ((run cfg Node.init ops).chain.length - 1)) := by
  have h := events_exact cfg hW hr ops hok hne f start ((run cfg Node.init ops).chain.length - 1) subscribeChunk (2 ^ 64 - 1)
    (by unfold subscribeChunk; omega) hfl fuel (by rw [Nat.min_self]; exact hfuel)
  rw [Nat.min_self] at h
  exact h

/-- **A new head is notified exactly**: for a block whose header bloom covers its events,
`matchingEvents` yields precisely the matching events of the block, in order, with their positions
(the bloom pre-check never hides a match). -/
theorem live_block_exact (f : Filter) (num : Nat) (blk : Block) (hwf : ∀ it ∈ blk.items, it ∈ blk.bloom) :
    matchingEvents f num blk = sel f (blockRaw num blk) :=
  matchingEvents_eq f num blk hwf

/-- Within one round of the pre-confirmed tip no event key is sent twice: marking a key a second time
(same block number, same round identifier) says "already sent". -/
theorem preconfirmed_update_never_resends (d : Dedup) (num ident : Nat) (key : Nat × Nat × Nat) :
    ((d.markSent num ident key).1.markSent num ident key).2 = false :=
  markSent_twice d num ident key

/-- **One round of the pre-confirmed tip**: the tip is published again in full at every update, each
time with more transactions (`Growing`), under one round identifier that differs from what the
deduper last saw. Over the whole round the subscriber is sent exactly the matching events of the
final tip — each once, in block order, whatever the number of updates and wherever the cuts fall
(`runRound` = `onPreConfirmed` applied to the updates in turn; `dkey` = (transaction hash,
transaction index, event index), the hash of the i-th transaction being the same in every update). -/
theorem preconfirmed_round_sent_exactly_once (f : Filter) (num ident : Nat) (hashes : List Nat) (blks : List Block)
    (hne : blks ≠ []) (d : Dedup) (hfresh : d.num ≠ num ∨ d.ident ≠ ident)
    (hg : Growing ⟨[], []⟩ blks) (hwf : ∀ blk ∈ blks, ∀ it ∈ blk.items, it ∈ blk.bloom) :
    (runRound f num ident hashes blks d).2 = sel f (blockRaw num (blks.getLast hne)) := by
  have heff : eff num ident d = [] := by
    unfold eff
    have : ¬ (d.num = num ∧ d.ident = ident) := by intro h; rcases hfresh with g | g; exact g h.1; exact g h.2
    simp [this]
  have := runRound_spec f num ident hashes blks ⟨[], []⟩ d (by intro k; simp [heff, blockRaw, blockRawFrom, sel]) hg hwf
  simp only [blockRaw, blockRawFrom, sel, List.filter_nil, List.nil_append] at this
  rw [this, List.getLast_cons hne]
  rfl

/-! ## Non-vacuity -/

def errOf {α : Type} : Except RpcErr α → Option RpcErr
  | .error e => some e
  | .ok _ => none

def blkB2 : Block := ⟨[[⟨11, []⟩, ⟨12, []⟩, ⟨11, []⟩]], [.addr 11, .addr 12]⟩

-- a request inside the limits, paged with chunk size 1 through the token strings "0-2", "2-0"
example :
    let n := run cfgRepaired Node.init [.store blkB2, .store blkE, .store blkB]
    let env : RpcEnv := ⟨none, 1, 2, [], false⟩
    let r : RpcReq := ⟨some (.number 0), some (.number 9), [11, 11], [], [], 1⟩
    (rpcEvents .v10 cfgRepaired n env r).2 = .ok [⟨0, 0, 0, ⟨11, []⟩⟩] [48, 45, 50] ∧
    (rpcEvents .v10 cfgRepaired n env { r with tok := [48, 45, 50] }).2 = .ok [⟨0, 0, 2, ⟨11, []⟩⟩] [50, 45, 48] ∧
    collectRpc .v10 cfgRepaired env r 10 n [] = some (naive ⟨[11], []⟩ n.chain 0 2) ∧
    resolveBound .v10 n env 2 true r.to = some 2 := by
  decide

-- every refusal of `rpc_decision_order` happens; hashes of pruned blocks; the L1 head
example :
    let n := run cfgRepaired Node.init [.store blkE, .store blkE, .store blkB, .store blkE, .prune 2]
    let env : RpcEnv := ⟨none, 0, 3, [], false⟩
    let r : RpcReq := ⟨none, none, [], [], [], 5⟩
    errOf (rpcCheck .v9 n env { r with chunk := 0 }) = some .invalidParams ∧
    errOf (rpcCheck .v9 n env { r with chunk := 10241, tok := [120] }) = some .pageTooBig ∧
    errOf (rpcCheck .v9 n env { r with tok := [120] }) = some .badToken ∧
    errOf (rpcCheck .v9 n env { r with tok := [53, 45], from_ := some (.hash none) }) = some .badToken ∧
    errOf (rpcCheck .v9 n env { r with from_ := some (.hash (some 0)) }) = some .blockNotFound ∧
    ((rpcCheck .v9 n env { r with from_ := some (.hash (some 1)) }).toOption.map (·.fromB)) = some 1 ∧
    errOf (rpcCheck .v9 n env { r with to := some .l1Accepted }) = some .blockNotFound ∧
    errOf (rpcCheck .v8 n env { r with to := some .l1Accepted }) = some .invalidParams ∧
    errOf (rpcCheck .v9 Node.init env r) = some .internal ∧
    (rpcEvents .v9 cfgRepaired n env r).2 = .err (.data .pruned) := by
  decide

-- parsing: spaces before either number, nothing between the first number and '-', trailing text ignored
example :
    parseTok [32, 53, 45, 9, 51, 120] = some ⟨5, 3⟩ ∧ parseTok [53, 32, 45, 51] = none ∧ parseTok [43, 53, 45, 51] = none ∧
    parseTok [53, 45, 10, 51] = none ∧ parseTok (printTok ⟨2 ^ 64 - 1, 0⟩) = some ⟨2 ^ 64 - 1, 0⟩ ∧
    parseTok (decDigits (2 ^ 64) ++ [45, 48]) = none := by
  decide

-- subscriptions: the range, the replay with its finality tags, a live block, one round of updates
example :
    let n := run cfgRepaired Node.init [.store blkB, .store blkE, .store blkB]
    (subscribeEvents .v10 n ⟨some 1, 0, 2, [], false⟩ [11] [] (some (.number 0))).toOption = some (0, 2, some 1) ∧
    errOf (subscribeEvents .v10 n ⟨none, 0, 2, [], false⟩ [11] [] (some (.number 0))) = some (.data .notfound) ∧
    errOf (subscribeEvents .v8 n ⟨none, 0, 2, [], false⟩ [11] [] (some (.number 3))) = some .blockNotFound ∧
    subReplay cfgRepaired n fB 0 2 10 = some [⟨0, 0, 0, ⟨11, [7]⟩⟩, ⟨2, 0, 0, ⟨11, [7]⟩⟩] ∧
    matchingEvents fB 3 blkB = [⟨3, 0, 0, ⟨11, [7]⟩⟩] ∧
    (onPreConfirmed fB Dedup.init 3 1 [100] blkB).2 = [⟨3, 0, 0, ⟨11, [7]⟩⟩] ∧
    (onPreConfirmed fB (onPreConfirmed fB Dedup.init 3 1 [100] blkB).1 3 1 [100, 101] ⟨blkB.txs ++ blkB.txs, blkB.bloom⟩).2 =
      [⟨3, 1, 0, ⟨11, [7]⟩⟩] := by
  decide

-- a round of three updates (one, two, three transactions; the second one adds nothing that matches)
example :
    let t1 : Tx := [⟨11, [7]⟩, ⟨12, []⟩]
    let t2 : Tx := [⟨12, [7]⟩]
    let t3 : Tx := [⟨11, [7]⟩, ⟨11, [7]⟩]
    let bl : List Item := [.addr 11, .addr 12, .key 0 7]
    let blks : List Block := [⟨[t1], bl⟩, ⟨[t1, t2], bl⟩, ⟨[t1, t2, t3], bl⟩]
    Growing ⟨[], []⟩ blks ∧
    (runRound fB 5 1 [100, 101, 102] blks Dedup.init).2 = [⟨5, 0, 0, ⟨11, [7]⟩⟩, ⟨5, 2, 0, ⟨11, [7]⟩⟩, ⟨5, 2, 1, ⟨11, [7]⟩⟩] ∧
    (onPreConfirmed fB (runRound fB 5 1 [100, 101, 102] blks Dedup.init).1 5 1 [100, 101, 102] ⟨[t1, t2, t3], bl⟩).2 = [] ∧
    (onPreConfirmed fB (runRound fB 5 1 [100, 101, 102] blks Dedup.init).1 5 2 [100, 101, 102] ⟨[t1, t2, t3], bl⟩).2.length = 3 := by
  refine ⟨⟨⟨_, rfl⟩, ⟨_, rfl⟩, ⟨_, rfl⟩, trivial⟩, ?_⟩
  decide

end Juno.C09.Props
