import JunoModel.C09.ProofsPage
/-! C09 — helper lemmas, part 3: the index invariant and its preservation by every operation. -/
namespace Juno.C09

/-! ### Finite maps -/

theorem lookup_put (m : WinMap) (k w : Nat) (v : Agg) :
    (m.put k v).lookup w = if w == k then some v else m.lookup w := by
  unfold WinMap.put WinMap.del
  simp only [List.lookup]
  by_cases h : w == k
  · simp [h]
  · simp only [h]
    induction m with
    | nil => simp
    | cons x xs ih =>
      obtain ⟨k', v'⟩ := x
      by_cases hk : k' = k
      · subst hk
        simp only [List.filter, bne_self_eq_false, List.lookup, h]
        exact ih
      · have : (k' != k) = true := by simpa using hk
        simp only [List.filter, this, List.lookup]
        cases hw : w == k' <;> simp [ih]

theorem lookup_del (m : WinMap) (k w : Nat) (h : w ≠ k) : (m.del k).lookup w = m.lookup w := by
  unfold WinMap.del
  induction m with
  | nil => simp
  | cons x xs ih =>
    obtain ⟨k', v'⟩ := x
    by_cases hk : k' = k
    · subst hk
      have hw : (w == k') = false := by simpa using h
      simp only [List.filter, bne_self_eq_false, List.lookup, hw]
      exact ih
    · have : (k' != k) = true := by simpa using hk
      simp only [List.filter, this, List.lookup]
      cases hw : w == k' <;> simp [ih]

theorem mem_del_iff (m : WinMap) (k : Nat) (x : Nat × Agg) : x ∈ m.del k ↔ x ∈ m ∧ x.1 ≠ k := by
  simp [WinMap.del, List.mem_filter]

theorem lookup_filter_key (m : WinMap) (q : Nat → Bool) (w : Nat) (h : q w = true) :
    (m.filter (fun x => q x.1)).lookup w = m.lookup w := by
  induction m with
  | nil => simp
  | cons x xs ih =>
    obtain ⟨k', v'⟩ := x
    by_cases hk : q k' = true
    · simp only [List.filter, hk, List.lookup]
      cases hw : w == k' <;> simp [ih]
    · have hk' : q k' = false := by simpa using hk
      have hw : (w == k') = false := by
        simp only [beq_eq_false_iff_ne, ne_eq]; intro e; subst e; rw [h] at hk'; cases hk'
      simp only [List.filter, hk', List.lookup, hw]
      exact ih

/-! ### Aggregated filters -/

theorem test_insert (W : Nat) (a a' : Agg) (bloom : List Item) (b : Nat) (h : a.insert W bloom b = some a') :
    a'.from_ = a.from_ ∧ (∀ it ∈ bloom, a'.test b it = true) ∧ (∀ c it, a.test c it = true → a'.test c it = true) := by
  unfold Agg.insert at h
  split at h
  · cases h
    refine ⟨rfl, ?_, ?_⟩
    · intro it hit
      have : bloom.isEmpty = false := by cases bloom <;> simp_all
      simp [Agg.test, hit, this]
    · intro c it hc
      unfold Agg.test at hc ⊢
      split
      · exact hc
      · simp only [List.any_cons, Bool.or_eq_true]
        exact Or.inr hc
  · cases h

theorem test_clear (W : Nat) (a a' : Agg) (b : Nat) (h : a.clear W b = some a') :
    a'.from_ = a.from_ ∧ (∀ c it, c ≠ b → a.test c it = true → a'.test c it = true) := by
  unfold Agg.clear at h
  split at h
  · cases h
    refine ⟨rfl, ?_⟩
    intro c it hcb hc
    simp only [Agg.test, List.any_eq_true, List.mem_filter] at hc ⊢
    obtain ⟨x, hx, hx2⟩ := hc
    refine ⟨x, ⟨hx, ?_⟩, hx2⟩
    simp only [Bool.and_eq_true, beq_iff_eq] at hx2
    simp [hx2.1, hcb]
  · cases h

/-- `a` has every header-bloom item of every chain block of its window below `nx`. -/
def GoodBelow (chain : List Block) (W floor : Nat) (a : Agg) (nx : Nat) : Prop :=
  ∀ b blk, a.from_ ≤ b → b < a.from_ + W → floor ≤ b → b < nx → chain[b]? = some blk →
    ∀ it ∈ blk.bloom, a.test b it = true

theorem good_floor_mono (chain : List Block) (W f1 f2 w : Nat) (a : Agg) (h : Good chain W f1 w a) (hf : f1 ≤ f2) :
    Good chain W f2 w a := fun b blk h1 h2 h3 hb it hit => h b blk h1 h2 (by omega) hb it hit

theorem goodBelow_floor_mono (chain : List Block) (W f1 f2 : Nat) (a : Agg) (nx : Nat) (h : GoodBelow chain W f1 a nx)
    (hf : f1 ≤ f2) : GoodBelow chain W f2 a nx :=
  fun b blk h1 h2 h3 h4 hb it hit => h b blk h1 h2 (by omega) h4 hb it hit

theorem good_of_goodBelow (chain : List Block) (W floor : Nat) (a : Agg) (nx : Nat)
    (h : GoodBelow chain W floor a nx) (hn : chain.length ≤ nx ∨ a.from_ + W ≤ nx) : Good chain W floor a.from_ a := by
  intro b blk h1 h2 h3 hb it hit
  have : b < chain.length := by
    rcases Nat.lt_or_ge b chain.length with h' | h'
    · exact h'
    · rw [List.getElem?_eq_none h'] at hb; cases hb
  exact h b blk h1 h2 h3 (by omega) hb it hit

/-! ### The index part of the invariant, as a function of how far the running filter has got -/

structure IdxInv (W : Nat) (chain : List Block) (floor L j : Nat) (r : Agg) (p : WinMap) : Prop where
  from_eq : r.from_ = al W j
  running : GoodBelow chain W floor r j
  pers_keys : ∀ w a, (w, a) ∈ p → a.from_ = w ∧ w % W = 0 ∧ w + W ≤ L ∧ Good chain W floor w a
  pers_avail : ∀ w, w % W = 0 → al W floor ≤ w → w + W ≤ j → ∃ a, p.lookup w = some a

theorem insertRun_step (W : Nat) (hW : 1 ≤ W) (chain : List Block) (floor L j : Nat) (r : Agg) (p : WinMap) (blk : Block)
    (hi : IdxInv W chain floor L j r p) (hj : j < L) (hb : chain[j]? = some blk) :
    ∃ r' p', insertRun W r p blk.bloom j = .ok (r', j + 1, p') ∧ IdxInv W chain floor L (j + 1) r' p' ∧
      (∀ w, (p.lookup w).isSome = true → (p'.lookup w).isSome = true) := by
  have hfj := al_add_mod W j
  have hlt := Nat.mod_lt j (show W > 0 by omega)
  have hin : r.inRange W j = true := by
    simp only [Agg.inRange, Bool.and_eq_true, decide_eq_true_eq]; rw [hi.from_eq]; omega
  have hins : r.insert W blk.bloom j = some { r with cols := if blk.bloom.isEmpty then r.cols else (j, blk.bloom) :: r.cols } := by
    simp [Agg.insert, hin]
  obtain ⟨hf', hnew, hmono⟩ := test_insert W r _ blk.bloom j hins
  have hgb : GoodBelow chain W floor { r with cols := if blk.bloom.isEmpty then r.cols else (j, blk.bloom) :: r.cols } (j + 1) := by
    intro b blk' h1 h2 hfb h3 hb' it hit
    by_cases hbj : b = j
    · subst hbj
      rw [hb] at hb'; cases hb'
      exact hnew it hit
    · exact hmono b it (hi.running b blk' h1 h2 hfb (by omega) hb' it hit)
  unfold insertRun
  simp only [hins]
  by_cases hroll : j % W + 1 = W
  · have hcond : (j == r.from_ + (W - 1)) = true := by
      simp only [beq_iff_eq]; rw [hi.from_eq]; omega
    simp only [hcond, if_true]
    refine ⟨Agg.fresh (j + 1), p.put r.from_ { r with cols := if blk.bloom.isEmpty then r.cols else (j, blk.bloom) :: r.cols }, rfl, ?_,
      (by intro w hw; rw [lookup_put]; split <;> simp_all)⟩
    have hal := al_succ_roll W j hroll
    refine ⟨by simp [Agg.fresh, hal], ?_, ?_, ?_⟩
    · intro b _ h1 _ _ h3 _ _ _
      simp only [Agg.fresh] at h1; omega
    · intro w a hm
      rcases mem_put p _ _ (w, a) hm with h | h
      · cases h
        refine ⟨rfl, ?_, ?_, ?_⟩
        · rw [hi.from_eq]; exact al_mod W j
        · rw [hi.from_eq]; omega
        · have := good_of_goodBelow chain W floor _ (j + 1) hgb (Or.inr (by show r.from_ + W ≤ j + 1; rw [hi.from_eq]; omega))
          exact this
      · exact hi.pers_keys w a h
    · intro w hw hfw hle
      rw [lookup_put]
      by_cases hwk : w = r.from_
      · simp [hwk]
      · have : (w == r.from_) = false := by simpa using hwk
        simp only [this, Bool.false_eq_true, if_false]
        apply hi.pers_avail w hw hfw
        -- w + W ≤ j + 1 = al j + W and w ≠ al j, both aligned
        rw [hi.from_eq] at hwk
        rcases Nat.lt_or_ge w (al W j) with h | h
        · have := aligned_lt W w (al W j) hw (al_mod W j) h; omega
        · have h' : al W j < w := by omega
          have := aligned_lt W (al W j) w (al_mod W j) hw h'; omega
  · have hcond : (j == r.from_ + (W - 1)) = false := by
      simp only [beq_eq_false_iff_ne, ne_eq]; rw [hi.from_eq]; omega
    simp only [hcond, Bool.false_eq_true, if_false]
    refine ⟨_, p, rfl, ?_, fun _ h => h⟩
    have hal := al_succ_same W j (by omega)
    refine ⟨by rw [hal]; exact hi.from_eq, hgb, hi.pers_keys, ?_⟩
    intro w hw hfw hle
    apply hi.pers_avail w hw hfw
    -- w + W ≤ j + 1 but (j+1) is not aligned
    rcases Nat.lt_or_ge j (w + W) with h | h
    · exfalso
      have e : w + W = j + 1 := by omega
      have : (j + 1) % W = 0 := by rw [← e, Nat.add_mod_right]; exact hw
      have h2 : al W (j + 1) = j + 1 := al_eq_self W _ this
      have := al_le W j
      omega
    · exact h

theorem take_range' (m : Nat) : ∀ (s k : Nat), (List.range' s m).take k = List.range' s (min k m) := by
  induction m with
  | zero => intro s k; simp
  | succ m ih =>
    intro s k
    cases k with
    | zero => simp
    | succ k =>
      rw [List.range'_succ, List.take_succ_cons, ih (s + 1) k]
      have : min (k + 1) (m + 1) = min k m + 1 := by omega
      rw [this, List.range'_succ]

/-- `m` steps of the fill from block `j`: it does not fail, ends at `j + m`, keeps the index
invariant relative to the final length `L`, and never removes a persisted window. -/
theorem fill_spec (W : Nat) (hW : 1 ≤ W) (chain : List Block) (floor hfloor L : Nat) (hL : L ≤ chain.length) (m : Nat) :
    ∀ (j : Nat) (r : Agg) (nx : Nat) (p : WinMap), j + m ≤ L → hfloor ≤ j → IdxInv W chain floor L j r p → nx = j →
      ∃ r' p', fill W chain hfloor (List.range' j m) r nx p = .ok (r', j + m, p') ∧ IdxInv W chain floor L (j + m) r' p' ∧
        (∀ w, (p.lookup w).isSome = true → (p'.lookup w).isSome = true) := by
  induction m with
  | zero =>
    intro j r nx p _ _ hi hnx
    exact ⟨r, p, by simp [fill, hnx], hi, fun _ h => h⟩
  | succ m ih =>
    intro j r nx p hjm hfj hi _
    have hj : j < chain.length := by omega
    have hget : chain[j]? = some chain[j] := List.getElem?_eq_getElem hj
    obtain ⟨r', p', hrun, hi', hm'⟩ := insertRun_step W hW chain floor L j r p chain[j] hi (by omega) hget
    rw [List.range'_succ]
    unfold fill
    have hnp : ¬ j < hfloor := by omega
    simp only [hnp, if_false, hget, hrun]
    obtain ⟨r2, p2, h1, h2, h3⟩ := ih (j + 1) r' (j + 1) p' (by omega) (by omega) hi' rfl
    refine ⟨r2, p2, ?_, ?_, fun w hw => h3 w (hm' w hw)⟩
    · rw [h1]; congr 3; omega
    · have e : j + 1 + m = j + (m + 1) := by omega
      rw [← e]; exact h2

/-! ### Chains growing and shrinking -/

theorem getElem?_append_lt (chain : List Block) (blk : Block) (b : Nat) (h : b < chain.length) :
    (chain ++ [blk])[b]? = chain[b]? := List.getElem?_append_left h

theorem getElem?_dropLast_some (chain : List Block) (b : Nat) (blk : Block) (h : chain.dropLast[b]? = some blk) :
    chain[b]? = some blk ∧ b + 1 < chain.length := by
  rw [List.dropLast_eq_take, List.getElem?_take] at h
  split at h
  · exact ⟨h, by omega⟩
  · cases h

theorem good_append (chain : List Block) (blk : Block) (W fl w : Nat) (a : Agg) (h : Good chain W fl w a)
    (hc : w + W ≤ chain.length) : Good (chain ++ [blk]) W fl w a := by
  intro b x h1 h2 h3 hb it hit
  rw [getElem?_append_lt chain blk b (by omega)] at hb
  exact h b x h1 h2 h3 hb it hit

theorem goodBelow_append (chain : List Block) (blk : Block) (W fl : Nat) (a : Agg) (nx : Nat)
    (h : GoodBelow chain W fl a nx) (hc : nx ≤ chain.length) : GoodBelow (chain ++ [blk]) W fl a nx := by
  intro b x h1 h2 h3 h4 hb it hit
  rw [getElem?_append_lt chain blk b (by omega)] at hb
  exact h b x h1 h2 h3 h4 hb it hit

theorem good_dropLast (chain : List Block) (W fl w : Nat) (a : Agg) (h : Good chain W fl w a) :
    Good chain.dropLast W fl w a := by
  intro b x h1 h2 h3 hb it hit
  exact h b x h1 h2 h3 (getElem?_dropLast_some chain b x hb).1 it hit

theorem goodBelow_dropLast (chain : List Block) (W fl : Nat) (a : Agg) (nx : Nat) (h : GoodBelow chain W fl a nx) :
    GoodBelow chain.dropLast W fl a nx := by
  intro b x h1 h2 h3 h4 hb it hit
  exact h b x h1 h2 h3 h4 (getElem?_dropLast_some chain b x hb).1 it hit

theorem chainWF_dropLast (chain : List Block) (h : ChainWF chain) : ChainWF chain.dropLast :=
  fun blk hb => h blk (List.mem_of_mem_take (by rw [← List.dropLast_eq_take]; exact hb))

/-! ### The invariant -/

/-- The part of the invariant that lives in the database (and the cache): it survives a restart,
a failed write and a failed initialisation. -/
structure DBInv (cfg : Cfg) (n : Node) : Prop where
  wf : ChainWF n.chain
  bound : n.chain.length < 2 ^ 64
  floor_lt : n.floor = 0 ∨ n.floor < n.chain.length
  hfloor_le : n.hfloor ≤ n.floor
  pers_keys : ∀ w a, (w, a) ∈ n.persisted →
    a.from_ = w ∧ w % cfg.W = 0 ∧ w + cfg.W ≤ n.chain.length ∧ Good n.chain cfg.W n.floor w a
  pers_avail : ∀ w, w % cfg.W = 0 → al cfg.W n.floor ≤ w → w + cfg.W ≤ n.chain.length →
    ∃ a, n.persisted.lookup w = some a
  cache : ∀ w a, (w, a) ∈ n.cache → w % cfg.W = 0 ∧ w + cfg.W ≤ n.chain.length ∧ Good n.chain cfg.W n.floor w a
  snap : ∀ a nx, n.snapshot = some (a, nx) →
    nx ≤ n.chain.length ∧ a.from_ = al cfg.W nx ∧ GoodBelow n.chain cfg.W n.floor a nx
  /-- the process is wired with the floor-aware initialiser (`--prune-mode`, or nothing pruned) -/
  nocore : n.coreInit = false

/-- The full invariant: the database part, and the in-memory running filter is initialised and
is exactly the window of the chain length. -/
structure Inv (cfg : Cfg) (n : Node) : Prop where
  db : DBInv cfg n
  live : n.initErr = none
  next_eq : n.next = n.chain.length
  from_eq : n.running.from_ = al cfg.W n.chain.length
  running : GoodBelow n.chain cfg.W n.floor n.running n.chain.length

theorem Inv.wf {cfg : Cfg} {n : Node} (h : Inv cfg n) : ChainWF n.chain := h.db.wf
theorem Inv.bound {cfg : Cfg} {n : Node} (h : Inv cfg n) : n.chain.length < 2 ^ 64 := h.db.bound
theorem Inv.floor_lt {cfg : Cfg} {n : Node} (h : Inv cfg n) : n.floor = 0 ∨ n.floor < n.chain.length := h.db.floor_lt
theorem Inv.cache {cfg : Cfg} {n : Node} (h : Inv cfg n) :
    ∀ w a, (w, a) ∈ n.cache → w % cfg.W = 0 ∧ w + cfg.W ≤ n.chain.length ∧ Good n.chain cfg.W n.floor w a := h.db.cache
theorem Inv.snap {cfg : Cfg} {n : Node} (h : Inv cfg n) :
    ∀ a nx, n.snapshot = some (a, nx) →
      nx ≤ n.chain.length ∧ a.from_ = al cfg.W nx ∧ GoodBelow n.chain cfg.W n.floor a nx := h.db.snap
theorem Inv.idx {cfg : Cfg} {n : Node} (h : Inv cfg n) :
    IdxInv cfg.W n.chain n.floor n.chain.length n.chain.length n.running n.persisted :=
  ⟨h.from_eq, h.running, h.db.pers_keys, h.db.pers_avail⟩

theorem Inv.mk' {cfg : Cfg} {n : Node} (wf : ChainWF n.chain) (bound : n.chain.length < 2 ^ 64)
    (next_eq : n.next = n.chain.length) (floor_lt : n.floor = 0 ∨ n.floor < n.chain.length)
    (idx : IdxInv cfg.W n.chain n.floor n.chain.length n.chain.length n.running n.persisted)
    (cache : ∀ w a, (w, a) ∈ n.cache → w % cfg.W = 0 ∧ w + cfg.W ≤ n.chain.length ∧ Good n.chain cfg.W n.floor w a)
    (snap : ∀ a nx, n.snapshot = some (a, nx) →
      nx ≤ n.chain.length ∧ a.from_ = al cfg.W nx ∧ GoodBelow n.chain cfg.W n.floor a nx)
    (hfl : n.hfloor ≤ n.floor) (live : n.initErr = none) (nocore : n.coreInit = false) : Inv cfg n :=
  ⟨⟨wf, bound, floor_lt, hfl, idx.pers_keys, idx.pers_avail, cache, snap, nocore⟩, live, next_eq, idx.from_eq, idx.running⟩

theorem effFloor_eq {cfg : Cfg} {n : Node} (h : DBInv cfg n) : effFloor n = n.floor := by
  unfold effFloor dbFloor
  rw [h.nocore]
  simp only [Bool.false_eq_true, if_false]
  rcases h.floor_lt with h' | h'
  · rw [h']; split <;> rfl
  · simp [h']

theorem inv_init (cfg : Cfg) (hW : 1 ≤ cfg.W) : Inv cfg Node.init := by
  refine Inv.mk' ?_ (by simp [Node.init]) rfl (Or.inl rfl) ⟨?_, ?_, ?_, ?_⟩ ?_ ?_ (Nat.le_refl _) rfl rfl
  · intro blk h; simp [Node.init] at h
  · simp [Node.init, Agg.fresh, al]
  · intro b _ _ _ _ h3 _ _ _; simp [Node.init] at h3
  · intro w a h; simp [Node.init] at h
  · intro w _ _ h; simp [Node.init] at h; omega
  · intro w a h; simp [Node.init] at h
  · intro a nx h; simp [Node.init] at h

theorem inv_servable (cfg : Cfg) (hW : 1 ≤ cfg.W) (n : Node) (h : Inv cfg n) (hi : Nat) (hhi : hi < n.chain.length) :
    Servable cfg n hi ∧ CacheGood cfg n n.cache := by
  refine ⟨⟨h.live, ?_, ?_⟩, fun w a hm => (h.cache w a hm).2.2⟩
  · exact good_of_goodBelow n.chain cfg.W n.floor n.running n.chain.length h.idx.running (Or.inl (Nat.le_refl _))
  · intro w hw hfw hle hne
    rw [h.idx.from_eq] at hne
    have hlt := lt_al_add cfg.W n.chain.length hW
    have hal := al_le cfg.W n.chain.length
    have hcomplete : w + cfg.W ≤ n.chain.length := by
      rcases Nat.lt_or_ge w (al cfg.W n.chain.length) with h' | h'
      · have := aligned_lt cfg.W w _ hw (al_mod cfg.W _) h'; omega
      · have h'' : al cfg.W n.chain.length < w := by omega
        have := aligned_lt cfg.W _ w (al_mod cfg.W _) hw h''; omega
    obtain ⟨a, ha⟩ := h.idx.pers_avail w hw hfw hcomplete
    obtain ⟨h1, _, _, h4⟩ := h.idx.pers_keys w a (lookup_mem _ _ _ ha)
    exact ⟨a, ha, h1, h4⟩

/-! ### store -/

theorem store_inv (cfg : Cfg) (hW : 1 ≤ cfg.W) (n : Node) (blk : Block) (h : Inv cfg n)
    (hblk : ∀ it ∈ blk.items, it ∈ blk.bloom) (hb : n.chain.length + 1 < 2 ^ 64) :
    (store cfg n blk).2 = none ∧ Inv cfg (store cfg n blk).1 := by
  have hidx : IdxInv cfg.W (n.chain ++ [blk]) n.floor (n.chain.length + 1) n.chain.length n.running n.persisted := by
    refine ⟨h.idx.from_eq, goodBelow_append _ _ _ _ _ _ h.idx.running (Nat.le_refl _), ?_, h.idx.pers_avail⟩
    intro w a hm
    obtain ⟨h1, h2, h3, h4⟩ := h.idx.pers_keys w a hm
    exact ⟨h1, h2, by omega, good_append _ _ _ _ _ _ h4 h3⟩
  have hget : (n.chain ++ [blk])[n.chain.length]? = some blk := by simp
  obtain ⟨r', p', hrun, hi', _⟩ := insertRun_step cfg.W hW (n.chain ++ [blk]) n.floor (n.chain.length + 1) n.chain.length
    n.running n.persisted blk hidx (by omega) hget
  unfold store
  simp only [h.live, hrun]
  refine ⟨by first | rfl | trivial, Inv.mk' ?_ ?_ ?_ ?_ ?_ ?_ ?_ h.db.hfloor_le rfl h.db.nocore⟩
  · intro x hx
    simp only [List.mem_append, List.mem_singleton] at hx
    rcases hx with hx | hx
    · exact h.wf x hx
    · subst hx; exact hblk
  · simpa using hb
  · simp
  · rcases h.floor_lt with h' | h'
    · exact Or.inl h'
    · right; show n.floor < (n.chain ++ [blk]).length; simp; omega
  · simpa using hi'
  · intro w a hm
    obtain ⟨h1, h2, h3⟩ := h.cache w a hm
    exact ⟨h1, by simp; omega, good_append _ _ _ _ _ _ h3 h2⟩
  · intro a nx hs
    obtain ⟨h1, h2, h3⟩ := h.snap a nx hs
    exact ⟨by simp; omega, h2, goodBelow_append _ _ _ _ _ _ h3 h1⟩

/-! ### revert -/

/-- What the code before the repairs needs in order to keep the invariant across `RevertHead`;
every conjunct is trivially true once the corresponding repair is in (`fix… = true`). -/
def RevertGuard (cfg : Cfg) (n : Node) : Prop :=
  (cfg.fixCache = true ∨ n.chain.length % cfg.W ≠ 0 ∨ ∀ a, (n.chain.length - cfg.W, a) ∉ n.cache) ∧
  (cfg.fixSnap = true ∨ ∀ a nx, n.snapshot = some (a, nx) → nx < n.chain.length) ∧
  (cfg.fixPersist = true ∨ n.chain.length % cfg.W ≠ 0)

/-- The new head stays at or above the retention floor (the pruner only prunes below the L1 head
minus its retention, and blocks at or below the L1 head are not reorganised). -/
def RevertAboveFloor (n : Node) : Prop := n.floor = 0 ∨ n.floor + 1 < n.chain.length

theorem revertFinish_above (cfg : Cfg) (m : Node) (h1 : m.floor ≤ m.chain.length - 1) (h2 : m.hfloor ≤ m.chain.length - 1) :
    revertFinish cfg m =
      ({ m with chain := m.chain.dropLast,
                snapshot := if cfg.fixSnap then none else m.snapshot,
                cache := if cfg.fixCache then [] else m.cache }, none) := by
  unfold revertFinish
  rw [Nat.min_eq_left h1, Nat.min_eq_left h2]

theorem revert_inv (cfg : Cfg) (hW : 1 ≤ cfg.W) (n : Node) (h : Inv cfg n) (hne : n.chain ≠ [])
    (hg : RevertGuard cfg n) (hfl : RevertAboveFloor n) : (revert cfg n).2 = none ∧ Inv cfg (revert cfg n).1 := by
  obtain ⟨hgc, hgs, hgp⟩ := hg
  have hlen : 1 ≤ n.chain.length := by
    cases hc : n.chain with
    | nil => exact absurd hc hne
    | cons _ _ => simp
  have hbound := h.bound
  have hemp : n.chain.isEmpty = false := by
    cases hc : n.chain with
    | nil => exact absurd hc hne
    | cons _ _ => rfl
  have hflo : ¬ n.chain.length - 1 < n.floor := by
    rcases hfl with h' | h' <;> omega
  have hflo' : n.floor ≤ n.chain.length - 1 := by omega
  have hcur : pred64 n.next = n.chain.length - 1 := by
    rw [h.next_eq]; unfold pred64
    have : (n.chain.length == 0) = false := by simp; omega
    simp [this]
  have hfrom := h.idx.from_eq
  have halm := al_add_mod cfg.W n.chain.length
  have hcross : (pred64 n.next == pred64 n.running.from_) = decide (n.chain.length % cfg.W = 0) := by
    rw [hcur, hfrom]
    unfold pred64
    by_cases hz : al cfg.W n.chain.length = 0
    · simp only [hz, beq_self_eq_true, if_true]
      have h1 : n.chain.length % cfg.W ≠ 0 := by omega
      have h2 : n.chain.length - 1 ≠ 2 ^ 64 - 1 := by omega
      simp [h1, h2]
    · have : (al cfg.W n.chain.length == 0) = false := by simpa using hz
      simp only [this, Bool.false_eq_true, if_false]
      by_cases hm : n.chain.length % cfg.W = 0
      · have : n.chain.length - 1 = al cfg.W n.chain.length - 1 := by omega
        simp [hm, this]
      · have : n.chain.length - 1 ≠ al cfg.W n.chain.length - 1 := by omega
        simp [hm, this]
  have hlenD : n.chain.dropLast.length = n.chain.length - 1 := by simp
  have hfloorD : n.floor = 0 ∨ n.floor < n.chain.dropLast.length := by
    rcases hfl with h' | h'
    · exact Or.inl h'
    · right; rw [hlenD]; omega
  -- the parts of the invariant that do not depend on the branch
  have hsnap : ∀ a nx, (if cfg.fixSnap then none else n.snapshot) = some (a, nx) →
      nx ≤ n.chain.dropLast.length ∧ a.from_ = al cfg.W nx ∧ GoodBelow n.chain.dropLast cfg.W n.floor a nx := by
    intro a nx hs
    cases hf : cfg.fixSnap with
    | true => simp [hf] at hs
    | false =>
      simp only [hf, Bool.false_eq_true, if_false] at hs
      obtain ⟨h1, h2, h3⟩ := h.snap a nx hs
      rcases hgs with hgs | hgs
      · simp [hf] at hgs
      · have := hgs a nx hs
        exact ⟨by omega, h2, goodBelow_dropLast _ _ _ _ _ h3⟩
  have hhf : n.hfloor ≤ n.floor := h.db.hfloor_le
  unfold revert
  simp only [hemp, Bool.false_eq_true, if_false, hflo, h.live, hcross]
  by_cases hm : n.chain.length % cfg.W = 0
  · -- the revert re-opens the previous window
    simp only [hm, decide_true, if_true]
    have hge := ge_of_mod_zero cfg.W _ hm hlen
    have hal : (pred64 n.next) - (pred64 n.next) % cfg.W = n.chain.length - cfg.W := by
      rw [hcur]; exact al_pred_cross cfg.W _ hW hm hlen
    rw [hal]
    have hwm : (n.chain.length - cfg.W) % cfg.W = 0 := by rw [sub_mod_self _ _ hge]; exact hm
    have hfw : al cfg.W n.floor ≤ n.chain.length - cfg.W := by
      have := al_mono cfg.W _ _ hflo'
      rw [al_pred_cross cfg.W _ hW hm hlen] at this; exact this
    obtain ⟨prev, hprev⟩ := h.idx.pers_avail (n.chain.length - cfg.W) hwm hfw (by omega)
    obtain ⟨hp1, _, _, hp4⟩ := h.idx.pers_keys _ _ (lookup_mem _ _ _ hprev)
    simp only [hprev]
    have hin : prev.inRange cfg.W (pred64 n.next) = true := by
      simp only [Agg.inRange, Bool.and_eq_true, decide_eq_true_eq]; rw [hp1, hcur]; omega
    have hclr : prev.clear cfg.W (pred64 n.next) =
        some { prev with cols := prev.cols.filter (fun c => c.1 != pred64 n.next) } := by
      simp [Agg.clear, hin]
    obtain ⟨hcf, hct⟩ := test_clear cfg.W prev _ _ hclr
    simp only [hclr, revertFinish, Nat.min_eq_left hflo', Nat.min_eq_left (show n.hfloor ≤ n.chain.length - 1 by omega)]
    have hfp : cfg.fixPersist = true := by
      rcases hgp with h' | h'
      · exact h'
      · exact absurd hm h'
    simp only [hfp, if_true]
    refine ⟨by first | rfl | trivial, Inv.mk' (chainWF_dropLast _ h.wf) (by simp; omega) (by simp [hcur]) hfloorD ⟨?_, ?_, ?_, ?_⟩ ?_ hsnap hhf rfl h.db.nocore⟩
    · show prev.from_ = al cfg.W n.chain.dropLast.length
      rw [hlenD, al_pred_cross cfg.W _ hW hm hlen, hp1]
    · intro b x h1 h2 hfb h3 hb it hit
      obtain ⟨hb1, hb2⟩ := getElem?_dropLast_some _ _ _ hb
      have h1' : prev.from_ ≤ b := h1
      have h2' : b < prev.from_ + cfg.W := h2
      apply hct b it (by rw [hcur]; omega)
      exact hp4 b x (by omega) (by omega) hfb hb1 it hit
    · intro w a hmem
      rw [mem_del_iff, mem_del_iff] at hmem
      obtain ⟨⟨hmem, _⟩, hw2⟩ := hmem
      obtain ⟨h1, h2, h3, h4⟩ := h.idx.pers_keys w a hmem
      have hw2' : w ≠ n.chain.length - cfg.W := hw2
      refine ⟨h1, h2, ?_, good_dropLast _ _ _ _ _ h4⟩
      rw [hlenD]
      rcases Nat.lt_or_ge w (n.chain.length - cfg.W) with h' | h'
      · have := aligned_lt cfg.W w _ h2 hwm h'; omega
      · omega
    · intro w hw hfw' hle
      rw [hlenD] at hle
      rw [lookup_del _ _ _ (by omega), lookup_del _ _ _ (by rw [hfrom]; have := al_le cfg.W n.chain.length; omega)]
      exact h.idx.pers_avail w hw hfw' (by omega)
    · intro w a hmem
      cases hf : cfg.fixCache with
      | true => simp [hf] at hmem
      | false =>
        simp only [hf, Bool.false_eq_true, if_false] at hmem
        obtain ⟨h1, h2, h3⟩ := h.cache w a hmem
        rcases hgc with hgc | hgc | hgc
        · simp [hf] at hgc
        · exact absurd hm hgc
        · have hw : w ≠ n.chain.length - cfg.W := fun e => hgc a (e ▸ hmem)
          refine ⟨h1, ?_, good_dropLast _ _ _ _ _ h3⟩
          rw [hlenD]
          rcases Nat.lt_or_ge w (n.chain.length - cfg.W) with h' | h'
          · have := aligned_lt cfg.W w _ h1 hwm h'; omega
          · omega
  · -- the head stays in its window
    simp only [hm, decide_false, Bool.false_eq_true, if_false]
    have hin : n.running.inRange cfg.W (pred64 n.next) = true := by
      simp only [Agg.inRange, Bool.and_eq_true, decide_eq_true_eq]; rw [hfrom, hcur]
      have := Nat.mod_lt n.chain.length (show cfg.W > 0 by omega); omega
    have hclr : n.running.clear cfg.W (pred64 n.next) =
        some { n.running with cols := n.running.cols.filter (fun c => c.1 != pred64 n.next) } := by
      simp [Agg.clear, hin]
    obtain ⟨hcf, hct⟩ := test_clear cfg.W n.running _ _ hclr
    simp only [hclr, revertFinish, Nat.min_eq_left hflo', Nat.min_eq_left (show n.hfloor ≤ n.chain.length - 1 by omega)]
    have hcomp : ∀ w, w % cfg.W = 0 → w + cfg.W ≤ n.chain.length → w + cfg.W ≤ n.chain.length - 1 := by
      intro w hw hle
      rcases Nat.lt_or_ge (w + cfg.W) n.chain.length with h' | h'
      · omega
      · exfalso
        have : n.chain.length = w + cfg.W := by omega
        rw [this, Nat.add_mod_right] at hm; exact hm hw
    refine ⟨by first | rfl | trivial, Inv.mk' (chainWF_dropLast _ h.wf) (by simp; omega) (by simp [hcur]) hfloorD ⟨?_, ?_, ?_, ?_⟩ ?_ hsnap hhf rfl h.db.nocore⟩
    · show n.running.from_ = al cfg.W n.chain.dropLast.length
      rw [hlenD, al_pred_same cfg.W _ hW hm, hfrom]
    · intro b x h1 h2 hfb h3 hb it hit
      obtain ⟨hb1, hb2⟩ := getElem?_dropLast_some _ _ _ hb
      apply hct b it (by rw [hcur]; omega)
      exact h.idx.running b x h1 h2 hfb (by omega) hb1 it hit
    · intro w a hmem
      obtain ⟨h1, h2, h3, h4⟩ := h.idx.pers_keys w a hmem
      exact ⟨h1, h2, by rw [hlenD]; exact hcomp w h2 h3, good_dropLast _ _ _ _ _ h4⟩
    · intro w hw hfw' hle
      rw [hlenD] at hle
      exact h.idx.pers_avail w hw hfw' (by omega)
    · intro w a hmem
      cases hf : cfg.fixCache with
      | true => simp [hf] at hmem
      | false =>
        simp only [hf, Bool.false_eq_true, if_false] at hmem
        obtain ⟨h1, h2, h3⟩ := h.cache w a hmem
        exact ⟨h1, by rw [hlenD]; exact hcomp w h1 h2, good_dropLast _ _ _ _ _ h3⟩

/-! ### snapshot write -/

theorem snap_inv (cfg : Cfg) (n : Node) (h : Inv cfg n) : (snap n).2 = none ∧ Inv cfg (snap n).1 := by
  unfold snap
  simp only [h.live]
  refine ⟨by first | rfl | trivial, Inv.mk' h.wf h.bound h.next_eq h.floor_lt h.idx h.cache ?_ h.db.hfloor_le rfl h.db.nocore⟩
  intro a nx hs
  simp only [Option.some.injEq, Prod.mk.injEq] at hs
  obtain ⟨rfl, rfl⟩ := hs
  rw [h.next_eq]
  exact ⟨Nat.le_refl _, h.idx.from_eq, h.idx.running⟩

/-! ### pruning -/

theorem prune_dbinv (cfg : Cfg) (_hW : 1 ≤ cfg.W) (n : Node) (k : Nat) (h : DBInv cfg n) : DBInv cfg (prune cfg n k) := by
  unfold prune
  split
  · exact h
  · rename_i hc
    simp only [Bool.or_eq_true, decide_eq_true_eq, not_or, Nat.not_le] at hc
    obtain ⟨⟨_, hk1⟩, hk2⟩ := hc
    have hmono : n.floor ≤ k := by omega
    have halk : al cfg.W n.floor ≤ al cfg.W k := al_mono _ _ _ hmono
    refine ⟨h.wf, h.bound, Or.inr hk2, ?_, ?_, ?_, ?_, ?_, h.nocore⟩
    · show max n.hfloor (k - blockHashLag) ≤ k
      have := h.hfloor_le
      exact Nat.max_le.mpr ⟨by omega, Nat.sub_le _ _⟩
    · intro w a hm
      obtain ⟨h1, h2, h3, h4⟩ := h.pers_keys w a (List.mem_filter.mp hm).1
      exact ⟨h1, h2, h3, good_floor_mono _ _ _ _ _ _ h4 hmono⟩
    · intro w hw (hfw : al cfg.W k ≤ w) (hle : w + cfg.W ≤ n.chain.length)
      have hq : (fun x : Nat => !decide (x < k - k % cfg.W)) w = true := by
        have h' : k - k % cfg.W ≤ w := hfw
        simp only [Bool.not_eq_true', decide_eq_false_iff_not, Nat.not_lt]
        exact h'
      have := lookup_filter_key n.persisted (fun x => !decide (x < k - k % cfg.W)) w hq
      show ∃ a, (n.persisted.filter (fun x => !decide (x.1 < k - k % cfg.W))).lookup w = some a
      rw [this]
      exact h.pers_avail w hw (by omega) hle
    · intro w a hm
      obtain ⟨h1, h2, h3⟩ := h.cache w a hm
      exact ⟨h1, h2, good_floor_mono _ _ _ _ _ _ h3 hmono⟩
    · intro a nx hs
      obtain ⟨h1, h2, h3⟩ := h.snap a nx hs
      exact ⟨h1, h2, goodBelow_floor_mono _ _ _ _ _ _ h3 hmono⟩

theorem prune_mem (cfg : Cfg) (n : Node) (k : Nat) :
    (prune cfg n k).chain = n.chain ∧ (prune cfg n k).running = n.running ∧ (prune cfg n k).next = n.next ∧
    (prune cfg n k).initErr = n.initErr ∧ (n.floor ≤ (prune cfg n k).floor) := by
  unfold prune; split
  · exact ⟨rfl, rfl, rfl, rfl, Nat.le_refl _⟩
  · rename_i hc
    simp only [Bool.or_eq_true, decide_eq_true_eq, not_or, Nat.not_le] at hc
    exact ⟨rfl, rfl, rfl, rfl, by show n.floor ≤ k; omega⟩

theorem prune_inv (cfg : Cfg) (hW : 1 ≤ cfg.W) (n : Node) (k : Nat) (h : Inv cfg n) : Inv cfg (prune cfg n k) := by
  obtain ⟨e1, e2, e3, e4, e5⟩ := prune_mem cfg n k
  refine ⟨prune_dbinv cfg hW n k h.db, by rw [e4]; exact h.live, by rw [e3, e1]; exact h.next_eq,
    by rw [e2, e1]; exact h.from_eq, ?_⟩
  rw [e1, e2]
  exact goodBelow_floor_mono _ _ _ _ _ _ h.running e5

/-! ### queries only move persisted windows into the cache -/

def CacheFrom (n : Node) (c0 c : WinMap) : Prop :=
  ∀ x, x ∈ c → x ∈ c0 ∨ n.persisted.lookup x.1 = some x.2

theorem cacheFrom_trans (n : Node) (c0 c1 c2 : WinMap) (h1 : CacheFrom n c0 c1) (h2 : CacheFrom n c1 c2) :
    CacheFrom n c0 c2 := by
  intro x hx
  rcases h2 x hx with h | h
  · exact h1 x h
  · exact Or.inr h

theorem loadWindow_cacheFrom (cfg : Cfg) (n : Node) (cache : WinMap) (w : Nat) (a : Agg) (cache' : WinMap)
    (h : loadWindow cfg n cache w = .ok (a, cache')) : CacheFrom n cache cache' := by
  unfold loadWindow at h
  split at h
  · cases h
  · split at h
    · cases h; exact fun x hx => Or.inl hx
    · split at h
      · rename_i a0 hl
        cases h
        intro x hx
        rcases mem_put cache w a x hx with h' | h'
        · subst h'; exact Or.inl (lookup_mem _ _ _ hl)
        · exact Or.inl h'
      · split at h
        · cases h
        · rename_i a0 hp
          split at h
          · cases h
          · cases h
            intro x hx
            rcases mem_lruAdd cfg.cap cache w a x hx with h' | h'
            · subst h'; exact Or.inr hp
            · exact Or.inl h'

theorem scanWindows_cacheFrom (cfg : Cfg) (n : Node) (f : Filter) (chunk limit start to : Nat) (ws : List Nat) :
    ∀ (cache : WinMap) (acc : List Emitted) (skip sc : Nat),
      CacheFrom n cache (scanWindows cfg n f chunk limit start to ws cache acc skip sc).2 := by
  induction ws with
  | nil => intro cache acc skip sc; exact fun x hx => Or.inl hx
  | cons w ws ih =>
    intro cache acc skip sc
    unfold scanWindows
    cases hl : loadWindow cfg n cache w with
    | error e => exact fun x hx => Or.inl hx
    | ok r =>
      obtain ⟨a, cache'⟩ := r
      have h1 := loadWindow_cacheFrom cfg n cache w a cache' hl
      simp only
      cases scanCands f n.chain n.floor chunk limit (windowCands f a (max start w) (min to (w + (cfg.W - 1)))) acc skip sc with
      | cont acc' skip' sc' => exact cacheFrom_trans n _ _ _ h1 (ih cache' acc' skip' sc')
      | stop acc' tok => exact h1
      | fail e => exact h1

theorem canonical_cacheFrom (cfg : Cfg) (n : Node) (f : Filter) (chunk limit s t k : Nat) :
    CacheFrom n n.cache (canonical cfg n f chunk limit s t k).2 := by
  unfold canonical
  split
  · exact fun x hx => Or.inl hx
  · exact scanWindows_cacheFrom cfg n f chunk limit s t _ n.cache [] k 0

theorem events_cacheFrom (cfg : Cfg) (n : Node) (f : Filter) (fromB toB : Nat) (tok : Option Token) (chunk limit : Nat) :
    CacheFrom n n.cache (events cfg n f fromB toB tok chunk limit).2 := by
  rw [events_eq]
  split
  · exact fun x hx => Or.inl hx
  · split
    · exact fun x hx => Or.inl hx
    · split
      · exact canonical_cacheFrom cfg n f chunk limit _ _ _
      · split
        · exact canonical_cacheFrom cfg n f chunk limit _ _ _
        · exact fun x hx => Or.inl hx

theorem query_node (cfg : Cfg) (n : Node) (f : Filter) (fromB toB : Nat) (tok : Option Token) (chunk limit : Nat) :
    (query cfg n f fromB toB tok chunk limit).1 = { n with cache := (events cfg n f fromB toB tok chunk limit).2 } := rfl

theorem query_dbinv (cfg : Cfg) (n : Node) (f : Filter) (fromB toB : Nat) (tok : Option Token) (chunk limit : Nat)
    (h : DBInv cfg n) : DBInv cfg (query cfg n f fromB toB tok chunk limit).1 := by
  refine ⟨h.wf, h.bound, h.floor_lt, h.hfloor_le, h.pers_keys, h.pers_avail, ?_, h.snap, h.nocore⟩
  intro w a hm
  rcases events_cacheFrom cfg n f fromB toB tok chunk limit (w, a) hm with h' | h'
  · exact h.cache w a h'
  · obtain ⟨_, h2, h3, h4⟩ := h.pers_keys w a (lookup_mem _ _ _ h')
    exact ⟨h2, h3, h4⟩

theorem query_inv (cfg : Cfg) (n : Node) (f : Filter) (fromB toB : Nat) (tok : Option Token) (chunk limit : Nat)
    (h : Inv cfg n) : Inv cfg (query cfg n f fromB toB tok chunk limit).1 :=
  ⟨query_dbinv cfg n f fromB toB tok chunk limit h.db, h.live, h.next_eq, h.from_eq, h.running⟩

/-! ### restart -/

theorem findAnchor_some (W : Nat) (p : WinMap) (kmin : Nat) : ∀ (k w : Nat), findAnchor W p kmin k = some w →
    ∃ j, j ≤ k ∧ w = j * W ∧ (p.lookup w).isSome = true ∧ (kmin ≤ k → kmin ≤ j) ∧
      ∀ j', j < j' → j' ≤ k → p.lookup (j' * W) = none := by
  intro k
  induction k with
  | zero =>
    intro w h
    unfold findAnchor at h
    split at h
    · rename_i hs
      cases h
      exact ⟨0, Nat.le_refl _, by simp, hs, fun h => h, fun j' h1 h2 => by omega⟩
    · cases h
  | succ k ih =>
    intro w h
    unfold findAnchor at h
    split at h
    · rename_i hs
      cases h
      exact ⟨k + 1, Nat.le_refl _, rfl, hs, fun h => h, fun j' h1 h2 => by omega⟩
    · rename_i hs
      split at h
      · cases h
      · rename_i hk
        obtain ⟨j, h1, h2, h3, h5, h4⟩ := ih w h
        refine ⟨j, by omega, h2, h3, fun _ => h5 (by omega), ?_⟩
        intro j' hj1 hj2
        by_cases hj : j' = k + 1
        · subst hj
          cases hl : p.lookup ((k + 1) * W) with
          | none => rfl
          | some a => simp [hl] at hs
        · exact h4 j' hj1 (by omega)

theorem findAnchor_none (W : Nat) (p : WinMap) (kmin : Nat) : ∀ (k : Nat), findAnchor W p kmin k = none →
    ∀ j', j' ≤ k → kmin ≤ j' → p.lookup (j' * W) = none := by
  intro k
  induction k with
  | zero =>
    intro h j' hj _
    unfold findAnchor at h
    split at h
    · cases h
    · rename_i hs
      have : j' = 0 := by omega
      subst this
      cases hl : p.lookup (0 * W) with
      | none => rfl
      | some a => simp at hl; simp [hl] at hs
  | succ k ih =>
    intro h j' hj hkm
    unfold findAnchor at h
    split at h
    · cases h
    · rename_i hs
      have hnone : p.lookup ((k + 1) * W) = none := by
        cases hl : p.lookup ((k + 1) * W) with
        | none => rfl
        | some a => simp [hl] at hs
      split at h
      · rename_i hk
        have : j' = k + 1 := by omega
        subst this; exact hnone
      · by_cases hj2 : j' = k + 1
        · subst hj2; exact hnone
        · exact ih h j' (by omega) hkm

theorem rebuild_cont (W : Nat) (hW : 1 ≤ W) (p : WinMap) (floor len : Nat) (hlen : 1 ≤ len) (hfl : floor ≤ len - 1)
    (hk : ∀ w a, (w, a) ∈ p → w % W = 0 ∧ w + W ≤ len)
    (ha : ∀ w, w % W = 0 → al W floor ≤ w → w + W ≤ len → ∃ a, p.lookup w = some a) :
    windowStart W floor (findAnchor W p (floor / W) ((len - 1) / W)) = al W len ∧
    floor ≤ continueFrom W floor (findAnchor W p (floor / W) ((len - 1) / W)) ∧
    continueFrom W floor (findAnchor W p (floor / W) ((len - 1) / W)) ≤ len ∧
    al W (continueFrom W floor (findAnchor W p (floor / W) ((len - 1) / W))) = al W len ∧
    (continueFrom W floor (findAnchor W p (floor / W) ((len - 1) / W)) = al W len ∨
      continueFrom W floor (findAnchor W p (floor / W) ((len - 1) / W)) = floor) := by
  have hkmin : floor / W ≤ (len - 1) / W := Nat.div_le_div_right hfl
  have hall := al_le W len
  have hltl := lt_al_add W len hW
  cases hf : findAnchor W p (floor / W) ((len - 1) / W) with
  | none =>
    simp only [continueFrom, windowStart]
    have hno := findAnchor_none W p _ _ hf
    have hmono : al W floor ≤ al W len := al_mono W _ _ (by omega)
    have heq : al W floor = al W len := by
      rcases Nat.lt_or_ge (al W floor) (al W len) with h | h
      · exfalso
        have hge := aligned_lt W _ _ (al_mod W floor) (al_mod W len) h
        -- the window just below the head's window is complete and at or above the floor's
        have hwm : (al W len - W) % W = 0 := by rw [sub_mod_self _ _ (by omega)]; exact al_mod W len
        obtain ⟨a, ha'⟩ := ha (al W len - W) hwm (by omega) (by omega)
        have hj : al W len - W = (len / W - 1) * W := by
          rw [Nat.sub_mul, ← al_eq_div_mul]; simp
        have hq : 1 ≤ len / W := by
          have := al_eq_div_mul W len
          rcases Nat.eq_zero_or_pos (len / W) with h0 | h0
          · rw [h0] at this; simp at this; omega
          · exact h0
        have h1 : len / W - 1 ≤ (len - 1) / W := by
          rw [Nat.le_div_iff_mul_le (by omega), ← hj]; omega
        have h2 : floor / W ≤ len / W - 1 := by
          have e := al_eq_div_mul W floor
          have : floor / W * W ≤ (len / W - 1) * W := by rw [← e, ← hj]; omega
          exact Nat.le_of_mul_le_mul_right this (by omega)
        have := hno (len / W - 1) h1 h2
        rw [← hj, ha'] at this; cases this
      · omega
    have hfl2 : floor < al W floor + W := lt_al_add W floor hW
    refine ⟨heq, Nat.le_refl _, by omega, heq, Or.inr (by first | rfl | trivial)⟩
  | some w =>
    simp only [continueFrom, windowStart]
    obtain ⟨j, hj, hw, hs, hjm, hno⟩ := findAnchor_some W p _ _ w hf
    obtain ⟨a, hla⟩ : ∃ a, p.lookup w = some a := by
      cases hl : p.lookup w with
      | none => simp [hl] at hs
      | some a => exact ⟨a, rfl⟩
    obtain ⟨hw0, hwl⟩ := hk w a (lookup_mem _ _ _ hla)
    have hwfl : al W floor ≤ w := by
      have := hjm hkmin
      rw [al_eq_div_mul, hw]; exact Nat.mul_le_mul_right _ this
    have hal : al W len = w + W := by
      apply al_unique W (w + W) len (by rw [Nat.add_mod_right]; exact hw0) hwl
      rcases Nat.lt_or_ge len (w + W + W) with h | h
      · exact h
      · exfalso
        have hj1 : j + 1 ≤ (len - 1) / W := by
          rw [Nat.le_div_iff_mul_le (by omega), Nat.succ_mul, ← hw]; omega
        have hnone := hno (j + 1) (by omega) hj1
        rw [Nat.succ_mul, ← hw] at hnone
        obtain ⟨a', ha'⟩ := ha (w + W) (by rw [Nat.add_mod_right]; exact hw0) (by omega) h
        rw [hnone] at ha'; cases ha'
    have hfl2 : floor < al W floor + W := lt_al_add W floor hW
    refine ⟨hal.symm, by omega, hwl, ?_, Or.inl hal.symm⟩
    rw [hal]; exact al_eq_self W _ (by rw [Nat.add_mod_right]; exact hw0)

/-- The initialiser, stopped after `k` blocks of its fill (`k > length`: not stopped), on every
state whose DATABASE part satisfies the invariant: it does not fail, the filter it has built so far
and the windows it has written satisfy the index invariant up to the block it reached, and no
persisted window was lost. -/
theorem initUpTo_spec (cfg : Cfg) (hW : 1 ≤ cfg.W) (n : Node) (h : DBInv cfg n) (k : Nat) :
    ∃ r j p, initRunningUpTo cfg n k = .ok (r, j, p) ∧ j ≤ n.chain.length ∧ (n.chain.length < k → j = n.chain.length) ∧
      IdxInv cfg.W n.chain n.floor n.chain.length j r p ∧
      (∀ w, (n.persisted.lookup w).isSome = true → (p.lookup w).isSome = true) := by
  have hef := effFloor_eq h
  unfold initRunningUpTo
  split
  · rename_i h0
    refine ⟨Agg.fresh 0, 0, n.persisted, rfl, Nat.zero_le _, fun _ => h0.symm, ?_, fun _ h => h⟩
    refine ⟨by simp [Agg.fresh, al], ?_, h.pers_keys, fun w hw hfw hle => h.pers_avail w hw hfw (by omega)⟩
    intro b _ _ _ _ h3 _ _ _; omega
  · rename_i latest hl
    have hflo : n.floor ≤ latest := by
      rcases h.floor_lt with h' | h' <;> omega
    have hhf := h.hfloor_le
    have hreb : ∃ r j p, rebuild cfg n latest k = .ok (r, j, p) ∧ j ≤ n.chain.length ∧ (n.chain.length < k → j = n.chain.length) ∧
        IdxInv cfg.W n.chain n.floor n.chain.length j r p ∧
        (∀ w, (n.persisted.lookup w).isSome = true → (p.lookup w).isSome = true) := by
      unfold rebuild
      dsimp only
      rw [hef]
      have hc := rebuild_cont cfg.W hW n.persisted n.floor n.chain.length (by omega) (by omega)
        (fun w a hm => let ⟨_, h2, h3, _⟩ := h.pers_keys w a hm; ⟨h2, h3⟩) h.pers_avail
      have e : (n.chain.length - 1) / cfg.W = latest / cfg.W := by rw [hl]; simp
      rw [e] at hc
      obtain ⟨hws, hc1, hc2, hc3, hc4⟩ := hc
      generalize continueFrom cfg.W n.floor (findAnchor cfg.W n.persisted (n.floor / cfg.W) (latest / cfg.W)) = cont at *
      simp only [hws]
      rw [take_range']
      have hmle : cont + min k (latest + 1 - cont) ≤ n.chain.length := by
        have := Nat.min_le_right k (latest + 1 - cont); omega
      obtain ⟨r', p', h1, h2, h3⟩ := fill_spec cfg.W hW n.chain n.floor n.hfloor n.chain.length (Nat.le_refl _)
        (min k (latest + 1 - cont)) cont (Agg.fresh (al cfg.W n.chain.length)) cont n.persisted hmle (by omega)
        ⟨by simp [Agg.fresh, hc3],
         (by
          intro b _ g1 _ hfb g3 _ _ _
          simp only [Agg.fresh] at g1
          rcases hc4 with h' | h' <;> omega),
         h.pers_keys,
         (fun w hw hfw hle' => h.pers_avail w hw hfw (by omega))⟩
        rfl
      refine ⟨r', _, p', h1, hmle, ?_, h2, h3⟩
      intro hk
      have : min k (latest + 1 - cont) = latest + 1 - cont := Nat.min_eq_right (by omega)
      rw [this]; omega
    cases hs : n.snapshot with
    | none => simpa using hreb
    | some sn =>
      obtain ⟨inner, nx⟩ := sn
      obtain ⟨h1, h2, h3⟩ := h.snap inner nx hs
      simp only
      by_cases hc1 : nx = latest + 1
      · have : (nx == latest + 1) = true := by simpa using hc1
        simp only [this, if_true]
        have hnx : nx = n.chain.length := by omega
        refine ⟨inner, nx, n.persisted, rfl, by omega, fun _ => hnx, ?_, fun _ h => h⟩
        rw [hnx]
        exact ⟨by rw [h2, hnx], by rw [← hnx]; exact h3, h.pers_keys, h.pers_avail⟩
      · have : (nx == latest + 1) = false := by simpa using hc1
        simp only [this, Bool.false_eq_true, if_false]
        by_cases hc2 : (decide (nx ≤ latest) && decide (latest ≤ inner.from_ + (cfg.W - 1))) = true
        · simp only [hc2, if_true]
          simp only [Bool.and_eq_true, decide_eq_true_eq] at hc2
          rw [hef]
          have hj : al cfg.W (max nx n.floor) = al cfg.W nx := by
            rcases Nat.le_total n.floor nx with h' | h'
            · rw [Nat.max_eq_left h']
            · rw [Nat.max_eq_right h']
              have := al_le cfg.W nx
              apply al_unique cfg.W _ _ (al_mod cfg.W nx) (by omega)
              rw [← h2]; omega
          have hmx : max nx n.floor ≤ latest := Nat.max_le.mpr ⟨hc2.1, hflo⟩
          rw [take_range']
          have hmle : max nx n.floor + min k (latest + 1 - max nx n.floor) ≤ n.chain.length := by
            have := Nat.min_le_right k (latest + 1 - max nx n.floor); omega
          obtain ⟨r', p', g1, g2, g3⟩ := fill_spec cfg.W hW n.chain n.floor n.hfloor n.chain.length (Nat.le_refl _)
            (min k (latest + 1 - max nx n.floor)) (max nx n.floor) inner (max nx n.floor) n.persisted hmle
            (by have := Nat.le_max_right nx n.floor; omega)
            ⟨by rw [h2, hj],
             (by
              intro b x q1 q2 qf q3 qb it hit
              rcases Nat.lt_or_ge b nx with g | g
              · exact h3 b x q1 q2 qf g qb it hit
              · exfalso
                rcases Nat.le_total n.floor nx with h' | h'
                · rw [Nat.max_eq_left h'] at q3; omega
                · rw [Nat.max_eq_right h'] at q3; omega),
             h.pers_keys,
             (fun w hw hfw hle' => h.pers_avail w hw hfw (by omega))⟩
            rfl
          refine ⟨r', _, p', g1, hmle, ?_, g2, g3⟩
          intro hk
          have : min k (latest + 1 - max nx n.floor) = latest + 1 - max nx n.floor := Nat.min_eq_right (by omega)
          rw [this]; omega
        · simp only [hc2, Bool.false_eq_true, if_false]
          exact hreb

theorem initRunning_spec (cfg : Cfg) (hW : 1 ≤ cfg.W) (n : Node) (h : DBInv cfg n) :
    ∃ r p, initRunning cfg n = .ok (r, n.chain.length, p) ∧
      IdxInv cfg.W n.chain n.floor n.chain.length n.chain.length r p := by
  obtain ⟨r, j, p, h1, _, h3, h4, _⟩ := initUpTo_spec cfg hW n h (n.chain.length + 1)
  have hj := h3 (by omega)
  subst hj
  exact ⟨r, p, h1, h4⟩

/-- Whatever the in-memory state was, after a (re-)initialisation from a sound database the full
invariant holds. `c` is the cache that is kept (`reinit`) or emptied (`restart`). -/
theorem init_inv (cfg : Cfg) (n : Node) (h : DBInv cfg n) (r : Agg) (p c : WinMap)
    (hidx : IdxInv cfg.W n.chain n.floor n.chain.length n.chain.length r p)
    (hc : ∀ w a, (w, a) ∈ c → (w, a) ∈ n.cache) :
    Inv cfg { n with running := r, next := n.chain.length, persisted := p, cache := c, initErr := none } :=
  Inv.mk' h.wf h.bound rfl h.floor_lt hidx (fun w a hm => h.cache w a (hc w a hm)) h.snap h.hfloor_le rfl h.nocore

theorem restart_inv' (cfg : Cfg) (hW : 1 ≤ cfg.W) (n : Node) (h : DBInv cfg n) :
    (restart cfg n).2 = none ∧ Inv cfg (restart cfg n).1 := by
  obtain ⟨r, p, hinit, hidx⟩ := initRunning_spec cfg hW n h
  unfold restart
  simp only [hinit]
  exact ⟨by first | rfl | trivial, init_inv cfg n h r p [] hidx (fun w a hm => by simp at hm)⟩

theorem restart_inv (cfg : Cfg) (hW : 1 ≤ cfg.W) (n : Node) (h : Inv cfg n) :
    (restart cfg n).2 = none ∧ Inv cfg (restart cfg n).1 := restart_inv' cfg hW n h.db

/-- A reset of the in-memory filter (after a failed write) re-establishes the invariant from the
database alone. -/
theorem reinit_inv' (cfg : Cfg) (hW : 1 ≤ cfg.W) (n : Node) (h : DBInv cfg n) : Inv cfg (reinit cfg n) := by
  obtain ⟨r, p, hinit, hidx⟩ := initRunning_spec cfg hW n h
  unfold reinit
  simp only [hinit]
  exact init_inv cfg n h r p n.cache hidx (fun _ _ hm => hm)

theorem reinit_inv (cfg : Cfg) (hW : 1 ≤ cfg.W) (n : Node) (h : Inv cfg n) : Inv cfg (reinit cfg n) :=
  reinit_inv' cfg hW n h.db

/-- A crash inside the initialiser (after any number `k` of fill steps, with whatever windows it
had written by then) leaves a database from which a clean restart recovers. -/
theorem crash_in_init_dbinv (cfg : Cfg) (hW : 1 ≤ cfg.W) (n : Node) (h : DBInv cfg n) (k : Nat) (r : Agg) (j : Nat) (p : WinMap)
    (hk : initRunningUpTo cfg n k = .ok (r, j, p)) : DBInv cfg { n with persisted := p } := by
  obtain ⟨r', j', p', h1, _, _, h4, h5⟩ := initUpTo_spec cfg hW n h k
  rw [hk] at h1
  cases h1
  refine ⟨h.wf, h.bound, h.floor_lt, h.hfloor_le, h4.pers_keys, ?_, h.cache, h.snap, h.nocore⟩
  intro w hw hfw hle
  obtain ⟨a, ha⟩ := h.pers_avail w hw hfw hle
  have := h5 w (by rw [ha]; rfl)
  cases hp : p.lookup w with
  | none => rw [hp] at this; cases this
  | some a' => exact ⟨a', rfl⟩

/-! ### Histories, faults included -/

/-- What a step needs: stored blocks carry a header bloom covering their events and heights fit
`uint64`; a revert keeps the head at or above the retention floor and (for the code before the
repairs only) satisfies `RevertGuard`. Failed commits, failed initialisations and crashes inside
the initialiser need nothing. -/
def StepOK (cfg : Cfg) (n : Node) : Op → Prop
  | .store blk => (∀ it ∈ blk.items, it ∈ blk.bloom) ∧ n.chain.length + 1 < 2 ^ 64
  | .revert => RevertGuard cfg n ∧ RevertAboveFloor n
  | _ => True

def HistOK (cfg : Cfg) : Node → List Op → Prop
  | _, [] => True
  | n, op :: ops => StepOK cfg n op ∧ HistOK cfg (step cfg n op) ops

/-- The invariant of histories with faults: the database part always; the full invariant whenever
the running filter is initialised (no remembered initialisation error). -/
def Weak (cfg : Cfg) (n : Node) : Prop := DBInv cfg n ∧ (n.initErr = none → Inv cfg n)

theorem weak_of_inv {cfg : Cfg} {n : Node} (h : Inv cfg n) : Weak cfg n := ⟨h.db, fun _ => h⟩

/-- The step on a node whose initialisation state is settled (what `step` does after `wake`). -/
def stepR (cfg : Cfg) (n : Node) : Op → Node
  | .store blk => (store cfg n blk).1
  | .revert => (revert cfg n).1
  | .snap => (snap n).1
  | .query f a b t c l => (query cfg n f a b t c l).1
  | op => step cfg n op

theorem reinit_fields (cfg : Cfg) (n : Node) :
    (reinit cfg n).chain = n.chain ∧ (reinit cfg n).floor = n.floor ∧ (reinit cfg n).hfloor = n.hfloor ∧
    (reinit cfg n).cache = n.cache ∧ (reinit cfg n).snapshot = n.snapshot ∧ (reinit cfg n).coreInit = n.coreInit := by
  unfold reinit
  split <;> exact ⟨rfl, rfl, rfl, rfl, rfl, rfl⟩

theorem wake_fields (cfg : Cfg) (n : Node) :
    (wake cfg n).chain = n.chain ∧ (wake cfg n).floor = n.floor ∧ (wake cfg n).hfloor = n.hfloor ∧
    (wake cfg n).cache = n.cache ∧ (wake cfg n).snapshot = n.snapshot ∧ (wake cfg n).coreInit = n.coreInit := by
  unfold wake
  split
  · exact ⟨rfl, rfl, rfl, rfl, rfl, rfl⟩
  · split
    · exact reinit_fields cfg n
    · exact ⟨rfl, rfl, rfl, rfl, rfl, rfl⟩

theorem wake_weak (cfg : Cfg) (hW : 1 ≤ cfg.W) (n : Node) (h : Weak cfg n) : Weak cfg (wake cfg n) := by
  unfold wake
  split
  · exact h
  · split
    · exact weak_of_inv (reinit_inv' cfg hW n h.1)
    · exact h

/-- With the repair c8ac4a7 the filter is initialised after `wake` whenever the database is sound. -/
theorem wake_inv (cfg : Cfg) (hW : 1 ≤ cfg.W) (hfix : cfg.fixInit = true) (n : Node) (h : Weak cfg n) :
    Inv cfg (wake cfg n) := by
  unfold wake
  split
  · rename_i hn; exact h.2 hn
  · simp only [hfix, if_true]; exact reinit_inv' cfg hW n h.1

theorem wake_stepOK (cfg : Cfg) (n : Node) (op : Op) (hok : StepOK cfg n op) : StepOK cfg (wake cfg n) op := by
  obtain ⟨h1, h2, _, h4, h5, _⟩ := wake_fields cfg n
  cases op <;> try trivial
  · exact ⟨hok.1, by rw [h1]; exact hok.2⟩
  · refine ⟨?_, ?_⟩
    · unfold RevertGuard at *; rw [h1, h4, h5]; exact hok.1
    · unfold RevertAboveFloor at *; rw [h1, h2]; exact hok.2

theorem step_eq_stepR (cfg : Cfg) (n : Node) (op : Op) :
    step cfg n op = stepR cfg (wake cfg n) op ∨ step cfg n op = stepR cfg n op := by
  cases op <;> first | (left; rfl) | (right; rfl)

theorem stepR_weak (cfg : Cfg) (hW : 1 ≤ cfg.W) (n : Node) (op : Op) (h : Weak cfg n) (hok : StepOK cfg n op) :
    Weak cfg (stepR cfg n op) := by
  obtain ⟨hdb, hinv⟩ := h
  cases hi : n.initErr with
  | none =>
    have h := hinv hi
    cases op with
    | store blk => exact weak_of_inv (store_inv cfg hW n blk h hok.1 hok.2).2
    | revert =>
      by_cases hne : n.chain = []
      · have : (revert cfg n).1 = reinit cfg n := by simp [revert, hne]
        simp only [stepR, this]; exact weak_of_inv (reinit_inv cfg hW n h)
      · exact weak_of_inv (revert_inv cfg hW n h hne hok.1 hok.2).2
    | snap => exact weak_of_inv (snap_inv cfg n h).2
    | restart => exact weak_of_inv (restart_inv cfg hW n h).2
    | query f a b t c l => exact weak_of_inv (query_inv cfg n f a b t c l h)
    | prune k => exact weak_of_inv (prune_inv cfg hW n k h)
    | storeFail blk => exact weak_of_inv (reinit_inv cfg hW n h)
    | revertFail => exact weak_of_inv (reinit_inv cfg hW n h)
    | restartFault =>
      refine ⟨⟨hdb.wf, hdb.bound, hdb.floor_lt, hdb.hfloor_le, hdb.pers_keys, hdb.pers_avail, ?_, hdb.snap, hdb.nocore⟩, ?_⟩
      · intro w a hm; simp [stepR, step] at hm
      · intro hn; simp [stepR, step] at hn
    | restartCrash k =>
      simp only [stepR, step]
      split
      · rename_i r j p hk
        exact weak_of_inv (restart_inv' cfg hW _ (crash_in_init_dbinv cfg hW n hdb k r j p hk)).2
      · exact weak_of_inv (restart_inv cfg hW n h).2
  | some e =>
    cases op with
    | store blk =>
      have : (store cfg n blk).1 = reinit cfg n := by simp [store, hi]
      simp only [stepR, this]; exact weak_of_inv (reinit_inv' cfg hW n hdb)
    | revert =>
      have : (revert cfg n).1 = reinit cfg n := by
        unfold revert; simp only [hi]; split <;> (try rfl); split <;> rfl
      simp only [stepR, this]; exact weak_of_inv (reinit_inv' cfg hW n hdb)
    | snap =>
      have : (snap n).1 = n := by simp [snap, hi]
      simp only [stepR, this]; exact ⟨hdb, fun hn => by rw [hi] at hn; cases hn⟩
    | restart => exact weak_of_inv (restart_inv' cfg hW n hdb).2
    | query f a b t c l =>
      refine ⟨query_dbinv cfg n f a b t c l hdb, fun hn => ?_⟩
      have : (query cfg n f a b t c l).1.initErr = n.initErr := rfl
      simp only [stepR, step] at hn; rw [this, hi] at hn; cases hn
    | prune k =>
      refine ⟨prune_dbinv cfg hW n k hdb, fun hn => ?_⟩
      simp only [stepR, step] at hn; rw [(prune_mem cfg n k).2.2.2.1, hi] at hn; cases hn
    | storeFail blk => exact weak_of_inv (reinit_inv' cfg hW n hdb)
    | revertFail => exact weak_of_inv (reinit_inv' cfg hW n hdb)
    | restartFault =>
      refine ⟨⟨hdb.wf, hdb.bound, hdb.floor_lt, hdb.hfloor_le, hdb.pers_keys, hdb.pers_avail, ?_, hdb.snap, hdb.nocore⟩, ?_⟩
      · intro w a hm; simp [stepR, step] at hm
      · intro hn; simp [stepR, step] at hn
    | restartCrash k =>
      simp only [stepR, step]
      split
      · rename_i r j p hk
        exact weak_of_inv (restart_inv' cfg hW _ (crash_in_init_dbinv cfg hW n hdb k r j p hk)).2
      · exact weak_of_inv (restart_inv' cfg hW n hdb).2

theorem step_weak (cfg : Cfg) (hW : 1 ≤ cfg.W) (n : Node) (op : Op) (h : Weak cfg n) (hok : StepOK cfg n op) :
    Weak cfg (step cfg n op) := by
  rcases step_eq_stepR cfg n op with he | he <;> rw [he]
  · exact stepR_weak cfg hW _ op (wake_weak cfg hW n h) (wake_stepOK cfg n op hok)
  · exact stepR_weak cfg hW n op h hok

theorem run_weak (cfg : Cfg) (hW : 1 ≤ cfg.W) (ops : List Op) : ∀ (n : Node), Weak cfg n → HistOK cfg n ops →
    Weak cfg (run cfg n ops) := by
  induction ops with
  | nil => intro n h _; exact h
  | cons op ops ih =>
    intro n h hok
    exact ih (step cfg n op) (step_weak cfg hW n op h hok.1) hok.2

/-- No operation fails on a node that satisfies the full invariant. -/
theorem step_no_error (cfg : Cfg) (hW : 1 ≤ cfg.W) (n : Node) (h : Inv cfg n) :
    (∀ blk, StepOK cfg n (.store blk) → (store cfg n blk).2 = none) ∧
    (n.chain ≠ [] → StepOK cfg n .revert → (revert cfg n).2 = none) ∧
    (restart cfg n).2 = none ∧ (snap n).2 = none :=
  ⟨fun blk hok => (store_inv cfg hW n blk h hok.1 hok.2).1,
   fun hne hok => (revert_inv cfg hW n h hne hok.1 hok.2).1,
   (restart_inv cfg hW n h).1, (snap_inv cfg n h).1⟩

end Juno.C09
