import JunoModel.C09.ProofsPre
/-! C09 — helper lemmas, part 6: a page never contains anything but matching events of the range,
in chain order — for every state of the index, every cache content, every (also forged) token. -/
namespace Juno.C09

theorem filter_flatMap_sublist {α β : Type} (l : List α) (c : α → Bool) (g : α → List β) :
    ((l.filter c).flatMap g).Sublist (l.flatMap g) := by
  induction l with
  | nil => simp
  | cons x xs ih =>
    by_cases h : c x = true
    · rw [List.filter_cons_of_pos h, List.flatMap_cons, List.flatMap_cons]
      exact List.Sublist.append (List.Sublist.refl _) ih
    · rw [List.filter_cons_of_neg h, List.flatMap_cons]
      exact List.Sublist.trans ih (List.sublist_append_right _ _)

theorem scanGo_sublist (f : Filter) (skip chunk : Nat) (l : List Emitted) (acc : List Emitted) :
    ∃ X, (scanGo f skip chunk l 0 acc).1 = acc ++ X ∧ X.Sublist (sel f l) := by
  obtain ⟨X, hX, _, hsel, _⟩ := scanGo_gen f skip chunk l 0 acc
  refine ⟨X, hX, ?_⟩
  have h1 : X.Sublist (sel f (l.drop (skip - 0))) := by
    rw [← hsel]; exact List.sublist_append_left _ _
  exact List.Sublist.trans h1 ((List.drop_sublist _ l).filter _)

def StepSound (f : Filter) (chain : List Block) (acc : List Emitted) (bs : List Nat) : Step → Prop
  | .cont acc' _ _ => ∃ Y, acc' = acc ++ Y ∧ Y.Sublist (bs.flatMap (blkSel f chain))
  | .stop acc' _ => ∃ Y, acc' = acc ++ Y ∧ Y.Sublist (bs.flatMap (blkSel f chain))
  | .fail _ => True

theorem scanCands_sound (f : Filter) (chain : List Block) (floor chunk limit : Nat) (bs : List Nat) :
    ∀ (acc : List Emitted) (skip sc : Nat),
      StepSound f chain acc bs (scanCands f chain floor chunk limit bs acc skip sc) := by
  induction bs with
  | nil => intro acc skip sc; exact ⟨[], by simp, by simp⟩
  | cons b bs ih =>
    intro acc skip sc
    unfold scanCands
    by_cases hlim : (decide (limit > 0) && decide ((if limit > 0 then sc + 1 else sc) > limit)) = true
    · simp only [hlim, if_true]
      exact ⟨[], by simp, by simp⟩
    · simp only [hlim, Bool.false_eq_true, if_false]
      by_cases hfl : b < floor
      · simp only [hfl, if_true]; trivial
      · simp only [hfl, if_false]
        cases hb : chain[b]? with
        | none => trivial
        | some blk =>
          simp only
          obtain ⟨X, hX, hXs⟩ := scanGo_sublist f skip chunk (blockRaw b blk) acc
          have hbS : blkSel f chain b = sel f (blockRaw b blk) := by simp [blkSel, hb]
          cases hr : scanGo f skip chunk (blockRaw b blk) 0 acc with
          | mk acc' r2 =>
            cases r2 with
            | mk p full =>
              rw [hr] at hX
              simp only at hX
              cases full with
              | true =>
                refine ⟨X, hX, ?_⟩
                rw [List.flatMap_cons, hbS]
                exact List.Sublist.trans hXs (List.sublist_append_left _ _)
              | false =>
                simp only
                have := ih acc' 0 (if limit > 0 then sc + 1 else sc)
                revert this
                cases scanCands f chain floor chunk limit bs acc' 0 (if limit > 0 then sc + 1 else sc) with
                | cont a s c =>
                  rintro ⟨Y, hY, hYs⟩
                  refine ⟨X ++ Y, by rw [hY, hX]; simp, ?_⟩
                  rw [List.flatMap_cons, hbS]
                  exact List.Sublist.append hXs hYs
                | stop a t =>
                  rintro ⟨Y, hY, hYs⟩
                  refine ⟨X ++ Y, by rw [hY, hX]; simp, ?_⟩
                  rw [List.flatMap_cons, hbS]
                  exact List.Sublist.append hXs hYs
                | fail e => intro _; trivial

def ResSound (f : Filter) (chain : List Block) (acc : List Emitted) (lo to : Nat) : PageRes → Prop
  | .ok acc' _ => ∃ Y, acc' = acc ++ Y ∧ Y.Sublist (naive f chain lo to)
  | .err _ => True

theorem naive_split (f : Filter) (chain : List Block) (lo hi to : Nat) (h1 : lo ≤ hi + 1) (h2 : hi ≤ to) :
    naive f chain lo to = naive f chain lo hi ++ naive f chain (hi + 1) to := by
  simp only [naive_eq]
  rw [← List.flatMap_append]
  congr 1
  have := List.range'_append (s := lo) (m := hi + 1 - lo) (n := to + 1 - (hi + 1)) (step := 1)
  have e1 : lo + 1 * (hi + 1 - lo) = hi + 1 := by omega
  have e2 : hi + 1 - lo + (to + 1 - (hi + 1)) = to + 1 - lo := by omega
  rw [e1, e2] at this
  exact this.symm

theorem scanWindows_sound (cfg : Cfg) (n : Node) (f : Filter) (chunk limit start to : Nat) (hW : 1 ≤ cfg.W) (k : Nat) :
    ∀ (w lo : Nat) (cache : WinMap) (acc : List Emitted) (skip sc : Nat),
      lo ≤ to + 1 →
      (1 ≤ k → lo ≤ to ∧ max start w = lo ∧ lo < w + cfg.W ∧ w + k * cfg.W ≤ to + cfg.W ∧ to < w + k * cfg.W) →
      ResSound f n.chain acc lo to
        (scanWindows cfg n f chunk limit start to ((List.range k).map (fun i => w + i * cfg.W)) cache acc skip sc).1 := by
  induction k with
  | zero =>
    intro w lo cache acc skip sc _ _
    simp only [List.range_zero, List.map_nil, scanWindows]
    exact ⟨[], by simp, by simp⟩
  | succ k ih =>
    intro w lo cache acc skip sc hlo1 h1
    obtain ⟨hlo, hmax, hlow, hk1, hk2⟩ := h1 (by omega)
    rw [Nat.succ_mul] at hk1 hk2
    rw [windows_succ']
    unfold scanWindows
    cases hl : loadWindow cfg n cache w with
    | error e => trivial
    | ok r =>
      obtain ⟨a, cache'⟩ := r
      simp only [hmax]
      have hhito : min to (w + (cfg.W - 1)) ≤ to := Nat.min_le_left _ _
      have hhiw : min to (w + (cfg.W - 1)) ≤ w + (cfg.W - 1) := Nat.min_le_right _ _
      have hhi : lo ≤ min to (w + (cfg.W - 1)) := by simp only [Nat.le_min]; omega
      generalize hhidef : min to (w + (cfg.W - 1)) = hi at hhi hhito hhiw
      have hsplit := naive_split f n.chain lo hi to (by omega) hhito
      have hc := scanCands_sound f n.chain n.floor chunk limit (windowCands f a lo hi) acc skip sc
      have hsub : ((windowCands f a lo hi).flatMap (blkSel f n.chain)).Sublist (naive f n.chain lo hi) := by
        rw [naive_eq]; exact filter_flatMap_sublist _ _ _
      revert hc
      cases scanCands f n.chain n.floor chunk limit (windowCands f a lo hi) acc skip sc with
      | fail e => intro _; trivial
      | stop acc' tok =>
        rintro ⟨Y, hY, hYs⟩
        refine ⟨Y, hY, ?_⟩
        rw [hsplit]
        exact List.Sublist.trans (List.Sublist.trans hYs hsub) (List.sublist_append_left _ _)
      | cont acc' skip' sc' =>
        rintro ⟨Y, hY, hYs⟩
        have hrec := ih (w + cfg.W) (hi + 1) cache' acc' skip' sc' (by omega)
          (by
            intro hk
            have hkW : cfg.W ≤ k * cfg.W := by
              calc cfg.W = 1 * cfg.W := by simp
                _ ≤ k * cfg.W := Nat.mul_le_mul_right _ hk
            have hhi' : hi = w + (cfg.W - 1) := by
              rw [← hhidef]
              exact Nat.min_eq_right (by omega)
            have hst : start ≤ lo := by rw [← hmax]; exact Nat.le_max_left _ _
            refine ⟨by omega, ?_, by omega, by omega, by omega⟩
            rw [Nat.max_eq_right (by omega)]; omega)
        revert hrec
        cases (scanWindows cfg n f chunk limit start to ((List.range k).map (fun i => w + cfg.W + i * cfg.W)) cache' acc' skip' sc').1 with
        | err e => intro _; trivial
        | ok acc'' tok =>
          rintro ⟨Z, hZ, hZs⟩
          refine ⟨Y ++ Z, by rw [hZ, hY]; simp, ?_⟩
          rw [hsplit]
          exact List.Sublist.append (List.Sublist.trans hYs hsub) hZs

theorem canonical_sound (cfg : Cfg) (n : Node) (f : Filter) (chunk limit start to skip : Nat) (hW : 1 ≤ cfg.W) :
    ResSound f n.chain [] start to (canonical cfg n f chunk limit start to skip).1 := by
  unfold canonical
  by_cases hgt : start > to
  · simp only [hgt, if_true]
    exact ⟨[], by simp, by simp⟩
  · simp only [hgt, if_false]
    rw [windowsOf_form]
    have hle : start ≤ to := by omega
    have hq : start / cfg.W ≤ to / cfg.W := Nat.div_le_div_right hle
    generalize hk0 : to / cfg.W - start / cfg.W + 1 = k
    have hsum : start / cfg.W + k = to / cfg.W + 1 := by omega
    have hA : start / cfg.W * cfg.W + k * cfg.W = to / cfg.W * cfg.W + cfg.W := by
      rw [← Nat.add_mul, hsum, Nat.add_mul]; simp
    have hs1 := Nat.div_add_mod start cfg.W
    have hs2 := Nat.mod_lt start (show cfg.W > 0 by omega)
    have ht1 := Nat.div_add_mod to cfg.W
    have ht2 := Nat.mod_lt to (show cfg.W > 0 by omega)
    rw [Nat.mul_comm] at hs1 ht1
    exact scanWindows_sound cfg n f chunk limit start to hW k (start / cfg.W * cfg.W) start n.cache [] skip 0
      (by omega) (fun _ => ⟨hle, Nat.max_eq_left (by omega), by omega, by omega, by omega⟩)

theorem naive_sublist_to (f : Filter) (chain : List Block) (lo to to' : Nat) (h : to ≤ to') :
    (naive f chain lo to).Sublist (naive f chain lo to') := by
  rcases Nat.lt_or_ge to lo with h' | h'
  · have : to + 1 - lo = 0 := by omega
    simp [naive_eq, this]
  · rw [naive_split f chain lo to to' (by omega) h]
    exact List.sublist_append_left _ _

theorem events_sound (cfg : Cfg) (n : Node) (f : Filter) (fromB toB : Nat) (tok : Option Token) (chunk limit : Nat)
    (hW : 1 ≤ cfg.W) :
    ResSound f n.chain [] (startOf fromB tok) (min toB (n.chain.length - 1))
      (events cfg n f fromB toB tok chunk limit).1 := by
  rw [events_eq]
  split
  · trivial
  · rename_i latest hl
    have e : n.chain.length - 1 = latest := by omega
    rw [e]
    split
    · trivial
    · split
      · rename_i h
        rw [Nat.min_eq_left h]
        exact canonical_sound cfg n f chunk limit _ toB _ hW
      · rename_i h
        rw [Nat.min_eq_right (by omega)]
        split
        · exact canonical_sound cfg n f chunk limit _ latest _ hW
        · exact ⟨[], by simp, by simp⟩

/-! ### Pages that continue into the pre-confirmed blocks -/

theorem scanPre_sound (f : Filter) (full : List Block) (chunk fromP toB : Nat) (rest : List Block) :
    ∀ (num : Nat) (acc : List Emitted) (skip : Nat), (∀ i, rest[i]? = full[num + i]?) →
      ∃ Y, (scanPre f chunk fromP toB num rest acc skip).1 = acc ++ Y ∧
        Y.Sublist ((List.range' num rest.length).flatMap (blkSel f full)) := by
  induction rest with
  | nil => intro num acc skip _; exact ⟨[], by simp [scanPre], by simp⟩
  | cons blk rest ih =>
    intro num acc skip hidx
    have hget : full[num]? = some blk := by have := hidx 0; simpa using this.symm
    have hidx' : ∀ i, rest[i]? = full[num + 1 + i]? := by
      intro i
      have := hidx (i + 1)
      simp only [List.getElem?_cons_succ] at this
      rw [this]; congr 1; omega
    have hbS : blkSel f full num = sel f (blockRaw num blk) := by simp [blkSel, hget]
    simp only [List.length_cons, List.range'_succ, List.flatMap_cons]
    have skipBlock : ∀ (a : List Emitted) (k : Nat),
        ∃ Y, (scanPre f chunk fromP toB (num + 1) rest a k).1 = a ++ Y ∧
          Y.Sublist (blkSel f full num ++ (List.range' (num + 1) rest.length).flatMap (blkSel f full)) := by
      intro a k
      obtain ⟨Y, h1, h2⟩ := ih (num + 1) a k hidx'
      exact ⟨Y, h1, List.Sublist.trans h2 (List.sublist_append_right _ _)⟩
    unfold scanPre
    split
    · exact skipBlock acc skip
    · split
      · exact ⟨[], by simp, by simp⟩
      · split
        · exact skipBlock acc 0
        · obtain ⟨X, hX, hXs⟩ := scanGo_sublist f skip chunk (blockRaw num blk) acc
          cases hr : scanGo f skip chunk (blockRaw num blk) 0 acc with
          | mk acc' r2 =>
            cases r2 with
            | mk p full' =>
              rw [hr] at hX
              simp only at hX
              cases full' with
              | true =>
                refine ⟨X, hX, ?_⟩
                rw [hbS]; exact List.Sublist.trans hXs (List.sublist_append_left _ _)
              | false =>
                simp only
                obtain ⟨Y, h1, h2⟩ := ih (num + 1) acc' 0 hidx'
                refine ⟨X ++ Y, by rw [h1, hX]; simp, ?_⟩
                rw [hbS]; exact List.Sublist.append hXs h2

/-- Soundness of a page of `eventsPre` in the case that reaches the pre-confirmed blocks, for any
index state and any token: what is returned is a sub-list of the naive scan of the canonical
blocks up to `base` followed by the pre-confirmed blocks. -/
theorem eventsPre_sound (cfg : Cfg) (n : Node) (f : Filter) (fromB toB : Nat) (tok : Option Token) (chunk limit base : Nat)
    (pre : List Block) (hW : 1 ≤ cfg.W) (hpre : pre ≠ []) (hbase : base < n.chain.length)
    (hB0 : (toB != sentinel && decide (toB ≤ n.chain.length - 1)) = false) (hto : ¬ toB ≤ base) :
    ResSound f (n.chain.take (base + 1) ++ pre) [] (min (startOf fromB tok) (base + 1)) (base + pre.length)
      (eventsPre cfg n f fromB toB tok chunk limit base pre).1 := by
  have htl : (n.chain.take (base + 1)).length = base + 1 := by rw [List.length_take]; omega
  have hcongr : ∀ b, b ≤ base → n.chain[b]? = (n.chain.take (base + 1) ++ pre)[b]? := by
    intro b hb
    rw [List.getElem?_append_left (by rw [htl]; omega), List.getElem?_take]
    simp [show b < base + 1 by omega]
  have hpidx : ∀ i, pre[i]? = (n.chain.take (base + 1) ++ pre)[base + 1 + i]? := by
    intro i
    rw [List.getElem?_append_right (by rw [htl]; omega), htl]
    congr 1; omega
  have hplen : 1 ≤ pre.length := by
    cases pre with
    | nil => exact absurd rfl hpre
    | cons _ _ => simp
  -- the canonical part, read on the extended chain
  have hcan : ∀ start skip, ResSound f (n.chain.take (base + 1) ++ pre) [] start base
      (canonical cfg n f chunk limit start base skip).1 := by
    intro start skip
    have := canonical_sound cfg n f chunk limit start base skip hW
    revert this
    cases (canonical cfg n f chunk limit start base skip).1 with
    | err e => intro _; trivial
    | ok acc t =>
      rintro ⟨Y, hY, hYs⟩
      refine ⟨Y, hY, ?_⟩
      have : naive f n.chain start base = naive f (n.chain.take (base + 1) ++ pre) start base := by
        simp only [naive_eq]
        apply flatMap_congr'
        intro b hb
        rw [List.mem_range'_1] at hb
        exact blkSel_congr f _ _ b (hcongr b (by omega))
      rw [← this]; exact hYs
  have hpreNaive : ((List.range' (base + 1) pre.length).flatMap (blkSel f (n.chain.take (base + 1) ++ pre))) =
      naive f (n.chain.take (base + 1) ++ pre) (base + 1) (base + pre.length) := by
    rw [naive_eq]; congr 2; omega
  rw [eventsPre_eq]
  have hemp : pre.isEmpty = false := by cases pre <;> simp_all
  simp only [hemp, Bool.false_eq_true, if_false]
  split
  · trivial
  · rename_i height heq
    have e : n.chain.length - 1 = height := by omega
    rw [e] at hB0
    simp only [hB0, Bool.false_eq_true, if_false, hto]
    split
    · trivial
    · split
      · -- canonical part, then the pre-confirmed blocks
        rename_i hle
        have hmin : min (startOf fromB tok) (base + 1) = startOf fromB tok := Nat.min_eq_left (by omega)
        rw [hmin]
        have hc := hcan (startOf fromB tok) (skipOf tok)
        revert hc
        generalize canonical cfg n f chunk limit (startOf fromB tok) base (skipOf tok) = cr
        obtain ⟨res, c⟩ := cr
        cases res with
        | err e => intro _; trivial
        | ok acc t =>
          rintro ⟨Y, hY, hYs⟩
          simp only [List.nil_append] at hY
          have hsplit := naive_split f (n.chain.take (base + 1) ++ pre) (startOf fromB tok) base (base + pre.length)
            (by omega) (by omega)
          by_cases ht : (!t.isEmpty) = true
          · simp only [ht, if_true]
            show ResSound _ _ _ _ _ (PageRes.ok acc t)
            refine ⟨Y, by simpa using hY, ?_⟩
            rw [hsplit]; exact List.Sublist.trans hYs (List.sublist_append_left _ _)
          · simp only [ht, Bool.false_eq_true, if_false]
            obtain ⟨Z, hZ, hZs⟩ := scanPre_sound f (n.chain.take (base + 1) ++ pre) chunk
              (if (startOf fromB tok == sentinel) = true then base + pre.length else startOf fromB tok) toB pre (base + 1) acc 0 hpidx
            show ResSound _ _ _ _ _ (PageRes.ok _ _)
            refine ⟨Y ++ Z, by rw [hZ, hY]; simp, ?_⟩
            rw [hsplit, ← hpreNaive]
            exact List.Sublist.append hYs hZs
      · -- the pre-confirmed blocks only
        rename_i hgt
        have hmin : min (startOf fromB tok) (base + 1) = base + 1 := Nat.min_eq_right (by omega)
        rw [hmin]
        obtain ⟨Z, hZ, hZs⟩ := scanPre_sound f (n.chain.take (base + 1) ++ pre) chunk
          (if (startOf fromB tok == sentinel) = true then base + pre.length else startOf fromB tok) toB pre (base + 1) [] (skipOf tok) hpidx
        refine ⟨Z, hZ, ?_⟩
        rw [← hpreNaive]; exact hZs

/-- When the range ends at a canonical block, the pre-confirmed chain plays no role. -/
theorem eventsPre_below_head (cfg : Cfg) (n : Node) (f : Filter) (fromB toB : Nat) (tok : Option Token) (chunk limit base : Nat)
    (pre : List Block) (h1 : toB ≠ sentinel) (h2 : toB < n.chain.length) :
    eventsPre cfg n f fromB toB tok chunk limit base pre = events cfg n f fromB toB tok chunk limit := by
  rw [eventsPre_eq, events_eq]
  split
  · rfl
  · cases hl : n.chain.length with
    | zero => omega
    | succ height =>
      have hA : (toB != sentinel && decide (toB ≤ height)) = true := by
        simp only [Bool.and_eq_true, bne_iff_ne, ne_eq, decide_eq_true_eq]; exact ⟨h1, by omega⟩
      have hle : toB ≤ height := by omega
      simp [h1, hle]

end Juno.C09
