import JunoModel.C09.Proofs
/-! C09 — helper lemmas, part 4: what the specification `naive` contains, and in which order. -/
namespace Juno.C09

/-- Chain order of tagged events: by block, then transaction index, then event index. -/
def Emitted.lt (a b : Emitted) : Prop :=
  a.block < b.block ∨ (a.block = b.block ∧ (a.tx < b.tx ∨ (a.tx = b.tx ∧ a.idx < b.idx)))

theorem txRaw_mem_iff (b t : Nat) (es : List Event) : ∀ (i : Nat) (e : Emitted),
    e ∈ txRaw b t i es ↔ e.block = b ∧ e.tx = t ∧ i ≤ e.idx ∧ es[e.idx - i]? = some e.ev := by
  induction es with
  | nil => intro i e; simp [txRaw]
  | cons x xs ih =>
    intro i e
    simp only [txRaw, List.mem_cons, ih (i + 1) e]
    constructor
    · rintro (h | ⟨h1, h2, h3, h4⟩)
      · subst h; simp
      · refine ⟨h1, h2, by omega, ?_⟩
        have : e.idx - i = (e.idx - (i + 1)) + 1 := by omega
        rw [this]; simpa using h4
    · rintro ⟨h1, h2, h3, h4⟩
      by_cases hi : e.idx = i
      · left
        have : e.idx - i = 0 := by omega
        rw [this] at h4
        simp only [List.getElem?_cons_zero, Option.some.injEq] at h4
        cases e; simp_all
      · right
        refine ⟨h1, h2, by omega, ?_⟩
        have : e.idx - i = (e.idx - (i + 1)) + 1 := by omega
        rw [this] at h4; simpa using h4

theorem txRaw_sorted (b t : Nat) (es : List Event) : ∀ (i : Nat), (txRaw b t i es).Pairwise Emitted.lt := by
  induction es with
  | nil => intro i; simp [txRaw]
  | cons x xs ih =>
    intro i
    simp only [txRaw, List.pairwise_cons]
    refine ⟨?_, ih (i + 1)⟩
    intro e he
    rw [txRaw_mem_iff] at he
    obtain ⟨h1, h2, h3, _⟩ := he
    right; exact ⟨h1.symm, Or.inr ⟨h2.symm, by show i < e.idx; omega⟩⟩

theorem blockRawFrom_mem_iff (b : Nat) (txs : List Tx) : ∀ (t : Nat) (e : Emitted),
    e ∈ blockRawFrom b t txs ↔
      e.block = b ∧ t ≤ e.tx ∧ ∃ tx, txs[e.tx - t]? = some tx ∧ tx[e.idx]? = some e.ev := by
  induction txs with
  | nil => intro t e; simp [blockRawFrom]
  | cons x xs ih =>
    intro t e
    simp only [blockRawFrom, List.mem_append, txRaw_mem_iff, ih (t + 1) e]
    constructor
    · rintro (⟨h1, h2, _, h4⟩ | ⟨h1, h2, tx, h3, h4⟩)
      · refine ⟨h1, by omega, x, ?_, by simpa using h4⟩
        have : e.tx - t = 0 := by omega
        rw [this]; simp
      · refine ⟨h1, by omega, tx, ?_, h4⟩
        have : e.tx - t = (e.tx - (t + 1)) + 1 := by omega
        rw [this]; simpa using h3
    · rintro ⟨h1, h2, tx, h3, h4⟩
      by_cases ht : e.tx = t
      · left
        have : e.tx - t = 0 := by omega
        rw [this] at h3
        simp only [List.getElem?_cons_zero, Option.some.injEq] at h3
        subst h3
        exact ⟨h1, ht, Nat.zero_le _, by simpa using h4⟩
      · right
        refine ⟨h1, by omega, tx, ?_, h4⟩
        have : e.tx - t = (e.tx - (t + 1)) + 1 := by omega
        rw [this] at h3; simpa using h3

theorem blockRawFrom_sorted (b : Nat) (txs : List Tx) : ∀ (t : Nat), (blockRawFrom b t txs).Pairwise Emitted.lt := by
  induction txs with
  | nil => intro t; simp [blockRawFrom]
  | cons x xs ih =>
    intro t
    simp only [blockRawFrom, List.pairwise_append]
    refine ⟨txRaw_sorted b t x 0, ih (t + 1), ?_⟩
    intro a ha c hc
    rw [txRaw_mem_iff] at ha
    rw [blockRawFrom_mem_iff] at hc
    right; exact ⟨by rw [ha.1, hc.1], Or.inl (by rw [ha.2.1]; omega)⟩

theorem blkSel_mem_iff (f : Filter) (chain : List Block) (b : Nat) (e : Emitted) :
    e ∈ blkSel f chain b ↔ e.block = b ∧ ∃ blk tx, chain[b]? = some blk ∧ blk.txs[e.tx]? = some tx ∧
      tx[e.idx]? = some e.ev ∧ «matches» f e.ev = true := by
  unfold blkSel
  cases hb : chain[b]? with
  | none => simp
  | some blk =>
    simp only [sel, List.mem_filter, blockRaw, blockRawFrom_mem_iff, Nat.sub_zero, Nat.zero_le, true_and,
      Option.some.injEq]
    constructor
    · rintro ⟨⟨h1, tx, h2, h3⟩, h4⟩
      exact ⟨h1, blk, tx, rfl, h2, h3, h4⟩
    · rintro ⟨h1, blk', tx, h2, h3, h4, h5⟩
      subst h2
      exact ⟨⟨h1, tx, h3, h4⟩, h5⟩

theorem blkSel_sorted (f : Filter) (chain : List Block) (b : Nat) : (blkSel f chain b).Pairwise Emitted.lt := by
  unfold blkSel
  cases chain[b]? with
  | none => simp
  | some blk => exact (blockRawFrom_sorted b blk.txs 0).filter _

theorem naive_mem_iff (f : Filter) (chain : List Block) (lo hi : Nat) (e : Emitted) :
    e ∈ naive f chain lo hi ↔ lo ≤ e.block ∧ e.block ≤ hi ∧ ∃ blk tx, chain[e.block]? = some blk ∧
      blk.txs[e.tx]? = some tx ∧ tx[e.idx]? = some e.ev ∧ «matches» f e.ev = true := by
  rw [naive_eq]
  simp only [List.mem_flatMap, List.mem_range'_1, blkSel_mem_iff]
  constructor
  · rintro ⟨b, ⟨h1, h2⟩, h3, h4⟩
    subst h3
    exact ⟨h1, by omega, h4⟩
  · rintro ⟨h1, h2, h3⟩
    exact ⟨e.block, ⟨h1, by omega⟩, rfl, h3⟩

theorem range_flatMap_sorted (f : Filter) (chain : List Block) (n : Nat) : ∀ lo,
    ((List.range' lo n).flatMap (blkSel f chain)).Pairwise Emitted.lt := by
  induction n with
  | zero => intro lo; simp
  | succ n ih =>
    intro lo
    rw [List.range'_succ, List.flatMap_cons, List.pairwise_append]
    refine ⟨blkSel_sorted f chain lo, ih (lo + 1), ?_⟩
    intro a ha c hc
    rw [blkSel_mem_iff] at ha
    simp only [List.mem_flatMap, List.mem_range'_1, blkSel_mem_iff] at hc
    obtain ⟨b, ⟨hb1, _⟩, hb2, _⟩ := hc
    left; rw [ha.1, hb2]; omega

theorem naive_sorted (f : Filter) (chain : List Block) (lo hi : Nat) : (naive f chain lo hi).Pairwise Emitted.lt := by
  rw [naive_eq]; exact range_flatMap_sorted f chain _ lo

end Juno.C09
