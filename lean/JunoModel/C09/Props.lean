import JunoModel.C09.ProofsHist
import JunoModel.C09.ProofsSpec
import JunoModel.C09.ProofsPre
import JunoModel.C09.ProofsSound
/-!
C09 — property theorems about the code in /repo (statements only; lemmas and plumbing are in
`Proofs*.lean`; theorems about the code BEFORE the round-1 repairs are in `Regression.lean`).

Reading guide. `Node` is the event index of a juno node next to its canonical chain; `run cfg
Node.init ops` is the node after a history of store / revert / snapshot write / restart / query /
prune and of the faults: a Store or RevertHead whose commit fails, a restart whose lazy
initialisation hits a transient error, a restart that dies inside the initialiser. `cfg.W` is the
window size (8192 in the code), `cfg.cap` the LRU capacity (16); `Repaired cfg` = the three round-1
repairs are in (they are: the harness probes the real code every run). `naive f chain lo hi` is the
specification of a query: scan every block. `collect … fuel n none` follows continuation tokens from
the first page to the empty token.

Clauses of the property text and where they are: "precisely the matching events … in chain order …
tagged with block, transaction and position" — `naive_spec`, `naive_in_chain_order`, `events_exact`
(positions; the block HASH and transaction HASH tags are checked by the harness only, `checkTag`);
"plus pre-confirmed blocks when asked" — `paging_complete_preconfirmed`, `events_exact_preconfirmed`,
`preconfirmed_ignored_below_head`; "same list for every chunk size and scan limit" — ∀ chunk ≥ 1,
limit in `events_exact` (chunk ≥ 1 is what `validate:"min=1"` guarantees at the RPC boundary; the
harness sends requests through the real jsonrpc server and validator); "not omitted because of the
bloom index, its cache, restarts, reorgs" — `index_no_false_neg` (bloom filters themselves: superset
ASSUMPTION in `StoresOK`); crash points — `index_no_false_neg` ranges over failed commits, failed
initialisations and a crash after every step of the initialiser; a crash inside `PruneUpto` leaves a
`prune k'` state (every batch carries the number-keyed deletes: harness tie), a crash inside `Store`
/ `RevertHead` is a failed commit (one batch).
-/
namespace Juno.C09.Props
open Juno.C09

/-! ## Filter semantics and the specification -/

/-- `MatchesEventKeys` in declarative form: the event has at least as many keys as the filter has
positions and every position is unconstrained or holds one of its alternatives. The length
requirement for TRAILING unconstrained positions is juno's reading of the JSON-RPC specification
(whose text is not in the repository and could not be compared): listed under `assumptions`. -/
theorem matchesKeys_spec (fk : List (List Nat)) (ek : List Nat) :
    matchesKeys fk ek = true ↔
      ∃ h : fk.length ≤ ek.length, ∀ i (hi : i < fk.length), fk[i] = [] ∨ ek[i]'(by omega) ∈ fk[i] := by
  unfold matchesKeys
  by_cases h : ek.length < fk.length
  · simp [h]; intro h'; omega
  · simp only [h, if_false]
    have h' : fk.length ≤ ek.length := by omega
    rw [matchKeysGo_spec fk ek h']
    exact ⟨fun x => ⟨h', x⟩, fun ⟨_, x⟩ => x⟩

/-- What the naive scan returns: exactly the events `chain[block].txs[tx][idx]` with `block` in
the range that match the filter — each carrying its block / transaction / event position. -/
theorem naive_spec (f : Filter) (chain : List Block) (lo hi : Nat) (e : Emitted) :
    e ∈ naive f chain lo hi ↔ lo ≤ e.block ∧ e.block ≤ hi ∧ ∃ blk tx, chain[e.block]? = some blk ∧
      blk.txs[e.tx]? = some tx ∧ tx[e.idx]? = some e.ev ∧ «matches» f e.ev = true :=
  naive_mem_iff f chain lo hi e

/-- … in chain order (block, then transaction, then event index, strictly increasing: in
particular no event twice). -/
theorem naive_in_chain_order (f : Filter) (chain : List Block) (lo hi : Nat) :
    (naive f chain lo hi).Pairwise Emitted.lt :=
  naive_sorted f chain lo hi

/-! ## The index has no false negatives — over histories with faults and crash points -/

/-- **index_no_false_neg.** After EVERY history of store / revert (any depth, across window
boundaries, after queries warmed the cache) / snapshot write / graceful and ungraceful restart /
query / prune / failed Store commit / failed RevertHead commit / failed lazy initialisation / crash
after any number of steps inside the initialiser: whenever the running filter is initialised
(always, except between a failed initialisation and the next write or restart) the index has no
false negatives; the database part of the invariant holds without exception. For every window size. -/
theorem index_no_false_neg (cfg : Cfg) (hW : 1 ≤ cfg.W) (hr : Repaired cfg) (ops : List Op)
    (hok : StoresOK cfg Node.init ops) :
    let n := run cfg Node.init ops
    DBInv cfg n ∧ (n.initErr = none → n.chain ≠ [] → NoFalseNeg cfg n) := by
  intro n
  have hw := weak_after_history cfg hW ops (histOK_of_repaired cfg hr ops _ hok)
  exact ⟨hw.1, fun h1 h2 => noFalseNeg_of_inv cfg hW n (hw.2 h1) h2⟩

/-- The only way the running filter is ever uninitialised is the injected fault: without
`restartFault` in the history it is initialised and every Store / RevertHead / snapshot write /
restart succeeds. -/
theorem ops_do_not_fail (cfg : Cfg) (hW : 1 ≤ cfg.W) (hr : Repaired cfg) (ops : List Op)
    (hok : StoresOK cfg Node.init ops) :
    let n := run cfg Node.init ops
    n.initErr = none →
    (∀ blk, (∀ it ∈ blk.items, it ∈ blk.bloom) → n.chain.length + 1 < 2 ^ 64 → (store cfg n blk).2 = none) ∧
    (n.chain ≠ [] → RevertAboveFloor n → (revert cfg n).2 = none) ∧
    (restart cfg n).2 = none ∧ (snap n).2 = none := by
  intro n hlive
  have hw := weak_after_history cfg hW ops (histOK_of_repaired cfg hr ops _ hok)
  have := step_no_error cfg hW n (hw.2 hlive)
  exact ⟨fun blk h1 h2 => this.1 blk ⟨h1, h2⟩,
    fun hne hfl => this.2.1 hne ⟨⟨Or.inl hr.1, Or.inl hr.2.1, Or.inl hr.2.2⟩, hfl⟩, this.2.2.1, this.2.2.2⟩

/-- After a failed initialisation the next Store, RevertHead or restart re-arms the initialiser
(3373c0b) and — the database being sound — it succeeds: the full invariant is back. -/
theorem failed_init_rearmed_by_write (cfg : Cfg) (hW : 1 ≤ cfg.W) (hr : Repaired cfg) (ops : List Op)
    (hok : StoresOK cfg Node.init ops) (blk : Block) :
    let n := run cfg Node.init ops
    n.initErr ≠ none →
    (store cfg n blk).1.initErr = none ∧ (revert cfg n).1.initErr = none ∧ (restart cfg n).1.initErr = none := by
  intro n hbad
  have hw := weak_after_history cfg hW ops (histOK_of_repaired cfg hr ops _ hok)
  cases hi : n.initErr with
  | none => exact absurd hi hbad
  | some e =>
    have h1 : (store cfg n blk).1 = reinit cfg n := by simp [store, hi]
    have h2 : (revert cfg n).1 = reinit cfg n := by
      unfold revert; simp only [hi]; split <;> (try rfl); split <;> rfl
    rw [h1, h2]
    exact ⟨(reinit_inv' cfg hW n hw.1).live, (reinit_inv' cfg hW n hw.1).live, (restart_inv' cfg hW n hw.1).2.live⟩

/-- While the initialisation error is remembered, a query that needs the index fails with that
error and changes nothing: never a partial answer. (That it KEEPS failing until the next write is
the defect recorded below.) -/
theorem uninitialised_filter_refuses (cfg : Cfg) (n : Node) (w : Nat) (cache : WinMap) (e : Err) (h : n.initErr = some e) :
    loadWindow cfg n cache w = .error e := by
  simp [loadWindow, h]

/-! ## Paging -/

/-- **paging_complete**: on a node whose index has no false negatives, for every filter, range,
chunk size ≥ 1 and scan limit (0 = none), following the continuation tokens to the empty token
returns exactly the naive scan of the canonical chain over the range (cut at the head), in order,
with the block / transaction / event-index tags of the naive scan. `fuel` only bounds the number of
pages; any value above the stated bound gives the same answer. -/
theorem paging_complete (cfg : Cfg) (hW : 1 ≤ cfg.W) (n : Node) (f : Filter) (fromB toB chunk limit : Nat)
    (hchunk : 1 ≤ chunk) (hne : n.chain ≠ []) (hnf : NoFalseNeg cfg n) (hfl : n.floor ≤ fromB) (fuel : Nat)
    (hfuel : (naive f n.chain fromB (min toB (n.chain.length - 1))).length + n.chain.length < fuel) :
    collect cfg f fromB toB chunk limit fuel n none = some (naive f n.chain fromB (min toB (n.chain.length - 1))) := by
  obtain ⟨hwf, hs, hc, _⟩ := hnf
  have hlen : n.chain.length = (n.chain.length - 1) + 1 := by
    cases hc' : n.chain with
    | nil => exact absurd hc' hne
    | cons _ _ => simp
  have := collect_spec cfg f fromB toB chunk limit (n.chain.length - 1) hW hchunk fuel n none hlen hwf
    (hs.mono (Nat.min_le_right _ _)) hc hfl (Or.inl rfl)
  simp only [startOf, skipOf, wantN_zero] at this
  rw [naive_eq]
  apply this
  rw [naive_eq] at hfuel
  have : min toB (n.chain.length - 1) + 1 - fromB ≤ n.chain.length := by
    have := Nat.min_le_right toB (n.chain.length - 1); omega
  omega

/-- One page, from the first page (`tok = none`) or from a token the previous page returned
(`Valid`): it does not fail; it returns at most `chunk` events; either its token is empty and it
returned everything that was left, or the token moves strictly forward (lexicographically in
(block, events processed)), it returned an event or the token's block is later (**token_progress**),
and what it returned followed by what is left from the token is what was left before. -/
def Valid (f : Filter) (n : Node) (fromB : Nat) (tok : Option Token) : Prop :=
  skipOf tok = 0 ∨ selFrom f n.chain (startOf fromB tok) (skipOf tok) ≠ []

theorem token_progress (cfg : Cfg) (hW : 1 ≤ cfg.W) (n : Node) (f : Filter) (fromB toB chunk limit : Nat)
    (tok : Option Token) (hchunk : 1 ≤ chunk) (hne : n.chain ≠ []) (hnf : NoFalseNeg cfg n)
    (hfl : n.floor ≤ startOf fromB tok) (hv : Valid f n fromB tok) :
    ∃ evs t, (query cfg n f fromB toB tok chunk limit).2 = .ok evs t ∧ evs.length ≤ chunk ∧
      NoFalseNeg cfg (query cfg n f fromB toB tok chunk limit).1 ∧
      let hi := min toB (n.chain.length - 1)
      let left := fun (b p : Nat) => wantN f n.chain b (hi + 1 - b) p
      ((t = Token.none ∧ evs = left (startOf fromB tok) (skipOf tok)) ∨
       (t.isEmpty = false ∧ evs ++ left t.b t.p = left (startOf fromB tok) (skipOf tok) ∧
        Valid f n fromB (some t) ∧ t.b ≤ hi ∧
        (startOf fromB tok < t.b ∨ (startOf fromB tok = t.b ∧ skipOf tok < t.p)) ∧
        (evs ≠ [] ∨ startOf fromB tok < t.b))) := by
  obtain ⟨hwf, hs, hc, hfh⟩ := hnf
  have hlen : n.chain.length = (n.chain.length - 1) + 1 := by
    cases hc' : n.chain with
    | nil => exact absurd hc' hne
    | cons _ _ => simp
  obtain ⟨hpost, hcg⟩ := events_spec cfg n f fromB toB tok chunk limit (n.chain.length - 1) hW hlen hwf
    (hs.mono (Nat.min_le_right _ _)) hc hfl hv
  simp only [query]
  revert hpost
  cases hr : (events cfg n f fromB toB tok chunk limit).1 with
  | err e => simp [WinPost]
  | ok evs t =>
    simp only [WinPost, List.nil_append, List.length_nil]
    intro hpost
    refine ⟨evs, t, rfl, ?_, ⟨hwf, ⟨hs.live, hs.running, hs.persisted⟩, hcg, hfh⟩, ?_⟩
    · rcases hpost with ⟨_, _, h⟩ | ⟨_, _, _, _, _, _, h, _⟩ <;> exact h
    · rcases hpost with ⟨ht, hA, _⟩ | ⟨h1, h2, X, hX, hXw, hv', _, hp⟩
      · exact Or.inl ⟨ht, hA⟩
      · have hprog := hp (by omega)
        subst hX
        have hlex : startOf fromB tok < t.b ∨ (startOf fromB tok = t.b ∧ skipOf tok < t.p) := by
          rcases hprog with h | h
          · exact Or.inl h
          · rcases Nat.lt_or_ge (startOf fromB tok) t.b with h' | h'
            · exact Or.inl h'
            · exact Or.inr ⟨by omega, (h (by omega)).2⟩
        refine Or.inr ⟨?_, hXw, hv', h2, hlex, ?_⟩
        · simp only [Token.isEmpty, Bool.and_eq_false_iff, beq_eq_false_iff_ne]
          rcases hlex with h | h
          · left; omega
          · right; omega
        · rcases hprog with h | h
          · exact Or.inr h
          · exact Or.inl (h (by omega)).1

/-- When the range ends at a canonical block the pre-confirmed chain plays no role: the page is
the page of the plain query (so `paging_complete`, `page_sound`, `pruned_start_rejected` apply). -/
theorem preconfirmed_ignored_below_head (cfg : Cfg) (n : Node) (f : Filter) (fromB toB : Nat) (tok : Option Token)
    (chunk limit base : Nat) (pre : List Block) (h1 : toB ≠ sentinel) (h2 : toB < n.chain.length) :
    queryPre cfg n f fromB toB tok chunk limit base pre = query cfg n f fromB toB tok chunk limit := by
  simp only [queryPre, query, eventsPre_below_head cfg n f fromB toB tok chunk limit base pre h1 h2]

/-- **paging_complete with pre-confirmed blocks**, for a pre-confirmed chain `pre` (oldest first,
consecutive numbers: `preconfirmed.NewChain` refuses anything else) that was built on canonical
block `base ≤ head` — `headAndPreConfirmed` derives `base` from the chain, it need not be the head
of the database — and a range that reaches above the head (or the `pre_confirmed` tag): following
the tokens returns the naive scan of the canonical blocks UP TO `base` followed by the
pre-confirmed blocks (for `base < head` the blocks `base+1 … head` are served from their
pre-confirmed copies, as the code intends). A lower bound `pre_confirmed` means the newest
pre-confirmed block (`loOf`). -/
theorem paging_complete_preconfirmed (cfg : Cfg) (hW : 1 ≤ cfg.W) (n : Node) (f : Filter)
    (fromB toB chunk limit base : Nat) (hchunk : 1 ≤ chunk) (hne : n.chain ≠ []) (hnf : NoFalseNeg cfg n)
    (hbase : base ≤ n.chain.length - 1)
    (hto : toB = sentinel ∨ n.chain.length - 1 < toB)
    (hfl : fromB ≤ base → n.floor ≤ fromB)
    (pre : List Block) (hpre : pre ≠ []) (hpwf : ∀ blk ∈ pre, ∀ it ∈ blk.items, it ∈ blk.bloom)
    (hfit : n.chain.length - 1 + pre.length < sentinel) (fuel : Nat)
    (hfuel : (naive f (n.chain.take (base + 1) ++ pre) (loOf fromB none (base + pre.length))
        (min toB (base + pre.length))).length + (base + 1 + pre.length) < fuel) :
    collectPre cfg f fromB toB chunk limit base pre fuel n none =
      some (naive f (n.chain.take (base + 1) ++ pre) (loOf fromB none (base + pre.length))
        (min toB (base + pre.length))) := by
  obtain ⟨hwf, hs, hc, hfh⟩ := hnf
  have hlen : n.chain.length = (n.chain.length - 1) + 1 := by
    cases hc' : n.chain with
    | nil => exact absurd hc' hne
    | cons _ _ => simp
  have hB0 : (toB != sentinel && decide (toB ≤ n.chain.length - 1)) = false := by
    simp only [Bool.and_eq_false_iff, bne_eq_false_iff_eq, decide_eq_false_iff_not]
    rcases hto with h | h
    · exact Or.inl h
    · exact Or.inr (by omega)
  have := collectPre_spec cfg f fromB toB chunk limit base (n.chain.length - 1) pre hW hchunk hbase hB0 hpre hfit hpwf fuel n none
    hlen hwf (hs.mono hbase) hc hfl (Or.inl rfl)
  simp only [skipOf, wantN_zero] at this
  rw [naive_eq] at hfuel ⊢
  generalize (loOf fromB none (base + pre.length)) = lo at this hfuel ⊢
  have h1 := Nat.min_le_right toB (base + pre.length)
  generalize min toB (base + pre.length) = hi at this hfuel h1 ⊢
  apply this
  generalize (List.flatMap (blkSel f (n.chain.take (base + 1) ++ pre)) (List.range' lo (hi + 1 - lo))).length = k at hfuel ⊢
  omega

/-- **page_sound** — no hypothesis on the node at all (any index state, any cache content, any
retention floor) and any token, also one the server never issued: a page that does not fail is a
sub-list of the naive scan from the token's block (or the range start) to the range end. With
`naive_spec` / `naive_in_chain_order`: every returned event is a matching event of the canonical
chain in the range with its true tags, in chain order, none twice. What a defective index or a
forged token can cost is completeness, never correctness of what is returned. -/
theorem page_sound (cfg : Cfg) (hW : 1 ≤ cfg.W) (n : Node) (f : Filter) (fromB toB chunk limit : Nat)
    (tok : Option Token) (evs : List Emitted) (t : Token)
    (h : (query cfg n f fromB toB tok chunk limit).2 = .ok evs t) :
    evs.Sublist (naive f n.chain (startOf fromB tok) (min toB (n.chain.length - 1))) := by
  have := events_sound cfg n f fromB toB tok chunk limit hW
  simp only [query] at h
  rw [h] at this
  obtain ⟨Y, hY, hYs⟩ := this
  simpa [hY] using hYs

/-- **page_sound with pre-confirmed blocks**: any index state, any token, a pre-confirmed chain on
an existing canonical block: a page that does not fail is a sub-list of the naive scan of the
canonical blocks up to `base` followed by the pre-confirmed blocks — only matching events, true
tags, chain order, none twice. -/
theorem page_sound_preconfirmed (cfg : Cfg) (hW : 1 ≤ cfg.W) (n : Node) (f : Filter) (fromB toB chunk limit base : Nat)
    (tok : Option Token) (pre : List Block) (hpre : pre ≠ []) (hbase : base < n.chain.length)
    (hfit : n.chain.length < sentinel)
    (hto : toB = sentinel ∨ n.chain.length - 1 < toB) (evs : List Emitted) (t : Token)
    (h : (queryPre cfg n f fromB toB tok chunk limit base pre).2 = .ok evs t) :
    evs.Sublist (naive f (n.chain.take (base + 1) ++ pre) (min (startOf fromB tok) (base + 1)) (base + pre.length)) := by
  have hB0 : (toB != sentinel && decide (toB ≤ n.chain.length - 1)) = false := by
    simp only [Bool.and_eq_false_iff, bne_eq_false_iff_eq, decide_eq_false_iff_not]
    rcases hto with h | h
    · exact Or.inl h
    · exact Or.inr (by omega)
  have hnb : ¬ toB ≤ base := by
    rcases hto with h' | h'
    · rw [h']; omega
    · omega
  have := eventsPre_sound cfg n f fromB toB tok chunk limit base pre hW hpre hbase hB0 hnb
  simp only [queryPre] at h
  rw [h] at this
  obtain ⟨Y, hY, hYs⟩ := this
  simpa [hY] using hYs

/-! ## The property, end to end -/

/-- **C09**: after every admissible history (faults and crash points included) on a node whose
running filter is initialised, every query over a range that starts in the retained part, paged to
the end with any chunk size ≥ 1 and any scan limit, returns exactly the matching events of the
canonical chain in the range, in chain order, each with its positions. The chain is the one at the
time of the query (pages of one query are not interleaved with writes). -/
theorem events_exact (cfg : Cfg) (hW : 1 ≤ cfg.W) (hr : Repaired cfg) (ops : List Op)
    (hok : StoresOK cfg Node.init ops) (hne : (run cfg Node.init ops).chain ≠ [])
    (hlive : (run cfg Node.init ops).initErr = none)
    (f : Filter) (fromB toB chunk limit : Nat) (hchunk : 1 ≤ chunk) :
    let n := run cfg Node.init ops
    n.floor ≤ fromB →
    ∀ fuel, (naive f n.chain fromB (min toB (n.chain.length - 1))).length + n.chain.length < fuel →
      collect cfg f fromB toB chunk limit fuel n none = some (naive f n.chain fromB (min toB (n.chain.length - 1))) := by
  intro n hfl fuel hfuel
  exact paging_complete cfg hW n f fromB toB chunk limit hchunk hne
    ((index_no_false_neg cfg hW hr ops hok).2 hlive hne) hfl fuel hfuel

/-- … and with pre-confirmed blocks on top of canonical block `base ≤ head`. -/
theorem events_exact_preconfirmed (cfg : Cfg) (hW : 1 ≤ cfg.W) (hr : Repaired cfg) (ops : List Op)
    (hok : StoresOK cfg Node.init ops) (hne : (run cfg Node.init ops).chain ≠ [])
    (hlive : (run cfg Node.init ops).initErr = none)
    (f : Filter) (fromB toB chunk limit base : Nat) (hchunk : 1 ≤ chunk)
    (pre : List Block) (hpre : pre ≠ []) (hpwf : ∀ blk ∈ pre, ∀ it ∈ blk.items, it ∈ blk.bloom) :
    let n := run cfg Node.init ops
    base ≤ n.chain.length - 1 → (toB = sentinel ∨ n.chain.length - 1 < toB) → (fromB ≤ base → n.floor ≤ fromB) →
    n.chain.length - 1 + pre.length < sentinel →
    ∀ fuel, (naive f (n.chain.take (base + 1) ++ pre) (loOf fromB none (base + pre.length))
        (min toB (base + pre.length))).length + (base + 1 + pre.length) < fuel →
      collectPre cfg f fromB toB chunk limit base pre fuel n none =
        some (naive f (n.chain.take (base + 1) ++ pre) (loOf fromB none (base + pre.length)) (min toB (base + pre.length))) := by
  intro n hbase hto hfl hfit fuel hfuel
  exact paging_complete_preconfirmed cfg hW n f fromB toB chunk limit base hchunk hne
    ((index_no_false_neg cfg hW hr ops hok).2 hlive hne) hbase hto hfl pre hpre hpwf hfit fuel hfuel

/-- **Pruned ranges are refused, never answered in part**: a query (or a token) that starts at a
canonical block below the retention floor fails with `pruned` and changes nothing. -/
theorem pruned_start_rejected (cfg : Cfg) (n : Node) (f : Filter) (fromB toB chunk limit : Nat) (tok : Option Token)
    (h1 : startOf fromB tok < n.chain.length) (h2 : startOf fromB tok < n.floor) :
    query cfg n f fromB toB tok chunk limit = (n, .err .pruned) := by
  simp only [query, events_eq]
  cases hl : n.chain.length with
  | zero => omega
  | succ latest =>
    have : (decide (startOf fromB tok ≤ latest) && decide (startOf fromB tok < n.floor)) = true := by
      simp only [Bool.and_eq_true, decide_eq_true_eq]; omega
    simp [this]


/-- … the same for a query that would continue into pre-confirmed blocks (the second copy of the
retention check, against the block the pre-confirmed chain was built on). -/
theorem pruned_start_rejected_preconfirmed (cfg : Cfg) (n : Node) (f : Filter) (fromB toB chunk limit base : Nat)
    (tok : Option Token) (pre : List Block) (hpre : pre ≠ []) (hne : n.chain ≠ [])
    (hto : toB = sentinel ∨ n.chain.length - 1 < toB)
    (h1 : startOf fromB tok ≤ base) (h2 : startOf fromB tok < n.floor) :
    queryPre cfg n f fromB toB tok chunk limit base pre = (n, .err .pruned) := by
  simp only [queryPre, eventsPre_eq]
  have hemp : pre.isEmpty = false := by cases pre <;> simp_all
  cases hl : n.chain.length with
  | zero => simp_all
  | succ height =>
    have hB0 : (toB != sentinel && decide (toB ≤ height)) = false := by
      simp only [Bool.and_eq_false_iff, bne_eq_false_iff_eq, decide_eq_false_iff_not]
      rcases hto with h | h
      · exact Or.inl h
      · exact Or.inr (by omega)
    have : (decide (startOf fromB tok ≤ base) && decide (startOf fromB tok < n.floor)) = true := by
      simp only [Bool.and_eq_true, decide_eq_true_eq]; exact ⟨h1, h2⟩
    simp [hemp, hB0, this]

/-! ## Open finding: a failed lazy initialisation is sticky for queries -/

/-
Full-strength statement (what one wants): after a TRANSIENT failure of the lazy initialisation the
next query succeeds (the database is intact). FALSE for the code in /repo: `ensureInit` remembers
the error (`sync.Once`), only a failed Store / RevertHead (`Reset`, 3373c0b) or a restart re-arms
the initialiser; event queries do not. `events_exact` therefore carries the hypothesis
`initErr = none`. The repair is owned by C05 (its finding L16); C09 records the query side.
-/
def cfgRepaired : Cfg := ⟨3, 2, true, true, true⟩
def blkE : Block := ⟨[], []⟩
def blkB : Block := ⟨[[⟨11, [7]⟩]], [.addr 11, .key 0 7]⟩
def fB : Filter := ⟨[11], []⟩

/-- `_partial`: with the hypothesis that no initialisation error is remembered — `events_exact`. -/
theorem events_exact_after_faults_partial (cfg : Cfg) (hW : 1 ≤ cfg.W) (hr : Repaired cfg) (ops : List Op)
    (hok : StoresOK cfg Node.init ops) (hne : (run cfg Node.init ops).chain ≠ [])
    (hlive : (run cfg Node.init ops).initErr = none)
    (f : Filter) (fromB toB chunk limit : Nat) (hchunk : 1 ≤ chunk) (hfl : (run cfg Node.init ops).floor ≤ fromB)
    (fuel : Nat)
    (hfuel : (naive f (run cfg Node.init ops).chain fromB (min toB ((run cfg Node.init ops).chain.length - 1))).length +
      (run cfg Node.init ops).chain.length < fuel) :
    collect cfg f fromB toB chunk limit fuel (run cfg Node.init ops) none =
      some (naive f (run cfg Node.init ops).chain fromB (min toB ((run cfg Node.init ops).chain.length - 1))) :=
  events_exact cfg hW hr ops hok hne hlive f fromB toB chunk limit hchunk hfl fuel hfuel

/-- Negation witness: two blocks, a restart whose initialisation hits a transient error; the
database is intact and holds a matching event, yet the query fails, and fails again; a Store attempt
(which itself fails once) re-arms the initialiser and the same query is then exact. -/
theorem query_fails_after_transient_init_error :
    let ops : List Op := [.store blkE, .store blkB, .restartFault]
    let n := run cfgRepaired Node.init ops
    storesOKb cfgRepaired Node.init ops = true ∧
    naive fB n.chain 0 1 = [⟨1, 0, 0, ⟨11, [7]⟩⟩] ∧
    (query cfgRepaired n fB 0 1 none 5 0).2 = .err .io ∧
    (query cfgRepaired (query cfgRepaired n fB 0 1 none 5 0).1 fB 0 1 none 5 0).2 = .err .io ∧
    (store cfgRepaired n blkE).2 = some .io ∧
    (query cfgRepaired (store cfgRepaired n blkE).1 fB 0 1 none 5 0).2 = .ok [⟨1, 0, 0, ⟨11, [7]⟩⟩] Token.none := by
  decide

/-- Negation witness (second open finding): a pruning node (`W = 3`, 13 blocks, floor 12 in the
head's window, so no persisted window is left and the headers below 2 are gone) is stopped without a
snapshot and started again without `--prune-mode`: the initialiser that does not know the floor walks
back to block 0, misses its header and fails; the retained matching event of block 12 cannot be
queried. Started with the floor-aware initialiser the same database answers exactly. -/
theorem query_fails_on_pruned_database_without_prune_mode :
    let ops : List Op := List.replicate 12 (.store blkE) ++ [.store blkB, .prune 12]
    let n := run cfgRepaired Node.init ops
    storesOKb cfgRepaired Node.init ops = true ∧
    naive fB n.chain 12 12 = [⟨12, 0, 0, ⟨11, [7]⟩⟩] ∧
    (restartCore cfgRepaired n).2 = some .notfound ∧
    (query cfgRepaired (restartCore cfgRepaired n).1 fB 12 12 none 5 0).2 = .err .notfound ∧
    (restart cfgRepaired n).2 = none ∧
    (query cfgRepaired (restart cfgRepaired n).1 fB 12 12 none 5 0).2 = .ok [⟨12, 0, 0, ⟨11, [7]⟩⟩] Token.none := by
  decide

/-! ## Non-vacuity -/

-- reorg across a window boundary after the cache was warmed: exact
example :
    let ops : List Op := [.store blkE, .store blkE, .store blkE, .store blkE, .query fB 0 3 none 5 0,
      .revert, .revert, .store blkB, .store blkE]
    storesOKb cfgRepaired Node.init ops = true ∧ (run cfgRepaired Node.init ops).chain ≠ [] ∧
    (query cfgRepaired (run cfgRepaired Node.init ops) fB 0 3 none 5 0).2 = .ok [⟨2, 0, 0, ⟨11, [7]⟩⟩] Token.none := by
  decide

-- failed commits and a crash inside the initialiser in the history
example :
    let ops : List Op := [.store blkE, .store blkE, .storeFail blkB, .store blkB, .store blkE, .revertFail,
      .snap, .store blkB, .store blkE, .restartCrash 1, .revert, .storeFail blkE, .store blkB]
    let n := run cfgRepaired Node.init ops
    storesOKb cfgRepaired Node.init ops = true ∧ n.initErr = none ∧ n.chain.length = 6 ∧
    (query cfgRepaired n fB 0 9 none 5 0).2 = .ok [⟨2, 0, 0, ⟨11, [7]⟩⟩, ⟨4, 0, 0, ⟨11, [7]⟩⟩, ⟨5, 0, 0, ⟨11, [7]⟩⟩] Token.none := by
  decide

-- paging with chunk size 1 and scan limit 1 over a chain with two matching events in one block
example :
    let ops : List Op := [.store ⟨[[⟨11, []⟩, ⟨12, []⟩, ⟨11, []⟩]], [.addr 11, .addr 12]⟩, .store blkE, .store blkB]
    let n := run cfgRepaired Node.init ops
    (query cfgRepaired n fB 0 2 none 1 1).2 = .ok [⟨0, 0, 0, ⟨11, []⟩⟩] ⟨0, 2⟩ ∧
    (query cfgRepaired n fB 0 2 (some ⟨0, 2⟩) 1 1).2 = .ok [⟨0, 0, 2, ⟨11, []⟩⟩] ⟨2, 0⟩ ∧
    collect cfgRepaired fB 0 2 1 1 10 n none = some (naive fB n.chain 0 2) := by
  decide

-- a pruning node: floor in window 1, restart with the pruning-aware initialiser
example :
    let blkA : Block := ⟨[[⟨11, [7]⟩]], [.addr 11, .key 0 7]⟩
    let ops : List Op := [.store blkA, .store blkE, .store blkE, .store blkE, .store blkA, .store blkA, .store blkE,
      .snap, .prune 4, .revert, .store blkA, .restart]
    let n := run cfgRepaired Node.init ops
    storesOKb cfgRepaired Node.init ops = true ∧ n.floor = 4 ∧ n.persisted.map (·.1) = [3] ∧
    (query cfgRepaired n fB 4 9 none 5 0).2 = .ok [⟨4, 0, 0, ⟨11, [7]⟩⟩, ⟨5, 0, 0, ⟨11, [7]⟩⟩, ⟨6, 0, 0, ⟨11, [7]⟩⟩] Token.none ∧
    (query cfgRepaired n fB 3 9 none 5 0).2 = .err .pruned ∧
    (query cfgRepaired n fB 9 9 (some ⟨0, 1⟩) 5 0).2 = .err .pruned := by
  decide

-- pre-confirmed blocks on the head, and on the block below the head (base = head - 1)
example :
    let n := run cfgRepaired Node.init [.store blkE, .store blkB]
    let pre : List Block := [blkB, blkE, blkB]
    (queryPre cfgRepaired n fB 0 sentinel none 1 0 1 pre).2 = .ok [⟨1, 0, 0, ⟨11, [7]⟩⟩] ⟨2, 0⟩ ∧
    collectPre cfgRepaired fB 0 sentinel 1 0 1 pre 10 n none = some (naive fB (n.chain ++ pre) 0 4) ∧
    collectPre cfgRepaired fB sentinel sentinel 1 0 1 pre 10 n none = some (naive fB (n.chain ++ pre) 4 4) ∧
    collectPre cfgRepaired fB 0 sentinel 1 0 0 pre 10 n none = some (naive fB (n.chain.take 1 ++ pre) 0 3) ∧
    naive fB (n.chain.take 1 ++ pre) 0 3 = [⟨1, 0, 0, ⟨11, [7]⟩⟩, ⟨3, 0, 0, ⟨11, [7]⟩⟩] := by
  decide

end Juno.C09.Props
