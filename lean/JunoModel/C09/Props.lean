import JunoModel.C09.ProofsIndex
import JunoModel.C09.ProofsSpec
import JunoModel.C09.ProofsPre
import JunoModel.C09.ProofsSound
/-!
C09 — property theorems (statements only; helper lemmas are in `Proofs*.lean`).

Reading guide. `Node` is the event index of a juno node next to its canonical chain; `run cfg
Node.init ops` is the node after a history of store / revert / snapshot write / restart / query.
`cfg.W` is the window size (8192 in the code), `cfg.cap` the LRU capacity (16), and the three
`fix…` flags say which of the repairs in proposed-fixes/C09-*.diff are in the tree (all `false` for
the pinned commit). `naive f chain lo hi` is the specification of a query: scan every block.
`collect … fuel n none` follows continuation tokens from the first page to the empty token.
-/
namespace Juno.C09.Props
open Juno.C09

/-! ## Filter semantics -/

/-- Filter semantics of `MatchesEventKeys`: the event has at least as many keys as the filter has
positions and every position is unconstrained or holds one of its alternatives. (juno requires the
length also when the trailing positions are unconstrained; see notes/C09.md.) -/
theorem matchesKeys_spec (fk : List (List Nat)) (ek : List Nat) :
    matchesKeys fk ek = true ↔
      ∃ h : fk.length ≤ ek.length, ∀ i (hi : i < fk.length), fk[i] = [] ∨ ek[i]'(by omega) ∈ fk[i] := by
  unfold matchesKeys
  by_cases h : ek.length < fk.length
  · simp [h]; intro h'; omega
  · simp only [h, if_false]
    have h' : fk.length ≤ ek.length := by omega
    rw [matchKeysGo_spec fk ek h']
    exact ⟨fun x => ⟨h', x⟩, fun ⟨_, x⟩ => x⟩

/-! ## The specification -/

/-- What the naive scan returns: exactly the events `chain[block].txs[tx][idx]` with `block` in
the range that match the filter — each carrying its block / transaction / event position. -/
theorem naive_spec (f : Filter) (chain : List Block) (lo hi : Nat) (e : Emitted) :
    e ∈ naive f chain lo hi ↔ lo ≤ e.block ∧ e.block ≤ hi ∧ ∃ blk tx, chain[e.block]? = some blk ∧
      blk.txs[e.tx]? = some tx ∧ tx[e.idx]? = some e.ev ∧ «matches» f e.ev = true :=
  naive_mem_iff f chain lo hi e

/-- … in chain order (block, then transaction, then event index, strictly increasing: in
particular no event twice). -/
theorem naive_in_chain_order (f : Filter) (chain : List Block) (lo hi : Nat) :
    (naive f chain lo hi).Pairwise Emitted.lt :=
  naive_sorted f chain lo hi

/-! ## The index has no false negatives -/

/-- What a query needs from the index ("no false negatives"): for every window that holds a block
of the chain, the structure the iterator will consult (the running filter for its own window,
otherwise a cache entry or the persisted window) exists and has, for every block of the window,
all items of the block's header bloom; and header blooms cover the events of their blocks. -/
def NoFalseNeg (cfg : Cfg) (n : Node) : Prop :=
  ChainWF n.chain ∧ Servable cfg n (n.chain.length - 1) ∧ CacheGood cfg n n.cache ∧ n.floor ≤ n.chain.length - 1

/-- `index_no_false_neg` for every variant of the code, with the hypotheses that the code as it
is needs (`HistOK`: besides well-formed stored blocks, `RevertGuard` at every revert). -/
theorem index_no_false_neg_guarded (cfg : Cfg) (hW : 1 ≤ cfg.W) (ops : List Op)
    (hok : HistOK cfg Node.init ops) (hne : (run cfg Node.init ops).chain ≠ []) :
    NoFalseNeg cfg (run cfg Node.init ops) := by
  have hinv := run_inv cfg hW ops Node.init (inv_init cfg hW) hok
  have hlen : 1 ≤ (run cfg Node.init ops).chain.length := by
    cases hc : (run cfg Node.init ops).chain with
    | nil => exact absurd hc hne
    | cons _ _ => simp
  have := inv_servable cfg hW _ hinv ((run cfg Node.init ops).chain.length - 1) (by omega)
  exact ⟨hinv.wf, this.1, this.2, by rcases hinv.floor_lt with h | h <;> omega⟩

/-- The repaired code: all three repairs in. -/
def Repaired (cfg : Cfg) : Prop := cfg.fixCache = true ∧ cfg.fixSnap = true ∧ cfg.fixPersist = true

/-- The only hypotheses on a history of the repaired code: every stored block's header bloom
covers the block's events (what `core.EventsBloom` computes: the superset assumption on bloom
filters, checked on the real blooms by the harness), heights fit `uint64`, and a pruning node is
not reorganised below its retention floor. -/
def StoresOK (cfg : Cfg) : Node → List Op → Prop
  | _, [] => True
  | n, .store blk :: ops =>
      ((∀ it ∈ blk.items, it ∈ blk.bloom) ∧ n.chain.length + 1 < 2 ^ 64) ∧ StoresOK cfg (step cfg n (.store blk)) ops
  | n, .revert :: ops => RevertAboveFloor n ∧ StoresOK cfg (step cfg n .revert) ops
  | n, op :: ops => StoresOK cfg (step cfg n op) ops

/-- Executable form of `StoresOK` (for the concrete histories below). -/
def storesOKb (cfg : Cfg) : Node → List Op → Bool
  | _, [] => true
  | n, .store blk :: ops =>
      (blk.items.all (fun it => blk.bloom.contains it) && decide (n.chain.length + 1 < 2 ^ 64)) &&
        storesOKb cfg (step cfg n (.store blk)) ops
  | n, .revert :: ops =>
      (decide (n.floor = 0) || decide (n.floor + 1 < n.chain.length)) && storesOKb cfg (step cfg n .revert) ops
  | n, .snap :: ops => storesOKb cfg (step cfg n .snap) ops
  | n, .restart :: ops => storesOKb cfg (step cfg n .restart) ops
  | n, .query f a b t c l :: ops => storesOKb cfg (step cfg n (.query f a b t c l)) ops
  | n, .prune k :: ops => storesOKb cfg (step cfg n (.prune k)) ops

theorem storesOK_of_b (cfg : Cfg) (ops : List Op) : ∀ n, storesOKb cfg n ops = true → StoresOK cfg n ops := by
  induction ops with
  | nil => intro n _; trivial
  | cons op ops ih =>
    intro n h
    cases op with
    | store blk =>
      simp only [storesOKb, Bool.and_eq_true, List.all_eq_true, decide_eq_true_eq, List.contains_iff_mem] at h
      exact ⟨⟨h.1.1, h.1.2⟩, ih _ h.2⟩
    | revert =>
      simp only [storesOKb, Bool.and_eq_true, Bool.or_eq_true, decide_eq_true_eq] at h
      exact ⟨h.1, ih _ h.2⟩
    | snap => exact ih _ h
    | restart => exact ih _ h
    | query f a b t c l => exact ih _ h
    | prune k => exact ih _ h

theorem histOK_of_repaired (cfg : Cfg) (hr : Repaired cfg) (ops : List Op) :
    ∀ n, StoresOK cfg n ops → HistOK cfg n ops := by
  induction ops with
  | nil => intro n _; trivial
  | cons op ops ih =>
    intro n h
    cases op with
    | store blk => exact ⟨h.1, ih _ h.2⟩
    | revert => exact ⟨⟨⟨Or.inl hr.1, Or.inl hr.2.1, Or.inl hr.2.2⟩, h.1⟩, ih _ h.2⟩
    | snap => exact ⟨trivial, ih _ h⟩
    | restart => exact ⟨trivial, ih _ h⟩
    | query f a b t c l => exact ⟨trivial, ih _ h⟩
    | prune k => exact ⟨trivial, ih _ h⟩

/-- **index_no_false_neg** (full strength, for the repaired code): after EVERY history of store /
revert (any depth, across window boundaries, after queries warmed the cache) / snapshot write /
graceful and ungraceful restart / query, the index has no false negatives. For every window size. -/
theorem index_no_false_neg (cfg : Cfg) (hW : 1 ≤ cfg.W) (hr : Repaired cfg) (ops : List Op)
    (hok : StoresOK cfg Node.init ops) (hne : (run cfg Node.init ops).chain ≠ []) :
    NoFalseNeg cfg (run cfg Node.init ops) :=
  index_no_false_neg_guarded cfg hW ops (histOK_of_repaired cfg hr ops _ hok) hne

/-- No operation of an admissible history of the repaired code fails: `Store` always finds the
block inside the running window, `RevertHead` always finds the window it re-opens, the
initialiser always succeeds. -/
theorem ops_do_not_fail (cfg : Cfg) (hW : 1 ≤ cfg.W) (hr : Repaired cfg) (ops : List Op)
    (hok : StoresOK cfg Node.init ops) :
    let n := run cfg Node.init ops
    (∀ blk, (∀ it ∈ blk.items, it ∈ blk.bloom) → n.chain.length + 1 < 2 ^ 64 → (store cfg n blk).2 = none) ∧
    (n.chain ≠ [] → RevertAboveFloor n → (revert cfg n).2 = none) ∧
    (restart cfg n).2 = none := by
  intro n
  have hinv := run_inv cfg hW ops Node.init (inv_init cfg hW) (histOK_of_repaired cfg hr ops _ hok)
  have := step_no_error cfg hW n hinv
  exact ⟨fun blk h1 h2 => this.1 blk ⟨h1, h2⟩,
    fun hne hfl => this.2.1 hne ⟨⟨Or.inl hr.1, Or.inl hr.2.1, Or.inl hr.2.2⟩, hfl⟩, this.2.2⟩

/-
The code BEFORE the three repairs (commits 6609698, 84d7a3b, 702b167; all `fix…` flags false).
The full-strength statement was false for it — the three witnesses below are kept as regression
documentation (the harness probes the real code and reports the violation again, under its own
signature, should one of the defects return):

  theorem index_no_false_neg_asis (cfg) (hW : 1 ≤ cfg.W) (ops) (hok : StoresOK cfg Node.init ops) … :
      NoFalseNeg cfg (run cfg Node.init ops)

What held for that code: `index_no_false_neg_before_repairs` — the invariant along every history in
which each revert happens in a state where (a) the cache holds no entry for a window the revert
re-opens, (b) there is no persisted snapshot at or above the reverted block, (c) the revert does not
re-open a completed window (`RevertGuard`); in particular along every reorg-free history.
-/
theorem index_no_false_neg_before_repairs (W cap : Nat) (hW : 1 ≤ W) (ops : List Op)
    (hok : HistOK ⟨W, cap, false, false, false⟩ Node.init ops)
    (hne : (run ⟨W, cap, false, false, false⟩ Node.init ops).chain ≠ []) :
    NoFalseNeg ⟨W, cap, false, false, false⟩ (run ⟨W, cap, false, false, false⟩ Node.init ops) :=
  index_no_false_neg_guarded _ hW ops hok hne

/-- Reorg-free histories of the code as it is satisfy the hypotheses of the partial theorem. -/
theorem histOK_of_no_revert (cfg : Cfg) (ops : List Op) (hnr : ∀ op ∈ ops, op matches .revert → False) :
    ∀ n, StoresOK cfg n ops → HistOK cfg n ops := by
  induction ops with
  | nil => intro n _; trivial
  | cons op ops ih =>
    intro n h
    have ih' := ih (fun o ho => hnr o (List.mem_cons_of_mem _ ho))
    cases op with
    | store blk => exact ⟨h.1, ih' _ h.2⟩
    | revert => exact (hnr .revert (by simp) rfl).elim
    | snap => exact ⟨trivial, ih' _ h⟩
    | restart => exact ⟨trivial, ih' _ h⟩
    | query f a b t c l => exact ⟨trivial, ih' _ h⟩
    | prune k => exact ⟨trivial, ih' _ h⟩

/-! ## Paging -/

/-- **paging_complete**: on a node whose index has no false negatives, for every filter, range,
chunk size ≥ 1 and scan limit (0 = none), following the continuation tokens to the empty token
returns exactly the naive scan of the canonical chain over the range (cut at the head), in order,
with the block / transaction / event-index tags of the naive scan. `fuel` only bounds the number of
pages; any value above the stated bound gives the same answer. -/
theorem paging_complete (cfg : Cfg) (hW : 1 ≤ cfg.W) (n : Node) (f : Filter) (fromB toB chunk limit : Nat)
    (hchunk : 1 ≤ chunk) (hne : n.chain ≠ []) (hnf : NoFalseNeg cfg n) (hfl : n.floor ≤ fromB) (fuel : Nat)
    (hfuel : (naive f n.chain fromB (min toB (n.chain.length - 1))).length + n.chain.length < fuel) :
    collect cfg f fromB toB chunk limit fuel n none = some (naive f n.chain fromB (min toB (n.chain.length - 1))) := by
  obtain ⟨hwf, hs, hc, _⟩ := hnf
  have hlen : n.chain.length = (n.chain.length - 1) + 1 := by
    cases hc' : n.chain with
    | nil => exact absurd hc' hne
    | cons _ _ => simp
  have := collect_spec cfg f fromB toB chunk limit (n.chain.length - 1) hW hchunk fuel n none hlen hwf
    (hs.mono (Nat.min_le_right _ _)) hc hfl (Or.inl rfl)
  simp only [startOf, skipOf, wantN_zero] at this
  rw [naive_eq]
  apply this
  rw [naive_eq] at hfuel
  have : min toB (n.chain.length - 1) + 1 - fromB ≤ n.chain.length := by
    have := Nat.min_le_right toB (n.chain.length - 1); omega
  omega

/-- One page, from the first page (`tok = none`) or from a token the previous page returned
(`Valid`): it does not fail; it returns at most `chunk` events; either its token is empty and it
returned everything that was left, or the token moves strictly forward (lexicographically in
(block, events processed)), it returned an event or the token's block is later (**token_progress**),
and what it returned followed by what is left from the token is what was left before. -/
def Valid (f : Filter) (n : Node) (fromB : Nat) (tok : Option Token) : Prop :=
  skipOf tok = 0 ∨ selFrom f n.chain (startOf fromB tok) (skipOf tok) ≠ []

theorem token_progress (cfg : Cfg) (hW : 1 ≤ cfg.W) (n : Node) (f : Filter) (fromB toB chunk limit : Nat)
    (tok : Option Token) (hchunk : 1 ≤ chunk) (hne : n.chain ≠ []) (hnf : NoFalseNeg cfg n)
    (hfl : n.floor ≤ startOf fromB tok) (hv : Valid f n fromB tok) :
    ∃ evs t, (query cfg n f fromB toB tok chunk limit).2 = .ok evs t ∧ evs.length ≤ chunk ∧
      NoFalseNeg cfg (query cfg n f fromB toB tok chunk limit).1 ∧
      let hi := min toB (n.chain.length - 1)
      let left := fun (b p : Nat) => wantN f n.chain b (hi + 1 - b) p
      ((t = Token.none ∧ evs = left (startOf fromB tok) (skipOf tok)) ∨
       (t.isEmpty = false ∧ evs ++ left t.b t.p = left (startOf fromB tok) (skipOf tok) ∧
        Valid f n fromB (some t) ∧ t.b ≤ hi ∧
        (startOf fromB tok < t.b ∨ (startOf fromB tok = t.b ∧ skipOf tok < t.p)) ∧
        (evs ≠ [] ∨ startOf fromB tok < t.b))) := by
  obtain ⟨hwf, hs, hc, hfh⟩ := hnf
  have hlen : n.chain.length = (n.chain.length - 1) + 1 := by
    cases hc' : n.chain with
    | nil => exact absurd hc' hne
    | cons _ _ => simp
  obtain ⟨hpost, hcg⟩ := events_spec cfg n f fromB toB tok chunk limit (n.chain.length - 1) hW hlen hwf
    (hs.mono (Nat.min_le_right _ _)) hc hfl hv
  simp only [query]
  revert hpost
  cases hr : (events cfg n f fromB toB tok chunk limit).1 with
  | err e => simp [WinPost]
  | ok evs t =>
    simp only [WinPost, List.nil_append, List.length_nil]
    intro hpost
    refine ⟨evs, t, rfl, ?_, ⟨hwf, ⟨hs.running, hs.persisted⟩, hcg, hfh⟩, ?_⟩
    · rcases hpost with ⟨_, _, h⟩ | ⟨_, _, _, _, _, _, h, _⟩ <;> exact h
    · rcases hpost with ⟨ht, hA, _⟩ | ⟨h1, h2, X, hX, hXw, hv', _, hp⟩
      · exact Or.inl ⟨ht, hA⟩
      · have hprog := hp (by omega)
        subst hX
        have hlex : startOf fromB tok < t.b ∨ (startOf fromB tok = t.b ∧ skipOf tok < t.p) := by
          rcases hprog with h | h
          · exact Or.inl h
          · rcases Nat.lt_or_ge (startOf fromB tok) t.b with h' | h'
            · exact Or.inl h'
            · exact Or.inr ⟨by omega, (h (by omega)).2⟩
        refine Or.inr ⟨?_, hXw, hv', h2, hlex, ?_⟩
        · simp only [Token.isEmpty, Bool.and_eq_false_iff, beq_eq_false_iff_ne]
          rcases hlex with h | h
          · left; omega
          · right; omega
        · rcases hprog with h | h
          · exact Or.inr h
          · exact Or.inl (h (by omega)).1

/-- **paging_complete with pre-confirmed blocks**: when the query range goes above the head and
the node holds pre-confirmed blocks `pre` (oldest first, on top of the head, each with a header
bloom covering its events), following the tokens returns the naive scan of the canonical chain
followed by the pre-confirmed blocks; a lower bound `pre_confirmed` (the sentinel) means the newest
pre-confirmed block (`loOf`), an upper bound `pre_confirmed` means all of them. -/
theorem paging_complete_preconfirmed (cfg : Cfg) (hW : 1 ≤ cfg.W) (n : Node) (f : Filter)
    (fromB toB chunk limit : Nat) (hchunk : 1 ≤ chunk) (hne : n.chain ≠ []) (hnf : NoFalseNeg cfg n)
    (hfl : n.floor ≤ fromB)
    (pre : List Block) (hpre : pre ≠ []) (hpwf : ∀ blk ∈ pre, ∀ it ∈ blk.items, it ∈ blk.bloom)
    (hfit : n.chain.length - 1 + pre.length < sentinel) (fuel : Nat)
    (hfuel : (naive f (n.chain ++ pre) (loOf fromB none (n.chain.length - 1 + pre.length))
        (min toB (n.chain.length - 1 + pre.length))).length + (n.chain.length + pre.length) < fuel) :
    collectPre cfg f fromB toB chunk limit (n.chain.length - 1) pre fuel n none =
      some (naive f (n.chain ++ pre) (loOf fromB none (n.chain.length - 1 + pre.length))
        (min toB (n.chain.length - 1 + pre.length))) := by
  obtain ⟨hwf, hs, hc, hfh⟩ := hnf
  have hlen : n.chain.length = (n.chain.length - 1) + 1 := by
    cases hc' : n.chain with
    | nil => exact absurd hc' hne
    | cons _ _ => simp
  have := collectPre_spec cfg f fromB toB chunk limit (n.chain.length - 1) pre hW hchunk hpre hfit hpwf fuel n none
    hlen hwf hs hc hfl hfh (Or.inl rfl)
  simp only [skipOf, wantN_zero] at this
  rw [naive_eq] at hfuel ⊢
  generalize (loOf fromB none (n.chain.length - 1 + pre.length)) = lo at this hfuel ⊢
  have h1 := Nat.min_le_right toB (n.chain.length - 1 + pre.length)
  generalize min toB (n.chain.length - 1 + pre.length) = hi at this hfuel h1 ⊢
  apply this
  generalize (List.flatMap (blkSel f (n.chain ++ pre)) (List.range' lo (hi + 1 - lo))).length = k at hfuel ⊢
  omega

/-- **page_sound** — no hypothesis on the node at all (any index state, any cache content, any
retention floor) and any token, also one the server never issued: a page that does not fail is a
sub-list of the naive scan from the token's block (or the range start) to the range end. With
`naive_spec` / `naive_in_chain_order`: every returned event is a matching event of the canonical
chain in the range with its true tags, in chain order, none twice. What a defective index or a
forged token can cost is completeness, never correctness of what is returned. -/
theorem page_sound (cfg : Cfg) (hW : 1 ≤ cfg.W) (n : Node) (f : Filter) (fromB toB chunk limit : Nat)
    (tok : Option Token) (evs : List Emitted) (t : Token)
    (h : (query cfg n f fromB toB tok chunk limit).2 = .ok evs t) :
    evs.Sublist (naive f n.chain (startOf fromB tok) (min toB (n.chain.length - 1))) := by
  have := events_sound cfg n f fromB toB tok chunk limit hW
  simp only [query] at h
  rw [h] at this
  obtain ⟨Y, hY, hYs⟩ := this
  simpa [hY] using hYs

/-! ## The property, end to end -/

/-- **C09 for the repaired code**: after every history, every query paged to the end returns
exactly the matching events of the canonical chain in the range, in chain order. -/
theorem events_exact (cfg : Cfg) (hW : 1 ≤ cfg.W) (hr : Repaired cfg) (ops : List Op)
    (hok : StoresOK cfg Node.init ops) (hne : (run cfg Node.init ops).chain ≠ [])
    (f : Filter) (fromB toB chunk limit : Nat) (hchunk : 1 ≤ chunk) :
    let n := run cfg Node.init ops
    n.floor ≤ fromB →
    ∀ fuel, (naive f n.chain fromB (min toB (n.chain.length - 1))).length + n.chain.length < fuel →
      collect cfg f fromB toB chunk limit fuel n none = some (naive f n.chain fromB (min toB (n.chain.length - 1))) := by
  intro n hfl fuel hfuel
  exact paging_complete cfg hW n f fromB toB chunk limit hchunk hne (index_no_false_neg cfg hW hr ops hok hne) hfl fuel hfuel

/-- **Pruned ranges are refused, never answered in part**: a query (or a token) that starts at a
canonical block below the retention floor fails with `pruned` and changes nothing. -/
theorem pruned_start_rejected (cfg : Cfg) (n : Node) (f : Filter) (fromB toB chunk limit : Nat) (tok : Option Token)
    (h1 : startOf fromB tok < n.chain.length) (h2 : startOf fromB tok < n.floor) :
    query cfg n f fromB toB tok chunk limit = (n, .err .pruned) := by
  simp only [query, events_eq]
  cases hl : n.chain.length with
  | zero => omega
  | succ latest =>
    have : (decide (startOf fromB tok ≤ latest) && decide (startOf fromB tok < n.floor)) = true := by
      simp only [Bool.and_eq_true, decide_eq_true_eq]; omega
    simp [this]

/-! ## The code as it is: three witnesses (window size 3, replayed at 8192 on the real code) -/

def cfgAsIs : Cfg := ⟨3, 2, false, false, false⟩
def blkE : Block := ⟨[], []⟩
def blkB : Block := ⟨[[⟨11, [7]⟩]], [.addr 11, .key 0 7]⟩
def fB : Filter := ⟨[11], []⟩

/-- §7 L2 — the cache is not purged on revert: blocks 0..3; a query caches window [0,2]; revert 2;
block 2' carries an event of address 11, then 3'; the query for address 11 over [0,3] returns
nothing, although block 2' has a matching event. -/
theorem asis_false_negative_stale_cache :
    let ops : List Op := [.store blkE, .store blkE, .store blkE, .store blkE, .query fB 0 3 none 5 0,
      .revert, .revert, .store blkB, .store blkE]
    storesOKb cfgAsIs Node.init ops = true ∧
    (query cfgAsIs (run cfgAsIs Node.init ops) fB 0 3 none 5 0).2 = .ok [] Token.none ∧
    naive fB (run cfgAsIs Node.init ops).chain 0 3 = [⟨2, 0, 0, ⟨11, [7]⟩⟩] := by
  decide

/-- §7 L3 — the snapshot is never invalidated: 2 blocks, snapshot + restart, revert 1, block 1'
carries the event, ungraceful restart: the initialiser trusts the snapshot (`next == head + 1`). -/
theorem asis_false_negative_stale_snapshot :
    let ops : List Op := [.store blkE, .store blkE, .snap, .restart, .revert, .store blkB, .restart]
    storesOKb cfgAsIs Node.init ops = true ∧
    (query cfgAsIs (run cfgAsIs Node.init ops) fB 0 1 none 5 0).2 = .ok [] Token.none ∧
    naive fB (run cfgAsIs Node.init ops).chain 0 1 = [⟨1, 0, 0, ⟨11, [7]⟩⟩] := by
  decide

/-- L15 — `onReorg` re-opens window [0,2] but leaves its persisted copy: blocks 0..3, revert 3,
block 1' carries the event, ungraceful restart: `rebuildRunningEventFilter` takes the stale
persisted window as complete; the query misses block 1', and storing block 2 then fails. -/
theorem asis_false_negative_stale_persisted :
    let ops : List Op := [.store blkE, .store blkE, .store blkE, .store blkE, .revert, .revert, .revert,
      .store blkB, .restart]
    storesOKb cfgAsIs Node.init ops = true ∧
    (query cfgAsIs (run cfgAsIs Node.init ops) fB 0 1 none 5 0).2 = .ok [] Token.none ∧
    naive fB (run cfgAsIs Node.init ops).chain 0 1 = [⟨1, 0, 0, ⟨11, [7]⟩⟩] ∧
    (store cfgAsIs (run cfgAsIs Node.init ops) blkE).2 = some .range := by
  decide

/-! ## Non-vacuity -/

def cfgRepaired : Cfg := ⟨3, 2, true, true, true⟩

-- the three histories above are admissible for the repaired code and there the queries are exact
example :
    let ops : List Op := [.store blkE, .store blkE, .store blkE, .store blkE, .query fB 0 3 none 5 0,
      .revert, .revert, .store blkB, .store blkE]
    storesOKb cfgRepaired Node.init ops = true ∧ (run cfgRepaired Node.init ops).chain ≠ [] ∧
    (query cfgRepaired (run cfgRepaired Node.init ops) fB 0 3 none 5 0).2 = .ok [⟨2, 0, 0, ⟨11, [7]⟩⟩] Token.none := by
  decide

example :
    let ops : List Op := [.store blkE, .store blkE, .store blkE, .store blkE, .revert, .revert, .revert,
      .store blkB, .restart]
    (query cfgRepaired (run cfgRepaired Node.init ops) fB 0 1 none 5 0).2 = .ok [⟨1, 0, 0, ⟨11, [7]⟩⟩] Token.none ∧
    (store cfgRepaired (run cfgRepaired Node.init ops) blkE).2 = none := by
  decide

-- paging with chunk size 1 and scan limit 1 over a chain with two matching events in one block
example :
    let ops : List Op := [.store ⟨[[⟨11, []⟩, ⟨12, []⟩, ⟨11, []⟩]], [.addr 11, .addr 12]⟩, .store blkE, .store blkB]
    let n := run cfgRepaired Node.init ops
    (query cfgRepaired n fB 0 2 none 1 1).2 = .ok [⟨0, 0, 0, ⟨11, []⟩⟩] ⟨0, 2⟩ ∧
    (query cfgRepaired n fB 0 2 (some ⟨0, 2⟩) 1 1).2 = .ok [⟨0, 0, 2, ⟨11, []⟩⟩] ⟨2, 0⟩ ∧
    collect cfgRepaired fB 0 2 1 1 10 n none = some (naive fB n.chain 0 2) := by
  decide

-- a pruning node: 7 blocks, window size 3, the floor moves to block 4 (window [0,2] is dropped), restart with
-- the pruning-aware initialiser; queries from the floor are exact, queries from below it are refused
example :
    let blkA : Block := ⟨[[⟨11, [7]⟩]], [.addr 11, .key 0 7]⟩
    let ops : List Op := [.store blkA, .store blkE, .store blkE, .store blkE, .store blkA, .store blkA, .store blkE,
      .snap, .prune 4, .revert, .store blkA, .restart]
    let n := run cfgRepaired Node.init ops
    storesOKb cfgRepaired Node.init ops = true ∧ n.floor = 4 ∧ n.persisted.map (·.1) = [3] ∧
    (query cfgRepaired n fB 4 9 none 5 0).2 = .ok [⟨4, 0, 0, ⟨11, [7]⟩⟩, ⟨5, 0, 0, ⟨11, [7]⟩⟩, ⟨6, 0, 0, ⟨11, [7]⟩⟩] Token.none ∧
    (query cfgRepaired n fB 3 9 none 5 0).2 = .err .pruned ∧
    (query cfgRepaired n fB 9 9 (some ⟨0, 1⟩) 5 0).2 = .err .pruned := by
  decide

-- a query into the pre-confirmed blocks, paged with chunk size 1
example :
    let n := run cfgRepaired Node.init [.store blkE, .store blkB]
    let pre : List Block := [blkB, blkE, blkB]
    (queryPre cfgRepaired n fB 0 sentinel none 1 0 1 pre).2 = .ok [⟨1, 0, 0, ⟨11, [7]⟩⟩] ⟨2, 0⟩ ∧
    collectPre cfgRepaired fB 0 sentinel 1 0 1 pre 10 n none = some (naive fB (n.chain ++ pre) 0 4) ∧
    collectPre cfgRepaired fB sentinel sentinel 1 0 1 pre 10 n none = some (naive fB (n.chain ++ pre) 4 4) ∧
    naive fB (n.chain ++ pre) 0 4 = [⟨1, 0, 0, ⟨11, [7]⟩⟩, ⟨2, 0, 0, ⟨11, [7]⟩⟩, ⟨4, 0, 0, ⟨11, [7]⟩⟩] := by
  decide

end Juno.C09.Props
