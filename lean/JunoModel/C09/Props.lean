import JunoModel.C09.ProofsHist
import JunoModel.C09.ProofsSpec
import JunoModel.C09.ProofsPre
import JunoModel.C09.ProofsSound
/-!
C09 — property theorems about the code in /repo (statements only; lemmas and plumbing are in
`Proofs*.lean`; theorems about the code BEFORE the round-1 repairs are in `Regression.lean`).

Reading guide. `Node` is the event index of a juno node next to its canonical chain; `run cfg
Node.init ops` is the node after a history of store / revert / snapshot write / restart / query /
prune and of the faults: a Store or RevertHead whose commit fails, a restart whose lazy
initialisation hits a transient error, a restart that dies inside the initialiser. `cfg.W` is the
window size (8192 in the code), `cfg.cap` the LRU capacity (16); `Repaired cfg` = the repairs
6609698, 84d7a3b, 702b167 and c8ac4a7 are in (they are: the harness probes the real code every run).
`apiEvents` / `apiStore` / `apiRevert` / `apiSnap` are the node's operations: they first bring the
running filter up if it is not initialised (`wake` = `ensureInit`), then act (`query`, `store`, …:
the operation on a node whose initialisation state is settled). `naive f chain lo hi` is the
specification of a query: scan every block. `collect … fuel n none` follows continuation tokens from
the first page to the empty token.

Clauses of the property text and where they are: "precisely the matching events … in chain order …
tagged with block, transaction and position" — `naive_spec`, `naive_in_chain_order`, `events_exact`
(positions; the block HASH and transaction HASH tags are checked by the harness only, `checkTag`);
"plus pre-confirmed blocks when asked" — `paging_complete_preconfirmed`, `token_progress_preconfirmed`, `events_exact_preconfirmed`,
`preconfirmed_ignored_below_head`; "same list for every chunk size and scan limit" — ∀ chunk ≥ 1,
limit in `events_exact` (chunk ≥ 1 is what `validate:"min=1"` guarantees at the RPC boundary; the
harness sends requests through the real jsonrpc server and validator); "not omitted because of the
bloom index, its cache, restarts, reorgs" — `index_no_false_neg` (bloom filters themselves: superset
ASSUMPTION in `StoresOK`); crash points — `index_no_false_neg` ranges over failed commits, failed
initialisations and a crash after every step of the initialiser; a crash inside `PruneUpto` leaves a
`prune k'` state (every batch carries the number-keyed deletes: harness tie), a crash inside `Store`
/ `RevertHead` is a failed commit (one batch).
-/
namespace Juno.C09.Props
open Juno.C09

/-! ## Filter semantics and the specification -/

/-- `MatchesEventKeys` in declarative form: the event has at least as many keys as the filter has
positions and every position is unconstrained or holds one of its alternatives. The length
requirement for TRAILING unconstrained positions is juno's reading of the JSON-RPC specification
(whose text is not in the repository and could not be compared): listed under `assumptions`. -/
theorem matchesKeys_spec (fk : List (List Nat)) (ek : List Nat) :
    matchesKeys fk ek = true ↔
      ∃ h : fk.length ≤ ek.length, ∀ i (hi : i < fk.length), fk[i] = [] ∨ ek[i]'(by omega) ∈ fk[i] := by
  unfold matchesKeys
  by_cases h : ek.length < fk.length
  · simp [h]; intro h'; omega
  · simp only [h, if_false]
    have h' : fk.length ≤ ek.length := by omega
    rw [matchKeysGo_spec fk ek h']
    exact ⟨fun x => ⟨h', x⟩, fun ⟨_, x⟩ => x⟩

/-- What the naive scan returns: exactly the events `chain[block].txs[tx][idx]` with `block` in
the range that match the filter — each carrying its block / transaction / event position. -/
theorem naive_spec (f : Filter) (chain : List Block) (lo hi : Nat) (e : Emitted) :
    e ∈ naive f chain lo hi ↔ lo ≤ e.block ∧ e.block ≤ hi ∧ ∃ blk tx, chain[e.block]? = some blk ∧
      blk.txs[e.tx]? = some tx ∧ tx[e.idx]? = some e.ev ∧ «matches» f e.ev = true :=
  naive_mem_iff f chain lo hi e

/-- … in chain order (block, then transaction, then event index, strictly increasing: in
particular no event twice). -/
theorem naive_in_chain_order (f : Filter) (chain : List Block) (lo hi : Nat) :
    (naive f chain lo hi).Pairwise Emitted.lt :=
  naive_sorted f chain lo hi

/-! ## The index has no false negatives — over histories with faults and crash points -/

/-- **index_no_false_neg.** After EVERY history of store / revert (any depth, across window
boundaries, after queries warmed the cache) / snapshot write / graceful and ungraceful restart /
query / prune / failed Store commit / failed RevertHead commit / failed lazy initialisation / crash
after any number of steps inside the initialiser: the database part of the invariant holds, and at
the next access (`wake`: the filter is initialised on demand, a failed attempt is repeated) the
index has no false negatives. For every window size. -/
theorem index_no_false_neg (cfg : Cfg) (hW : 1 ≤ cfg.W) (hr : Repaired cfg) (ops : List Op)
    (hok : StoresOK cfg Node.init ops) :
    let n := run cfg Node.init ops
    DBInv cfg n ∧ (n.chain ≠ [] → NoFalseNeg cfg (wake cfg n)) := by
  intro n
  have hw := weak_after_history cfg hW ops (histOK_of_repaired cfg hr ops _ hok)
  refine ⟨hw.1, fun h2 => noFalseNeg_of_inv cfg hW _ (wake_inv cfg hW hr.2.2.2 n hw) ?_⟩
  rw [(wake_fields cfg n).1]; exact h2

/-- No operation fails along such histories — also right after a failed initialisation: every
Store / RevertHead / snapshot write / restart succeeds (the only failing steps are the injected ones). -/
theorem ops_do_not_fail (cfg : Cfg) (hW : 1 ≤ cfg.W) (hr : Repaired cfg) (ops : List Op)
    (hok : StoresOK cfg Node.init ops) :
    let n := run cfg Node.init ops
    (∀ blk, (∀ it ∈ blk.items, it ∈ blk.bloom) → n.chain.length + 1 < 2 ^ 64 → (apiStore cfg n blk).2 = none) ∧
    (n.chain ≠ [] → RevertAboveFloor n → (apiRevert cfg n).2 = none) ∧
    (restart cfg n).2 = none ∧ (apiSnap cfg n).2 = none := by
  intro n
  have hw := weak_after_history cfg hW ops (histOK_of_repaired cfg hr ops _ hok)
  have hi := wake_inv cfg hW hr.2.2.2 n hw
  have := step_no_error cfg hW _ hi
  obtain ⟨hc, hf, _, _, _, _⟩ := wake_fields cfg n
  refine ⟨fun blk h1 h2 => this.1 blk ⟨h1, by rw [hc]; exact h2⟩,
    fun hne hfl => this.2.1 (by rw [hc]; exact hne) ⟨⟨Or.inl hr.1, Or.inl hr.2.1, Or.inl hr.2.2.1⟩, ?_⟩,
    (restart_inv' cfg hW n hw.1).1, this.2.2.2⟩
  unfold RevertAboveFloor at *; rw [hc, hf]; exact hfl

/-- After a failed initialisation (a transient read error, a crash) the next access initialises the
filter (c8ac4a7: the failure is not remembered) and — the database being sound — succeeds. -/
theorem failed_init_retried_on_next_access (cfg : Cfg) (hW : 1 ≤ cfg.W) (hr : Repaired cfg) (ops : List Op)
    (hok : StoresOK cfg Node.init ops) :
    (wake cfg (run cfg Node.init ops)).initErr = none :=
  (wake_inv cfg hW hr.2.2.2 _ (weak_after_history cfg hW ops (histOK_of_repaired cfg hr ops _ hok))).live

/-- If the filter cannot be initialised (the retry failed too), a query that needs the index fails
with that error: never a partial answer. -/
theorem uninitialised_filter_refuses (cfg : Cfg) (n : Node) (w : Nat) (cache : WinMap) (e : Err) (h : n.initErr = some e) :
    loadWindow cfg n cache w = .error e := by
  simp [loadWindow, h]

/-! ## Paging -/

/-- **paging_complete**: on a node whose index has no false negatives, for every filter, range,
chunk size ≥ 1 and scan limit (0 = none), following the continuation tokens to the empty token
returns exactly the naive scan of the canonical chain over the range (cut at the head), in order,
with the block / transaction / event-index tags of the naive scan. `fuel` only bounds the number of
pages; any value above the stated bound gives the same answer. -/
theorem paging_complete (cfg : Cfg) (hW : 1 ≤ cfg.W) (n : Node) (f : Filter) (fromB toB chunk limit : Nat)
    (hchunk : 1 ≤ chunk) (hne : n.chain ≠ []) (hnf : NoFalseNeg cfg n) (hfl : n.floor ≤ fromB) (fuel : Nat)
    (hfuel : (naive f n.chain fromB (min toB (n.chain.length - 1))).length + n.chain.length < fuel) :
    collect cfg f fromB toB chunk limit fuel n none = some (naive f n.chain fromB (min toB (n.chain.length - 1))) := by
  obtain ⟨hwf, hs, hc, _⟩ := hnf
  have hlen : n.chain.length = (n.chain.length - 1) + 1 := by
    cases hc' : n.chain with
    | nil => exact absurd hc' hne
    | cons _ _ => simp
  have := collect_spec cfg f fromB toB chunk limit (n.chain.length - 1) hW hchunk fuel n none hlen hwf
    (hs.mono (Nat.min_le_right _ _)) hc hfl (Or.inl rfl)
  simp only [startOf, skipOf, wantN_zero] at this
  rw [naive_eq]
  apply this
  rw [naive_eq] at hfuel
  have : min toB (n.chain.length - 1) + 1 - fromB ≤ n.chain.length := by
    have := Nat.min_le_right toB (n.chain.length - 1); omega
  omega

/-- One page, from the first page (`tok = none`) or from a token the previous page returned
(`Valid`): it does not fail; it returns at most `chunk` events; either its token is empty and it
returned everything that was left, or the token moves strictly forward (lexicographically in
(block, events processed)), it returned an event or the token's block is later (**token_progress**),
and what it returned followed by what is left from the token is what was left before. -/
def Valid (f : Filter) (n : Node) (fromB : Nat) (tok : Option Token) : Prop :=
  skipOf tok = 0 ∨ selFrom f n.chain (startOf fromB tok) (skipOf tok) ≠ []

theorem token_progress (cfg : Cfg) (hW : 1 ≤ cfg.W) (n : Node) (f : Filter) (fromB toB chunk limit : Nat)
    (tok : Option Token) (hchunk : 1 ≤ chunk) (hne : n.chain ≠ []) (hnf : NoFalseNeg cfg n)
    (hfl : n.floor ≤ startOf fromB tok) (hv : Valid f n fromB tok) :
    ∃ evs t, (apiEvents cfg n f fromB toB tok chunk limit).2 = .ok evs t ∧ evs.length ≤ chunk ∧
      NoFalseNeg cfg (apiEvents cfg n f fromB toB tok chunk limit).1 ∧
      let hi := min toB (n.chain.length - 1)
      let left := fun (b p : Nat) => wantN f n.chain b (hi + 1 - b) p
      ((t = Token.none ∧ evs = left (startOf fromB tok) (skipOf tok)) ∨
       (t.isEmpty = false ∧ evs ++ left t.b t.p = left (startOf fromB tok) (skipOf tok) ∧
        Valid f n fromB (some t) ∧ t.b ≤ hi ∧
        (startOf fromB tok < t.b ∨ (startOf fromB tok = t.b ∧ skipOf tok < t.p)) ∧
        (evs ≠ [] ∨ startOf fromB tok < t.b))) := by
  obtain ⟨hwf, hs, hc, hfh⟩ := hnf
  have hlen : n.chain.length = (n.chain.length - 1) + 1 := by
    cases hc' : n.chain with
    | nil => exact absurd hc' hne
    | cons _ _ => simp
  obtain ⟨hpost, hcg⟩ := events_spec cfg n f fromB toB tok chunk limit (n.chain.length - 1) hW hlen hwf
    (hs.mono (Nat.min_le_right _ _)) hc hfl hv
  simp only [apiEvents, wake_live cfg n hs.live, query]
  revert hpost
  cases hr : (events cfg n f fromB toB tok chunk limit).1 with
  | err e => simp [WinPost]
  | ok evs t =>
    simp only [WinPost, List.nil_append, List.length_nil]
    intro hpost
    refine ⟨evs, t, rfl, ?_, ⟨hwf, ⟨hs.live, hs.running, hs.persisted⟩, hcg, hfh⟩, ?_⟩
    · rcases hpost with ⟨_, _, h⟩ | ⟨_, _, _, _, _, _, h, _⟩ <;> exact h
    · rcases hpost with ⟨ht, hA, _⟩ | ⟨h1, h2, X, hX, hXw, hv', _, hp⟩
      · exact Or.inl ⟨ht, hA⟩
      · have hprog := hp (by omega)
        subst hX
        have hlex : startOf fromB tok < t.b ∨ (startOf fromB tok = t.b ∧ skipOf tok < t.p) := by
          rcases hprog with h | h
          · exact Or.inl h
          · rcases Nat.lt_or_ge (startOf fromB tok) t.b with h' | h'
            · exact Or.inl h'
            · exact Or.inr ⟨by omega, (h (by omega)).2⟩
        refine Or.inr ⟨?_, hXw, hv', h2, hlex, ?_⟩
        · simp only [Token.isEmpty, Bool.and_eq_false_iff, beq_eq_false_iff_ne]
          rcases hlex with h | h
          · left; omega
          · right; omega
        · rcases hprog with h | h
          · exact Or.inr h
          · exact Or.inl (h (by omega)).1

/-- **token_progress with pre-confirmed blocks**: one page of a query that reaches above the head,
on a node whose index has no false negatives, from the first page or from a token the previous page
returned (`ValidPre`): it does not fail, returns at most `chunk` events, and either its token is empty
and it returned everything that was left (canonical blocks up to `base`, then the pre-confirmed
copies), or the token is not empty, lies in the range, moves strictly forward (later block, or same
block with more events processed and at least one event returned), and what was returned followed by
what is left from the token is what was left before. -/
theorem token_progress_preconfirmed (cfg : Cfg) (hW : 1 ≤ cfg.W) (n : Node) (f : Filter)
    (fromB toB chunk limit base : Nat) (tok : Option Token) (hchunk : 1 ≤ chunk) (hne : n.chain ≠ [])
    (hnf : NoFalseNeg cfg n) (hbase : base ≤ n.chain.length - 1)
    (hto : toB = sentinel ∨ n.chain.length - 1 < toB)
    (hfl : startOf fromB tok ≤ base → n.floor ≤ startOf fromB tok)
    (pre : List Block) (hpre : pre ≠ []) (hpwf : ∀ blk ∈ pre, ∀ it ∈ blk.items, it ∈ blk.bloom)
    (hfit : n.chain.length - 1 + pre.length < sentinel)
    (hv : ValidPre f (n.chain.take (base + 1) ++ pre) fromB toB (base + pre.length) tok) :
    let full := n.chain.take (base + 1) ++ pre
    let lo := loOf fromB tok (base + pre.length)
    let hi := min toB (base + pre.length)
    let left := fun (b p : Nat) => wantN f full b (hi + 1 - b) p
    ∃ evs t, (apiEventsPre cfg n f fromB toB tok chunk limit base pre).2 = .ok evs t ∧ evs.length ≤ chunk ∧
      ((t = Token.none ∧ evs = left lo (skipOf tok)) ∨
       (t.isEmpty = false ∧ evs ++ left t.b t.p = left lo (skipOf tok) ∧ lo ≤ t.b ∧ t.b ≤ hi ∧
        (lo < t.b ∨ (evs ≠ [] ∧ skipOf tok < t.p)))) := by
  intro full lo hi left
  obtain ⟨hwf, hs, hc, _⟩ := hnf
  have hlen : n.chain.length = (n.chain.length - 1) + 1 := by
    cases hc' : n.chain with
    | nil => exact absurd hc' hne
    | cons _ _ => simp
  have hB0 : (toB != sentinel && decide (toB ≤ n.chain.length - 1)) = false := by
    simp only [Bool.and_eq_false_iff, bne_eq_false_iff_eq, decide_eq_false_iff_not]
    rcases hto with h | h
    · exact Or.inl h
    · exact Or.inr (by omega)
  obtain ⟨hpost, _⟩ := eventsPre_spec cfg n f fromB toB tok chunk limit base (n.chain.length - 1) pre hW hchunk hlen hbase hB0 hpre
    hfit hwf hpwf (hs.mono hbase) hc hfl hv
  simp only [apiEventsPre, wake_live cfg n hs.live, queryPre]
  revert hpost
  cases hr : (eventsPre cfg n f fromB toB tok chunk limit base pre).1 with
  | err e => simp [WinPost]
  | ok evs t =>
    simp only [WinPost, List.nil_append, List.length_nil]
    intro hpost
    refine ⟨evs, t, rfl, ?_, ?_⟩
    · rcases hpost with ⟨_, _, h⟩ | ⟨_, _, _, _, _, _, h, _⟩ <;> exact h
    · rcases hpost with ⟨ht, hA, _⟩ | ⟨h1, h2, X, hX, hXw, _, _, hp⟩
      · exact Or.inl ⟨ht, hA⟩
      · have hprog := hp (by omega)
        subst hX
        have hprog' : lo < t.b ∨ (evs ≠ [] ∧ skipOf tok < t.p) := by
          rcases hprog with h | h
          · exact Or.inl h
          · exact Or.inr (h (by omega))
        refine Or.inr ⟨?_, hXw, h1, h2, hprog'⟩
        simp only [Token.isEmpty, Bool.and_eq_false_iff, beq_eq_false_iff_ne]
        rcases hprog' with h | h
        · left; omega
        · right; omega

/-- When the range ends at a canonical block the pre-confirmed chain plays no role: the page is
the page of the plain query (so `paging_complete`, `page_sound`, `pruned_start_rejected` apply). -/
theorem preconfirmed_ignored_below_head (cfg : Cfg) (n : Node) (f : Filter) (fromB toB : Nat) (tok : Option Token)
    (chunk limit base : Nat) (pre : List Block) (h1 : toB ≠ sentinel) (h2 : toB < n.chain.length) :
    apiEventsPre cfg n f fromB toB tok chunk limit base pre = apiEvents cfg n f fromB toB tok chunk limit := by
  simp only [apiEventsPre, apiEvents, queryPre, query,
    eventsPre_below_head cfg (wake cfg n) f fromB toB tok chunk limit base pre h1 (by rw [(wake_fields cfg n).1]; exact h2)]

/-- **paging_complete with pre-confirmed blocks**, for a pre-confirmed chain `pre` (oldest first,
consecutive numbers: `preconfirmed.NewChain` refuses anything else) that was built on canonical
block `base ≤ head` — `headAndPreConfirmed` derives `base` from the chain, it need not be the head
of the database — and a range that reaches above the head (or the `pre_confirmed` tag): following
the tokens returns the naive scan of the canonical blocks UP TO `base` followed by the
pre-confirmed blocks (for `base < head` the blocks `base+1 … head` are served from their
pre-confirmed copies, as the code intends). A lower bound `pre_confirmed` means the newest
pre-confirmed block (`loOf`). -/
theorem paging_complete_preconfirmed (cfg : Cfg) (hW : 1 ≤ cfg.W) (n : Node) (f : Filter)
    (fromB toB chunk limit base : Nat) (hchunk : 1 ≤ chunk) (hne : n.chain ≠ []) (hnf : NoFalseNeg cfg n)
    (hbase : base ≤ n.chain.length - 1)
    (hto : toB = sentinel ∨ n.chain.length - 1 < toB)
    (hfl : fromB ≤ base → n.floor ≤ fromB)
    (pre : List Block) (hpre : pre ≠ []) (hpwf : ∀ blk ∈ pre, ∀ it ∈ blk.items, it ∈ blk.bloom)
    (hfit : n.chain.length - 1 + pre.length < sentinel) (fuel : Nat)
    (hfuel : (naive f (n.chain.take (base + 1) ++ pre) (loOf fromB none (base + pre.length))
        (min toB (base + pre.length))).length + (base + 1 + pre.length) < fuel) :
    collectPre cfg f fromB toB chunk limit base pre fuel n none =
      some (naive f (n.chain.take (base + 1) ++ pre) (loOf fromB none (base + pre.length))
        (min toB (base + pre.length))) := by
  obtain ⟨hwf, hs, hc, hfh⟩ := hnf
  have hlen : n.chain.length = (n.chain.length - 1) + 1 := by
    cases hc' : n.chain with
    | nil => exact absurd hc' hne
    | cons _ _ => simp
  have hB0 : (toB != sentinel && decide (toB ≤ n.chain.length - 1)) = false := by
    simp only [Bool.and_eq_false_iff, bne_eq_false_iff_eq, decide_eq_false_iff_not]
    rcases hto with h | h
    · exact Or.inl h
    · exact Or.inr (by omega)
  have := collectPre_spec cfg f fromB toB chunk limit base (n.chain.length - 1) pre hW hchunk hbase hB0 hpre hfit hpwf fuel n none
    hlen hwf (hs.mono hbase) hc hfl (Or.inl rfl)
  simp only [skipOf, wantN_zero] at this
  rw [naive_eq] at hfuel ⊢
  generalize (loOf fromB none (base + pre.length)) = lo at this hfuel ⊢
  have h1 := Nat.min_le_right toB (base + pre.length)
  generalize min toB (base + pre.length) = hi at this hfuel h1 ⊢
  apply this
  generalize (List.flatMap (blkSel f (n.chain.take (base + 1) ++ pre)) (List.range' lo (hi + 1 - lo))).length = k at hfuel ⊢
  omega

/-- **page_sound** — no hypothesis on the node at all (any index state, any cache content, any
retention floor) and any token, also one the server never issued: a page that does not fail is a
sub-list of the naive scan from the token's block (or the range start) to the range end. With
`naive_spec` / `naive_in_chain_order`: every returned event is a matching event of the canonical
chain in the range with its true tags, in chain order, none twice. What a defective index or a
forged token can cost is completeness, never correctness of what is returned. -/
theorem page_sound (cfg : Cfg) (hW : 1 ≤ cfg.W) (n : Node) (f : Filter) (fromB toB chunk limit : Nat)
    (tok : Option Token) (evs : List Emitted) (t : Token)
    (h : (apiEvents cfg n f fromB toB tok chunk limit).2 = .ok evs t) :
    evs.Sublist (naive f n.chain (startOf fromB tok) (min toB (n.chain.length - 1))) := by
  have := events_sound cfg (wake cfg n) f fromB toB tok chunk limit hW
  rw [(wake_fields cfg n).1] at this
  simp only [apiEvents, query] at h
  rw [h] at this
  obtain ⟨Y, hY, hYs⟩ := this
  simpa [hY] using hYs

/-- **page_sound with pre-confirmed blocks**: any index state, any token, a pre-confirmed chain on
an existing canonical block: a page that does not fail is a sub-list of the naive scan of the
canonical blocks up to `base` followed by the pre-confirmed blocks — only matching events, true
tags, chain order, none twice. -/
theorem page_sound_preconfirmed (cfg : Cfg) (hW : 1 ≤ cfg.W) (n : Node) (f : Filter) (fromB toB chunk limit base : Nat)
    (tok : Option Token) (pre : List Block) (hpre : pre ≠ []) (hbase : base < n.chain.length)
    (hfit : n.chain.length < sentinel)
    (hto : toB = sentinel ∨ n.chain.length - 1 < toB) (evs : List Emitted) (t : Token)
    (h : (apiEventsPre cfg n f fromB toB tok chunk limit base pre).2 = .ok evs t) :
    evs.Sublist (naive f (n.chain.take (base + 1) ++ pre) (min (startOf fromB tok) (base + 1)) (base + pre.length)) := by
  have hB0 : (toB != sentinel && decide (toB ≤ n.chain.length - 1)) = false := by
    simp only [Bool.and_eq_false_iff, bne_eq_false_iff_eq, decide_eq_false_iff_not]
    rcases hto with h | h
    · exact Or.inl h
    · exact Or.inr (by omega)
  have hnb : ¬ toB ≤ base := by
    rcases hto with h' | h'
    · rw [h']; omega
    · omega
  have := eventsPre_sound cfg (wake cfg n) f fromB toB tok chunk limit base pre hW hpre
    (by rw [(wake_fields cfg n).1]; exact hbase) (by rw [(wake_fields cfg n).1]; exact hB0) hnb
  rw [(wake_fields cfg n).1] at this
  simp only [apiEventsPre, queryPre] at h
  rw [h] at this
  obtain ⟨Y, hY, hYs⟩ := this
  simpa [hY] using hYs

/-! ## The property, end to end -/

/-- **C09**: after every admissible history (faults and crash points included), every query over a range that starts in the retained part, paged to
the end with any chunk size ≥ 1 and any scan limit, returns exactly the matching events of the
canonical chain in the range, in chain order, each with its positions. The chain is the one at the
time of the query (pages of one query are not interleaved with writes). -/
theorem events_exact (cfg : Cfg) (hW : 1 ≤ cfg.W) (hr : Repaired cfg) (ops : List Op)
    (hok : StoresOK cfg Node.init ops) (hne : (run cfg Node.init ops).chain ≠ [])
    (f : Filter) (fromB toB chunk limit : Nat) (hchunk : 1 ≤ chunk) :
    let n := run cfg Node.init ops
    n.floor ≤ fromB →
    ∀ fuel, (naive f n.chain fromB (min toB (n.chain.length - 1))).length + n.chain.length < fuel →
      collect cfg f fromB toB chunk limit fuel n none = some (naive f n.chain fromB (min toB (n.chain.length - 1))) := by
  intro n hfl fuel hfuel
  have hnf := (index_no_false_neg cfg hW hr ops hok).2 hne
  obtain ⟨hc, hf, _, _, _, _⟩ := wake_fields cfg n
  rw [collect_wake cfg f fromB toB chunk limit fuel n none hnf.2.1.live]
  have := paging_complete cfg hW (wake cfg n) f fromB toB chunk limit hchunk (by rw [hc]; exact hne) hnf
    (by rw [hf]; exact hfl) fuel (by rw [hc]; exact hfuel)
  rw [hc] at this; exact this

/-- … and with pre-confirmed blocks on top of canonical block `base ≤ head`. -/
theorem events_exact_preconfirmed (cfg : Cfg) (hW : 1 ≤ cfg.W) (hr : Repaired cfg) (ops : List Op)
    (hok : StoresOK cfg Node.init ops) (hne : (run cfg Node.init ops).chain ≠ [])
    (f : Filter) (fromB toB chunk limit base : Nat) (hchunk : 1 ≤ chunk)
    (pre : List Block) (hpre : pre ≠ []) (hpwf : ∀ blk ∈ pre, ∀ it ∈ blk.items, it ∈ blk.bloom) :
    let n := run cfg Node.init ops
    base ≤ n.chain.length - 1 → (toB = sentinel ∨ n.chain.length - 1 < toB) → (fromB ≤ base → n.floor ≤ fromB) →
    n.chain.length - 1 + pre.length < sentinel →
    ∀ fuel, (naive f (n.chain.take (base + 1) ++ pre) (loOf fromB none (base + pre.length))
        (min toB (base + pre.length))).length + (base + 1 + pre.length) < fuel →
      collectPre cfg f fromB toB chunk limit base pre fuel n none =
        some (naive f (n.chain.take (base + 1) ++ pre) (loOf fromB none (base + pre.length)) (min toB (base + pre.length))) := by
  intro n hbase hto hfl hfit fuel hfuel
  have hnf := (index_no_false_neg cfg hW hr ops hok).2 hne
  obtain ⟨hc, hf, _, _, _, _⟩ := wake_fields cfg n
  rw [collectPre_wake cfg f fromB toB chunk limit base pre fuel n none hnf.2.1.live]
  have := paging_complete_preconfirmed cfg hW (wake cfg n) f fromB toB chunk limit base hchunk (by rw [hc]; exact hne) hnf
    (by rw [hc]; exact hbase) (by rw [hc]; exact hto) (by rw [hf]; exact hfl) pre hpre hpwf (by rw [hc]; exact hfit) fuel
    (by rw [hc]; exact hfuel)
  rw [hc] at this; exact this

/-- **Pruned ranges are refused, never answered in part**: a query (or a token) that starts at a
canonical block below the retention floor fails with `pruned` and changes nothing. -/
theorem pruned_start_rejected (cfg : Cfg) (n : Node) (f : Filter) (fromB toB chunk limit : Nat) (tok : Option Token)
    (h1 : startOf fromB tok < n.chain.length) (h2 : startOf fromB tok < n.floor) :
    apiEvents cfg n f fromB toB tok chunk limit = (wake cfg n, .err .pruned) := by
  obtain ⟨hc, hf, _, _, _, _⟩ := wake_fields cfg n
  rw [← hc] at h1; rw [← hf] at h2
  simp only [apiEvents]
  generalize wake cfg n = n at h1 h2
  simp only [query, events_eq]
  cases hl : n.chain.length with
  | zero => omega
  | succ latest =>
    have : (decide (startOf fromB tok ≤ latest) && decide (startOf fromB tok < n.floor)) = true := by
      simp only [Bool.and_eq_true, decide_eq_true_eq]; omega
    simp [this]


/-- … the same for a query that would continue into pre-confirmed blocks (the second copy of the
retention check, against the block the pre-confirmed chain was built on). -/
theorem pruned_start_rejected_preconfirmed (cfg : Cfg) (n : Node) (f : Filter) (fromB toB chunk limit base : Nat)
    (tok : Option Token) (pre : List Block) (hpre : pre ≠ []) (hne : n.chain ≠ [])
    (hto : toB = sentinel ∨ n.chain.length - 1 < toB)
    (h1 : startOf fromB tok ≤ base) (h2 : startOf fromB tok < n.floor) :
    apiEventsPre cfg n f fromB toB tok chunk limit base pre = (wake cfg n, .err .pruned) := by
  obtain ⟨hc, hf, _, _, _, _⟩ := wake_fields cfg n
  rw [← hc] at hne hto; rw [← hf] at h2
  simp only [apiEventsPre]
  generalize wake cfg n = n at hne hto h2
  simp only [queryPre, eventsPre_eq]
  have hemp : pre.isEmpty = false := by cases pre <;> simp_all
  cases hl : n.chain.length with
  | zero => simp_all
  | succ height =>
    have hB0 : (toB != sentinel && decide (toB ≤ height)) = false := by
      simp only [Bool.and_eq_false_iff, bne_eq_false_iff_eq, decide_eq_false_iff_not]
      rcases hto with h | h
      · exact Or.inl h
      · exact Or.inr (by omega)
    have : (decide (startOf fromB tok ≤ base) && decide (startOf fromB tok < n.floor)) = true := by
      simp only [Bool.and_eq_true, decide_eq_true_eq]; exact ⟨h1, h2⟩
    simp [hemp, hB0, this]

/-! ## Repaired finding (56f2a2e): a pruned database opened without `--prune-mode`

`blockchain.New` now defaults to the floor-aware initialiser; `core.InitializeRunningEventFilter` (the
model's `restartCore`) still exists and still behaves as shown here when it is wired explicitly. -/

def cfgRepaired : Cfg := ⟨3, 2, true, true, true, true⟩
def blkE : Block := ⟨[], []⟩
def blkB : Block := ⟨[[⟨11, [7]⟩]], [.addr 11, .key 0 7]⟩
def fB : Filter := ⟨[11], []⟩

/-- Negation witness: a pruning node (`W = 3`, 13 blocks, floor 12 in the
head's window, so no persisted window is left and the headers below 2 are gone) is stopped without a
snapshot and started again without `--prune-mode`: the initialiser that does not know the floor walks
back to block 0, misses its header and fails; the retained matching event of block 12 cannot be
queried, every retry fails the same way, and no block can be stored. Started with the floor-aware
initialiser the same database answers exactly. -/
theorem query_fails_on_pruned_database_without_prune_mode :
    let ops : List Op := List.replicate 12 (.store blkE) ++ [.store blkB, .prune 12]
    let n := run cfgRepaired Node.init ops
    storesOKb cfgRepaired Node.init ops = true ∧
    naive fB n.chain 12 12 = [⟨12, 0, 0, ⟨11, [7]⟩⟩] ∧
    (restartCore cfgRepaired n).2 = some .notfound ∧
    (apiEvents cfgRepaired (restartCore cfgRepaired n).1 fB 12 12 none 5 0).2 = .err .notfound ∧
    (apiStore cfgRepaired (restartCore cfgRepaired n).1 blkE).2 = some .notfound ∧
    (restart cfgRepaired n).2 = none ∧
    (apiEvents cfgRepaired (restart cfgRepaired n).1 fB 12 12 none 5 0).2 = .ok [⟨12, 0, 0, ⟨11, [7]⟩⟩] Token.none := by
  decide

/-! ## Non-vacuity -/

-- reorg across a window boundary after the cache was warmed: exact
example :
    let ops : List Op := [.store blkE, .store blkE, .store blkE, .store blkE, .query fB 0 3 none 5 0,
      .revert, .revert, .store blkB, .store blkE]
    storesOKb cfgRepaired Node.init ops = true ∧ (run cfgRepaired Node.init ops).chain ≠ [] ∧
    (apiEvents cfgRepaired (run cfgRepaired Node.init ops) fB 0 3 none 5 0).2 = .ok [⟨2, 0, 0, ⟨11, [7]⟩⟩] Token.none := by
  decide

-- failed commits and a crash inside the initialiser in the history
example :
    let ops : List Op := [.store blkE, .store blkE, .storeFail blkB, .store blkB, .store blkE, .revertFail,
      .snap, .store blkB, .store blkE, .restartCrash 1, .revert, .storeFail blkE, .store blkB]
    let n := run cfgRepaired Node.init ops
    storesOKb cfgRepaired Node.init ops = true ∧ n.initErr = none ∧ n.chain.length = 6 ∧
    (apiEvents cfgRepaired n fB 0 9 none 5 0).2 = .ok [⟨2, 0, 0, ⟨11, [7]⟩⟩, ⟨4, 0, 0, ⟨11, [7]⟩⟩, ⟨5, 0, 0, ⟨11, [7]⟩⟩] Token.none := by
  decide

-- a restart whose initialisation hits a transient error: the next query initialises and is exact
example :
    let ops : List Op := [.store blkE, .store blkB, .restartFault]
    let n := run cfgRepaired Node.init ops
    storesOKb cfgRepaired Node.init ops = true ∧ n.initErr = some .io ∧
    (apiEvents cfgRepaired n fB 0 1 none 5 0).2 = .ok [⟨1, 0, 0, ⟨11, [7]⟩⟩] Token.none ∧
    (apiStore cfgRepaired n blkE).2 = none := by
  decide

-- paging with chunk size 1 and scan limit 1 over a chain with two matching events in one block
example :
    let ops : List Op := [.store ⟨[[⟨11, []⟩, ⟨12, []⟩, ⟨11, []⟩]], [.addr 11, .addr 12]⟩, .store blkE, .store blkB]
    let n := run cfgRepaired Node.init ops
    (apiEvents cfgRepaired n fB 0 2 none 1 1).2 = .ok [⟨0, 0, 0, ⟨11, []⟩⟩] ⟨0, 2⟩ ∧
    (apiEvents cfgRepaired n fB 0 2 (some ⟨0, 2⟩) 1 1).2 = .ok [⟨0, 0, 2, ⟨11, []⟩⟩] ⟨2, 0⟩ ∧
    collect cfgRepaired fB 0 2 1 1 10 n none = some (naive fB n.chain 0 2) := by
  decide

-- a pruning node: floor in window 1, restart with the pruning-aware initialiser
example :
    let blkA : Block := ⟨[[⟨11, [7]⟩]], [.addr 11, .key 0 7]⟩
    let ops : List Op := [.store blkA, .store blkE, .store blkE, .store blkE, .store blkA, .store blkA, .store blkE,
      .snap, .prune 4, .revert, .store blkA, .restart]
    let n := run cfgRepaired Node.init ops
    storesOKb cfgRepaired Node.init ops = true ∧ n.floor = 4 ∧ n.persisted.map (·.1) = [3] ∧
    (apiEvents cfgRepaired n fB 4 9 none 5 0).2 = .ok [⟨4, 0, 0, ⟨11, [7]⟩⟩, ⟨5, 0, 0, ⟨11, [7]⟩⟩, ⟨6, 0, 0, ⟨11, [7]⟩⟩] Token.none ∧
    (apiEvents cfgRepaired n fB 3 9 none 5 0).2 = .err .pruned ∧
    (apiEvents cfgRepaired n fB 9 9 (some ⟨0, 1⟩) 5 0).2 = .err .pruned := by
  decide

-- pre-confirmed blocks on the head, and on the block below the head (base = head - 1)
example :
    let n := run cfgRepaired Node.init [.store blkE, .store blkB]
    let pre : List Block := [blkB, blkE, blkB]
    (apiEventsPre cfgRepaired n fB 0 sentinel none 1 0 1 pre).2 = .ok [⟨1, 0, 0, ⟨11, [7]⟩⟩] ⟨2, 0⟩ ∧
    collectPre cfgRepaired fB 0 sentinel 1 0 1 pre 10 n none = some (naive fB (n.chain ++ pre) 0 4) ∧
    collectPre cfgRepaired fB sentinel sentinel 1 0 1 pre 10 n none = some (naive fB (n.chain ++ pre) 4 4) ∧
    collectPre cfgRepaired fB 0 sentinel 1 0 0 pre 10 n none = some (naive fB (n.chain.take 1 ++ pre) 0 3) ∧
    naive fB (n.chain.take 1 ++ pre) 0 3 = [⟨1, 0, 0, ⟨11, [7]⟩⟩, ⟨3, 0, 0, ⟨11, [7]⟩⟩] := by
  decide

-- token_progress_preconfirmed: a token inside a pre-confirmed block (one event of two already returned)
example :
    let n := run cfgRepaired Node.init [.store blkE, .store blkB]
    let pre : List Block := [⟨[[⟨11, [7]⟩, ⟨11, [7]⟩]], [.addr 11, .key 0 7]⟩, blkB]
    ValidPre fB (n.chain.take 2 ++ pre) 0 sentinel 3 (some ⟨2, 1⟩) ∧
    (apiEventsPre cfgRepaired n fB 0 sentinel (some ⟨2, 1⟩) 1 0 1 pre).2 = .ok [⟨2, 0, 1, ⟨11, [7]⟩⟩] ⟨3, 0⟩ := by
  refine ⟨Or.inr ⟨?_, ?_, ?_⟩, ?_⟩ <;> decide

end Juno.C09.Props
