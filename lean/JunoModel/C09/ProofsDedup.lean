import JunoModel.C09.ProofsRpc
/-!
C09 — lemmas about the de-duplication of pre-confirmed updates (`onPreConfirmed`): over the updates
of one round of a growing tip, every matching event is sent exactly once, in order.
-/
namespace Juno.C09

/-- The de-duplication key of an event of the tip. -/
def dkey (hashes : List Nat) (e : Emitted) : Nat × Nat × Nat := (hashes.getD e.tx 0, e.tx, e.idx)

/-- What the deduper remembers as far as round `(num, ident)` is concerned. -/
def eff (num ident : Nat) (d : Dedup) : List (Nat × Nat × Nat) :=
  if d.num = num ∧ d.ident = ident then d.seen else []

theorem markSent_in (num ident : Nat) (d : Dedup) (k : Nat × Nat × Nat) (h1 : d.num = num) (h2 : d.ident = ident) :
    d.markSent num ident k = if d.seen.contains k then (d, false) else ({ d with seen := k :: d.seen }, true) := by
  unfold Dedup.markSent
  have hc : (num != d.num || ident != d.ident) = false := by simp [h1, h2]
  simp only [hc, Bool.false_eq_true, if_false]

theorem markSent_out (num ident : Nat) (d : Dedup) (k : Nat × Nat × Nat) (h : ¬ (d.num = num ∧ d.ident = ident)) :
    d.markSent num ident k = (⟨num, ident, [k]⟩, true) := by
  unfold Dedup.markSent
  have hc : (num != d.num || ident != d.ident) = true := by
    simp only [Bool.or_eq_true, bne_iff_ne, ne_eq]
    by_cases h1 : d.num = num
    · right; intro h2; exact h ⟨h1, h2.symm⟩
    · left; intro h2; exact h1 h2.symm
  simp only [hc, if_true]
  simp

theorem markSent_eff (num ident : Nat) (d : Dedup) (k : Nat × Nat × Nat) :
    (d.markSent num ident k).2 = !(eff num ident d).contains k ∧
    (∀ k', k' ∈ eff num ident (d.markSent num ident k).1 ↔ k' ∈ eff num ident d ∨ k' = k) := by
  by_cases hr : d.num = num ∧ d.ident = ident
  · rw [markSent_in num ident d k hr.1 hr.2]
    have he : eff num ident d = d.seen := by simp [eff, hr]
    rw [he]
    by_cases hk : d.seen.contains k = true
    · have hk' : k ∈ d.seen := by simpa using hk
      simp only [hk, if_true, Bool.not_true, he]
      exact ⟨trivial, fun k' => ⟨Or.inl, fun h => h.elim id (fun h => h ▸ hk')⟩⟩
    · have : eff num ident { d with seen := k :: d.seen } = k :: d.seen := by simp [eff, hr]
      simp only [hk, Bool.false_eq_true, if_false, Bool.not_false, this, List.mem_cons]
      exact ⟨trivial, fun k' => ⟨fun h => h.elim Or.inr Or.inl, fun h => h.elim Or.inr Or.inl⟩⟩
  · rw [markSent_out num ident d k hr]
    have he : eff num ident d = [] := by simp [eff, hr]
    have : eff num ident ⟨num, ident, [k]⟩ = [k] := by simp [eff]
    rw [he, this]
    simp

theorem sendNew_spec (num ident : Nat) (hashes : List Nat) :
    ∀ (es : List Emitted) (d : Dedup) (out : List Emitted),
      (es.map (dkey hashes)).Pairwise (· ≠ ·) →
      (sendNew num ident hashes es d out).2 = out ++ es.filter (fun e => !(eff num ident d).contains (dkey hashes e)) ∧
      (∀ k, k ∈ eff num ident (sendNew num ident hashes es d out).1 ↔ k ∈ eff num ident d ∨ k ∈ es.map (dkey hashes)) := by
  intro es
  induction es with
  | nil => intro d out _; simp [sendNew]
  | cons e es ih =>
    intro d out hp
    rw [List.map_cons, List.pairwise_cons] at hp
    obtain ⟨hne, hp'⟩ := hp
    obtain ⟨h2, hmem⟩ := markSent_eff num ident d (dkey hashes e)
    have hk : dkey hashes e = (hashes.getD e.tx 0, e.tx, e.idx) := rfl
    simp only [sendNew, ← hk]
    obtain ⟨ih2, ihm⟩ := ih (d.markSent num ident (dkey hashes e)).1
      (if (d.markSent num ident (dkey hashes e)).2 = true then out ++ [e] else out) hp'
    refine ⟨?_, fun k => ?_⟩
    · rw [ih2]
      -- the tail's keys differ from the head's: the remembered set grows by a key the tail never asks for
      have htail : es.filter (fun e' => !(eff num ident (d.markSent num ident (dkey hashes e)).1).contains (dkey hashes e')) =
          es.filter (fun e' => !(eff num ident d).contains (dkey hashes e')) := by
        apply List.filter_congr
        intro e' he'
        have hd : dkey hashes e ≠ dkey hashes e' := hne _ (List.mem_map_of_mem he')
        have : (dkey hashes e' ∈ eff num ident (d.markSent num ident (dkey hashes e)).1) ↔ dkey hashes e' ∈ eff num ident d := by
          rw [hmem]
          exact ⟨fun h => h.elim id (fun h => absurd h.symm hd), Or.inl⟩
        simp [this]
      rw [htail, List.filter_cons, h2]
      by_cases hc : dkey hashes e ∈ eff num ident d
      · simp [hc]
      · simp [hc]
    · rw [ihm, hmem]
      simp only [List.map_cons, List.mem_cons]
      constructor
      · rintro ((h | h) | h)
        · exact Or.inl h
        · exact Or.inr (Or.inl h)
        · exact Or.inr (Or.inr h)
      · rintro (h | h | h)
        · exact Or.inl (Or.inl h)
        · exact Or.inl (Or.inr h)
        · exact Or.inr h

/-! ### The events of a growing block -/

theorem blockRawFrom_append (b : Nat) (xs ys : List Tx) : ∀ t,
    blockRawFrom b t (xs ++ ys) = blockRawFrom b t xs ++ blockRawFrom b (t + xs.length) ys := by
  induction xs with
  | nil => intro t; simp [blockRawFrom]
  | cons x xs ih =>
    intro t
    simp only [List.cons_append, blockRawFrom, ih (t + 1), List.append_assoc, List.length_cons]
    congr 3
    omega

/-- Two events of one block with the same key are the same event. -/
theorem dkey_pairwise (hashes : List Nat) (num : Nat) (blk : Block) :
    ((blockRaw num blk).map (dkey hashes)).Pairwise (· ≠ ·) := by
  rw [List.pairwise_map]
  have hs := blockRawFrom_sorted num blk.txs 0
  refine List.Pairwise.imp_of_mem ?_ hs
  intro a b ha hb hlt hk
  have ha' := (blockRawFrom_mem_iff num blk.txs 0 a).mp ha
  have hb' := (blockRawFrom_mem_iff num blk.txs 0 b).mp hb
  simp only [dkey, Prod.mk.injEq] at hk
  unfold Emitted.lt at hlt
  omega

/-- The updates of one round: the tip is published again in full, each time with more transactions. -/
def runRound (f : Filter) (num ident : Nat) (hashes : List Nat) : List Block → Dedup → Dedup × List Emitted
  | [], d => (d, [])
  | blk :: rest, d =>
    let r := onPreConfirmed f d num ident hashes blk
    let r' := runRound f num ident hashes rest r.1
    (r'.1, r.2 ++ r'.2)

/-- `prev :: blks` is a growing tip: each update extends the transactions of the one before. -/
def Growing : Block → List Block → Prop
  | _, [] => True
  | prev, blk :: rest => (∃ extra, blk.txs = prev.txs ++ extra) ∧ Growing blk rest

theorem sel_raw_grow (f : Filter) (num : Nat) (prev blk : Block) (h : ∃ extra, blk.txs = prev.txs ++ extra) :
    ∃ S, sel f (blockRaw num blk) = sel f (blockRaw num prev) ++ S := by
  obtain ⟨extra, he⟩ := h
  refine ⟨sel f (blockRawFrom num (0 + prev.txs.length) extra), ?_⟩
  unfold blockRaw
  rw [he, blockRawFrom_append, sel_append]

theorem runRound_spec (f : Filter) (num ident : Nat) (hashes : List Nat) :
    ∀ (blks : List Block) (prev : Block) (d : Dedup),
      (∀ k, k ∈ eff num ident d ↔ k ∈ (sel f (blockRaw num prev)).map (dkey hashes)) →
      Growing prev blks → (∀ blk ∈ blks, ∀ it ∈ blk.items, it ∈ blk.bloom) →
      sel f (blockRaw num prev) ++ (runRound f num ident hashes blks d).2 = sel f (blockRaw num ((prev :: blks).getLast (by simp))) := by
  intro blks
  induction blks with
  | nil => intro prev d _ _ _; simp [runRound]
  | cons blk rest ih =>
    intro prev d hd hg hwf
    obtain ⟨hgrow, hg'⟩ := hg
    obtain ⟨S, hS⟩ := sel_raw_grow f num prev blk hgrow
    have hme := matchingEvents_eq f num blk (hwf blk (by simp))
    -- keys are pairwise different inside the block
    have hpw : ((sel f (blockRaw num blk)).map (dkey hashes)).Pairwise (· ≠ ·) := by
      have := dkey_pairwise hashes num blk
      rw [List.pairwise_map] at this ⊢
      exact List.Pairwise.sublist List.filter_sublist this
    obtain ⟨hsent, hseen⟩ := sendNew_spec num ident hashes (sel f (blockRaw num blk)) d [] hpw
    have hdisj : ∀ a ∈ sel f (blockRaw num prev), ∀ b ∈ S, dkey hashes a ≠ dkey hashes b := by
      rw [hS, List.map_append, List.pairwise_append] at hpw
      intro a ha b hb
      exact hpw.2.2 _ (List.mem_map_of_mem ha) _ (List.mem_map_of_mem hb)
    -- what this update sends: the new suffix
    have hout : (onPreConfirmed f d num ident hashes blk).2 = S := by
      unfold onPreConfirmed
      rw [hme, hsent, hS, List.nil_append, List.filter_append]
      have h1 : (sel f (blockRaw num prev)).filter (fun e => !(eff num ident d).contains (dkey hashes e)) = [] := by
        rw [List.filter_eq_nil_iff]
        intro a ha
        have : dkey hashes a ∈ eff num ident d := (hd _).mpr (List.mem_map_of_mem ha)
        simp [this]
      have h2 : S.filter (fun e => !(eff num ident d).contains (dkey hashes e)) = S := by
        rw [List.filter_eq_self]
        intro b hb
        have : dkey hashes b ∉ eff num ident d := by
          intro hin
          obtain ⟨a, ha, hk⟩ := List.mem_map.mp ((hd _).mp hin)
          exact hdisj a ha b hb hk
        simp [this]
      rw [h1, h2, List.nil_append]
    have hd' : ∀ k, k ∈ eff num ident (onPreConfirmed f d num ident hashes blk).1 ↔ k ∈ (sel f (blockRaw num blk)).map (dkey hashes) := by
      intro k
      unfold onPreConfirmed
      rw [hme, hseen k, hd k, hS, List.map_append, List.mem_append]
      exact ⟨fun h => h.elim Or.inl id, Or.inr⟩
    have := ih blk (onPreConfirmed f d num ident hashes blk).1 hd' hg' (fun b hb => hwf b (by simp [hb]))
    simp only [runRound, hout]
    rw [← List.append_assoc, ← hS, this]
    simp

end Juno.C09
