import JunoModel.Generated.Arith
import JunoModel.C01.ModelEnc
import JunoModel.C01.ProofsEnc
/-!
C01 tie: the number of value bytes a trie path occupies on disk — `BitArray.activeBytes` of core/trie2/trieutils and
its twin `BitArray.byteCount` of core/trie, REGENERATED from the source on every check run (the receiver's `len`
field, a `uint8`, becomes the parameter) — is the `(len + 7) / 8` of the byte-level model (`encodePath`,
`decodePathRaw`, `encodePathL`), for every length a `uint8` can hold; the two tries use the same formula. The node
database is keyed by these encodings (`trie2_node_key_injective`, `purge_range_covers_exactly_the_contract`).
-/
namespace Juno.Tie.C01
open Juno.Generated Juno.C01.Enc

theorem activeBytes_eq (len : UInt8) : (trie2BitArrayActiveBytes len).toNat = (len.toNat + 7) / 8 := by
  have hl := len.toNat_lt
  simp only [trie2BitArrayActiveBytes, Id.run, pure]
  have h7 : ((8 : UInt64) - 1) = 7 := by decide
  rw [h7, UInt64.toNat_div, UInt64.toNat_add, UInt8.toNat_toUInt64]
  have : (len.toNat + (7 : UInt64).toNat) % 2 ^ 64 = len.toNat + 7 := by
    show (len.toNat + 7) % 2 ^ 64 = len.toNat + 7
    exact Nat.mod_eq_of_lt (by omega)
  rw [this]
  rfl

theorem byteCount_eq_activeBytes (len : UInt8) : trieBitArrayByteCount len = trie2BitArrayActiveBytes len := rfl

/-- The model's path encoding has exactly that many value bytes plus the length byte. -/
theorem encodePath_length (p : Juno.C01.Path) (len : UInt8) (h : p.length = len.toNat) :
    (encodePath p).length = (trie2BitArrayActiveBytes len).toNat + 1 := by
  rw [activeBytes_eq, ← h]
  simp [encodePath, beBytes_length]

example : (trie2BitArrayActiveBytes 251).toNat = 32 ∧ (trie2BitArrayActiveBytes 0).toNat = 0 ∧
    (trie2BitArrayActiveBytes 8).toNat = 1 ∧ (trie2BitArrayActiveBytes 9).toNat = 2 := by decide

end Juno.Tie.C01
