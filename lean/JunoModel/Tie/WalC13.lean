import JunoModel.Generated.Arith
import JunoModel.C13.Model
/-!
C13 tie: the logical WAL of the recovery model (`Juno.C13.applyRec`, `Store.setEntry`, `Store.delete`) makes the
same three watermark tests as consensus/walstore — an entry at or below the watermark is dropped, a prune at or below
it is a no-op, a prune to `h` drops exactly the live entries with height at or below `h`. The tests are REGENERATED
from wal_index.go / wal_store.go / replay.go on every check run (shared with C14's tie); "a recovered validator sees
exactly the inputs logged before the crash" rests on the live path and the replay path making these tests alike.
-/
namespace Juno.Tie.C13
open Juno.Generated Juno.C13

theorem le_toNat (a b : UInt64) : decide (a ≤ b) = decide (a.toNat ≤ b.toNat) := by
  simp [UInt64.le_iff_toNat_le]

/-- An entry record: live flush and replay make the same inclusive test as the model. -/
theorem applyRec_entry_eq (v : View) (e : Entry) (h w : UInt64) (he : e.height = h.toNat) (hw : v.1 = w.toNat) :
    applyRec v (.entry e) = (if walIndexSkipsPruned h w then v else (v.1, v.2 ++ [e])) ∧
    walReplaySkipsPruned h w = walIndexSkipsPruned h w := by
  refine ⟨?_, rfl⟩
  simp [applyRec, walIndexSkipsPruned, le_toNat, he, hw]

/-- A prune record: no-op at or below the watermark; otherwise the watermark moves and exactly the live entries the
loop test selects are dropped. -/
theorem applyRec_prune_eq (v : View) (h w : UInt64) (hw : v.1 = w.toNat) :
    applyRec v (.prune h.toNat) =
      if walPruneNoAdvance h w then v else (h.toNat, v.2.filter (fun e => h.toNat < e.height)) := by
  simp [applyRec, walPruneNoAdvance, le_toNat, hw]

theorem prune_keeps_iff (k h : UInt64) : decide (h.toNat < k.toNat) = !walPruneDropsHeight k h := by
  simp only [walPruneDropsHeight, le_toNat]
  by_cases hlt : h.toNat < k.toNat
  · have : ¬ k.toNat ≤ h.toNat := by omega
    simp [hlt, this]
  · have : k.toNat ≤ h.toNat := by omega
    simp [hlt, this]

/-- `SetWALEntry` and `DeleteWALEntries` refuse at or below the DURABLE watermark, as the model. -/
theorem setEntry_eq (s : Store) (e : Entry) (h w : UInt64) (he : e.height = h.toNat) (hw : s.pruned = w.toNat) :
    s.setEntry e = if walSetBelowWatermark h w then s else { s with pending := s.pending ++ [Rec.entry e] } := by
  simp [Store.setEntry, walSetBelowWatermark, le_toNat, he, hw]

theorem delete_guard_eq (s : Store) (h w : UInt64) (hw : s.pruned = w.toNat) (hle : walDeleteAlreadyPruned h w = true) :
    s.delete h.toNat = s := by
  have : h.toNat ≤ w.toNat := by simpa [walDeleteAlreadyPruned, le_toNat] using hle
  simp [Store.delete, hw, this]

end Juno.Tie.C13
