import JunoModel.Generated.Arith
import JunoModel.C18.Model
/-!
C18 tie: the `SchemaVersion` operations of the C18 MODEL (`Juno.C18.SV.*` over `BitVec 64`, what every
runner theorem is stated with) are the operations REGENERATED from migration/version.go on every check run
(`JunoModel/Generated/Arith.lean`, `UInt64`). If a source edit changes `Has`, `Set`, `Difference`, `Contains` or
`Union` so that it no longer is the model's operation, this file stops compiling.
-/
namespace Juno.Tie.C18
open Juno.Generated Juno.C18

theorem shl_one (n : Nat) : (Go.shl64 (1 : UInt64) n).toBitVec = (1#64) <<< n := by
  unfold Go.shl64
  split
  · rename_i h
    rw [UInt64.toBitVec_shiftLeft]
    have h1 : (UInt64.ofNat n).toBitVec = BitVec.ofNat 64 n := rfl
    rw [h1]
    have h2 : (BitVec.ofNat 64 n % 64) = BitVec.ofNat 64 n := by
      apply BitVec.eq_of_toNat_eq
      simp [BitVec.toNat_umod]
      omega
    rw [h2]
    simp [BitVec.shiftLeft_eq', Nat.mod_eq_of_lt (by omega : n < 2 ^ 64)]
  · rename_i h
    have : 64 ≤ n := by omega
    rw [BitVec.shiftLeft_eq_zero this]
    rfl

theorem union_eq (a b : UInt64) : (svUnion a b).toBitVec = SV.union a.toBitVec b.toBitVec := by
  simp only [svUnion, SV.union, Id.run, pure, UInt64.toBitVec_or]

theorem diff_eq (a b : UInt64) : (svDifference a b).toBitVec = SV.diff a.toBitVec b.toBitVec := by
  simp only [svDifference, SV.diff, Id.run, pure, UInt64.toBitVec_and, UInt64.toBitVec_not]

theorem set_eq (a : UInt64) (i : UInt8) : (svSet a i).toBitVec = SV.set a.toBitVec i.toNat := by
  simp only [svSet, SV.set, Id.run, pure, bind, UInt64.toBitVec_or, shl_one]

theorem has_eq (a : UInt64) (i : UInt8) : svHas a i = SV.has a.toBitVec i.toNat := by
  simp only [svHas, SV.has, Id.run, pure, bind]
  rw [← shl_one]
  rw [show (a.toBitVec &&& (Go.shl64 1 i.toNat).toBitVec) = (a &&& Go.shl64 1 i.toNat).toBitVec from rfl]
  cases h : (a &&& Go.shl64 1 i.toNat) == (0 : UInt64)
  · have : (a &&& Go.shl64 1 i.toNat) ≠ 0 := by simpa using h
    have h2 : (a &&& Go.shl64 1 i.toNat).toBitVec ≠ 0#64 := fun e => this (UInt64.toBitVec_inj.mp e)
    simp only [bne, h, Bool.not_false]
    symm
    simpa using h2
  · have : (a &&& Go.shl64 1 i.toNat) = 0 := by simpa using h
    simp only [bne, h, Bool.not_true, this]
    rfl

theorem contains_eq (a b : UInt64) : svContains a b = SV.contains a.toBitVec b.toBitVec := by
  simp only [svContains, SV.contains, Id.run, pure, bind]
  cases h : svDifference b a == (0 : UInt64)
  · have : svDifference b a ≠ 0 := by simpa using h
    have h2 : (svDifference b a).toBitVec ≠ 0#64 := fun e => this (UInt64.toBitVec_inj.mp e)
    rw [diff_eq] at h2
    simp [h2]
  · have : svDifference b a = 0 := by simpa using h
    have h2 : (svDifference b a).toBitVec = 0#64 := by rw [this]; rfl
    rw [diff_eq] at h2
    simp [h2]

end Juno.Tie.C18
