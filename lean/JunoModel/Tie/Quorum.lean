import JunoModel.Generated.Arith
/-!
Theorems over the REGENERATED definitions (`JunoModel/Generated/Arith.lean` is rewritten from
/repo's current source by /verif/gen on every check run). If a source edit changes one of the
translated functions so that a law below no longer holds, this file stops compiling.
-/
namespace Juno.Tie
open Juno.Generated

/-- Unfolded value of the code's `f`. -/
theorem vcF_toNat (n : UInt64) (h : 0 < n.toNat) : (vcF n).toNat = (n.toNat - 1) / 3 := by
  simp only [vcF, Id.run, pure]
  rw [UInt64.toNat_div, UInt64.toNat_sub_of_le]
  · rfl
  · rw [UInt64.le_iff_toNat_le]; simp; omega

/-- Unfolded value of the code's `q` (`N - N/3`, which is `ceil(2N/3)` and cannot wrap). -/
theorem vcQ_toNat (n : UInt64) : (vcQ n).toNat = (2 * n.toNat + 2) / 3 := by
  have hn := n.toNat_lt
  simp only [vcQ, Id.run, pure]
  rw [UInt64.toNat_sub_of_le]
  · rw [UInt64.toNat_div]
    have h3 : (3 : UInt64).toNat = 3 := rfl
    rw [h3]
    omega
  · rw [UInt64.le_iff_toNat_le, UInt64.toNat_div]
    have h3 : (3 : UInt64).toNat = 3 := rfl
    rw [h3]
    omega

/-- Quorum intersection on the code's own thresholds: for every total voting power `N > 0`
(the whole `uint64` range: since the repair 487454a `q` is computed as `N - N/3` and cannot wrap),
two quorums overlap in more than `f` power, a quorum
never exceeds the total, and `f` is strictly less than a third. -/
theorem quorum_intersection_generated (n : UInt64) (h0 : 0 < n.toNat) :
    n.toNat + (vcF n).toNat < 2 * (vcQ n).toNat ∧ (vcQ n).toNat ≤ n.toNat ∧ 3 * (vcF n).toNat < n.toNat := by
  rw [vcF_toNat n h0, vcQ_toNat n]
  omega

/-- `f + 1` voting power always contains a correct validator's power and a quorum leaves room
for it: `f < q`. -/
theorem f_lt_q_generated (n : UInt64) (h0 : 0 < n.toNat) :
    (vcF n).toNat < (vcQ n).toNat := by
  rw [vcF_toNat n h0, vcQ_toNat n]
  omega

/-- The boundary that used to fail: at N = 2^63 the former `2 * N` wrapped to 0 and `q` was 0
(known finding of C12, repaired by 487454a); the regenerated `q` is a genuine two-thirds quorum. -/
theorem quorum_at_2_63 : (vcQ (UInt64.ofNat (2 ^ 63))).toNat = 6148914691236517206 := by decide

-- non-vacuity of the hypotheses: n = 4 (four equal validators) gives f = 1, q = 3
example : (vcF 4).toNat = 1 ∧ (vcQ 4).toNat = 3 := by decide


end Juno.Tie
