import JunoModel.Generated.Arith
/-!
Theorems over the REGENERATED definitions (`JunoModel/Generated/Arith.lean` is rewritten from
/repo's current source by /verif/gen on every check run). If a source edit changes one of the
translated functions so that a law below no longer holds, this file stops compiling.
-/
namespace Juno.Tie
open Juno.Generated

/-- Unfolded value of the code's `f`. -/
theorem vcF_toNat (n : UInt64) (h : 0 < n.toNat) : (vcF n).toNat = (n.toNat - 1) / 3 := by
  simp only [vcF, Id.run, pure]
  rw [UInt64.toNat_div, UInt64.toNat_sub_of_le]
  · rfl
  · rw [UInt64.le_iff_toNat_le]; simp; omega

theorem vcQ_unfold (n : UInt64) :
    vcQ n = if (n * 2) % 3 > 0 then (n * 2) / 3 + 1 else (n * 2) / 3 := by
  simp only [vcQ, Id.run, pure, decide_eq_true_eq]

/-- Unfolded value of the code's `q` as long as `2 * n` does not wrap. -/
theorem vcQ_toNat (n : UInt64) (h : n.toNat < 2 ^ 63) : (vcQ n).toNat = (2 * n.toNat + 2) / 3 := by
  have hd : (n * 2).toNat = 2 * n.toNat := by
    rw [UInt64.toNat_mul]; simp; omega
  have hm : ((n * 2) % 3).toNat = (2 * n.toNat) % 3 := by rw [UInt64.toNat_mod, hd]; rfl
  have hq : ((n * 2) / 3).toNat = (2 * n.toNat) / 3 := by rw [UInt64.toNat_div, hd]; rfl
  rw [vcQ_unfold]
  by_cases hr : (n * 2) % 3 > 0
  · have hr' : 0 < ((n * 2) % 3).toNat := by
      have := UInt64.lt_iff_toNat_lt.mp hr
      simpa using this
    rw [if_pos hr, UInt64.toNat_add]
    rw [hm] at hr'
    have h1 : (1 : UInt64).toNat = 1 := rfl
    rw [h1, hq]
    have hlt : 2 * n.toNat / 3 + 1 < 2 ^ 64 := by omega
    rw [Nat.mod_eq_of_lt hlt]
    omega
  · have hr' : ((n * 2) % 3).toNat = 0 := by
      have : ¬ (0 < ((n * 2) % 3).toNat) := fun h => hr (UInt64.lt_iff_toNat_lt.mpr (by simpa using h))
      omega
    rw [if_neg hr, hq]
    rw [hm] at hr'
    omega

/-- Quorum intersection on the code's own thresholds: for every total voting power `N > 0`
(below the `uint` wrap-around of `2 * N`), two quorums overlap in more than `f` power, a quorum
never exceeds the total, and `f` is strictly less than a third. -/
theorem quorum_intersection_generated (n : UInt64) (h0 : 0 < n.toNat) (h : n.toNat < 2 ^ 63) :
    n.toNat + (vcF n).toNat < 2 * (vcQ n).toNat ∧ (vcQ n).toNat ≤ n.toNat ∧ 3 * (vcF n).toNat < n.toNat := by
  rw [vcF_toNat n h0, vcQ_toNat n h]
  omega

/-- `f + 1` voting power always contains a correct validator's power and a quorum leaves room
for it: `f < q`. -/
theorem f_lt_q_generated (n : UInt64) (h0 : 0 < n.toNat) (h : n.toNat < 2 ^ 63) :
    (vcF n).toNat < (vcQ n).toNat := by
  rw [vcF_toNat n h0, vcQ_toNat n h]
  omega

/-- Beyond 2^63 the product `2 * N` wraps and the code's quorum is NOT a two-thirds quorum
(witness: N = 2^63 gives q = 0). Total voting power is a `uint`; realistic validator sets are far
below this bound, which is why the theorems above carry the hypothesis explicitly. -/
theorem quorum_wraps_at_2_63 : (vcQ (UInt64.ofNat (2 ^ 63))).toNat = 0 := by decide

-- non-vacuity of the hypotheses: n = 4 (four equal validators) gives f = 1, q = 3
example : (vcF 4).toNat = 1 ∧ (vcQ 4).toNat = 3 := by decide


end Juno.Tie
