import JunoModel.Tie.BitsCommon
import JunoModel.C18.Model
/-!
C18 tie, second part: `SchemaVersion.HighestBit` (`bits.Len64(sv) - 1`) and `SchemaVersion.Len`
(`bits.OnesCount64`) of migration/version.go, REGENERATED from the source on every check run, are the model's
`SV.highestBit` (last element of the ascending list of set bit indices, −1 for the empty set) and `SV.len`
(its length). The runner uses `HighestBit` to refuse a database written by a newer binary and `Len` to count
pending migrations; an edit of either function that changes its value on any 64-bit word stops this file compiling.
-/
namespace Juno.Tie.C18
open Juno.Generated Juno.C18 Juno.Tie.Bits

theorem iter_eq (a : UInt64) : SV.iter a.toBitVec = (List.range 64).filter fun i => a.toNat.testBit i := rfl

theorem len_eq (a : UInt64) : (svLen a).toInt = (SV.len a.toBitVec : Int) := by
  simp only [svLen, Id.run, pure, SV.len, iter_eq]
  exact onesCount64_toInt a

theorem highestBit_eq (a : UInt64) : (svHighestBit a).toInt = SV.highestBit a.toBitVec := by
  simp only [svHighestBit, Id.run, pure, SV.highestBit, iter_eq]
  rw [last_set_bit a.toNat 64 a.toNat_lt]
  have hl := bitsLen64_toInt a
  rw [Int64.toInt_sub, hl]
  by_cases h : a.toNat = 0
  · simp [h]
  · have := log2_lt_64 a h
    simp only [h, if_false]
    have e : (1 : Int64).toInt = 1 := by decide
    rw [e]
    have : (((Nat.log2 a.toNat + 1 : Nat) : Int) - 1) = (Nat.log2 a.toNat : Int) := by omega
    rw [this]
    apply Int.bmod_eq_of_le <;> omega

/-- `HighestBit` is −1 exactly for the empty set, otherwise an index below 64 that is set. -/
theorem highestBit_range (a : UInt64) :
    (a = 0 ∧ (svHighestBit a).toInt = -1) ∨
    (a ≠ 0 ∧ 0 ≤ (svHighestBit a).toInt ∧ (svHighestBit a).toInt < 64 ∧
      a.toNat.testBit (svHighestBit a).toInt.toNat = true) := by
  rw [highestBit_eq]
  simp only [SV.highestBit, iter_eq]
  rw [last_set_bit a.toNat 64 a.toNat_lt]
  by_cases h : a.toNat = 0
  · left
    refine ⟨UInt64.toNat_inj.mp (by simpa using h), by simp [h]⟩
  · right
    have := log2_lt_64 a h
    refine ⟨fun e => h (by rw [e]; rfl), ?_⟩
    simp only [h, if_false]
    refine ⟨by omega, by omega, ?_⟩
    simpa using Nat.testBit_log2 h

example : (svHighestBit 0).toInt = -1 ∧ (svHighestBit 0b101000).toInt = 5 ∧ (svLen 0b101000).toInt = 2 := by
  refine ⟨by decide, ?_, ?_⟩
  · rw [highestBit_eq]; decide
  · rw [len_eq]; decide

end Juno.Tie.C18
