import JunoModel.Generated.Arith
import JunoModel.C10.Model
/-!
C10 tie: `keyExceedsHeight` of core/trie2/proof.go — the test added by the repairs 616d4a4 / 0a848cd that makes
`VerifyProof` / `VerifyRangeProof` refuse a felt with bits above the trie height instead of silently verifying its
low 251 bits — and the constant `contractClassTrieHeight` are REGENERATED from the source on every check run. For a
felt `k < 2^256` whose most significant 64-bit limb is `k / 2^192` the regenerated test is exactly `k ≥ 2^251`, the
`k ≥ 2 ^ n` of the model's `verify2Felt` / `verifyLFelt` at `n = 251` (`felt_key_checked`).
-/
namespace Juno.Tie.C10
open Juno.Generated

theorem height_eq : trie2Height.toNat = 251 := by decide

theorem keyExceedsHeight_eq (k : Nat) (hk : k < 2 ^ 256) :
    trie2KeyExceedsHeight (UInt64.ofNat (k / 2 ^ 192)) trie2Height = decide (k ≥ 2 ^ 251) := by
  have ht : k / 2 ^ 192 < 2 ^ 64 := by
    apply Nat.div_lt_of_lt_mul
    calc k < 2 ^ 256 := hk
      _ = 2 ^ 192 * 2 ^ 64 := by rw [← Nat.pow_add]
  have hsh : ((trie2Height - (192 : UInt64))).toNat = 59 := by decide
  simp only [trie2KeyExceedsHeight, hsh, Go.shr64]
  have h59 : (59 : Nat) < 64 := by decide
  simp only [h59, if_true]
  have hval : (UInt64.ofNat (k / 2 ^ 192) >>> UInt64.ofNat 59).toNat = k / 2 ^ 192 / 2 ^ 59 := by
    rw [UInt64.toNat_shiftRight, UInt64.toNat_ofNat', Nat.mod_eq_of_lt ht]
    have : (UInt64.ofNat 59).toNat % 64 = 59 := by decide
    rw [this, Nat.shiftRight_eq_div_pow]
  have hdiv : k / 2 ^ 192 / 2 ^ 59 = k / 2 ^ 251 := by
    rw [Nat.div_div_eq_div_mul, ← Nat.pow_add]
  have hne : ((UInt64.ofNat (k / 2 ^ 192) >>> UInt64.ofNat 59) != 0) = decide (k / 2 ^ 251 ≠ 0) := by
    rw [Bool.eq_iff_iff]
    simp only [bne_iff_ne, ne_eq, decide_eq_true_eq, ← UInt64.toNat_inj, hval, hdiv]
    rfl
  rw [hne]
  congr 1
  apply propext
  have hp : 0 < 2 ^ 251 := Nat.two_pow_pos 251
  constructor
  · intro h
    have := Nat.div_pos_iff.mp (Nat.pos_of_ne_zero h)
    exact this.2
  · intro h
    exact Nat.ne_of_gt (Nat.div_pos h hp)

end Juno.Tie.C10
