import JunoModel.Generated.Arith
import JunoModel.C16.Model
/-!
C16 tie: `Pruner.applyTimeFloor` of pruner/pruner.go, REGENERATED from the source on every check run (the
receiver's integer fields `minAge` — a `time.Duration`, Go `int64` — and `latestSampledHeight` become
parameters), is the model's `applyTimeFloor`, whose `Cfg.minAge` flag stands for "the code's `minAge` is not
zero". The floor theorems of C16 (`floor_bound*`, `min_age_respected`) are stated over the model's function; an
edit of the Go function (max instead of min, the test inverted, the sample ignored) stops this file compiling.
-/
namespace Juno.Tie.C16
open Juno.Generated Juno.C16

theorem applyTimeFloor_eq (c : Cfg) (minAge : Int64) (sampled standardFloor : UInt64)
    (h : c.minAge = (minAge != 0)) :
    prunerApplyTimeFloor standardFloor minAge sampled = applyTimeFloor c sampled standardFloor := by
  simp only [prunerApplyTimeFloor, applyTimeFloor, umin, Id.run, pure, h]
  by_cases hz : minAge = 0
  · simp [hz]
  · have : (minAge == 0) = false := by simpa using hz
    simp only [this, Bool.false_eq_true, if_false, bne, Bool.not_false, if_true]
    rw [Std.min_eq_if]

/-- Whatever the configuration and the sample: the time floor only ever LOWERS `oldestBlockToKeep`
(retains more), it never prunes beyond the standard floor. -/
theorem applyTimeFloor_le (minAge : Int64) (sampled standardFloor : UInt64) :
    prunerApplyTimeFloor standardFloor minAge sampled ≤ standardFloor := by
  simp only [prunerApplyTimeFloor, Id.run, pure]
  split
  · exact UInt64.le_refl _
  · rw [Std.min_eq_if]; split
    · assumption
    · exact UInt64.le_refl _

/-- With a minimum age configured the sampled height bounds the result as well. -/
theorem applyTimeFloor_le_sample (minAge : Int64) (sampled standardFloor : UInt64) (h : minAge ≠ 0) :
    prunerApplyTimeFloor standardFloor minAge sampled ≤ sampled := by
  have : (minAge == 0) = false := by simpa using h
  simp only [prunerApplyTimeFloor, Id.run, pure, this, Bool.false_eq_true, if_false]
  rw [Std.min_eq_if]; split
  · exact UInt64.le_refl _
  · rename_i hn; exact UInt64.le_of_lt (UInt64.not_le.mp hn)

example : prunerApplyTimeFloor 100 0 7 = 100 ∧ prunerApplyTimeFloor 100 5 7 = 7 ∧ prunerApplyTimeFloor 100 5 700 = 100 := by
  decide

end Juno.Tie.C16
