import JunoModel.Generated.Arith
import JunoModel.C16.Model
/-!
C16 tie: `Pruner.applyTimeFloor` of pruner/pruner.go, REGENERATED from the source on every check run (the
receiver's integer fields `minAge` — a `time.Duration`, Go `int64` — and `latestSampledHeight` become
parameters), is the model's `applyTimeFloor`, whose `Cfg.minAge` flag stands for "the code's `minAge` is not
zero". The floor theorems of C16 (`floor_bound*`, `min_age_respected`) are stated over the model's function; an
edit of the Go function (max instead of min, the test inverted, the sample ignored) stops this file compiling.
-/
namespace Juno.Tie.C16
open Juno.Generated Juno.C16

theorem applyTimeFloor_eq (c : Cfg) (minAge : Int64) (sampled standardFloor : UInt64)
    (h : c.minAge = (minAge != 0)) :
    prunerApplyTimeFloor standardFloor minAge sampled = applyTimeFloor c sampled standardFloor := by
  simp only [prunerApplyTimeFloor, applyTimeFloor, umin, Id.run, pure, h]
  by_cases hz : minAge = 0
  · simp [hz]
  · have : (minAge == 0) = false := by simpa using hz
    simp only [this, Bool.false_eq_true, if_false, bne, Bool.not_false, if_true]
    rw [Std.min_eq_if]

/-- Whatever the configuration and the sample: the time floor only ever LOWERS `oldestBlockToKeep`
(retains more), it never prunes beyond the standard floor. -/
theorem applyTimeFloor_le (minAge : Int64) (sampled standardFloor : UInt64) :
    prunerApplyTimeFloor standardFloor minAge sampled ≤ standardFloor := by
  simp only [prunerApplyTimeFloor, Id.run, pure]
  split
  · exact UInt64.le_refl _
  · rw [Std.min_eq_if]; split
    · assumption
    · exact UInt64.le_refl _

/-- With a minimum age configured the sampled height bounds the result as well. -/
theorem applyTimeFloor_le_sample (minAge : Int64) (sampled standardFloor : UInt64) (h : minAge ≠ 0) :
    prunerApplyTimeFloor standardFloor minAge sampled ≤ sampled := by
  have : (minAge == 0) = false := by simpa using h
  simp only [prunerApplyTimeFloor, Id.run, pure, this, Bool.false_eq_true, if_false]
  rw [Std.min_eq_if]; split
  · exact UInt64.le_refl _
  · rename_i hn; exact UInt64.le_of_lt (UInt64.not_le.mp hn)

/-! ## Guards and floor arithmetic of `onNewBlock`, `onNewL1Head`, `pruneUpto`, `PruneBlockDataUpto`

The translator also regenerates single EXPRESSIONS: the condition of the k-th `if` of a function or the right-hand
side of an assignment (see `gen/targets.json`). These are the comparisons and subtractions in which an off-by-one
or a swapped operand would change what the pruner keeps; each is shown to be the corresponding piece of the model. -/

/-- `onNewBlock`'s first guard (L1 head at or below the block, or fewer blocks than the retention). -/
theorem l2Guard_eq (c : Cfg) (l1 blockNum : UInt64) :
    prunerL2Guard l1 blockNum c.retained = l2Guard c l1 blockNum := rfl

/-- `onNewBlock`: `standardFloor := block.Number - p.numRetainedBlocks`, the model's `l2Keep` without a minimum age. -/
theorem l2Keep_standard (c : Cfg) (sampled blockNum : UInt64) (within : Bool) (h : c.minAge = false) :
    l2Keep c sampled blockNum within = prunerL2StandardFloor blockNum c.retained := by
  simp [l2Keep, prunerL2StandardFloor, h]

/-- `onNewBlock` with a minimum age, the block inside the time window: the regenerated `applyTimeFloor` of the
regenerated standard floor. -/
theorem l2Keep_minAge (c : Cfg) (minAge : Int64) (sampled blockNum : UInt64) (hm : c.minAge = (minAge != 0))
    (h : c.minAge = true) :
    l2Keep c sampled blockNum true =
      prunerApplyTimeFloor (prunerL2StandardFloor blockNum c.retained) minAge sampled := by
  rw [applyTimeFloor_eq c minAge sampled _ hm]
  simp [l2Keep, prunerL2StandardFloor, h]

/-- The stale-event test added by the repair: the model's `h < n` on naturals is the code's `block.Number > chainHeight`. -/
theorem l2StaleEvent_eq (n h : UInt64) : prunerL2StaleEvent n h = decide (h.toNat < n.toNat) := by
  simp [prunerL2StaleEvent, UInt64.lt_iff_toNat_lt]

/-- The coalescing counter test. -/
theorem l2Coalesce_eq (c : Cfg) (p : UInt64) : prunerL2Coalesce p c.l2PerPrune = decide (p < c.l2PerPrune) := rfl

/-- `onNewL1Head`: guard and floor, for every chain height that fits the key (`uint64`). -/
theorem l1Keep_eq (c : Cfg) (minAge : Int64) (sampled l1 height : UInt64) (hm : c.minAge = (minAge != 0)) :
    l1Keep c sampled height.toNat l1 =
      if prunerL1Guard l1 height c.retained then none
      else some (prunerApplyTimeFloor (l1 - c.retained) minAge sampled) := by
  rw [applyTimeFloor_eq c minAge sampled _ hm]
  simp only [l1Keep, prunerL1Guard, ge_iff_le, UInt64.le_iff_toNat_le]

/-- `pruneUpto`: the shared floor is raised to `oldestBlockToKeep - 1` exactly when `oldestBlockToKeep > 0`. -/
theorem raiseForPrune_eq (state keep : UInt64) :
    raiseForPrune state keep = if prunerRaisesFloor keep then raiseTo state (keep - 1) else state := by
  simp [raiseForPrune, prunerRaisesFloor]

/-- `PruneBlockDataUpto`: the header carve-out (`BlockHashLag` headers below the range end survive), with the
constant read from core/block.go. -/
theorem headerEnd64_eq (rangeEnd : UInt64) :
    headerEnd64 rangeEnd =
      if prunerHeaderCarveOutApplies rangeEnd coreBlockHashLag then prunerHeaderEnd rangeEnd coreBlockHashLag else 0 := by
  have : UInt64.ofNat blockHashLag = coreBlockHashLag := by decide
  simp [headerEnd64, prunerHeaderCarveOutApplies, prunerHeaderEnd, this]

/-- `pruneAggregatedBloomFiltersUpto`: which persisted event-index windows a prune deletes, with the window
size read from core/aggregated_bloom_filter.go. -/
theorem aggEnd_eq (rangeEnd : UInt64) :
    aggEnd rangeEnd.toNat =
      if prunerAggNothingToPrune rangeEnd coreNumBlocksPerFilter then none
      else some (prunerAggOldestKept rangeEnd coreNumBlocksPerFilter).toNat := by
  have hk : coreNumBlocksPerFilter.toNat = numBlocksPerFilter := by decide
  simp only [aggEnd, prunerAggNothingToPrune, prunerAggOldestKept, UInt64.lt_iff_toNat_lt, hk]
  split
  · simp [*]
  · rename_i h
    simp only [h, decide_false, Bool.false_eq_true, if_false, Option.some.injEq]
    have hm : (rangeEnd % coreNumBlocksPerFilter).toNat = rangeEnd.toNat % numBlocksPerFilter := by
      rw [UInt64.toNat_mod, hk]
    have hle : rangeEnd % coreNumBlocksPerFilter ≤ rangeEnd := by
      rw [UInt64.le_iff_toNat_le, hm]; exact Nat.mod_le _ _
    rw [UInt64.toNat_sub_of_le _ _ hle, hm]

/-! ## The shared retention floor (pruner/retention.go) and the min-age binary search -/

/-- `RetentionFloor.raiseTo`: one uncontended pass of the compare-and-swap loop on the raw word. -/
theorem raiseTo_eq (state floor : UInt64) :
    raiseTo state floor = if floorRaiseIgnored floor state then state else floorRaiseNewState floor := by
  simp [raiseTo, floorRaiseIgnored, floorRaiseNewState]

/-- `RetentionFloor.Seed`: `raiseTo(max(oldest, 1) - 1)`. -/
theorem seedState_eq (state oldest : UInt64) : seedState state oldest = raiseTo state (floorSeedValue oldest) := by
  have : umax oldest 1 = max oldest 1 := by
    simp only [umax]
    exact (Eq.symm (UInt64.eq_of_toBitVec_eq rfl) : max oldest 1 = if oldest ≤ 1 then 1 else oldest).symm
  simp [seedState, floorSeedValue, this]

/-- `RetentionFloor.floor` and the seeded branch of `RequireStateRetainedByBlockNumber` /
`StateRootIfStateRetainedByBlockNumber`: the model's test `n < (floorState - 1).toNat` under `floorState ≠ 0`
is the code's `seeded` flag and `blockNumber < f` on `f = s - 1` (the two functions carry the same test). -/
theorem floor_refusal_eq (state n : UInt64) :
    (state ≠ 0 ∧ n.toNat < (state - 1).toNat) ↔
      (floorUnseeded state = false ∧ floorRefusesBelow n (floorValue state) = true) := by
  simp [floorUnseeded, floorRefusesBelow, floorValue, UInt64.lt_iff_toNat_lt]

theorem floor_refusal_same_in_both_readers (n f : UInt64) : floorRootRefusesBelow n f = floorRefusesBelow n f := rfl

/-- The legacy upper bound: `blockNumber > height`. -/
theorem floor_upper_bound_eq (n h : UInt64) : floorRefusesAboveHeight n h = decide (n.toNat > h.toNat) := by
  simp [floorRefusesAboveHeight, UInt64.lt_iff_toNat_lt]

/-- One iteration of `FindOldestBlockAtOrAfter`'s loop for operands that do not wrap (`low ≤ high`, as the
loop keeps them): the midpoint, the comparison with the cut-off and the two successor intervals are the model's
`findOldestLoop` step. -/
theorem findOldest_step_eq (ts : Nat → Nat) (cutoff : UInt64) (fuel : Nat) (low high t : UInt64)
    (hlh : low.toNat < high.toNat) (ht : ts (findOldestMid low high).toNat = t.toNat) :
    findOldestLoop ts cutoff.toNat (fuel + 1) low.toNat high.toNat =
      if findOldestTooOld t cutoff
      then findOldestLoop ts cutoff.toNat fuel ((findOldestMid low high).toNat + 1) high.toNat
      else findOldestLoop ts cutoff.toNat fuel low.toNat (findOldestMid low high).toNat := by
  have hle : low ≤ high := by rw [UInt64.le_iff_toNat_le]; omega
  have hmid : (findOldestMid low high).toNat = low.toNat + (high.toNat - low.toNat) / 2 := by
    simp only [findOldestMid]
    have h1 : (high - low).toNat = high.toNat - low.toNat := UInt64.toNat_sub_of_le _ _ hle
    have h2 : ((high - low) / 2).toNat = (high.toNat - low.toNat) / 2 := by
      rw [UInt64.toNat_div, h1]; rfl
    rw [UInt64.toNat_add, h2]
    have := high.toNat_lt
    exact Nat.mod_eq_of_lt (by omega)
  rw [findOldestLoop]
  simp only [hlh, if_true]
  rw [← hmid, ht]
  simp [findOldestTooOld, UInt64.lt_iff_toNat_lt]

/-- The successor of the midpoint does not wrap inside the loop (`mid < high`). -/
theorem findOldest_nextLow (low high : UInt64) (hlh : low.toNat < high.toNat) :
    (findOldestNextLow (findOldestMid low high)).toNat = (findOldestMid low high).toNat + 1 := by
  have hle : low ≤ high := by rw [UInt64.le_iff_toNat_le]; omega
  have hmid : (findOldestMid low high).toNat = low.toNat + (high.toNat - low.toNat) / 2 := by
    simp only [findOldestMid]
    have h1 : (high - low).toNat = high.toNat - low.toNat := UInt64.toNat_sub_of_le _ _ hle
    have h2 : ((high - low) / 2).toNat = (high.toNat - low.toNat) / 2 := by
      rw [UInt64.toNat_div, h1]; rfl
    rw [UInt64.toNat_add, h2]
    have := high.toNat_lt
    exact Nat.mod_eq_of_lt (by omega)
  simp only [findOldestNextLow, UInt64.toNat_add]
  have := high.toNat_lt
  have h1 : (1 : UInt64).toNat = 1 := rfl
  rw [h1]
  exact Nat.mod_eq_of_lt (by omega)

/-- The two window tests around the loop. -/
theorem findOldest_window_tests (lower upper low : UInt64) :
    findOldestEmptyWindow lower upper = decide (lower.toNat > upper.toNat) ∧
    findOldestNoneFound low upper = decide (low.toNat > upper.toNat) := by
  simp [findOldestEmptyWindow, findOldestNoneFound, UInt64.lt_iff_toNat_lt]

theorem numBlocksPerFilter_eq : numBlocksPerFilter = coreNumBlocksPerFilter.toNat := by decide

theorem blockHashLag_eq : blockHashLag = coreBlockHashLag.toNat := by decide

example : prunerL2Guard 5 5 2 = true ∧ prunerL2Guard 6 5 2 = false ∧ prunerL1Guard 5 5 2 = true ∧
    prunerL1Guard 4 5 2 = false ∧ prunerHeaderEnd 25 coreBlockHashLag = 15 := by decide

example : prunerApplyTimeFloor 100 0 7 = 100 ∧ prunerApplyTimeFloor 100 5 7 = 7 ∧ prunerApplyTimeFloor 100 5 700 = 100 := by
  decide

end Juno.Tie.C16
