import JunoModel.Generated.Arith
import JunoModel.C05.Model
import JunoModel.C09.Model
/-!
C05 / C09 tie: the window arithmetic of the event index — every place where juno aligns a block number to its
8192-block window (`RunningEventFilter.onReorg`, both `rebuildRunningEventFilter`s — core and pruner —, the
floor's window of a pruned node, `MatchedBlockIterator.loadNextWindow`) and computes the window's last block — is
REGENERATED from the source on every check run, together with the constant `NumBlocksPerFilter`, and shown to be
the models' `wstart` (C05) / `windowStart … none` (C09) at the real window size. The five sites are five copies
of the same formula in three packages; an edit of one copy (e.g. `%` of another constant, `+ N` for `+ N - 1`)
stops this file compiling.
-/
namespace Juno.Tie.EventWindow
open Juno.Generated

def N : UInt64 := coreNumBlocksPerFilter

theorem N_toNat : N.toNat = 8192 := by decide

/-- `x - x % N` on `uint64` is the natural-number window start. -/
theorem align_toNat (x : UInt64) : (x - x % N).toNat = x.toNat - x.toNat % 8192 := by
  have hm : (x % N).toNat = x.toNat % 8192 := by rw [UInt64.toNat_mod, N_toNat]
  have hle : x % N ≤ x := by rw [UInt64.le_iff_toNat_le, hm]; exact Nat.mod_le _ _
  rw [UInt64.toNat_sub_of_le _ _ hle, hm]

/-- All five sites compute the same window start, the C05 model's `wstart` and the C09 model's floor window. -/
theorem window_start_sites (x : UInt64) :
    (refReorgWindowStart x N).toNat = Juno.C05.wstart 8192 x.toNat ∧
    (refRebuildWindowStart x N).toNat = Juno.C05.wstart 8192 x.toNat ∧
    (refPrunedRebuildWindowStart x N).toNat = Juno.C05.wstart 8192 x.toNat ∧
    (refPrunedFloorWindow x N).toNat = Juno.C09.windowStart 8192 x.toNat none ∧
    (aggCacheWindowStart x N).toNat = Juno.C05.wstart 8192 x.toNat := by
  simp only [refReorgWindowStart, refRebuildWindowStart, refPrunedRebuildWindowStart, refPrunedFloorWindow,
    aggCacheWindowStart, Juno.C05.wstart, Juno.C09.windowStart, align_toNat, and_self]

/-- The window start is aligned, at or below the block, and the block lies inside the window. -/
theorem window_start_spec (x : UInt64) :
    (refRebuildWindowStart x N).toNat % 8192 = 0 ∧ (refRebuildWindowStart x N).toNat ≤ x.toNat ∧
    x.toNat < (refRebuildWindowStart x N).toNat + 8192 := by
  simp only [refRebuildWindowStart, align_toNat]
  have := Nat.mod_lt x.toNat (by decide : 8192 > 0)
  have h2 := Nat.div_add_mod x.toNat 8192
  refine ⟨?_, by omega, by omega⟩
  have : x.toNat - x.toNat % 8192 = 8192 * (x.toNat / 8192) := by omega
  rw [this]; exact Nat.mul_mod_right _ _

/-- The three sites that compute a window's LAST block agree: `start + (N - 1)` (core, with
`MaxBlockOffsetPerFilter = NumBlocksPerFilter - 1`) and `start + N - 1` (pruner, cache) — `start + 8191`, without
wrapping for every window below the last one of the `uint64` range. -/
theorem window_end_sites (s : UInt64) (h : s.toNat + 8192 < UInt64.size) :
    (refRebuildWindowEnd s (N - 1)).toNat = s.toNat + 8191 ∧
    (refPrunedRebuildWindowEnd s N).toNat = s.toNat + 8191 ∧
    (aggCacheWindowEnd s N).toNat = s.toNat + 8191 := by
  have hN1 : (N - 1).toNat = 8191 := by decide
  have hN : N.toNat = 8192 := N_toNat
  have hadd : (s + N).toNat = s.toNat + 8192 := by
    rw [UInt64.toNat_add, hN]; exact Nat.mod_eq_of_lt h
  have h1le : (1 : UInt64) ≤ s + N := by
    rw [UInt64.le_iff_toNat_le, hadd]; show 1 ≤ s.toNat + 8192; omega
  have hsub : (s + N - 1).toNat = s.toNat + 8191 := by
    rw [UInt64.toNat_sub_of_le _ _ h1le, hadd]; show s.toNat + 8192 - 1 = _; omega
  refine ⟨?_, hsub, hsub⟩
  simp only [refRebuildWindowEnd]
  rw [UInt64.toNat_add, hN1]; exact Nat.mod_eq_of_lt (by have : UInt64.size = 18446744073709551616 := rfl; omega)

/-- `onReorg`: the reverted block is the last one of the previous window iff it is `currRangeStart - 1`. -/
theorem reorg_crosses_window (cur start : UInt64) (h : 1 ≤ start.toNat) :
    refReorgCrossesWindow cur start = (cur.toNat + 1 == start.toNat) := by
  have h1 : (1 : UInt64) ≤ start := by rw [UInt64.le_iff_toNat_le]; exact h
  have hs : (start - 1).toNat = start.toNat - 1 := UInt64.toNat_sub_of_le _ _ h1
  simp only [refReorgCrossesWindow]
  rw [Bool.eq_iff_iff]
  simp only [beq_iff_eq, ← UInt64.toNat_inj, hs]
  omega

/-- `InitializeRunningEventFilter`: a snapshot is current iff its next block is `latest + 1`. -/
theorem snapshot_is_current (next latest : UInt64) (h : latest.toNat + 1 < UInt64.size) :
    refSnapshotIsCurrent next latest = (next.toNat == latest.toNat + 1) := by
  have : (latest + 1).toNat = latest.toNat + 1 := by
    rw [UInt64.toNat_add]; exact Nat.mod_eq_of_lt h
  simp only [refSnapshotIsCurrent]
  rw [Bool.eq_iff_iff]
  simp only [beq_iff_eq, ← UInt64.toNat_inj, this]

end Juno.Tie.EventWindow
