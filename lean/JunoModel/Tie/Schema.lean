import JunoModel.Generated.Arith
/-!
Theorems over the REGENERATED definitions (`JunoModel/Generated/Arith.lean` is rewritten from
/repo's current source by /verif/gen on every check run). If a source edit changes one of the
translated functions so that a law below no longer holds, this file stops compiling.
-/
namespace Juno.Tie
open Juno.Generated

/-! ### migration.SchemaVersion bit-set laws (C18: downgrade / opt-out refusal relies on them) -/
theorem svDifference_self (a : UInt64) : svDifference a a = 0 := by
  simp only [svDifference, Id.run, pure]
  apply UInt64.toBitVec_inj.mp
  simp
theorem svContains_refl (a : UInt64) : svContains a a = true := by
  simp [svContains, svDifference, Id.run, pure]
theorem svContains_union_left (a b : UInt64) : svContains (svUnion a b) a = true := by
  simp only [svContains, svDifference, svUnion, Id.run, pure, beq_iff_eq]
  apply UInt64.toBitVec_inj.mp
  simp
  ext i
  simp
  intro h; simp [h]
theorem svContains_trans (a b c : UInt64) (h1 : svContains a b = true) (h2 : svContains b c = true) :
    svContains a c = true := by
  simp only [svContains, svDifference, Id.run, pure, beq_iff_eq] at *
  have h1' := congrArg UInt64.toBitVec h1
  have h2' := congrArg UInt64.toBitVec h2
  apply UInt64.toBitVec_inj.mp
  simp at *
  ext i
  have e1 := congrArg (fun v => v.getLsbD i) h1'
  have e2 := congrArg (fun v => v.getLsbD i) h2'
  simp at e1 e2 ⊢
  intro hc
  cases ha : a.toBitVec.getLsbD i <;> simp_all

theorem and_or_self (a b : UInt64) : (a ||| b) &&& b = b := by
  apply UInt64.toBitVec_inj.mp
  simp
  ext i
  simp
  intro h; simp [h]
theorem svHas_set_same (sv : UInt64) (i : UInt8) (h : i.toNat < 64) : svHas (svSet sv i) i = true := by
  simp only [svHas, svSet, Id.run, pure, Go.shl64, h, if_true]
  rw [and_or_self]
  simp only [bne_iff_ne, ne_eq]
  intro hz
  have := congrArg UInt64.toNat hz
  simp [UInt64.toNat_shiftLeft] at this
  have hi : i.toNat % 64 = i.toNat := Nat.mod_eq_of_lt h
  have hp : 2 ^ (i.toNat % 64) < 18446744073709551616 := by
    have : 2 ^ (i.toNat % 64) < 2 ^ 64 := Nat.pow_lt_pow_right (by omega) (by omega)
    simpa using this
  rw [Nat.shiftLeft_eq, Nat.one_mul, Nat.mod_eq_of_lt hp] at this
  have hpos : 0 < 2 ^ (i.toNat % 64) := Nat.pow_pos (by omega)
  omega

end Juno.Tie
