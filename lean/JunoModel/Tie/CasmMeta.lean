import JunoModel.Generated.Arith
import JunoModel.C02.ModelStore
import JunoModel.C07.ModelCasm
import JunoModel.C03.Model
/-!
C02 / C07 tie: `ClassCasmHashMetadata.IsMigrated` and `IsMigratedAt` of core/class.go, REGENERATED from the
source on every check run (the receiver's `migratedAt` field becomes a parameter), are the predicates of the two
models that carry the CASM-hash metadata record (`Juno.C02.CasmMeta` over `UInt64`, `Juno.C07.CasmMeta` over
`Nat`). Which hash a class has at a height (`CasmHashAt`) is decided by these two tests; an edit that turns
`<=` into `<`, drops the `> 0` guard or compares with the declaration height stops this file compiling.
-/
namespace Juno.Tie.Casm
open Juno.Generated

theorem c02_isMigrated (c : Juno.C02.CasmMeta) : casmIsMigrated c.migratedAt = c.isMigrated := rfl

theorem c02_isMigratedAt (c : Juno.C02.CasmMeta) (h : UInt64) : casmIsMigratedAt h c.migratedAt = c.isMigratedAt h := rfl

theorem c07_isMigrated (m : Juno.C07.CasmMeta) (at_ : UInt64) (e : m.migratedAt = at_.toNat) :
    casmIsMigrated at_ = m.isMigrated := by
  simp only [casmIsMigrated, Juno.C07.CasmMeta.isMigrated, Id.run, pure, e, gt_iff_lt, UInt64.lt_iff_toNat_lt]
  rfl

theorem c07_isMigratedAt (m : Juno.C07.CasmMeta) (at_ h : UInt64) (e : m.migratedAt = at_.toNat) :
    casmIsMigratedAt h at_ = m.isMigratedAt h.toNat := by
  simp only [casmIsMigratedAt, Juno.C07.CasmMeta.isMigratedAt, Id.run, pure, e, gt_iff_lt, UInt64.lt_iff_toNat_lt,
    UInt64.le_iff_toNat_le]
  rfl

/-- A record that was never migrated (`migratedAt = 0`) is migrated at no height; a migrated one exactly from
its migration height on. -/
theorem isMigratedAt_spec (at_ h : UInt64) :
    casmIsMigratedAt h at_ = true ↔ at_ ≠ 0 ∧ at_ ≤ h := by
  simp only [casmIsMigratedAt, Id.run, pure, gt_iff_lt, Bool.and_eq_true, decide_eq_true_eq]
  constructor
  · rintro ⟨a, b⟩
    refine ⟨fun e => ?_, b⟩
    rw [e] at a; exact absurd a (by decide)
  · rintro ⟨a, b⟩
    refine ⟨?_, b⟩
    rw [UInt64.lt_iff_toNat_lt]
    have : at_.toNat ≠ 0 := fun e => a (UInt64.toNat_inj.mp (by simpa using e))
    have h0 : (0 : UInt64).toNat = 0 := rfl
    omega

/-! ## C03: the history model's record (`Juno.C03.CasmMeta`, naturals) -/

/-- `CasmHashAt(n)` of the C03 model, written with the regenerated tests: not found below the declaration height
(`c.declaredAt > height`), else the V2 hash iff declared with V2 or migrated at `n` (`IsMigratedAt`). -/
theorem c03_at_eq (mt : Juno.C03.CasmMeta) (d m n : UInt64) (hd : mt.declaredAt = d.toNat) (hm : mt.migratedAt = m.toNat) :
    mt.at n.toNat =
      if casmNotYetDeclared d n then .notfound
      else match mt.v1 with
        | none => .ok mt.v2
        | some v1 => if casmIsMigratedAt n m then .ok mt.v2 else .ok v1 := by
  have h1 : casmNotYetDeclared d n = decide (d.toNat > n.toNat) := by
    simp [casmNotYetDeclared, UInt64.lt_iff_toNat_lt]
  have h2 : casmIsMigratedAt n m = (decide (m.toNat > 0) && decide (m.toNat ≤ n.toNat)) := by
    simp only [casmIsMigratedAt, Id.run, pure, gt_iff_lt, UInt64.lt_iff_toNat_lt, UInt64.le_iff_toNat_le]
    rfl
  unfold Juno.C03.CasmMeta.at
  rw [h1, h2, hd, hm]
  by_cases hgt : d.toNat > n.toNat
  · simp [hgt]
  · simp only [hgt, if_false, decide_false, Bool.false_eq_true]
    cases mt.v1 <;> rfl

/-- The refusal of `Migrate` as `metaStore` has it: declared with V2, or the migration height is not after the
declaration (`migratedAt <= c.declaredAt`), or already migrated. -/
theorem c03_migrate_refusal_eq (mt : Juno.C03.CasmMeta) (b d m : UInt64) (hd : mt.declaredAt = d.toNat)
    (hm : mt.migratedAt = m.toNat) :
    (mt.v1.isNone || decide (b.toNat ≤ mt.declaredAt) || decide (mt.migratedAt > 0)) =
      (mt.v1.isNone || casmMigrateNotAfterDeclaration b d || casmIsMigrated m) := by
  have h1 : casmMigrateNotAfterDeclaration b d = decide (b.toNat ≤ d.toNat) := by
    simp [casmMigrateNotAfterDeclaration, UInt64.le_iff_toNat_le]
  have h2 : casmIsMigrated m = decide (m.toNat > 0) := by
    simp only [casmIsMigrated, Id.run, pure, gt_iff_lt, UInt64.lt_iff_toNat_lt]
    rfl
  rw [h1, h2, hd, hm]

end Juno.Tie.Casm
