import JunoModel.Generated.Arith
import JunoModel.C02.ModelStore
import JunoModel.C07.ModelCasm
/-!
C02 / C07 tie: `ClassCasmHashMetadata.IsMigrated` and `IsMigratedAt` of core/class.go, REGENERATED from the
source on every check run (the receiver's `migratedAt` field becomes a parameter), are the predicates of the two
models that carry the CASM-hash metadata record (`Juno.C02.CasmMeta` over `UInt64`, `Juno.C07.CasmMeta` over
`Nat`). Which hash a class has at a height (`CasmHashAt`) is decided by these two tests; an edit that turns
`<=` into `<`, drops the `> 0` guard or compares with the declaration height stops this file compiling.
-/
namespace Juno.Tie.Casm
open Juno.Generated

theorem c02_isMigrated (c : Juno.C02.CasmMeta) : casmIsMigrated c.migratedAt = c.isMigrated := rfl

theorem c02_isMigratedAt (c : Juno.C02.CasmMeta) (h : UInt64) : casmIsMigratedAt h c.migratedAt = c.isMigratedAt h := rfl

theorem c07_isMigrated (m : Juno.C07.CasmMeta) (at_ : UInt64) (e : m.migratedAt = at_.toNat) :
    casmIsMigrated at_ = m.isMigrated := by
  simp only [casmIsMigrated, Juno.C07.CasmMeta.isMigrated, Id.run, pure, e, gt_iff_lt, UInt64.lt_iff_toNat_lt]
  rfl

theorem c07_isMigratedAt (m : Juno.C07.CasmMeta) (at_ h : UInt64) (e : m.migratedAt = at_.toNat) :
    casmIsMigratedAt h at_ = m.isMigratedAt h.toNat := by
  simp only [casmIsMigratedAt, Juno.C07.CasmMeta.isMigratedAt, Id.run, pure, e, gt_iff_lt, UInt64.lt_iff_toNat_lt,
    UInt64.le_iff_toNat_le]
  rfl

/-- A record that was never migrated (`migratedAt = 0`) is migrated at no height; a migrated one exactly from
its migration height on. -/
theorem isMigratedAt_spec (at_ h : UInt64) :
    casmIsMigratedAt h at_ = true ↔ at_ ≠ 0 ∧ at_ ≤ h := by
  simp only [casmIsMigratedAt, Id.run, pure, gt_iff_lt, Bool.and_eq_true, decide_eq_true_eq]
  constructor
  · rintro ⟨a, b⟩
    refine ⟨fun e => ?_, b⟩
    rw [e] at a; exact absurd a (by decide)
  · rintro ⟨a, b⟩
    refine ⟨?_, b⟩
    rw [UInt64.lt_iff_toNat_lt]
    have : at_.toNat ≠ 0 := fun e => a (UInt64.toNat_inj.mp (by simpa using e))
    have h0 : (0 : UInt64).toNat = 0 := rfl
    omega

end Juno.Tie.Casm
