import JunoModel.Generated.Arith
/-!
C15 tie: `batchSizeHint` of db/pebble and db/pebblev2 (the guard added by the repair 6fc8c4d: Pebble reslices
a batch's preallocated buffer to its 12-byte header on reset, so a capacity hint in 1..11 on a batch nothing
was written to made `Close` / `Write` panic). Both functions are REGENERATED from the source on every check run
(`JunoModel/Generated/Arith.lean`, Go `int` = `Int64`); the statements below are about those definitions, for
every 64-bit `size`, so an edit that lowers the constant, drops one side of the test or changes only one of the
two backends stops this file compiling.
-/
namespace Juno.Tie.C15
open Juno.Generated

/-- What the function is, as one expression. -/
theorem batchSizeHint_spec (s : Int64) :
    pebbleBatchSizeHint s = if 0 < s ∧ s < 12 then 12 else s := by
  simp only [pebbleBatchSizeHint, Id.run, pure, gt_iff_lt, Bool.and_eq_true, decide_eq_true_eq]

/-- The two backends carry the same guard. -/
theorem batchSizeHint_backends_agree (s : Int64) : pebblev2BatchSizeHint s = pebbleBatchSizeHint s := rfl

/-- A positive hint is never below Pebble's batch header (the range that crashed before 6fc8c4d). -/
theorem batchSizeHint_positive_covers_header (s : Int64) (h : 0 < s) : 12 ≤ pebbleBatchSizeHint s := by
  rw [batchSizeHint_spec]
  split
  · exact Int64.le_refl _
  · rename_i hn
    rw [Int64.le_iff_toInt_le]
    rw [Int64.lt_iff_toInt_lt] at h
    have : ¬ s.toInt < (12 : Int64).toInt := by
      intro hlt; exact hn ⟨Int64.lt_iff_toInt_lt.mpr h, Int64.lt_iff_toInt_lt.mpr hlt⟩
    omega

/-- Zero ("no hint") and negative values are passed through unchanged, hints of 12 and more as well. -/
theorem batchSizeHint_identity_outside (s : Int64) (h : s ≤ 0 ∨ 12 ≤ s) : pebbleBatchSizeHint s = s := by
  rw [batchSizeHint_spec]
  split
  · rename_i hc
    rcases h with h | h
    · rw [Int64.le_iff_toInt_le] at h; have := Int64.lt_iff_toInt_lt.mp hc.1; omega
    · rw [Int64.le_iff_toInt_le] at h; have := Int64.lt_iff_toInt_lt.mp hc.2; omega
  · rfl

/-- The result never shrinks a hint and changes it only inside 1..11. -/
theorem batchSizeHint_monotone_fix (s : Int64) : s ≤ pebbleBatchSizeHint s := by
  rw [batchSizeHint_spec]
  split
  · rename_i hc; rw [Int64.le_iff_toInt_le]; have := Int64.lt_iff_toInt_lt.mp hc.2; omega
  · exact Int64.le_refl _

example : pebbleBatchSizeHint 5 = 12 ∧ pebbleBatchSizeHint 0 = 0 ∧ pebbleBatchSizeHint 4096 = 4096 := by decide

end Juno.Tie.C15
