import JunoModel.Generated.Arith
import JunoModel.C11.ModelPretty
import JunoModel.C11.ModelPrettyText
/-!
C11 tie: the three constants of jsonrpc/pretty_error.go (the size of the window of recently read bytes kept for
the parse-error message, the width a quoted line is truncated to, the number of context rows) and the two tests that
decide which branch runs (`len(p) >= maxWindowSize` in `windowBuffer.Write`, `len(runes) <= maxLineWidth` in
`truncateAround`) are REGENERATED from the source on every check run; the model of the pretty printer
(`Juno.C11.Pretty`) uses exactly these values and tests, so `pretty_error_indices_in_range`,
`pretty_truncate_in_range` and `pretty_window_invariant` speak about the code's constants.
-/
namespace Juno.Tie.C11
open Juno.Generated Juno.C11.Pretty

theorem constants_eq :
    (maxWindowSize : Int) = jsonrpcMaxWindowSize.toInt ∧ (maxLineWidth : Int) = jsonrpcMaxLineWidth.toInt ∧
    (maxContextRows : Int) = jsonrpcMaxContextRows.toInt := by decide

/-- `windowBuffer.Write`: a chunk of at least `maxWindowSize` bytes replaces the window (the model's first branch). -/
theorem chunkFillsWindow_eq (n : Nat) (h : n < 2 ^ 62) :
    jsonrpcChunkFillsWindow (Int64.ofNat n) = decide (n ≥ maxWindowSize) := by
  have hn : (Int64.ofNat n).toInt = (n : Int) := Int64.toInt_ofNat_of_lt (by omega)
  have hc : (512 : Int64).toInt = 512 := by decide
  simp only [jsonrpcChunkFillsWindow, ge_iff_le, Int64.le_iff_toInt_le, hn, hc, maxWindowSize]
  congr 1
  apply propext; omega

/-- `truncateAround`: a line of at most `maxLineWidth` runes is returned unchanged (the model's `none`). -/
theorem lineShortEnough_eq (n : Nat) (h : n < 2 ^ 62) :
    jsonrpcLineShortEnough (Int64.ofNat n) jsonrpcMaxLineWidth = decide (n ≤ maxLineWidth) := by
  have hn : (Int64.ofNat n).toInt = (n : Int) := Int64.toInt_ofNat_of_lt (by omega)
  have hc : jsonrpcMaxLineWidth.toInt = 80 := by decide
  simp only [jsonrpcLineShortEnough, Int64.le_iff_toInt_le, hn, hc, maxLineWidth]
  congr 1
  apply propext; omega

end Juno.Tie.C11
