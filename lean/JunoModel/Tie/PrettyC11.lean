import JunoModel.Generated.Arith
import JunoModel.C11.ModelPretty
import JunoModel.C11.ModelPrettyText
/-!
C11 tie: the three constants of jsonrpc/pretty_error.go (the size of the window of recently read bytes kept for
the parse-error message, the width a quoted line is truncated to, the number of context rows) and the two tests that
decide which branch runs (`len(p) >= maxWindowSize` in `windowBuffer.Write`, `len(runes) <= maxLineWidth` in
`truncateAround`) are REGENERATED from the source on every check run; the model of the pretty printer
(`Juno.C11.Pretty`) uses exactly these values and tests, so `pretty_error_indices_in_range`,
`pretty_truncate_in_range` and `pretty_window_invariant` speak about the code's constants.
-/
namespace Juno.Tie.C11
open Juno.Generated Juno.C11.Pretty

theorem constants_eq :
    (maxWindowSize : Int) = jsonrpcMaxWindowSize.toInt ∧ (maxLineWidth : Int) = jsonrpcMaxLineWidth.toInt ∧
    (maxContextRows : Int) = jsonrpcMaxContextRows.toInt := by decide

/-- `windowBuffer.Write`: a chunk of at least `maxWindowSize` bytes replaces the window (the model's first branch). -/
theorem chunkFillsWindow_eq (n : Nat) (h : n < 2 ^ 62) :
    jsonrpcChunkFillsWindow (Int64.ofNat n) = decide (n ≥ maxWindowSize) := by
  have hn : (Int64.ofNat n).toInt = (n : Int) := Int64.toInt_ofNat_of_lt (by omega)
  have hc : (512 : Int64).toInt = 512 := by decide
  simp only [jsonrpcChunkFillsWindow, ge_iff_le, Int64.le_iff_toInt_le, hn, hc, maxWindowSize]
  congr 1
  apply propext; omega

/-- `truncateAround`: a line of at most `maxLineWidth` runes is returned unchanged (the model's `none`). -/
theorem lineShortEnough_eq (n : Nat) (h : n < 2 ^ 62) :
    jsonrpcLineShortEnough (Int64.ofNat n) jsonrpcMaxLineWidth = decide (n ≤ maxLineWidth) := by
  have hn : (Int64.ofNat n).toInt = (n : Int) := Int64.toInt_ofNat_of_lt (by omega)
  have hc : jsonrpcMaxLineWidth.toInt = 80 := by decide
  simp only [jsonrpcLineShortEnough, Int64.le_iff_toInt_le, hn, hc, maxLineWidth]
  congr 1
  apply propext; omega

/-! ## The index arithmetic of `truncateAround`

Each right-hand side of `truncateAround` (`maxContextSize`, `pivotIdx`, the two `start`s, `end`, the returned column) is
regenerated as Go `int` (`Int64`) arithmetic and shown to be the integer expression the model's `truncateAround`
computes at that place (`let maxContextSize := 80 - 2*3`, `min (pivot - 1) len`, `max 0 (pivotIdx - maxContextSize / 2)`,
`min (start0 + maxContextSize) len`, `max 0 (end - maxContextSize)`, `pivotIdx - start + left + 1`) whenever the operands
fit 40 bits — no intermediate wraps. `pretty_truncate_in_range` is proved over these integer expressions. -/

/-- values that fit 40 bits: every line length, column and pivot the printer can meet (a window is 512 bytes) -/
def Small (x : Int64) : Prop := -(2 ^ 40 : Int) < x.toInt ∧ x.toInt < 2 ^ 40

private theorem toInt_max (a b : Int64) : (max a b).toInt = max a.toInt b.toInt := by
  have e : max a b = if a ≤ b then b else a := rfl
  rw [e]
  by_cases h : a ≤ b
  · rw [if_pos h]; rw [Int64.le_iff_toInt_le] at h; omega
  · rw [if_neg h]; rw [Int64.le_iff_toInt_le] at h; omega

private theorem toInt_min (a b : Int64) : (min a b).toInt = min a.toInt b.toInt := by
  have e : min a b = if a ≤ b then a else b := rfl
  rw [e]
  by_cases h : a ≤ b
  · rw [if_pos h]; rw [Int64.le_iff_toInt_le] at h; omega
  · rw [if_neg h]; rw [Int64.le_iff_toInt_le] at h; omega

private theorem toInt_sub_small (a b : Int64) (ha : -(2 ^ 42 : Int) < a.toInt ∧ a.toInt < 2 ^ 42)
    (hb : -(2 ^ 42 : Int) < b.toInt ∧ b.toInt < 2 ^ 42) : (a - b).toInt = a.toInt - b.toInt := by
  rw [Int64.toInt_sub]; apply Int.bmod_eq_of_le <;> omega

private theorem toInt_add_small (a b : Int64) (ha : -(2 ^ 42 : Int) < a.toInt ∧ a.toInt < 2 ^ 42)
    (hb : -(2 ^ 42 : Int) < b.toInt ∧ b.toInt < 2 ^ 42) : (a + b).toInt = a.toInt + b.toInt := by
  rw [Int64.toInt_add]; apply Int.bmod_eq_of_le <;> omega

theorem truncContext_eq : (jsonrpcTruncContext jsonrpcMaxLineWidth 3).toInt = 74 := by decide

theorem truncPivotIdx_eq (pivot len : Int64) (hp : Small pivot) (_hl : Small len) :
    (jsonrpcTruncPivotIdx pivot len).toInt = min (pivot.toInt - 1) len.toInt := by
  unfold Small at *
  have e1 : (1 : Int64).toInt = 1 := by decide
  simp only [jsonrpcTruncPivotIdx]
  rw [toInt_min, toInt_sub_small _ _ (by omega) (by rw [e1]; omega), e1]

theorem truncStart0_eq (pivotIdx : Int64) (hp : Small pivotIdx) :
    (jsonrpcTruncStart0 pivotIdx 74).toInt = max 0 (pivotIdx.toInt - 74 / 2) := by
  unfold Small at *
  have e : ((74 : Int64) / 2).toInt = 37 := by decide
  have e0 : (0 : Int64).toInt = 0 := by decide
  simp only [jsonrpcTruncStart0]
  rw [toInt_max, toInt_sub_small _ _ (by omega) (by rw [e]; omega), e, e0]
  rfl

theorem truncEnd_eq (start len : Int64) (hs : Small start) (_hl : Small len) :
    (jsonrpcTruncEnd start 74 len).toInt = min (start.toInt + 74) len.toInt := by
  unfold Small at *
  have e : (74 : Int64).toInt = 74 := by decide
  simp only [jsonrpcTruncEnd]
  rw [toInt_min, toInt_add_small _ _ (by omega) (by rw [e]; omega), e]

theorem truncStart_eq (end_ : Int64) (he : Small end_) :
    (jsonrpcTruncStart end_ 74).toInt = max 0 (end_.toInt - 74) := by
  unfold Small at *
  have e : (74 : Int64).toInt = 74 := by decide
  have e0 : (0 : Int64).toInt = 0 := by decide
  simp only [jsonrpcTruncStart]
  rw [toInt_max, toInt_sub_small _ _ (by omega) (by rw [e]; omega), e, e0]

theorem truncColumn_eq (pivotIdx start left : Int64) (hp : Small pivotIdx) (hs : Small start) (hl : Small left) :
    (jsonrpcTruncColumn pivotIdx start left).toInt = pivotIdx.toInt - start.toInt + left.toInt + 1 := by
  unfold Small at *
  have e1 : (1 : Int64).toInt = 1 := by decide
  simp only [jsonrpcTruncColumn]
  have h1 := toInt_sub_small pivotIdx start (by omega) (by omega)
  have h2 := toInt_add_small (pivotIdx - start) left (by rw [h1]; omega) (by omega)
  rw [toInt_add_small _ _ (by rw [h2, h1]; omega) (by rw [e1]; omega), h2, h1, e1]

end Juno.Tie.C11
