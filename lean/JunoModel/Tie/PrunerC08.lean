import JunoModel.Generated.Arith
import JunoModel.C08.ModelDb
/-!
C08 tie: the two pieces of pruner arithmetic the RPC model of a pruned node depends on — which headers a prune
keeps (`PruneBlockDataUpto`'s carve-out of `BlockHashLag` headers) and the floor `RetentionFloor.Seed` derives from
the oldest retained block — REGENERATED from pruner/accessors.go, pruner/retention.go and core/block.go on every
check run, are the model's `Db.headerKept` and the floor value of `Db.seed`.
-/
namespace Juno.Tie.C08
open Juno.Generated Juno.C08

/-- A header survives a prune with range end `e` iff it is at or above `e - BlockHashLag` (every header when
`e ≤ BlockHashLag`): the model's `prunedBelow ≤ n + blockHashLag`. -/
theorem headerKept_eq (e n : UInt64) :
    decide (e.toNat ≤ n.toNat + blockHashLag) =
      decide ((if prunerHeaderCarveOutApplies e coreBlockHashLag then prunerHeaderEnd e coreBlockHashLag else 0).toNat ≤ n.toNat) := by
  have hk : coreBlockHashLag.toNat = blockHashLag := by decide
  simp only [prunerHeaderCarveOutApplies, prunerHeaderEnd, gt_iff_lt, UInt64.lt_iff_toNat_lt, hk]
  by_cases h : blockHashLag < e.toNat
  · have hle : coreBlockHashLag ≤ e := by rw [UInt64.le_iff_toNat_le, hk]; omega
    simp only [h, decide_true, if_true]
    rw [UInt64.toNat_sub_of_le _ _ hle, hk]
    congr 1
    apply propext; omega
  · simp only [h, decide_false, Bool.false_eq_true, if_false]
    have h0 : (0 : UInt64).toNat = 0 := rfl
    rw [h0]
    congr 1
    apply propext; omega

/-- The floor `Seed` raises to: `max(oldest, 1) - 1`, the model's `max o 1 - 1`. -/
theorem seedFloor_eq (o : UInt64) : (floorSeedValue o).toNat = max o.toNat 1 - 1 := by
  have e : max o 1 = if o ≤ 1 then 1 else o := (Eq.symm (UInt64.eq_of_toBitVec_eq rfl) : max o 1 = if o ≤ 1 then 1 else o)
  have h1 : (1 : UInt64).toNat = 1 := rfl
  simp only [floorSeedValue, e]
  by_cases h : o ≤ 1
  · rw [if_pos h]; rw [UInt64.le_iff_toNat_le, h1] at h
    have : max o.toNat 1 = 1 := by omega
    rw [this]; rfl
  · rw [if_neg h]
    rw [UInt64.le_iff_toNat_le, h1] at h
    have hle : (1 : UInt64) ≤ o := by rw [UInt64.le_iff_toNat_le, h1]; omega
    rw [UInt64.toNat_sub_of_le _ _ hle, h1]
    have : max o.toNat 1 = o.toNat := by omega
    rw [this]

/-- `l1_accepted` resolves to `min(L1 head number, chain height)` in rpc/v9 and rpc/v10 alike: the model's
`l1AcceptedNumber` (one version-parameterised definition). -/
theorem l1Accepted_eq (l h : UInt64) :
    (rpcV10L1Accepted l h).toNat = min l.toNat h.toNat ∧ rpcV9L1Accepted l h = rpcV10L1Accepted l h := by
  refine ⟨?_, rfl⟩
  simp only [rpcV10L1Accepted, Std.min_eq_if]
  by_cases hle : l ≤ h
  · rw [if_pos hle]; rw [UInt64.le_iff_toNat_le] at hle; rw [if_pos hle]
  · rw [if_neg hle]; rw [UInt64.le_iff_toNat_le] at hle; rw [if_neg hle]

end Juno.Tie.C08
