import JunoModel.Generated.Arith
import JunoModel.C14.Model
/-!
C14 tie: the watermark comparisons of consensus/walstore — "this height is already pruned" in `SetWALEntry`,
`DeleteWALEntries`, `pruneLiveEntriesUpTo`, and in the two copies of the index update
(`updateIndexesFromCommittedRecords` for live flushes, `applyEncodedRecord` for replay after a restart), the loop
test that drops live heights, the amortisation test of the obsolete-file cleanup and its interval — are
REGENERATED from the source on every check run and shown to be the C14 model's tests (`Store.setEntry`,
`Store.deleteEntries`, `Idx.pruneUpTo`, `Idx.applyRec`, `cleanupInterval`). "Never revives pruned entries" rests on
the live path and the replay path making the SAME inclusive test; an edit of one copy stops this file compiling.
-/
namespace Juno.Tie.C14
open Juno.Generated Juno.C14

theorem le_toNat (a b : UInt64) : decide (a ≤ b) = decide (a.toNat ≤ b.toNat) := by
  simp [UInt64.le_iff_toNat_le]

/-- The five copies of "height is at or below the watermark" are one and the same inclusive test. -/
theorem watermark_tests_agree (h w : UInt64) :
    walSetBelowWatermark h w = decide (h.toNat ≤ w.toNat) ∧
    walDeleteAlreadyPruned h w = decide (h.toNat ≤ w.toNat) ∧
    walPruneNoAdvance h w = decide (h.toNat ≤ w.toNat) ∧
    walIndexSkipsPruned h w = decide (h.toNat ≤ w.toNat) ∧
    walReplaySkipsPruned h w = decide (h.toNat ≤ w.toNat) := by
  simp only [walSetBelowWatermark, walDeleteAlreadyPruned, walPruneNoAdvance, walIndexSkipsPruned,
    walReplaySkipsPruned, le_toNat, and_self]

/-- `SetWALEntry` as the model has it. -/
theorem setEntry_eq (s : Store) (h w : UInt64) (e : Nat) (hw : s.idx.pruned = w.toNat) :
    s.setEntry h.toNat e =
      if s.closed then (s, .closed)
      else if walSetBelowWatermark h w then (s, .ok)
      else ({ s with pending := s.pending ++ [.entry h.toNat e] }, .ok) := by
  simp [Store.setEntry, walSetBelowWatermark, le_toNat, hw]

/-- The index update of a committed / replayed entry record. -/
theorem applyRec_entry_eq (x : Idx) (f : Nat) (h w : UInt64) (e : Nat) (hw : x.pruned = w.toNat) :
    x.applyRec f (.entry h.toNat e) =
      if walIndexSkipsPruned h w then x else x.addLiveEntry f h.toNat e := by
  simp [Idx.applyRec, walIndexSkipsPruned, le_toNat, hw]

theorem applyRec_replay_same_test (h w : UInt64) : walReplaySkipsPruned h w = walIndexSkipsPruned h w := rfl

/-- `pruneLiveEntriesUpTo`: a no-op at or below the watermark (the model's guard), and inside the loop a live
height is dropped iff it is AT or below the new watermark (the model's `k ≤ h`). -/
theorem pruneUpTo_guard_eq (x : Idx) (h w : UInt64) (hw : x.pruned = w.toNat) :
    x.pruneUpTo h.toNat =
      if walPruneNoAdvance h w then x
      else (AMap.keys x.entries).foldl (fun y k => if k ≤ h.toNat then y.deleteLiveHeight k else y)
        { x with pruned := h.toNat } := by
  simp [Idx.pruneUpTo, walPruneNoAdvance, le_toNat, hw]

theorem pruneDropsHeight_eq (k h : UInt64) : walPruneDropsHeight k h = decide (k.toNat ≤ h.toNat) := by
  simp [walPruneDropsHeight, le_toNat]

/-- `DeleteWALEntries` as the model has it. -/
theorem deleteEntries_eq (s : Store) (h w : UInt64) (hw : s.idx.pruned = w.toNat) :
    s.deleteEntries h.toNat =
      if s.closed then (s, .closed)
      else if walDeleteAlreadyPruned h w then (s, .ok)
      else match mergePrune s.pending h.toNat with
        | some p => ({ s with pending := p }, .ok)
        | none => ({ s with pending := s.pending ++ [.prune h.toNat] }, .ok) := by
  unfold Store.deleteEntries
  simp only [walDeleteAlreadyPruned, le_toNat, hw, decide_eq_true_eq]
  by_cases hc : s.closed = true
  · simp [hc]
  · by_cases hl : h.toNat ≤ w.toNat
    · simp [hc, hl]
    · simp only [hc, hl, if_false, Bool.false_eq_true]
      cases mergePrune s.pending h.toNat <;> rfl

/-- The cleanup of obsolete log files runs once `cleanupInterval` prune records have accumulated. -/
theorem cleanupInterval_eq : cleanupInterval = walCleanupInterval.toNat := by decide

theorem cleanupNotDue_eq (n : UInt64) : walCleanupNotDue n = decide (n.toNat < cleanupInterval) := by
  simp only [walCleanupNotDue, UInt64.lt_iff_toNat_lt, cleanupInterval]
  rfl

end Juno.Tie.C14
