import JunoModel.Generated.Arith
import JunoModel.C17.Model
import JunoModel.C17.ModelLoop
/-!
C17 tie: the comparisons and the chunk arithmetic of l1/l1.go (`applyStateUpdate`, `setL1Head`,
`catchUpL1HeadUpdates`) are REGENERATED from the source on every check run as single expressions (the condition
of the k-th `if`, the right-hand side of an assignment; see `gen/targets.json`) and shown here to be the tests the
C17 model makes at the corresponding places — `<=` against `<`, `>=` against `>`, which operand is which, and the
wrapping `to + 1`. The model works on naturals (L1 block numbers are `uint64` keys); the statements are for all
`uint64` values. An edit of one of these expressions that changes its value for some operands stops this file
compiling (e.g. the seeded class "finalised means strictly below", "keep the entry AT the removed height").
-/
namespace Juno.Tie.C17
open Juno.Generated Juno.C17

/-- `var from uint64; if to+1 > chunk { from = to + 1 - chunk }`: the model's wrapping `chunkFromU64`. -/
theorem chunkFromU64_eq (to chunk : UInt64) :
    chunkFromU64 to chunk = if l1ChunkHasFloor to chunk then l1ChunkFrom to chunk else 0 := by
  simp [chunkFromU64, l1ChunkHasFloor, l1ChunkFrom]

/-- `applyStateUpdate`, removed log: an entry is deleted iff its L1 block is AT or above the removed one;
`Buf.dropFrom` keeps exactly the others. -/
theorem dropFrom_keeps (k h : UInt64) :
    (decide (k.toNat < h.toNat)) = !l1RemovedDropsEntry k h := by
  simp only [l1RemovedDropsEntry, ge_iff_le, UInt64.le_iff_toNat_le]
  by_cases h1 : k.toNat < h.toNat
  · have : ¬ h.toNat ≤ k.toNat := by omega
    simp [h1, this]
  · have : h.toNat ≤ k.toNat := by omega
    simp [h1, this]

theorem dropFrom_eq (b : Buf) (h : UInt64) (hb : ∀ e ∈ b, e.1 < 2 ^ 64) :
    b.dropFrom h.toNat = b.filter (fun e => !l1RemovedDropsEntry (UInt64.ofNat e.1) h) := by
  unfold Buf.dropFrom
  apply List.filter_congr
  intro e he
  have := hb e he
  rw [← dropFrom_keeps]
  simp [UInt64.toNat_ofNat', Nat.mod_eq_of_lt this]

/-- `setL1Head`: an entry counts as finalised iff its L1 block is AT or below the finalised height (the filter of
`pickMax`, the complement of `Buf.prune`). -/
theorem entryFinalised_eq (k fin : UInt64) : l1EntryFinalised k fin = decide (k.toNat ≤ fin.toNat) := by
  simp [l1EntryFinalised, UInt64.le_iff_toNat_le]

/-- `setL1Head`: a later entry with the same L1 block number replaces the candidate (`>=`), as `pickStep`. -/
theorem entryIsNewMax_eq (k m : UInt64) : l1EntryIsNewMax k m = decide (k.toNat ≥ m.toNat) := by
  simp [l1EntryIsNewMax, UInt64.le_iff_toNat_le]

theorem pickStep_eq (acc : UInt64 × Option SU) (k : UInt64) (v : SU) :
    pickStep (acc.1.toNat, acc.2) (k.toNat, v) =
      if l1EntryIsNewMax k acc.1 then (k.toNat, some v) else (acc.1.toNat, acc.2) := by
  simp [pickStep, entryIsNewMax_eq]

/-- `setL1Head`'s regression guard (5084dce): the candidate is skipped iff it commits a STRICTLY older
Starknet block than the stored head. -/
theorem skipCandidate_eq (stored : Head) (cand : SU) (l2c l2s : UInt64) (hc : cand.l2 = l2c.toNat)
    (hs : stored.l2 = l2s.toNat) :
    skipCandidate true (some stored) cand = l1CandidateOlderThanStored l2c l2s := by
  simp [skipCandidate, l1CandidateOlderThanStored, hc, hs, UInt64.lt_iff_toNat_lt]

/-- Catch-up: an event counts as finalised iff its L1 block is AT or below the finalised height read before
the scan; the loop ends once one was seen or the scan reached block 0. -/
theorem catchUpEventFinalised_eq (l1 fin : UInt64) :
    l1CatchUpEventFinalised l1 fin = decide (l1.toNat ≤ fin.toNat) := by
  simp [l1CatchUpEventFinalised, UInt64.le_iff_toNat_le]

theorem catchUpDone_eq (found : Bool) (frm : UInt64) :
    l1CatchUpDone found frm = (found || frm.toNat == 0) := by
  have : (frm == 0) = (frm.toNat == 0) := by
    rw [Bool.eq_iff_iff]; simp [← UInt64.toNat_inj]
  simp [l1CatchUpDone, this]

example : l1ChunkHasFloor 9 4 = true ∧ l1ChunkFrom 9 4 = 6 ∧ l1ChunkHasFloor 18446744073709551615 4 = false ∧
    l1RemovedDropsEntry 7 7 = true ∧ l1EntryFinalised 7 7 = true ∧ l1CandidateOlderThanStored 7 7 = false := by decide

end Juno.Tie.C17
