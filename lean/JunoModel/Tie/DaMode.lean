import JunoModel.Generated.Arith
/-!
Theorems over the REGENERATED definitions (`JunoModel/Generated/Arith.lean` is rewritten from
/repo's current source by /verif/gen on every check run). If a source edit changes one of the
translated functions so that a law below no longer holds, this file stops compiling.
-/
namespace Juno.Tie
open Juno.Generated

/-! ### `dataAvailabilityMode` packs two 32-bit modes injectively (C02: tx hash preimage) -/
theorem daMode_inj (a b c d : UInt32) (h : daMode a b = daMode c d) : a = c ∧ b = d := by
  simp only [daMode, Id.run, pure, Go.shl64] at h
  have h' := congrArg UInt64.toNat h
  have ha := a.toNat_lt; have hb := b.toNat_lt; have hc := c.toNat_lt; have hd := d.toNat_lt
  simp [UInt64.toNat_add, UInt64.toNat_shiftLeft] at h'
  rw [Nat.shiftLeft_eq, Nat.shiftLeft_eq] at h'
  have e : a.toNat = c.toNat ∧ b.toNat = d.toNat := by omega
  exact ⟨UInt32.toNat_inj.mp e.1, UInt32.toNat_inj.mp e.2⟩

end Juno.Tie
