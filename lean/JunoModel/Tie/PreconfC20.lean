import JunoModel.Generated.Arith
import JunoModel.C20.Model
/-!
C20 tie: the slot tests of `computeUpdate` (sync/preconfirmed/chain_storage.go) — the chain's oldest slot differs
from the expected one, the target lies below the oldest slot, above `tip+1` (a gap), or exactly at `tip+1` (append) —
are REGENERATED from the source on every check run and shown to be the tests of the C20 model's `computeUpdate`,
including the one place where the code's `tip+1` wraps (`succ64`). "Contiguous above the head" rests on the gap and
append tests being exactly these; an edit (`>=` for `>`, `tip` for `tip+1`) stops this file compiling.
-/
namespace Juno.Tie.C20
open Juno.Generated Juno.C20

theorem succ64_eq (tip : UInt64) : (tip + 1).toNat = succ64 tip.toNat := by
  have hlt : tip.toNat < 18446744073709551616 := tip.toNat_lt
  have hu : U64 = 18446744073709551616 := rfl
  rw [UInt64.toNat_add]
  show (tip.toNat + 1) % 18446744073709551616 = succ64 tip.toNat
  unfold succ64
  by_cases h : tip.toNat + 1 = U64
  · rw [if_pos h]; rw [hu] at h; rw [h]
  · rw [if_neg h]; rw [hu] at h; exact Nat.mod_eq_of_lt (by omega)

theorem misaligned_eq (a b : UInt64) : preconfMisaligned a b = (a.toNat != b.toNat) := by
  simp only [preconfMisaligned, bne]
  congr 1
  rw [Bool.eq_iff_iff]; simp [← UInt64.toNat_inj]

theorem belowOldest_eq (n o : UInt64) : preconfBelowOldest n o = decide (n.toNat < o.toNat) := by
  simp [preconfBelowOldest, UInt64.lt_iff_toNat_lt]

theorem gapAboveTip_eq (n tip : UInt64) : preconfGapAboveTip n tip = decide (n.toNat > succ64 tip.toNat) := by
  simp only [preconfGapAboveTip, gt_iff_lt, UInt64.lt_iff_toNat_lt, succ64_eq]

theorem appendsAtTip_eq (n tip : UInt64) : preconfAppendsAtTip n tip = (n.toNat == succ64 tip.toNat) := by
  simp only [preconfAppendsAtTip, ← succ64_eq]
  rw [Bool.eq_iff_iff]; simp [← UInt64.toNat_inj]

/-- At the last `uint64` the code's `tip+1` is 0: every target is "above tip+1" or equal to it only at 0 — the wrap
point the model transcribes (`updates_at_max_tip_are_rejected`). -/
example : preconfGapAboveTip 5 18446744073709551615 = true ∧ preconfAppendsAtTip 0 18446744073709551615 = true := by decide

end Juno.Tie.C20
