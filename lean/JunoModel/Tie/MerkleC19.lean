import JunoModel.Tie.BitsCommon
import JunoModel.C19.Model
/-!
C19 tie: `nextPowerOfTwo` of consensus/propeller/merkle/merkle.go (`if n <= 2 { return 2 }; return 1 <<
bits.Len(uint(n-1))`, Go `int`), REGENERATED from the source on every check run, is the model's `nextPow2` for
every leaf count below 2^62 (far above any committee). The Merkle theorems of C19 (`merkle_complete`,
`merkle_sound`, `merkle_proof_length`) are stated over `nextPow2`; an edit of the Go function that changes the padded
size for any such count stops this file compiling.
-/
namespace Juno.Tie.C19
open Juno.Generated Juno.C19 Juno.Tie.Bits

theorem nextPowerOfTwo_eq (n : Nat) (h : n < 2 ^ 62) :
    (merkleNextPow2 (Int64.ofNat n)).toInt = (nextPow2 n : Int) := by
  have hn : (Int64.ofNat n).toInt = (n : Int) := Int64.toInt_ofNat_of_lt (by omega)
  have h2 : (2 : Int64).toInt = 2 := by decide
  have h1 : (1 : Int64).toInt = 1 := by decide
  simp only [merkleNextPow2, Id.run, pure, nextPow2]
  by_cases hle : n ≤ 2
  · have : Int64.ofNat n ≤ 2 := by rw [Int64.le_iff_toInt_le, hn, h2]; omega
    simp [this, hle, h2]
  · have : ¬ Int64.ofNat n ≤ 2 := by rw [Int64.le_iff_toInt_le, hn, h2]; omega
    simp only [this, decide_false, hle, if_false, Bool.false_eq_true]
    -- the argument of bits.Len: uint(n-1)
    have hsub : (Int64.ofNat n - 1).toInt = ((n - 1 : Nat) : Int) := by
      rw [Int64.toInt_sub, hn, h1]
      have : ((n : Int) - 1) = ((n - 1 : Nat) : Int) := by omega
      rw [this]
      apply Int.bmod_eq_of_le <;> omega
    have harg : ((Int64.ofNat n - 1).toUInt64).toNat = n - 1 := by
      have e : Int64.ofNat n - 1 = Int64.ofNat (n - 1) := by
        apply Int64.toInt_inj.mp
        rw [hsub, Int64.toInt_ofNat_of_lt (by omega)]
      rw [e]
      have : (Int64.ofNat (n - 1)).toUInt64 = UInt64.ofNat (n - 1) := rfl
      rw [this, UInt64.toNat_ofNat']
      exact Nat.mod_eq_of_lt (by omega)
    rw [bitsLen64_toNat, harg]
    have hne : n - 1 ≠ 0 := by omega
    simp only [hne, if_false]
    have hlog : Nat.log2 (n - 1) < 62 := (Nat.log2_lt hne).mpr (by omega)
    unfold Go.shl64i
    rw [if_pos (by omega)]
    -- 1 <<< k on Int64 for k < 63
    have : ((1 : Int64) <<< Int64.ofNat (Nat.log2 (n - 1) + 1)).toInt = ((1 <<< (Nat.log2 (n - 1) + 1) : Nat) : Int) := by
      generalize hk : Nat.log2 (n - 1) + 1 = k
      have hk63 : k < 63 := by omega
      clear hk hlog hne harg hsub this hle hn h h1 h2
      revert k
      decide
    exact this

example : (merkleNextPow2 5).toInt = 8 ∧ (merkleNextPow2 8).toInt = 8 ∧ (merkleNextPow2 9).toInt = 16 ∧
    (merkleNextPow2 0).toInt = 2 := by decide

end Juno.Tie.C19
