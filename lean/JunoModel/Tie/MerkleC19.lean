import JunoModel.Tie.BitsCommon
import JunoModel.C19.Model
import JunoModel.C19.ModelUnits
/-!
C19 tie: `nextPowerOfTwo` of consensus/propeller/merkle/merkle.go (`if n <= 2 { return 2 }; return 1 <<
bits.Len(uint(n-1))`, Go `int`), REGENERATED from the source on every check run, is the model's `nextPow2` for
every leaf count below 2^62 (far above any committee). The Merkle theorems of C19 (`merkle_complete`,
`merkle_sound`, `merkle_proof_length`) are stated over `nextPow2`; an edit of the Go function that changes the padded
size for any such count stops this file compiling.
-/
namespace Juno.Tie.C19
open Juno.Generated Juno.C19 Juno.Tie.Bits

theorem nextPowerOfTwo_eq (n : Nat) (h : n < 2 ^ 62) :
    (merkleNextPow2 (Int64.ofNat n)).toInt = (nextPow2 n : Int) := by
  have hn : (Int64.ofNat n).toInt = (n : Int) := Int64.toInt_ofNat_of_lt (by omega)
  have h2 : (2 : Int64).toInt = 2 := by decide
  have h1 : (1 : Int64).toInt = 1 := by decide
  simp only [merkleNextPow2, Id.run, pure, nextPow2]
  by_cases hle : n ≤ 2
  · have : Int64.ofNat n ≤ 2 := by rw [Int64.le_iff_toInt_le, hn, h2]; omega
    simp [this, hle, h2]
  · have : ¬ Int64.ofNat n ≤ 2 := by rw [Int64.le_iff_toInt_le, hn, h2]; omega
    simp only [this, decide_false, hle, if_false, Bool.false_eq_true]
    -- the argument of bits.Len: uint(n-1)
    have hsub : (Int64.ofNat n - 1).toInt = ((n - 1 : Nat) : Int) := by
      rw [Int64.toInt_sub, hn, h1]
      have : ((n : Int) - 1) = ((n - 1 : Nat) : Int) := by omega
      rw [this]
      apply Int.bmod_eq_of_le <;> omega
    have harg : ((Int64.ofNat n - 1).toUInt64).toNat = n - 1 := by
      have e : Int64.ofNat n - 1 = Int64.ofNat (n - 1) := by
        apply Int64.toInt_inj.mp
        rw [hsub, Int64.toInt_ofNat_of_lt (by omega)]
      rw [e]
      have : (Int64.ofNat (n - 1)).toUInt64 = UInt64.ofNat (n - 1) := rfl
      rw [this, UInt64.toNat_ofNat']
      exact Nat.mod_eq_of_lt (by omega)
    rw [bitsLen64_toNat, harg]
    have hne : n - 1 ≠ 0 := by omega
    simp only [hne, if_false]
    have hlog : Nat.log2 (n - 1) < 62 := (Nat.log2_lt hne).mpr (by omega)
    unfold Go.shl64i
    rw [if_pos (by omega)]
    -- 1 <<< k on Int64 for k < 63
    have : ((1 : Int64) <<< Int64.ofNat (Nat.log2 (n - 1) + 1)).toInt = ((1 <<< (Nat.log2 (n - 1) + 1) : Nat) : Int) := by
      generalize hk : Nat.log2 (n - 1) + 1 = k
      have hk63 : k < 63 := by omega
      clear hk hlog hne harg hsub this hle hn h h1 h2
      revert k
      decide
    exact this

/-! ## Shard counts of `NewScheduler` and the receive threshold -/

private theorem toInt_max (a b : Int64) : (max a b).toInt = max a.toInt b.toInt := by
  have e : max a b = if a ≤ b then b else a := rfl
  rw [e]
  by_cases h : a ≤ b
  · rw [if_pos h]; rw [Int64.le_iff_toInt_le] at h; omega
  · rw [if_neg h]; rw [Int64.le_iff_toInt_le] at h; omega

/-- `numDataShards := max(1, (totalNodes-1)/3)`: the model's `k` for every committee size below 2^62. -/
theorem numDataShards_eq (n : Nat) (h : n < 2 ^ 62) (h1 : 1 ≤ n) :
    (schedNumDataShards (Int64.ofNat n)).toInt = ((max 1 ((n - 1) / 3) : Nat) : Int) := by
  have hn : (Int64.ofNat n).toInt = (n : Int) := Int64.toInt_ofNat_of_lt (by omega)
  have e1 : (1 : Int64).toInt = 1 := by decide
  have e3 : (3 : Int64).toInt = 3 := by decide
  have hsub : (Int64.ofNat n - 1).toInt = ((n - 1 : Nat) : Int) := by
    rw [Int64.toInt_sub, hn, e1]
    have : ((n : Int) - 1) = ((n - 1 : Nat) : Int) := by omega
    rw [this]; apply Int.bmod_eq_of_le <;> omega
  have hdiv : ((Int64.ofNat n - 1) / 3).toInt = (((n - 1) / 3 : Nat) : Int) := by
    rw [Int64.toInt_div, hsub, e3, Int.tdiv_eq_ediv_of_nonneg (by omega)]
    have : (((n - 1 : Nat) : Int) / 3) = (((n - 1) / 3 : Nat) : Int) := by omega
    rw [this]; apply Int.bmod_eq_of_le <;> omega
  simp only [schedNumDataShards]
  rw [toInt_max, hdiv, e1]
  omega

/-- `numCodingShards := max(0, totalNodes-1-numDataShards)`: the model's `c = total - 1 - k` (natural
subtraction: 0 when `k` exceeds it). -/
theorem numCodingShards_eq (n k : Nat) (h : n < 2 ^ 62) (hk : k < 2 ^ 62) (h1 : 1 ≤ n) :
    (schedNumCodingShards (Int64.ofNat n) (Int64.ofNat k)).toInt = ((n - 1 - k : Nat) : Int) := by
  have hn : (Int64.ofNat n).toInt = (n : Int) := Int64.toInt_ofNat_of_lt (by omega)
  have hkk : (Int64.ofNat k).toInt = (k : Int) := Int64.toInt_ofNat_of_lt (by omega)
  have e1 : (1 : Int64).toInt = 1 := by decide
  have e0 : (0 : Int64).toInt = 0 := by decide
  have hsub : (Int64.ofNat n - 1).toInt = (n : Int) - 1 := by
    rw [Int64.toInt_sub, hn, e1]; apply Int.bmod_eq_of_le <;> omega
  have hsub2 : (Int64.ofNat n - 1 - Int64.ofNat k).toInt = (n : Int) - 1 - k := by
    rw [Int64.toInt_sub, hsub, hkk]; apply Int.bmod_eq_of_le <;> omega
  simp only [schedNumCodingShards]
  rw [toInt_max, hsub2, e0]
  omega

/-- `ReceiveThreshold` above three peers: twice the data shards. -/
theorem receiveThresholdLarge_eq (k : Nat) (hk : k < 2 ^ 61) :
    (schedReceiveThresholdLarge (Int64.ofNat k)).toInt = ((k * 2 : Nat) : Int) := by
  have hkk : (Int64.ofNat k).toInt = (k : Int) := Int64.toInt_ofNat_of_lt (by omega)
  have e2 : (2 : Int64).toInt = 2 := by decide
  simp only [schedReceiveThresholdLarge]
  rw [Int64.toInt_mul, hkk, e2]
  have : ((k : Int) * 2) = ((k * 2 : Nat) : Int) := by omega
  rw [this]; apply Int.bmod_eq_of_le <;> omega

example : (merkleNextPow2 5).toInt = 8 ∧ (merkleNextPow2 8).toInt = 8 ∧ (merkleNextPow2 9).toInt = 16 ∧
    (merkleNextPow2 0).toInt = 2 := by decide

end Juno.Tie.C19
