import JunoModel.Tie.EventWindow
import JunoModel.C04.Model
/-!
C04 tie: `RunningEventFilter.onReorg` decides with two regenerated expressions whether a revert falls into the
previous event window and which window that is; they are the two tests of the C04 model's `filterReorg` at the real
window size (`cfg.window = NumBlocksPerFilter`). The repairs 702b167 / 6609698 (a reopened window must not stay
persisted, the cache must forget it) act on exactly the window these expressions name.
-/
namespace Juno.Tie.C04
open Juno.Generated Juno.Tie.EventWindow

/-- The crossing test `curBlock == currRangeStart-1` is the model's `fromBlock > 0 && cur = fromBlock - 1` whenever
the running window does not start at block 0 (where nothing can be reverted into a previous window). -/
theorem reorg_crossing_eq (cur start : UInt64) (h : 1 ≤ start.toNat) :
    refReorgCrossesWindow cur start = (decide (start.toNat > 0) && decide (cur.toNat = start.toNat - 1)) := by
  rw [reorg_crosses_window cur start h]
  have : start.toNat > 0 := by omega
  simp only [this, decide_true, Bool.true_and]
  rw [Bool.eq_iff_iff]
  simp only [beq_iff_eq, decide_eq_true_eq]
  omega

/-- The reopened window: `cur - cur % cfg.window` at the code's window size. -/
theorem reorg_window_start_eq (cur : UInt64) :
    (refReorgWindowStart cur N).toNat = cur.toNat - cur.toNat % 8192 := by
  simp only [refReorgWindowStart]; exact align_toNat cur

end Juno.Tie.C04
