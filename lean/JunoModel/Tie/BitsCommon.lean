import JunoModel.Generated.Arith
/-!
Facts about the two `math/bits` helpers of the generated prelude (`Go.bitsLen64`, `Go.onesCount64`), used by the
ties of C18 (`SchemaVersion.HighestBit`, `Len`) and C19 (`merkle.nextPowerOfTwo`).
-/
namespace Juno.Tie.Bits
open Juno.Generated

theorem log2_lt_64 (x : UInt64) (h : x.toNat ≠ 0) : Nat.log2 x.toNat < 64 :=
  (Nat.log2_lt h).mpr x.toNat_lt

theorem bitsLen64_toInt (x : UInt64) :
    (Go.bitsLen64 x).toInt = if x.toNat = 0 then 0 else ((Nat.log2 x.toNat + 1 : Nat) : Int) := by
  unfold Go.bitsLen64
  split
  · rfl
  · rename_i h
    have := log2_lt_64 x h
    rw [Int64.toInt_ofNat_of_lt (by omega)]

theorem bitsLen64_toNat (x : UInt64) :
    (Go.bitsLen64 x).toNatClampNeg = if x.toNat = 0 then 0 else Nat.log2 x.toNat + 1 := by
  unfold Go.bitsLen64
  split
  · rfl
  · rename_i h
    have := log2_lt_64 x h
    rw [Int64.toNatClampNeg_ofNat_of_lt (by omega)]

theorem onesCount64_toInt (x : UInt64) :
    (Go.onesCount64 x).toInt = (((List.range 64).filter fun i => x.toNat.testBit i).length : Int) := by
  unfold Go.onesCount64
  rw [List.countP_eq_length_filter]
  have : ((List.range 64).filter fun i => x.toNat.testBit i).length ≤ 64 := by
    have := List.length_filter_le (fun i => x.toNat.testBit i) (List.range 64)
    simpa using this
  rw [Int64.toInt_ofNat_of_lt (by omega)]

/-- The last set bit index among the low `n` bits of a number below `2^n` is its `log2`. -/
theorem last_set_bit (x : Nat) : ∀ n : Nat, x < 2 ^ n →
    ((List.range n).filter fun i => x.testBit i).getLast? = if x = 0 then none else some (Nat.log2 x)
  | 0, h => by
    have : x = 0 := by simpa using h
    simp [this]
  | n + 1, h => by
    rw [List.range_succ, List.filter_append, List.getLast?_append]
    by_cases hb : x.testBit n = true
    · have hge : 2 ^ n ≤ x := Nat.ge_two_pow_of_testBit hb
      have hx : x ≠ 0 := by
        intro e; rw [e] at hge; exact absurd hge (by have := Nat.two_pow_pos n; omega)
      have hlog : Nat.log2 x = n := by
        have h1 : Nat.log2 x < n + 1 := (Nat.log2_lt hx).mpr h
        have h2 : ¬ Nat.log2 x < n := fun hlt => by
          have := (Nat.log2_lt hx).mp hlt; omega
        omega
      simp [hb, hx, hlog]
    · have hb' : x.testBit n = false := by simpa using hb
      have hlt : x < 2 ^ n := by
        apply Nat.lt_pow_two_of_testBit
        intro i hi
        by_cases e : i = n
        · rw [e]; exact hb'
        · exact Nat.testBit_lt_two_pow (Nat.lt_of_lt_of_le h (Nat.pow_le_pow_right (by omega) (by omega)))
      have ih := last_set_bit x n hlt
      simp [hb', ih]

end Juno.Tie.Bits
