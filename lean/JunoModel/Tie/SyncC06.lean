import JunoModel.Generated.Arith
import JunoModel.C06.Model
/-!
C06 tie: the height comparisons of sync/sync.go that decide whether the node reverts (`isReverting`: waiting for
the very next block, remote ahead / behind, the remote chain of one block, `remoteHeight - 1`; `revertTask`: ask
the source or revert at once, the answer carries the requested number) are REGENERATED from the source on every
check run as single expressions and shown to be the tests the C06 model (`Juno.C06.isReverting`, `revertIter`,
over naturals) makes at those places. The repairs 4de714c (`remoteHeight == 0`) and 6c0318d (number check) sit in
exactly these expressions.
-/
namespace Juno.Tie.C06
open Juno.Generated Juno.C06

/-- `localHeight+1 != nextHeight` — no wrap below the last `uint64`. -/
theorem notWaitingForNext_eq (l n : UInt64) (h : l.toNat + 1 < 2 ^ 64) :
    syncNotWaitingForNext l n = (l.toNat + 1 != n.toNat) := by
  have : (l + 1).toNat = l.toNat + 1 := by
    rw [UInt64.toNat_add]; exact Nat.mod_eq_of_lt (by simpa using h)
  simp only [syncNotWaitingForNext, bne, ← this]
  congr 1
  rw [Bool.eq_iff_iff]
  simp [← UInt64.toNat_inj]

theorem remoteAhead_eq (r l : UInt64) : syncRemoteAhead r l = decide (r.toNat > l.toNat) := by
  simp [syncRemoteAhead, UInt64.lt_iff_toNat_lt]

/-- The height whose local header is compared: `if remoteHeight < localHeight { localHeight = remoteHeight }`,
the model's `cmpHeight`. -/
theorem cmpHeight_eq (r l : UInt64) :
    (if r.toNat < l.toNat then r.toNat else l.toNat) = (if syncRemoteBehind r l then r else l).toNat := by
  simp only [syncRemoteBehind, UInt64.lt_iff_toNat_lt]
  split <;> simp [*]

/-- `lastPossiblyValidHeight` of a confirmed reorg: 0 for a remote chain of one block (4de714c), else
`remoteHeight - 1` — the model's `if zeroGuard && rh.num == 0 then 0 else sub64 rh.num 1`. -/
theorem lastPossiblyValid_eq (r : UInt64) :
    (if r.toNat == 0 then 0 else sub64 r.toNat 1) =
      (if syncRemoteOnlyGenesis r then 0 else syncLastPossiblyValid r).toNat := by
  have hz : (r == 0) = (r.toNat == 0) := by
    rw [Bool.eq_iff_iff]; simp [← UInt64.toNat_inj]
  simp only [syncRemoteOnlyGenesis, syncLastPossiblyValid, hz]
  by_cases h : r.toNat = 0
  · simp [h]
  · have h1 : (1 : UInt64) ≤ r := by
      rw [UInt64.le_iff_toNat_le]; show 1 ≤ r.toNat; omega
    have hb : (r.toNat == 0) = false := by simpa using h
    simp only [hb, Bool.false_eq_true, if_false]
    rw [UInt64.toNat_sub_of_le _ _ h1]
    have := r.toNat_lt
    show (r.toNat + U64 - 1) % U64 = r.toNat - 1
    unfold U64
    omega

/-- Without the guard the subtraction wraps for a remote chain of one block (the defect repaired by 4de714c). -/
theorem lastPossiblyValid_wraps_at_zero : (syncLastPossiblyValid 0).toNat = 2 ^ 64 - 1 := by decide

/-- `revertTask`: the head is compared with the source iff its number is AT or below `lastPossiblyValidHeight`. -/
theorem revertAsksSource_eq (n lpv : UInt64) : syncRevertAsksSource n lpv = decide (n.toNat ≤ lpv.toNat) := by
  simp [syncRevertAsksSource, UInt64.le_iff_toNat_le]

/-- `revertTask`: the number check of 6c0318d. -/
theorem revertWrongNumber_eq (rn ln : UInt64) : syncRevertWrongNumber rn ln = (rn.toNat != ln.toNat) := by
  simp only [syncRevertWrongNumber, bne]
  congr 1
  rw [Bool.eq_iff_iff]
  simp [← UInt64.toNat_inj]

/-- The two tests as `revertIter` makes them. -/
theorem revertIter_guards (cfg : Cfg) (lpv : UInt64) (hd : Blk) (hn : UInt64) (hh : hd.num = hn.toNat) (ans : Option Blk) :
    revertIter cfg lpv.toNat hd ans =
      if syncRevertAsksSource hn lpv then
        match ans with
        | none => .brk
        | some rb =>
          if cfg.numCheck && rb.num != hd.num then .brk
          else if cfg.verifyAns && !rb.ok then .brk
          else if rb.hash == hd.hash then .brk
          else .revert (rb.parent != hd.parent)
      else .revert true := by
  unfold revertIter
  rw [revertAsksSource_eq, hh]
  by_cases h : hn.toNat ≤ lpv.toNat
  · cases ans <;> simp [h]
  · simp [h]

end Juno.Tie.C06
