import JunoModel.C20.Model
/-!
C20 — the same chain storage with the pointer structure made explicit: `node` values live in an
allocation-only heap (address = index; `&node{…}` appends; no instruction of
`chain_storage.go` assigns to a field of an existing node), a `ChainReader` is a head address
plus a length, `ChainStorage.inner` is the published reader. Structure sharing is as in the Go
code: `extend` points at the old head, `replaceSlot` points at the replaced node's parent,
`rebuild` allocates fresh nodes bottom-up.

This is what `snapshot_stable` is about: a reader that holds `(head, length)` from an earlier
moment dereferences it in the *later* heap. Core Lean only (linked into the driver, which
cross-checks this model against the list model on every request).
-/
namespace Juno.C20

structure HNode where
  pc     : PreConf
  parent : Option Nat   -- `parent *node`; `none` = nil
  deriving Inhabited

abbrev Heap := List HNode

structure HReader where
  head   : Option Nat   -- `head *node`
  length : Nat
  deriving Inhabited

structure HStore where
  heap  : Heap := []
  inner : Option HReader := none   -- `atomic.Pointer[ChainReader]`
  deriving Inhabited

/-- `&node{preconfirmed: pc, parent: parent}` -/
def halloc (h : Heap) (pc : PreConf) (parent : Option Nat) : Heap × Nat :=
  (h ++ [{ pc := pc, parent := parent }], h.length)

/-- follow `parent` pointers: the entries seen walking at most `n` nodes from `a` -/
def hwalk (h : Heap) : Option Nat → Nat → List PreConf
  | none, _ => []
  | some _, 0 => []
  | some a, n + 1 =>
    match h[a]? with
    | none => []
    | some nd => nd.pc :: hwalk h nd.parent n

/-- `target := head; for range depth { target = target.parent }` -/
def hfollow (h : Heap) : Option Nat → Nat → Option Nat
  | a, 0 => a
  | none, _ + 1 => none
  | some a, d + 1 =>
    match h[a]? with
    | none => none
    | some nd => hfollow h nd.parent d

/-- `t.parent` (nil for a nil `t`) -/
def hparentOf (h : Heap) (t : Option Nat) : Option Nat :=
  match t with
  | none => none
  | some t => match h[t]? with
    | none => none
    | some nd => nd.parent

def HReader.empty : HReader := { head := none, length := 0 }

/-- the entries a reader sees through `r` in heap `h` (`NewestFirst`) -/
def HReader.view (h : Heap) (r : HReader) : List PreConf := hwalk h r.head r.length

/-- the list-model reader a heap reader denotes: the whole linked list down to nil -/
def HReader.abs (h : Heap) (r : HReader) : Reader :=
  { nodes := hwalk h r.head h.length, length := r.length }

def HStore.abs (s : HStore) : Store := s.inner.map (HReader.abs s.heap)

/-- `SnapshotForBlock` -/
def hsnapshotFor (s : HStore) (b : Nat) : HReader :=
  match s.inner with
  | none => HReader.empty
  | some cur =>
    let r := cur.abs s.heap
    if !r.contains b then HReader.empty
    else { head := cur.head, length := r.tip - b + 1 }

/-- `rebuild(current, keep)`: fresh nodes, allocated bottom-up -/
def hrebuild (h : Heap) : Option Nat → Nat → Heap × Option Nat
  | _, 0 => (h, none)
  | none, _ + 1 => (h, none)
  | some a, keep + 1 =>
    match h[a]? with
    | none => (h, none)
    | some nd =>
      let (h', child) := hrebuild h nd.parent keep
      let (h'', addr) := halloc h' nd.pc child
      (h'', some addr)

/-- `AdvanceTo` -/
def hadvanceTo (s : HStore) (oldestPreConf : Nat) : HStore × Bool :=
  match s.inner with
  | none => (s, false)
  | some cur =>
    let r := cur.abs s.heap
    if r.length == 0 then (s, false)
    else
      let currentOldest := r.oldest
      if oldestPreConf == currentOldest then (s, false)
      else if !r.contains oldestPreConf then ({ s with inner := none }, true)
      else
        let drop := oldestPreConf - currentOldest
        let keep := r.length - drop
        let (h', hd) := hrebuild s.heap cur.head keep
        ({ heap := h', inner := some { head := hd, length := keep } }, true)

/-- `ApplyUpdate` on the heap: the decisions are those of `computeUpdate` on what the pointer
denotes; only the node allocation and the sharing are spelled out here -/
def happlyUpdate (s : HStore) (u : Update) (blockNumber baseTxCount oldestPreConf : Nat)
    (newClasses : AMap Felt Nat) : HStore × Outcome :=
  let out := computeUpdate s.abs u blockNumber baseTxCount oldestPreConf newClasses
  match out with
  | .noop => (s, out)
  | .err _ => (s, out)
  | .changed chain next =>
    match s.inner with
    | none =>
      -- bootstrapChain: `&node{preconfirmed: &next, parent: nil}`
      let (h', a) := halloc s.heap next none
      ({ heap := h', inner := some { head := some a, length := chain.length } }, out)
    | some cur =>
      let r := cur.abs s.heap
      if r.length == 0 then
        let (h', a) := halloc s.heap next none
        ({ heap := h', inner := some { head := some a, length := chain.length } }, out)
      else if blockNumber == succ64 r.tip then
        -- extend: `&node{preconfirmed: &next, parent: current.head}`
        let (h', a) := halloc s.heap next cur.head
        ({ heap := h', inner := some { head := some a, length := chain.length } }, out)
      else
        -- replaceSlot: `&node{preconfirmed: &next, parent: target.parent}`
        let target := hfollow s.heap cur.head (r.tip - blockNumber)
        let (h', a) := halloc s.heap next (hparentOf s.heap target)
        ({ heap := h', inner := some { head := some a, length := chain.length } }, out)

def hstep (s : HStore) : Op → HStore
  | .apply u b t o c => (happlyUpdate s u b t o c).1
  | .advance o => (hadvanceTo s o).1

def hrun (ops : List Op) : HStore := ops.foldl hstep {}

end Juno.C20
