import JunoModel.C20.Cas
/-!
C20 — proofs about the `Load` … `CompareAndSwap` publication (`Cas.lean`, round 6).
-/
namespace Juno.C20

theorem advanceTo_false {s : Store} {o : Nat} (h : (advanceTo s o).2 = false) : (advanceTo s o).1 = s := by
  unfold advanceTo at h ⊢
  cases s with
  | none => rfl
  | some cur =>
    simp only at h ⊢
    split
    · rfl
    · split
      · rfl
      · split
        · rename_i h1 h2 h3
          simp [h1, h2, h3] at h
        · rename_i h1 h2 h3
          simp [h1, h2, h3] at h

/-- an operation that goes on to swap would publish exactly what the sequential model computes -/
theorem wants_some {cur : Store} {op : Op} {new : Store} (h : wants cur op = some new) : step cur op = new := by
  cases op with
  | apply u b t o c =>
    simp only [wants] at h
    simp only [step, applyUpdate]
    split at h
    · rename_i chain aff hc
      rw [hc]
      simpa using h
    · cases h
  | advance o =>
    simp only [wants] at h
    simp only [step]
    split at h
    · rename_i s' hc
      rw [hc]
      simpa using h
    · cases h

/-- an operation that returns without swapping is a no-op of the sequential model -/
theorem wants_none {cur : Store} {op : Op} (h : wants cur op = none) : step cur op = cur := by
  cases op with
  | apply u b t o c =>
    simp only [wants] at h
    simp only [step, applyUpdate]
    split at h
    · cases h
    · rename_i hne
      cases hc : computeUpdate cur u b t o c with
      | changed chain aff => exact absurd hc (hne chain aff)
      | noop => rfl
      | err e => rfl
  | advance o =>
    simp only [wants] at h
    simp only [step]
    split at h
    · cases h
    · rename_i x hc
      exact advanceTo_false (by rw [hc])

theorem deref_concat (objs : List Reader) (r : Reader) :
    ({ objs := objs ++ [r], inner := some objs.length } : CasStore).content = some r := by
  simp [CasStore.content, CasStore.deref]

/-- the second step of an operation: a successful swap installs the sequential model's result computed on
the CURRENT content (because the pointer it loaded is still the current one); anything else changes nothing -/
theorem casFinish_spec (s : CasStore) (p : PendingOp) :
    ((casFinish s p).2 = .swapped → (casFinish s p).1.content = step s.content p.op) ∧
    ((casFinish s p).2 ≠ .swapped → (casFinish s p).1 = s) ∧
    ((casFinish s p).2 = .casFailed → s.inner ≠ p.loaded) ∧
    ((casFinish s p).2 = .noCas → wants (s.deref p.loaded) p.op = none) := by
  cases hw : wants (s.deref p.loaded) p.op with
  | none =>
    have hres : casFinish s p = (s, .noCas) := by simp [casFinish, hw]
    rw [hres]
    exact ⟨fun h => by simp at h, fun _ => rfl, fun h => by simp at h, fun _ => rfl⟩
  | some new =>
    by_cases heq : s.inner = p.loaded
    · have hd : s.deref p.loaded = s.content := by rw [← heq]; rfl
      have hs := wants_some (hd ▸ hw)
      cases new with
      | none =>
        have hres : casFinish s p = ({ s with inner := none }, .swapped) := by simp [casFinish, hw, heq]
        rw [hres]
        refine ⟨fun _ => ?_, fun h => absurd rfl h, fun h => by simp at h, fun h => by simp at h⟩
        rw [hs]; rfl
      | some r =>
        have hres : casFinish s p = ({ objs := s.objs ++ [r], inner := some s.objs.length }, .swapped) := by
          simp [casFinish, hw, heq]
        rw [hres]
        refine ⟨fun _ => ?_, fun h => absurd rfl h, fun h => by simp at h, fun h => by simp at h⟩
        rw [hs]; exact deref_concat s.objs r
    · have hres : casFinish s p = (s, .casFailed) := by simp [casFinish, hw, heq]
      rw [hres]
      exact ⟨fun h => by simp at h, fun _ => rfl, fun _ => heq, fun h => by simp at h⟩

theorem swappedOps_append (log : List (Op × CasRes)) (op : Op) (r : CasRes) :
    swappedOps (log ++ [(op, r)]) = if r = .swapped then swappedOps log ++ [op] else swappedOps log := by
  cases r <;> simp [swappedOps, List.filter_append]

theorem run_append_one (l : List Op) (op : Op) : run (l ++ [op]) = step (run l) op := by
  simp [run, List.foldl_append]

/-- any number of racing goroutines, any schedule: the content is the history of the successful swaps -/
theorem csched_content_from (acts : List CAct) : ∀ st : CasState,
    st.store.content = run (swappedOps st.log) →
    (acts.foldl CasState.step st).store.content = run (swappedOps (acts.foldl CasState.step st).log) := by
  induction acts with
  | nil => intro st h; exact h
  | cons a rest ih =>
    intro st h
    apply ih
    cases a with
    | load w op => exact h
    | finish w =>
      simp only [CasState.step]
      cases hp : st.threads w with
      | none => exact h
      | some p =>
        simp only
        have hs := casFinish_spec st.store p
        rw [swappedOps_append]
        by_cases hr : (casFinish st.store p).2 = .swapped
        · rw [if_pos hr, run_append_one, ← h]; exact hs.1 hr
        · rw [if_neg hr, hs.2.1 hr]; exact h

/-- the invariant of a schedule in which only goroutine `w0` ever acts -/
structure SoleWriter (w0 : Nat) (st : CasState) : Prop where
  loaded : ∀ p, st.threads w0 = some p → p.loaded = st.store.inner
  nofail : ∀ e ∈ st.log, e.2 ≠ .casFailed
  all    : st.store.content = run (st.log.map (·.1))

theorem sole_writer_from (w0 : Nat) (acts : List CAct) (hw : ∀ a ∈ acts, a.who = w0) : ∀ st : CasState,
    SoleWriter w0 st → SoleWriter w0 (acts.foldl CasState.step st) := by
  induction acts with
  | nil => intro st h; exact h
  | cons a rest ih =>
    intro st h
    apply ih (fun x hx => hw x (List.mem_cons_of_mem _ hx))
    have ha := hw a (List.mem_cons_self ..)
    cases a with
    | load w op =>
      simp only [CAct.who] at ha
      subst ha
      exact ⟨fun p hp => by simp [CasState.step] at hp; subst hp; rfl, h.nofail, h.all⟩
    | finish w =>
      simp only [CAct.who] at ha
      subst ha
      simp only [CasState.step]
      cases hp : st.threads w with
      | none => exact h
      | some p =>
        simp only
        have hl := h.loaded p hp
        have hs := casFinish_spec st.store p
        refine ⟨fun q hq => by simp at hq, ?_, ?_⟩
        · intro e he
          rcases List.mem_append.1 he with he | he
          · exact h.nofail e he
          · simp only [List.mem_singleton] at he
            subst he
            intro hf
            exact hs.2.2.1 hf hl.symm
        · simp only [List.map_append, List.map_cons, List.map_nil]
          rw [run_append_one, ← h.all]
          by_cases hr : (casFinish st.store p).2 = .swapped
          · exact hs.1 hr
          · rw [hs.2.1 hr]
            have hnc : (casFinish st.store p).2 = .noCas := by
              cases hc : (casFinish st.store p).2 with
              | swapped => exact absurd hc hr
              | casFailed => exact absurd hl.symm (hs.2.2.1 hc)
              | noCas => rfl
            have hd : st.store.deref p.loaded = st.store.content := by rw [hl]; rfl
            have := hs.2.2.2 hnc
            rw [hd] at this
            exact (wants_none this).symm

end Juno.C20
