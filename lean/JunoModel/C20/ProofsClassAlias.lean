import JunoModel.C20.ClassAlias
/-!
C20 — frame theorems for the `NewClasses` map objects (`ClassAlias.lean`): the readers' accumulation
loop and the writer's class-map operations write only to objects they allocated themselves, and they
denote the value model's `mergeClassesInto` / `mergeClassesCopying`.
-/
namespace Juno.C20.CAlias
open Juno.C20

/-- every object below the watermark `w` is the same in `m'` as in `m` (and nothing was freed) -/
def Unch (w : Nat) (m m' : CMem) : Prop := m.length ≤ m'.length ∧ ∀ a, a < w → m'[a]? = m[a]?

/-- a map value that is nil or an object allocated at or above the watermark -/
def FreshOrNil (w : Nat) (r : CRef) : Prop := ∀ a, r = some a → w ≤ a

/-- a map value that is nil or an existing object -/
def Valid (m : CMem) (r : CRef) : Prop := ∀ a, r = some a → a < m.length

theorem Unch.refl (w : Nat) (m : CMem) : Unch w m m := ⟨Nat.le_refl _, fun _ _ => rfl⟩

theorem Unch.trans {w : Nat} {m m' m'' : CMem} (h1 : Unch w m m') (h2 : Unch w m' m'') : Unch w m m'' :=
  ⟨Nat.le_trans h1.1 h2.1, fun a ha => (h2.2 a ha).trans (h1.2 a ha)⟩

theorem cget_some (m : CMem) (a : Nat) : cget m (some a) = (m[a]?).getD [] := by
  simp [cget, List.getD]

/-- a published map reads the same after any writes above the watermark -/
theorem cget_unch {w : Nat} {m m' : CMem} (h : Unch w m m') {r : CRef} (hr : ∀ a, r = some a → a < w) :
    cget m' r = cget m r := by
  cases r with
  | none => rfl
  | some a => rw [cget_some, cget_some, h.2 a (hr a rfl)]

theorem unch_append (w : Nat) (m : CMem) (hw : w ≤ m.length) (x : AMap Felt Nat) : Unch w m (m ++ [x]) :=
  ⟨by simp, fun a ha => List.getElem?_append_left (by omega)⟩

theorem unch_set (w : Nat) (m : CMem) {d : Nat} (hd : w ≤ d) (x : AMap Felt Nat) : Unch w m (m.set d x) :=
  ⟨by simp, fun a ha => by rw [List.getElem?_set_ne (by omega)]⟩

theorem cget_append_new (m : CMem) (x : AMap Felt Nat) : cget (m ++ [x]) (some m.length) = x := by
  simp [cget_some]

theorem cget_append_old (m : CMem) (x : AMap Felt Nat) {r : CRef} (hr : Valid m r) :
    cget (m ++ [x]) r = cget m r := by
  cases r with
  | none => rfl
  | some a => rw [cget_some, cget_some, List.getElem?_append_left (hr a rfl)]

theorem cget_set_self (m : CMem) {d : Nat} (hd : d < m.length) (x : AMap Felt Nat) :
    cget (m.set d x) (some d) = x := by
  simp [cget_some, hd]

/-- **one step of the readers' loop**: the accumulator is nil or an object the loop allocated itself
(`≥ w`), the incoming map is a published one (`< w`) -/
theorem mergeClassesInto_step {w : Nat} {m : CMem} (hw : w ≤ m.length) {dst src : CRef}
    (hd : FreshOrNil w dst) (hdv : Valid m dst) (hs : ∀ a, src = some a → a < w) :
    Unch w m (mergeClassesInto m dst src).1 ∧
    FreshOrNil w (mergeClassesInto m dst src).2 ∧
    Valid (mergeClassesInto m dst src).1 (mergeClassesInto m dst src).2 ∧
    cget (mergeClassesInto m dst src).1 (mergeClassesInto m dst src).2 =
      Juno.C20.mergeClassesInto (cget m dst) (cget m src) := by
  cases h0 : (AMap.size (cget m src) == 0) with
  | true =>
    simp only [mergeClassesInto, Juno.C20.mergeClassesInto, h0, ↓reduceIte]
    exact ⟨Unch.refl _ _, hd, hdv, trivial⟩
  | false =>
    cases dst with
    | none =>
      cases src with
      | none => simp [cget, AMap.size, AMap.keys] at h0
      | some a =>
        simp only [mergeClassesInto, Juno.C20.mergeClassesInto, h0, cclone, calloc, Bool.false_eq_true, ↓reduceIte]
        refine ⟨unch_append w m hw _, ?_, ?_, ?_⟩
        · intro x hx; cases hx; exact hw
        · intro x hx; cases hx; simp
        · rw [cget_append_new]; simp [cget, AMap.copyInto]
    | some d =>
      have hdl : d < m.length := hdv d rfl
      have hdw : w ≤ d := hd d rfl
      simp only [mergeClassesInto, Juno.C20.mergeClassesInto, h0, ccopyInto, Bool.false_eq_true, ↓reduceIte]
      refine ⟨unch_set w m hdw _, hd, ?_, ?_⟩
      · intro x hx; cases hx; simpa using hdl
      · rw [cget_set_self m hdl]

/-- **The readers never write a published class map.** The accumulation loop of
`PreConfirmedStateAt` / `PreConfirmedStateBeforeIndexAt` over ANY list of published maps on ANY memory:
every object that existed before the call is unchanged afterwards, the table handed to
`pending.NewState` is nil or a map the loop allocated itself, and it denotes the value model's fold. -/
theorem accumulate_frame (m : CMem) (refs : List CRef) (hv : ∀ r ∈ refs, Valid m r) :
    Unch m.length m (accumulate m refs).1 ∧ FreshOrNil m.length (accumulate m refs).2 ∧
    cget (accumulate m refs).1 (accumulate m refs).2 =
      (refs.map (cget m)).foldl Juno.C20.mergeClassesInto [] := by
  suffices h : ∀ (refs : List CRef) (m' : CMem) (acc : CRef), (∀ r ∈ refs, Valid m r) →
      Unch m.length m m' → FreshOrNil m.length acc → Valid m' acc →
      let res := refs.foldl (fun (a : CMem × CRef) r => mergeClassesInto a.1 a.2 r) (m', acc)
      Unch m.length m res.1 ∧ FreshOrNil m.length res.2 ∧
      cget res.1 res.2 = (refs.map (cget m)).foldl Juno.C20.mergeClassesInto (cget m' acc) by
    have := h refs m none hv (Unch.refl _ _) (by intro a ha; cases ha) (by intro a ha; cases ha)
    simpa [accumulate, cget] using this
  intro refs
  induction refs with
  | nil => intro m' acc _ hu hf _; exact ⟨hu, hf, rfl⟩
  | cons r rest ih =>
    intro m' acc hvs hu hf hav
    have hr : ∀ a, r = some a → a < m.length := hvs r (by simp)
    obtain ⟨s1, s2, s3, s4⟩ := mergeClassesInto_step (w := m.length) hu.1 hf hav hr
    have := ih (mergeClassesInto m' acc r).1 (mergeClassesInto m' acc r).2
      (fun x hx => hvs x (by simp [hx])) (hu.trans s1) s2 s3
    simp only [List.foldl_cons, List.map_cons]
    rw [← cget_unch hu hr, ← s4]
    exact this

/-- **The writer's only class-map operation besides adoption never writes a published map**:
`mergeClassesCopying(base, extra)` on any memory leaves every existing object unchanged; its result is
`base` ITSELF when `extra` is empty (the new entry then shares the published map, read-only) and a
freshly allocated map otherwise; it denotes the value model. -/
theorem mergeClassesCopying_frame (m : CMem) {base extra : CRef} (hb : Valid m base) (he : Valid m extra) :
    Unch m.length m (mergeClassesCopying m base extra).1 ∧
    (AMap.size (cget m extra) = 0 → (mergeClassesCopying m base extra).2 = base) ∧
    (AMap.size (cget m extra) ≠ 0 → ∃ a, (mergeClassesCopying m base extra).2 = some a ∧ m.length ≤ a) ∧
    cget (mergeClassesCopying m base extra).1 (mergeClassesCopying m base extra).2 =
      Juno.C20.mergeClassesCopying (cget m base) (cget m extra) := by
  by_cases hz : AMap.size (cget m extra) = 0
  · have h0 : (AMap.size (cget m extra) == 0) = true := by simp [hz]
    simp only [mergeClassesCopying, Juno.C20.mergeClassesCopying, h0, ↓reduceIte]
    refine ⟨Unch.refl _ _, ?_, fun h => absurd hz h, ?_⟩ <;> first | trivial | (intro _; trivial) | rfl
  · have h0 : (AMap.size (cget m extra) == 0) = false := by simp [hz]
    cases base with
    | none =>
      simp only [mergeClassesCopying, Juno.C20.mergeClassesCopying, h0, cclone, calloc, ccopyInto,
        Bool.false_eq_true, ↓reduceIte]
      refine ⟨?_, fun h => absurd h hz, fun _ => ⟨m.length, rfl, Nat.le_refl _⟩, ?_⟩
      · exact (unch_append m.length m (Nat.le_refl _) []).trans
          (unch_set m.length (m ++ [[]]) (Nat.le_refl _) _)
      · rw [cget_set_self _ (by simp), cget_append_new, cget_append_old m [] he]
        simp [cget]
    | some b =>
      simp only [mergeClassesCopying, Juno.C20.mergeClassesCopying, h0, cclone, calloc, ccopyInto,
        Bool.false_eq_true, ↓reduceIte]
      refine ⟨?_, fun h => absurd h hz, fun _ => ⟨m.length, rfl, Nat.le_refl _⟩, ?_⟩
      · exact (unch_append m.length m (Nat.le_refl _) _).trans
          (unch_set m.length (m ++ [_]) (Nat.le_refl _) _)
      · rw [cget_set_self _ (by simp), cget_append_new, cget_append_old m _ he]

/-- the three update variants: whatever `ApplyUpdate` stores as the affected entry's `NewClasses`, no
class map that existed before the call was written -/
theorem applyClassRef_frame (m : CMem) (u : Update) {target caller : CRef}
    (ht : Valid m target) (hc : Valid m caller) :
    Unch m.length m (applyClassRef m u target caller).1 := by
  cases u with
  | block _ _ _ => exact Unch.refl _ _
  | delta _ _ => exact (mergeClassesCopying_frame m ht hc).1
  | noChange => exact (mergeClassesCopying_frame m ht hc).1

/-- the frame theorem is about the clone: with `mergeClassesInto` returning `src` itself for a nil
accumulator (not juno's code), the second iteration writes INTO the first published map -/
theorem adopting_src_breaks_frame :
    ∃ (m : CMem) (refs : List CRef), (∀ r ∈ refs, Valid m r) ∧
      (accumulateNoClone m refs).1[0]? ≠ m[0]? :=
  ⟨[[(200, 1)], [(201, 2)]], [some 0, some 1], by
    intro r hr
    simp at hr
    rcases hr with rfl | rfl <;> (intro a ha; cases ha; simp), by decide⟩

/-! ### over whole histories -/

/-- what happens to the class-map memory over time -/
inductive CAct
  | callerMap (content : AMap Felt Nat)        -- a caller (the poller's `fetchDeclaredClasses`) allocates the map it will pass in
  | apply (u : Update) (target caller : CRef)  -- `computeUpdate` builds the affected entry's map
  | build (refs : List CRef)                   -- a reader builds a state over a view (the accumulation loop)

/-- the map values an action mentions exist when it runs -/
def CAct.valid (m : CMem) : CAct → Prop
  | .callerMap _ => True
  | .apply _ t c => Valid m t ∧ Valid m c
  | .build refs => ∀ r ∈ refs, Valid m r

def cstep (m : CMem) : CAct → CMem
  | .callerMap c => (calloc m c).1
  | .apply u t c => (applyClassRef m u t c).1
  | .build refs => (accumulate m refs).1

def ValidHist : CMem → List CAct → Prop
  | _, [] => True
  | m, a :: rest => a.valid m ∧ ValidHist (cstep m a) rest

theorem Unch.weaken {w w' : Nat} {m m' : CMem} (hw : w' ≤ w) (h : Unch w m m') : Unch w' m m' :=
  ⟨h.1, fun a ha => h.2 a (by omega)⟩

theorem cstep_frame (m : CMem) (a : CAct) (h : a.valid m) : Unch m.length m (cstep m a) := by
  cases a with
  | callerMap c => exact unch_append m.length m (Nat.le_refl _) c
  | apply u t c => exact applyClassRef_frame m u h.1 h.2
  | build refs => exact (accumulate_frame m refs h).1

/-- **Once a class map exists it is never written again**, over any history of callers allocating maps,
writer operations and readers building states, in any order and number -/
theorem hist_frame (acts : List CAct) : ∀ (m : CMem), ValidHist m acts → Unch m.length m (acts.foldl cstep m) := by
  induction acts with
  | nil => intro m _; exact Unch.refl _ _
  | cons a rest ih =>
    intro m h
    have h1 := cstep_frame m a h.1
    have h2 := ih (cstep m a) h.2
    exact h1.trans (h2.weaken h1.1)

end Juno.C20.CAlias
