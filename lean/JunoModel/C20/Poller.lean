import JunoModel.C20.Model
/-!
C20 — model of the single writer of the pre-confirmed chain: `preconfirmed.Poller`
(sync/preconfirmed/poller.go: `tick`, `backfill`, `apply`, `fetchDeclaredClasses`,
`declaredClassHashes`, `declaredClassCount`, `atTip`). Core Lean only (linked into `c20drv`).

One tick is a pure function of the storage and of what the ENVIRONMENT answers during that tick
(`TickIn`): the canonical height, the cached `highestBlockHeader`, and the three endpoints of the
`DataSource`. Nothing is assumed about the data source: it may answer any update shape (full block /
appended-transactions delta / no-change) with any identifier, any content and any block number for
any poll, and fail any call.

* `byNumber` is a function of the block number only: within one tick every number is polled at most
  once, and the hints (identifier, transaction count) are determined by the storage.
* `classDef` is a function of the class hash: `fetchDeclaredClasses` has no effect besides its
  result (fail, or the map hash ↦ definition, later calls overwriting earlier ones), so a source that
  answers two calls for one hash differently reaches no storage that a function of the hash does not.
* the wire state diff of a transaction is the `Diff` of its `WireTx` (what `AdaptStateDiff` makes of
  it): `OldDeclaredContracts` is `declaredV0` (same order), `DeclaredClasses` is `declaredV1` (a list
  of pairs, stored in shadowing order: the wire order is its reverse; duplicates possible).
* heights are `Nat`; `height + 1` (`uint64` in Go) wraps only at a canonical height of `2^64-1`.
-/
namespace Juno.C20

/-- what the `DataSource` answers during one tick (`none` = the call returns an error) -/
structure Source where
  latest   : Option (Update × Nat)   -- `PreConfirmedBlockLatest`: the update and its block number
  byNumber : Nat → Option Update     -- `PreConfirmedBlockByNumber(n, …)`
  classDef : Felt → Option Nat       -- `Class(hash)`

/-- the environment of one tick -/
structure TickIn where
  height  : Option Nat   -- `blockchain.Height()` (`none`: error)
  highest : Option Nat   -- `highestBlockHeader.Load()` (`none`: nil), its `Number`
  src     : Source

inductive TickErr
  | height | latest | byNumber (n : Nat) | fetch (n : Nat) | apply (n : Nat) (e : Err)
  deriving DecidableEq, Repr, Inhabited

/-- what the tick does to the outside, in order: endpoint calls with their arguments, and entries
sent to the feed -/
inductive Ev
  | latest (ident : String) (txCount : Nat)
  | byNumber (n : Nat) (ident : String) (txCount : Nat)
  | fetch (hashes : List Felt) (ok : Bool)   -- the `Class` calls of one `fetchDeclaredClasses`
  | publish (e : PreConf)
  | wrote (o : Op)                           -- a call of the storage's writer API (`AdvanceTo` / `ApplyUpdate`)
  deriving Inhabited

/-- `atTip(headNum)` -/
def atTip (highest : Option Nat) (headNum : Nat) : Bool :=
  match highest with
  | some n => decide (n ≤ headNum)
  | none => false

/-- the class hashes one wire state diff declares, in the order `declaredClassHashes` yields
them: `OldDeclaredContracts`, then `DeclaredClasses[i].ClassHash` -/
def wireDeclared (d : Diff) : List Felt := d.declaredV0 ++ d.declaredV1.reverse.map (·.1)

/-- the `TransactionStateDiffs` of an update (second `switch` of `fetchDeclaredClasses`) -/
def updateDiffs : Update → List Diff
  | .block _ _ txs => txs.map (·.diff)
  | .delta _ txs => txs.map (·.diff)
  | .noChange => []

/-- THE DECISION RULE (first `switch` of `fetchDeclaredClasses`): the classes the stored tip already
declares are carried over only when the re-poll is a delta or a no-change — it then continues the
stored tip's round; a full block is a fresh round carrying only its own. -/
def storedDiffOf (storedTip : Option PreConf) : Update → Option Diff
  | .delta _ _ => storedTip.map (·.diff)
  | .noChange => storedTip.map (·.diff)
  | .block _ _ _ => none

/-- `declaredClassHashes(storedStateDiff, updateStateDiffs)`: stored first (`DeclaredV0Classes`,
then the keys of `DeclaredV1Classes` — a Go map: the order among them is not specified), then the
update's diffs in order -/
def declaredClassHashes (stored : Option Diff) (upd : List Diff) : List Felt :=
  (match stored with
   | some d => d.declaredV0 ++ AMap.keys d.declaredV1
   | none => []) ++ upd.flatMap wireDeclared

/-- `declaredClassCount(storedStateDiff, updateStateDiffs)` -/
def declaredClassCount (stored : Option Diff) (upd : List Diff) : Nat :=
  (match stored with
   | some d => d.declaredV0.length + AMap.size d.declaredV1
   | none => 0) + (upd.map fun d => d.declaredV0.length + d.declaredV1.length).foldl (· + ·) 0

/-- the fetch loop: `class, err := p.dataSource.Class(ctx, classHash); classes[*classHash] = class` -/
def fetchLoop (classDef : Felt → Option Nat) : List Felt → AMap Felt Nat → Option (AMap Felt Nat)
  | [], acc => some acc
  | h :: rest, acc =>
    match classDef h with
    | none => none
    | some c => fetchLoop classDef rest (AMap.set acc h c)

/-- `fetchDeclaredClasses(ctx, storedTip, update)`: `none` = error; `some []` = nil map -/
def fetchDeclaredClasses (src : Source) (storedTip : Option PreConf) (u : Update) :
    Option (AMap Felt Nat) × Ev :=
  let stored := storedDiffOf storedTip u
  let upd := updateDiffs u
  if declaredClassCount stored upd == 0 then (some [], .fetch [] true)
  else
    let hs := declaredClassHashes stored upd
    match fetchLoop src.classDef hs [] with
    | none => (none, .fetch hs false)
    | some m => (some m, .fetch hs true)

/-- `Poller.apply`: `ApplyUpdate`, then publish the affected entry unless the update is a
no-change. Returns the new storage, the error of `ApplyUpdate`, the feed sends. -/
def papply (s : Store) (u : Update) (n baseTx oldest : Nat) (classes : AMap Felt Nat) :
    Store × Option Err × List Ev :=
  match applyUpdate s u n baseTx oldest classes with
  | (s', .err e) => (s', some e, [.wrote (.apply u n baseTx oldest classes)])
  | (s', .noop) => (s', none, [.wrote (.apply u n baseTx oldest classes)])
  | (s', .changed _ aff) =>
    (s', none, .wrote (.apply u n baseTx oldest classes) :: match u with
      | .noChange => []
      | _ => [.publish aff])

/-- the loop of `backfill` over the intermediate slots `n, n+1, …` (`fuel` of them): each polled
as a full block (`identifier ""`, `txCount 0`), its own declared classes fetched (`storedTip` nil),
applied; the first failure aborts -/
def backfillFrom (src : Source) (oldest : Nat) : Store → Nat → Nat → Store × List Ev × Option TickErr
  | s, _, 0 => (s, [], none)
  | s, n, fuel + 1 =>
    match src.byNumber n with
    | none => (s, [.byNumber n "" 0], some (.byNumber n))
    | some u =>
      match fetchDeclaredClasses src none u with
      | (none, ev) => (s, [.byNumber n "" 0, ev], some (.fetch n))
      | (some cls, ev) =>
        match papply s u n 0 oldest cls with
        | (s', some e, evs) => (s', [.byNumber n "" 0, ev] ++ evs, some (.apply n e))
        | (s', none, evs) =>
          let (s'', evs', err) := backfillFrom src oldest s' (n + 1) fuel
          (s'', [.byNumber n "" 0, ev] ++ evs ++ evs', err)

/-- `backfill(ctx, oldestPreConf, currentHead, fromBlockNum, identifier, txCount, endExclusive)` -/
def backfill (src : Source) (s : Store) (oldest : Nat) (currentHead : Option PreConf)
    (fromBlock : Nat) (ident : String) (txCount endExclusive : Nat) : Store × List Ev × Option TickErr :=
  match src.byNumber fromBlock with
  | none => (s, [.byNumber fromBlock ident txCount], some (.byNumber fromBlock))
  | some u =>
    match fetchDeclaredClasses src currentHead u with
    | (none, ev) => (s, [.byNumber fromBlock ident txCount, ev], some (.fetch fromBlock))
    | (some cls, ev) =>
      match papply s u fromBlock txCount oldest cls with
      | (s', some e, evs) => (s', [.byNumber fromBlock ident txCount, ev] ++ evs, some (.apply fromBlock e))
      | (s', none, evs) =>
        let (s'', evs', err) := backfillFrom src oldest s' (fromBlock + 1) (endExclusive - (fromBlock + 1))
        (s'', [.byNumber fromBlock ident txCount, ev] ++ evs ++ evs', err)

/-- the stored tip the tick looks at: `chain.Head()` of `SnapshotForBlock(oldestPreConf)` when the
view is not empty -/
def mostRecentOf (s : Store) (oldest : Nat) : Option PreConf :=
  let chain := snapshotFor s oldest
  if chain.length > 0 then chain.headEntry else none

/-- the part of `tick` after the latest poll: backfill when the sequencer's latest block is ahead
of the stored tip, then apply the latest (with no classes) -/
def tickApply (src : Source) (s1 : Store) (oldest : Nat) (mostRecent : Option PreConf)
    (fromBlock : Nat) (ident : String) (txCount : Nat) (update : Update) (num : Nat) :
    Store × List Ev × Option TickErr :=
  match (if num > fromBlock then backfill src s1 oldest mostRecent fromBlock ident txCount num
         else (s1, [], none)) with
  | (s2, evs, some e) => (s2, .latest ident txCount :: evs, some e)
  | (s2, evs, none) =>
    match papply s2 update num txCount oldest [] with
    | (s3, some e, evs') => (s3, .latest ident txCount :: evs ++ evs', some (.apply num e))
    | (s3, none, evs') => (s3, .latest ident txCount :: evs ++ evs', none)

/-- `Poller.tick`: the new storage, what it did to the outside, the error it returns -/
def tick (s : Store) (i : TickIn) : Store × List Ev × Option TickErr :=
  match i.height with
  | none => (s, [], some .height)
  | some height =>
    let oldest := height + 1
    let s1 := (advanceTo s oldest).1
    if !atTip i.highest height then (s1, [.wrote (.advance oldest)], none)
    else
      let mostRecent := mostRecentOf s1 oldest
      let fromBlock := match mostRecent with | some m => m.number | none => oldest
      let ident := match mostRecent with | some m => m.ident | none => ""
      let txCount := match mostRecent with | some m => m.txs.length | none => 0
      match i.src.latest with
      | none => (s1, [.wrote (.advance oldest), .latest ident txCount], some .latest)
      | some (update, num0) =>
        -- NoChange and Delta imply the server's identifier matched ours: the same block
        let num := match update with
          | .noChange => fromBlock
          | .delta _ _ => fromBlock
          | .block _ _ _ => num0
        let r := tickApply i.src s1 oldest mostRecent fromBlock ident txCount update num
        (r.1, .wrote (.advance oldest) :: r.2.1, r.2.2)

/-! ### `Poller.Run` (round 5)

```go
if p.interval == 0 { return }
for {                                    // pre-genesis guard
    if _, err := p.blockchain.Height(); !errors.Is(err, db.ErrKeyNotFound) { break }
    select { case <-ctx.Done(): return; case <-ticker.C: }
}
for { select { case <-ctx.Done(): return; case <-ticker.C: p.tick(ctx) } }
```
The ticker and the context are the environment: a run is a list of ticker firings, each carrying what
`Height()` answers the guard if it is consulted at that moment and the environment of the tick if one
runs. The guard is consulted once before the first firing. -/

/-- what `Height()` answers the guard: `db.ErrKeyNotFound` (no head yet), or anything else (a height,
another error) -/
inductive Guard | notFound | other
  deriving DecidableEq, Repr, Inhabited

structure TickerEv where
  guard : Guard
  env   : TickIn

structure RunSt where
  polling : Bool    -- the guard loop has been left
  store   : Store

/-- one firing of the ticker: inside the guard loop it only makes the loop ask `Height()` again; after
it, a tick runs -/
def runEvent (st : RunSt) (ev : TickerEv) : RunSt × List Ev × Option TickErr :=
  if !st.polling then ({ st with polling := ev.guard != .notFound }, [], none)
  else
    let r := tick st.store ev.env
    ({ st with store := r.1 }, r.2.1, r.2.2)

/-- `Run` from its start (storage `s`, first guard answer `g0`) through the firings `evs`: the final
state and everything done to the outside. `intervalZero`: polling disabled, `Run` returns at once. -/
def runLoop (intervalZero : Bool) (s : Store) (g0 : Guard) (evs : List TickerEv) : RunSt × List Ev :=
  if intervalZero then ({ polling := false, store := s }, [])
  else evs.foldl (fun (acc : RunSt × List Ev) ev =>
      let r := runEvent acc.1 ev
      (r.1, acc.2 ++ r.2.1)) ({ polling := g0 != .notFound, store := s }, [])

/-- the storage after a history of ticks of the real writer, starting from `NewChainStorage()` -/
def prun (ins : List TickIn) : Store := ins.foldl (fun s i => (tick s i).1) none

end Juno.C20
