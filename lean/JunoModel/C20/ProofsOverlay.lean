import JunoModel.C20.Proofs
/-!
C20 — helper lemmas for the overlay part: reading through `pending.State` built from the merged
diffs of a list of blocks equals reading the canonical state after applying those blocks one by
one, provided every block's diff is well-formed on the state it is applied to.
-/
namespace Juno.C20

/-! ### shadowing maps -/

namespace AMap
variable {α β : Type} [BEq α]

theorem get_append (m₁ m₂ : AMap α β) (k : α) :
    get (m₁ ++ m₂) k = (get m₁ k).or (get m₂ k) := by
  induction m₁ with
  | nil => simp [get]
  | cons kv rest ih =>
    obtain ⟨k', v⟩ := kv
    simp only [List.cons_append, get]
    split <;> simp_all

theorem get_copyInto (dst src : AMap α β) (k : α) :
    get (copyInto dst src) k = (get src k).or (get dst k) :=
  get_append src dst k

theorem has_copyInto (dst src : AMap α β) (k : α) :
    has (copyInto dst src) k = (has src k || has dst k) := by
  simp only [has, get_copyInto]
  cases get src k <;> simp

theorem keys_foldl_ne_nil (m : AMap α β) (acc : List α) (h : acc ≠ []) :
    m.foldl (fun acc kv => if acc.contains kv.1 then acc else acc ++ [kv.1]) acc ≠ [] := by
  induction m generalizing acc with
  | nil => simpa using h
  | cons kv rest ih =>
    simp only [List.foldl_cons]
    apply ih
    split
    · exact h
    · simp

theorem size_eq_zero {m : AMap α β} (h : size m = 0) : m = [] := by
  cases m with
  | nil => rfl
  | cons kv rest =>
    exfalso
    have : keys (kv :: rest) ≠ [] := by
      simp only [keys, List.foldl_cons, List.contains_nil]
      exact keys_foldl_ne_nil rest _ (by simp)
    simp only [size, List.length_eq_zero_iff] at h
    exact this h

end AMap

/-! ### merging diffs and classes -/

theorem mergeClassesInto_get (dst src : AMap Felt Nat) (h : Felt) :
    AMap.get (mergeClassesInto dst src) h = (AMap.get src h).or (AMap.get dst h) := by
  unfold mergeClassesInto
  split
  · rename_i hs
    have : src = [] := AMap.size_eq_zero (by simpa using hs)
    subst this
    simp [AMap.get]
  · exact AMap.get_copyInto dst src h

/-! ### reads of an overlay vs reads of a canonical state -/

/-- all reads through the overlay `p` agree with the reader `b` -/
structure ReadsEq (p : PState) (b : Base) : Prop where
  classHash : ∀ a, p.classHash a = b.classHash a
  nonce : ∀ a, p.nonce a = b.nonce a
  storage : ∀ a k, p.storage a k = b.storage a k
  cls : ∀ h, p.cls h = b.cls h
  casm : ∀ h, p.casm h = b.casm h
  casmV2 : ∀ h, p.casmV2 h = b.casmV2 h

/-- a block's state diff is well-formed on the state it is applied to -/
structure Diff.ValidOn (d : Diff) (s : St) : Prop where
  /-- a contract is deployed at most once -/
  deploy_fresh : ∀ a, AMap.has d.deployed a = true → s.classHash a = none
  /-- only a deployed contract (possibly deployed by this very diff) changes class -/
  replace_exists : ∀ a, AMap.has d.replaced a = true →
    (s.classHash a).isSome = true ∨ AMap.has d.deployed a = true
  /-- only a deployed contract has a nonce -/
  nonce_exists : ∀ a, AMap.has d.nonces a = true →
    (s.classHash a).isSome = true ∨ AMap.has d.deployed a = true
  /-- only a deployed contract has storage -/
  storage_exists : ∀ a k, AMap.has d.storage (a, k) = true →
    (s.classHash a).isSome = true ∨ AMap.has d.deployed a = true

/-- the canonical state after applying the blocks `es` (oldest first) one by one -/
def applyBlocks (s : St) (es : List PreConf) : St :=
  es.foldl (fun s e => s.apply e.diff e.classes) s

/-- each block's diff is well-formed on the state reached by the blocks before it -/
def ValidChain (s : St) : List PreConf → Prop
  | [] => True
  | e :: rest => e.diff.ValidOn s ∧ ValidChain (s.apply e.diff e.classes) rest

/-- `ValidChain` looks at the diffs and classes of the entries only -/
theorem validChain_congr {s : St} {l₁ l₂ : List PreConf}
    (h : l₁.map (fun e => (e.diff, e.classes)) = l₂.map (fun e => (e.diff, e.classes))) :
    ValidChain s l₁ → ValidChain s l₂ := by
  induction l₁ generalizing s l₂ with
  | nil =>
    cases l₂ with
    | nil => exact id
    | cons _ _ => simp at h
  | cons e rest ih =>
    cases l₂ with
    | nil => simp at h
    | cons e' rest' =>
      simp only [List.map_cons, List.cons.injEq, Prod.mk.injEq] at h
      obtain ⟨⟨hd, hc⟩, hr⟩ := h
      intro hv
      simp only [ValidChain] at hv ⊢
      rw [← hd, ← hc]
      exact ⟨hv.1, ih hr hv.2⟩

theorem validChain_append {s : St} {l₁ l₂ : List PreConf} :
    ValidChain s (l₁ ++ l₂) ↔ ValidChain s l₁ ∧ ValidChain (applyBlocks s l₁) l₂ := by
  induction l₁ generalizing s with
  | nil => simp [ValidChain, applyBlocks]
  | cons e rest ih =>
    simp only [List.cons_append, ValidChain, applyBlocks, List.foldl_cons, ih]
    exact and_assoc.symm

theorem applyBlocks_append (s : St) (l₁ l₂ : List PreConf) :
    applyBlocks s (l₁ ++ l₂) = applyBlocks (applyBlocks s l₁) l₂ := by
  simp [applyBlocks, List.foldl_append]

/-- the overlay `pending.State` that `PreConfirmedStateAt` builds from the blocks `es` -/
def overlayOf (es : List PreConf) (head : Base) (bn : Nat) : PState :=
  { diff := (es.map (·.diff)).foldl Diff.merge Diff.empty
    classes := (es.map (·.classes)).foldl mergeClassesInto []
    head := head, blockNumber := bn }

/-- one more block merged into an overlay -/
def PState.extend (p : PState) (d : Diff) (c : AMap Felt Nat) : PState :=
  { diff := p.diff.merge d, classes := mergeClassesInto p.classes c,
    head := p.head, blockNumber := p.blockNumber }

theorem overlayOf_snoc (es : List PreConf) (e : PreConf) (head : Base) (bn : Nat) :
    overlayOf (es ++ [e]) head bn = (overlayOf es head bn).extend e.diff e.classes := by
  simp [overlayOf, PState.extend, List.foldl_append]

theorem isSome_of_has {m : AMap Felt Felt} {a : Felt} (h : AMap.has m a = true) :
    ∃ c, AMap.get m a = some c := by
  simp only [AMap.has] at h
  exact Option.isSome_iff_exists.mp h

theorem has_false_iff {α β : Type} [BEq α] {m : AMap α β} {a : α} :
    AMap.has m a = false ↔ AMap.get m a = none := by
  simp [AMap.has]

/-- one more block: if the overlay of the blocks so far reads like the state they produce, the
overlay with the next (well-formed) block merged in reads like the state after applying it -/
theorem apply_nonce (s : St) (d : Diff) (c : AMap Felt Nat) (a : Felt) :
    (s.apply d c).nonce a =
      match AMap.get d.nonces a with
      | some n => n
      | none => if AMap.has d.deployed a then 0 else s.nonce a := rfl

theorem apply_storage (s : St) (d : Diff) (c : AMap Felt Nat) (a k : Felt) :
    (s.apply d c).storage a k =
      match AMap.get d.storage (a, k) with
      | some v => v
      | none => if AMap.has d.deployed a then 0 else s.storage a k := rfl

theorem reader_nonce (s : St) (a : Felt) :
    s.reader.nonce a = if (s.classHash a).isSome then some (s.nonce a) else none := rfl

theorem reader_storage (s : St) (a k : Felt) :
    s.reader.storage a k = if (s.classHash a).isSome then some (s.storage a k) else none := rfl

/-- deployedness after a well-formed block -/
theorem apply_deployed {s : St} {d : Diff} (c : AMap Felt Nat) (hv : d.ValidOn s) (a : Felt) :
    ((s.apply d c).classHash a).isSome = ((s.classHash a).isSome || AMap.has d.deployed a) := by
  simp only [St.apply]
  cases hr : AMap.get d.replaced a with
  | some c1 =>
    have := hv.replace_exists a (by simp [AMap.has, hr])
    simp only [Option.isSome_some]
    cases this with
    | inl h => simp [h]
    | inr h => simp [h]
  | none =>
    simp only
    cases hd : AMap.get d.deployed a with
    | some c3 => simp [AMap.has, hd]
    | none => simp [AMap.has, hd]

/-- one more block: if the overlay of the blocks so far reads like the state they produce, the
overlay with the next (well-formed) block merged in reads like the state after applying it -/
theorem readsEq_step {p : PState} {s : St} {d : Diff} {c : AMap Felt Nat}
    (ih : ReadsEq p s.reader) (hv : d.ValidOn s) :
    ReadsEq (p.extend d c) (s.apply d c).reader := by
  refine ⟨?_, ?_, ?_, ?_, ?_, ?_⟩
  · -- class hash
    intro a
    have ih1 := ih.classHash a
    simp only [PState.classHash, St.reader] at ih1
    simp only [PState.classHash, PState.extend, St.reader, St.apply, Diff.merge, AMap.get_copyInto]
    cases hr : AMap.get d.replaced a with
    | some c1 => simp
    | none =>
      cases hpr : AMap.get p.diff.replaced a with
      | some c2 =>
        rw [hpr] at ih1
        cases hd : AMap.get d.deployed a with
        | none => simpa using ih1
        | some c3 =>
          have := hv.deploy_fresh a (by simp [AMap.has, hd])
          rw [this] at ih1; cases ih1
      | none =>
        rw [hpr] at ih1
        cases hd : AMap.get d.deployed a with
        | none => simpa using ih1
        | some c3 => simp
  · -- nonce
    intro a
    have ih2 := ih.nonce a
    rw [reader_nonce] at ih2
    rw [reader_nonce, apply_deployed c hv, apply_nonce]
    simp only [PState.nonce] at ih2
    simp only [PState.nonce, PState.extend, Diff.merge, AMap.get_copyInto, AMap.has_copyInto]
    cases hn : AMap.get d.nonces a with
    | some n =>
      have := hv.nonce_exists a (by simp [AMap.has, hn])
      cases this with
      | inl h => simp [h]
      | inr h => simp [h]
    | none =>
      cases hd : AMap.has d.deployed a with
      | true =>
        have hfresh := hv.deploy_fresh a hd
        rw [hfresh] at ih2
        cases hpn : AMap.get p.diff.nonces a with
        | some n' => rw [hpn] at ih2; simp at ih2
        | none => simp
      | false => simpa using ih2
  · -- storage
    intro a k
    have ih3 := ih.storage a k
    rw [reader_storage] at ih3
    rw [reader_storage, apply_deployed c hv, apply_storage]
    simp only [PState.storage] at ih3
    simp only [PState.storage, PState.extend, Diff.merge, AMap.get_copyInto, AMap.has_copyInto]
    cases hn : AMap.get d.storage (a, k) with
    | some v =>
      have := hv.storage_exists a k (by simp [AMap.has, hn])
      cases this with
      | inl h => simp [h]
      | inr h => simp [h]
    | none =>
      cases hd : AMap.has d.deployed a with
      | true =>
        have hfresh := hv.deploy_fresh a hd
        rw [hfresh] at ih3
        cases hpn : AMap.get p.diff.storage (a, k) with
        | some v' => rw [hpn] at ih3; simp at ih3
        | none => simp
      | false => simpa using ih3
  · intro h
    have := ih.cls h
    simp only [PState.cls, St.reader] at this
    simp only [PState.cls, PState.extend, St.reader, St.apply, mergeClassesInto_get]
    cases AMap.get c h <;> simp_all
  · intro h
    have := ih.casm h
    simp only [PState.casm, St.reader] at this
    simp only [PState.casm, PState.extend, St.reader, St.apply, Diff.merge, AMap.get_copyInto]
    cases AMap.get d.declaredV1 h <;> simp_all
  · intro h
    have := ih.casmV2 h
    simp only [PState.casmV2, St.reader] at this
    simp only [PState.casmV2, PState.extend, St.reader, St.apply, Diff.merge, AMap.get_copyInto]
    cases AMap.get d.migrated h <;> simp_all

/-- the overlay of no blocks reads the base -/
theorem readsEq_nil (s : St) (bn : Nat) : ReadsEq (overlayOf [] s.reader bn) s.reader := by
  refine ⟨?_, ?_, ?_, ?_, ?_, ?_⟩ <;> intros <;>
    simp [overlayOf, PState.classHash, PState.nonce, PState.storage, PState.cls, PState.casm,
      PState.casmV2, Diff.empty, AMap.get, AMap.has]

theorem overlay_reads_len (s : St) (bn : Nat) : ∀ n (es : List PreConf), es.length = n →
    ValidChain s es → ReadsEq (overlayOf es s.reader bn) (applyBlocks s es).reader := by
  intro n
  induction n with
  | zero =>
    intro es hl _
    have : es = [] := List.length_eq_zero_iff.mp hl
    subst this
    exact readsEq_nil s bn
  | succ n ih =>
    intro es hl hv
    rcases List.eq_nil_or_concat es with h | ⟨es', e, h⟩
    · subst h; simp at hl
    · rw [List.concat_eq_append] at h
      subst h
      have hl' : es'.length = n := by simpa using hl
      obtain ⟨h1, h2⟩ := validChain_append.mp hv
      rw [overlayOf_snoc, applyBlocks_append]
      have := readsEq_step (c := e.classes) (ih es' hl' h1) h2.1
      simpa [applyBlocks] using this

theorem overlay_reads (s : St) (es : List PreConf) (bn : Nat) (hv : ValidChain s es) :
    ReadsEq (overlayOf es s.reader bn) (applyBlocks s es).reader :=
  overlay_reads_len s bn es.length es rfl hv

/-! ### what `PreConfirmedStateAt` merges -/

theorem mergeThrough_eq (l : List PreConf) (lo b : Nat) (d : Diff) (c : AMap Felt Nat)
    (hnum : l.map (·.number) = List.range' lo l.length) (hb : lo ≤ b) (hb' : b < lo + l.length) :
    mergeThrough l b d c =
      (((l.take (b - lo + 1)).map (·.diff)).foldl Diff.merge d,
       ((l.take (b - lo + 1)).map (·.classes)).foldl mergeClassesInto c) := by
  induction l generalizing lo d c with
  | nil => simp at hb'; omega
  | cons e rest ih =>
    simp only [List.map_cons, List.length_cons, List.range'_succ, List.cons.injEq] at hnum
    obtain ⟨he, hrest⟩ := hnum
    simp only [mergeThrough]
    by_cases hlb : lo = b
    · subst hlb
      simp [he]
    · have hne : (e.number == b) = false := by simp [he, hlb]
      simp only [hne, Bool.false_eq_true, ↓reduceIte]
      have hlen : b < lo + 1 + rest.length := by simp only [List.length_cons] at hb'; omega
      rw [ih (lo + 1) _ _ hrest (by omega) hlen]
      have : b - lo + 1 = (b - (lo + 1) + 1) + 1 := by omega
      rw [this, List.take_succ_cons]
      simp

/-- a head-aligned view of a well-formed chain: where it starts and what `contains` means -/
theorem snapshot_view {s : Store} (h : StoreWF s) (head : Nat) :
    let v := snapshotFor s (head + 1)
    (0 < v.length → v.oldest = head + 1 ∧ v.tip = head + v.length) ∧
    (∀ b, v.contains b = true ↔ (head + 1 ≤ b ∧ b ≤ head + v.length)) := by
  cases s with
  | none =>
    simp only [snapshotFor]
    refine ⟨by simp [Reader.empty], ?_⟩
    intro b
    simp [Reader.contains, Reader.empty]
    omega
  | some cur =>
    have hw : WF cur := h
    simp only [snapshotFor]
    split
    · refine ⟨by simp [Reader.empty], ?_⟩
      intro b
      simp [Reader.contains, Reader.empty]
      omega
    · rename_i hc
      have hc' : cur.contains (head + 1) = true := by simpa using hc
      obtain ⟨_, hlo, hhi⟩ := contains_iff.mp hc'
      have e1 : ({ nodes := cur.nodes, length := cur.tip - (head + 1) + 1 } : Reader).tip = cur.tip := rfl
      have e2 : ({ nodes := cur.nodes, length := cur.tip - (head + 1) + 1 } : Reader).oldest = head + 1 := by
        simp only [Reader.oldest, e1]; omega
      refine ⟨fun _ => ⟨e2, by rw [e1]; simp only; omega⟩, ?_⟩
      intro b
      rw [contains_iff, e1, e2]
      simp only
      omega

theorem pred64_succ (n : Nat) : pred64 (n + 1) = n := by simp [pred64]

theorem stateAt_spec {s : Store} (h : StoreWF s) (head b : Nat) (baseAt : Nat → Option Base) :
    let v := snapshotFor s (head + 1)
    ((head + 1 ≤ b ∧ b ≤ head + v.length) →
      stateAt v b baseAt =
        match baseAt head with
        | none => .error .noBase
        | some base => .ok (overlayOf (v.oldestFirst.take (b - head)) base b)) ∧
    (¬ (head + 1 ≤ b ∧ b ≤ head + v.length) → stateAt v b baseAt = .error .notFound) := by
  have A := snapshot_view h head
  have B := snapshot_spec h (head + 1)
  dsimp only at A B ⊢
  generalize snapshotFor s (head + 1) = v at A B ⊢
  obtain ⟨hv1, hv2⟩ := A
  obtain ⟨hs1, hs2⟩ := B
  constructor
  · intro hb
    have hc : v.contains b = true := (hv2 b).mpr hb
    have hpos : 0 < v.length := by omega
    obtain ⟨ho, _⟩ := hv1 hpos
    have hlen : v.oldestFirst.length = v.length := by
      rw [Reader.oldestFirst_eq, List.length_reverse]; exact hs1
    have hnum : v.oldestFirst.map (·.number) = List.range' (head + 1) v.oldestFirst.length := by
      rw [hlen]; exact hs2
    have hm := mergeThrough_eq v.oldestFirst (head + 1) b Diff.empty [] hnum hb.1 (by rw [hlen]; omega)
    have e : b - (head + 1) + 1 = b - head := by omega
    simp only [stateAt, hc, Bool.not_true, Bool.false_eq_true, ↓reduceIte, ho, pred64_succ]
    cases baseAt head with
    | none => rfl
    | some base => simp [hm, overlayOf, e]
  · intro hb
    have hc : v.contains b = false := by
      cases hcc : v.contains b with
      | false => rfl
      | true => exact absurd ((hv2 b).mp hcc) hb
    simp [stateAt, hc]

/-! ### lookups -/

theorem txByHash_some {r : Reader} {h : Felt} {tx : Tx} (hs : txByHash r h = some tx) :
    tx.hash = h ∧ ∃ e ∈ r.newestFirst, tx ∈ e.txs := by
  unfold txByHash at hs
  split at hs
  · cases hs
  · obtain ⟨e, he, hf⟩ := List.exists_of_findSome?_eq_some hs
    have h1 := List.find?_some hf
    have h2 := List.mem_of_find?_eq_some hf
    exact ⟨by simpa using h1, e, he, h2⟩

theorem txByHash_none {r : Reader} {h : Felt} :
    txByHash r h = none ↔ ∀ e ∈ r.newestFirst, ∀ tx ∈ e.txs, tx.hash ≠ h := by
  unfold txByHash
  split
  · rename_i h0
    have : r.length = 0 := by simpa using h0
    simp [Reader.newestFirst, this]
  · simp [List.findSome?_eq_none_iff, List.find?_eq_none]

theorem receiptByHash_some {r : Reader} {h : Felt} {rc : Rcpt} {n : Nat}
    (hs : receiptByHash r h = some (rc, n)) :
    rc.txHash = h ∧ ∃ e ∈ r.newestFirst, rc ∈ e.receipts ∧ e.number = n := by
  unfold receiptByHash at hs
  split at hs
  · cases hs
  · obtain ⟨e, he, hf⟩ := List.exists_of_findSome?_eq_some hs
    simp only [Option.map_eq_some_iff, Prod.mk.injEq] at hf
    obtain ⟨rc', hfind, hrc, hn⟩ := hf
    subst hrc
    have h1 := List.find?_some hfind
    have h2 := List.mem_of_find?_eq_some hfind
    exact ⟨by simpa using h1, e, he, h2, hn⟩

theorem receiptByHash_none {r : Reader} {h : Felt} :
    receiptByHash r h = none ↔ ∀ e ∈ r.newestFirst, ∀ rc ∈ e.receipts, rc.txHash ≠ h := by
  unfold receiptByHash
  split
  · rename_i h0
    have : r.length = 0 := by simpa using h0
    simp [Reader.newestFirst, this]
  · simp [List.findSome?_eq_none_iff, List.find?_eq_none]

end Juno.C20
