import JunoModel.C20.ProofsOverlay
/-!
C20 — `ContractStorageLastUpdatedBlock` through a view: what the code answers, where that is
right, and a concrete view on which it is wrong.
-/
namespace Juno.C20

theorem overlay_storage_has (es : List PreConf) (head : Base) (bn : Nat) (key : Felt × Felt) :
    AMap.has (overlayOf es head bn).diff.storage key = es.any (fun e => AMap.has e.diff.storage key) := by
  suffices h : ∀ (acc : Diff), AMap.has ((es.map (·.diff)).foldl Diff.merge acc).storage key =
      (es.any (fun e => AMap.has e.diff.storage key) || AMap.has acc.storage key) by
    have := h Diff.empty
    simpa [overlayOf, Diff.empty, AMap.has, AMap.get] using this
  induction es with
  | nil => intro acc; simp
  | cons e rest ih =>
    intro acc
    simp only [List.map_cons, List.foldl_cons, List.any_cons]
    rw [ih, Diff.merge]
    simp only [AMap.has_copyInto]
    cases AMap.has e.diff.storage key <;> cases List.any rest _ <;> simp

theorem overlay_deployed_has (es : List PreConf) (head : Base) (bn : Nat) (a : Felt) :
    AMap.has (overlayOf es head bn).diff.deployed a = es.any (fun e => AMap.has e.diff.deployed a) := by
  suffices h : ∀ (acc : Diff), AMap.has ((es.map (·.diff)).foldl Diff.merge acc).deployed a =
      (es.any (fun e => AMap.has e.diff.deployed a) || AMap.has acc.deployed a) by
    have := h Diff.empty
    simpa [overlayOf, Diff.empty, AMap.has, AMap.get] using this
  induction es with
  | nil => intro acc; simp
  | cons e rest ih =>
    intro acc
    simp only [List.map_cons, List.foldl_cons, List.any_cons]
    rw [ih, Diff.merge]
    simp only [AMap.has_copyInto]
    cases AMap.has e.diff.deployed a <;> cases List.any rest _ <;> simp

theorem lastWriter_none_iff (es : List PreConf) (a k : Felt) :
    lastWriter es a k = none ↔ es.any (fun e => AMap.has e.diff.storage (a, k)) = false := by
  simp [lastWriter, List.find?_eq_none, List.any_eq_false]

/-- what the code answers, for every overlay -/
theorem lastUpdated_asis (es : List PreConf) (head : Base) (b : Nat) (a k : Felt) :
    (overlayOf es head b).lastUpdated a k =
      if es.any (fun e => AMap.has e.diff.storage (a, k)) then some b
      else if es.any (fun e => AMap.has e.diff.deployed a) then some 0
      else head.lastUpd a k := by
  simp only [PState.lastUpdated, overlay_storage_has, overlay_deployed_has]
  rfl

/-- the answer is right whenever the slot is not written by the view, or the newest block that
writes it is the requested block itself -/
theorem lastUpdated_right_when (es : List PreConf) (head : Base) (b : Nat) (a k : Felt)
    (h : lastWriter es a k = none ∨ lastWriter es a k = some b) :
    (overlayOf es head b).lastUpdated a k = lastUpdatedSpec es head a k := by
  rw [lastUpdated_asis]
  unfold lastUpdatedSpec
  rcases h with h | h
  · rw [h]
    have := (lastWriter_none_iff es a k).mp h
    simp [this]
  · rw [h]
    have : es.any (fun e => AMap.has e.diff.storage (a, k)) = true := by
      cases hh : es.any (fun e => AMap.has e.diff.storage (a, k)) with
      | true => rfl
      | false => rw [(lastWriter_none_iff es a k).mpr hh] at h; cases h
    simp [this]

end Juno.C20
