/-
C20 — model of juno's pre-confirmed chain (sync/preconfirmed/chain_storage.go), the adapters that
build its entries (adapters/sn2core: AdaptPreConfirmedBlock / AdaptPreConfirmedWithDelta /
core.StateDiff.Merge) and the overlay state reader (core/pending/state.go).
Core Lean only: this file is linked into the driver executable `c20drv`.

Conventions of the transcription
* felts, block numbers, class-definition identities are `Nat`; Go `uint64` arithmetic on block
  numbers is modelled with `Nat` (truncated subtraction). The invariant `WF` (Proofs.lean) shows
  that no subtraction of the stored chain ever truncates, so the totalisation is never used.
* a Go `map[K]V` is an association list with *shadowing*: `m[k] = v` is `(k, v) :: m`, a lookup
  takes the first match, `maps.Copy(dst, src)` is `src ++ dst`, `maps.Clone` is the identity.
  `len(m)` is the number of distinct keys. `StorageDiffs` (a map of maps) is flattened to a map
  keyed by `(address, slot)`; `StateDiff.Merge` on it is again `src ++ dst` (per address the
  inner maps are copied key by key, which is the same function on `(address, slot)` pairs).
* the atomic pointer `ChainStorage.inner` is `Option Reader`; a `Reader` is the linked list
  reachable from `head` (newest first, down to the nil terminator) plus the `length` field.
  Aliasing / in-place mutation cannot be expressed here — that part is in `Heap.lean`
  (allocation-only heap) and in the harness (deep hashes of held snapshots).
-/
namespace Juno.C20

abbrev Felt := Nat

/-! ## `uint64` block numbers

Block numbers are `Nat`. Two operations of the code can actually wrap on a reachable state and are
transcribed with their `uint64` meaning: `tip()+1` in `computeUpdate` (at `tip = 2^64-1` it is 0,
so every in-chain update is rejected as a gap) and `oldestPreConf()-1` in `baseState` (for a chain
bootstrapped at block 0 the base state asked for is `2^64-1`). The subtractions
`tip - uint64(length-1)`, `tip - blockNumber`, `oldestPreConf - currentOldest` are plain `Nat`
subtractions: `stored_chain_wellformed` / the `contains` guards in front of them show that they
never truncate on a reachable chain. -/

def U64 : Nat := 18446744073709551616

/-- `n + 1` on `uint64` -/
def succ64 (n : Nat) : Nat := if n + 1 = U64 then 0 else n + 1

/-- `n - 1` on `uint64` -/
def pred64 (n : Nat) : Nat := if n = 0 then U64 - 1 else n - 1

/-! ## Go maps as shadowing association lists -/

abbrev AMap (α β : Type) := List (α × β)

namespace AMap
variable {α β : Type} [BEq α]

/-- `v, ok := m[k]` -/
def get (m : AMap α β) (k : α) : Option β :=
  match m with
  | [] => none
  | (k', v) :: rest => if k' == k then some v else get rest k

/-- `_, ok := m[k]` -/
def has (m : AMap α β) (k : α) : Bool := (get m k).isSome

/-- `m[k] = v` -/
def set (m : AMap α β) (k : α) (v : β) : AMap α β := (k, v) :: m

/-- `maps.Copy(dst, src)` (returns the new `dst`). -/
def copyInto (dst src : AMap α β) : AMap α β := src ++ dst

/-- keys without repetition, in order of first occurrence -/
def keys (m : AMap α β) : List α :=
  m.foldl (fun acc kv => if acc.contains kv.1 then acc else acc ++ [kv.1]) []

/-- `len(m)` -/
def size (m : AMap α β) : Nat := (keys m).length

end AMap

/-! ## State diffs (`core.StateDiff`) -/

structure Diff where
  storage    : AMap (Felt × Felt) Felt := []   -- StorageDiffs, flattened to (addr, slot) ↦ value
  nonces     : AMap Felt Felt := []            -- Nonces
  deployed   : AMap Felt Felt := []            -- DeployedContracts  addr ↦ class hash
  declaredV0 : List Felt := []                 -- DeclaredV0Classes (a slice: appended)
  declaredV1 : AMap Felt Felt := []            -- DeclaredV1Classes  class hash ↦ compiled class hash
  replaced   : AMap Felt Felt := []            -- ReplacedClasses    addr ↦ class hash
  migrated   : AMap Felt Felt := []            -- MigratedClasses    class hash ↦ casm hash v2
  deriving Inhabited, DecidableEq

/-- `core.EmptyStateDiff()` -/
def Diff.empty : Diff := {}

/-- `func (d *StateDiff) Merge(incoming *StateDiff)` — returns the new `d`. -/
def Diff.merge (d inc : Diff) : Diff :=
  { storage    := AMap.copyInto d.storage inc.storage
    nonces     := AMap.copyInto d.nonces inc.nonces
    deployed   := AMap.copyInto d.deployed inc.deployed
    declaredV1 := AMap.copyInto d.declaredV1 inc.declaredV1
    replaced   := AMap.copyInto d.replaced inc.replaced
    migrated   := AMap.copyInto d.migrated inc.migrated
    declaredV0 := d.declaredV0 ++ inc.declaredV0 }

/-- `stateDiff := core.EmptyStateDiff(); for _, x := range ds { stateDiff.Merge(x) }` -/
def Diff.mergeAll (ds : List Diff) : Diff := ds.foldl Diff.merge Diff.empty

/-! ### the wire form of a state diff and `sn2core.AdaptStateDiff` (round 5)

`starknet.StateDiff` carries LISTS (`deployed_contracts`, `replaced_classes`, `declared_classes`,
`migrated_compiled_classes`, per contract the list of `{key, value}` storage entries) and two JSON
objects keyed by address (`storage_diffs`, `nonces`). `AdaptStateDiff` builds every Go map by
assignment in list order, so a key that occurs twice ends up with the LATER value; `OldDeclaredContracts`
is taken over as the slice it is. -/

structure WireDiff where
  storage     : List ((Felt × Felt) × Felt) := []   -- storage_diffs, flattened: (address, key) ↦ value, in wire order
  nonces      : List (Felt × Felt) := []
  deployed    : List (Felt × Felt) := []            -- deployed_contracts: address, class hash
  replaced    : List (Felt × Felt) := []            -- replaced_classes
  declared    : List (Felt × Felt) := []            -- declared_classes: class hash, compiled class hash
  migrated    : List (Felt × Felt) := []            -- migrated_compiled_classes
  oldDeclared : List Felt := []                     -- old_declared_contracts
  deriving Inhabited

/-- `for _, x := range xs { m[x.k] = x.v }` on an empty map -/
def assignAll {α β : Type} [BEq α] (xs : List (α × β)) : AMap α β :=
  xs.foldl (fun m kv => AMap.set m kv.1 kv.2) []

/-- `sn2core.AdaptStateDiff(response)` (its only error — an address key that is not a felt — is part of
`WireTx.bad`-like input rejection upstream: the JSON decoder of the feeder client) -/
def adaptStateDiff (w : WireDiff) : Diff :=
  { storage    := assignAll w.storage
    nonces     := assignAll w.nonces
    deployed   := assignAll w.deployed
    declaredV1 := assignAll w.declared
    replaced   := assignAll w.replaced
    migrated   := assignAll w.migrated
    declaredV0 := w.oldDeclared }

/-! ## Pre-confirmed entries (`pending.PreConfirmed`) and wire updates -/

/-- a `core.Transaction` as far as this property can see it: its hash and a payload tag that
tells two transactions with the same hash apart -/
structure Tx where
  hash : Felt
  tag  : Nat
  kind : Nat := 0   -- transaction type (0 invoke, 1 declare, 2 l1-handler, 3 deploy-account); carried, never inspected
  deriving DecidableEq, Repr, Inhabited

/-- a `core.TransactionReceipt`: the transaction hash it carries, a payload tag, its events -/
structure Rcpt where
  txHash : Felt
  tag    : Nat
  events : Nat
  reverted : Bool := false   -- `ExecutionStatus == Reverted`. Carried only: no branch of the adapters or of
                             -- the storage looks at it — a reverted transaction's state diff (nonce, fee
                             -- transfer) is merged into the block diff like any other
  deriving DecidableEq, Repr, Inhabited

structure PreConf where
  number     : Nat                 -- Block.Header.Number
  ident      : String              -- BlockIdentifier
  txCount    : Nat                 -- Block.Header.TransactionCount
  eventCount : Nat                 -- Block.Header.EventCount
  txs        : List Tx             -- Block.Transactions
  receipts   : List Rcpt           -- Block.Receipts
  txDiffs    : List Diff           -- TransactionStateDiffs
  diff       : Diff                -- StateUpdate.StateDiff
  classes    : AMap Felt Nat := []  -- NewClasses: class hash ↦ definition
  deriving Inhabited

/-- one transaction of a wire update (`starknet.Transaction`, its receipt, its state diff);
`bad` = `sn2core.AdaptTransaction` rejects it (unknown transaction type) -/
structure WireTx where
  tx   : Tx
  bad  : Bool
  rcpt : Rcpt
  diff : Diff
  deriving Inhabited

/-- `starknet.PreConfirmedUpdate` (sealed sum). `verOk` = `core.CheckBlockVersion` accepts the
block's `starknet_version`. -/
inductive Update
  | block (ident : String) (verOk : Bool) (txs : List WireTx)
  | delta (ident : String) (txs : List WireTx)
  | noChange
  deriving Inhabited

/-- `feeder.PreConfirmedBlankIdentifier` -/
def blankIdent : String := "0x0"

inductive Err
  | bootstrapVariant | bootstrapHeight | unaligned | belowOldest | gap | appendVariant
  | deltaNonTip | baseTxCount | identMismatch | noChangeNonTip | adapt | version
  deriving DecidableEq, Repr, Inhabited

def Err.name : Err → String
  | .bootstrapVariant => "bootstrap-variant" | .bootstrapHeight => "bootstrap-height"
  | .unaligned => "unaligned" | .belowOldest => "below-oldest" | .gap => "gap"
  | .appendVariant => "append-variant" | .deltaNonTip => "delta-nontip"
  | .baseTxCount => "basetx" | .identMismatch => "ident" | .noChangeNonTip => "nochange-nontip"
  | .adapt => "adapt" | .version => "version"

/-- `sn2core.AdaptPreConfirmedBlock` followed by `core.CheckBlockVersion` and
`next.NewClasses = newClasses` (the three callers do exactly this sequence). -/
def adaptBlock (ident : String) (verOk : Bool) (txs : List WireTx) (number : Nat)
    (newClasses : AMap Felt Nat) : Except Err PreConf :=
  if txs.any (·.bad) then .error .adapt
  else if !verOk then .error .version
  else
    let txDiffs := txs.map (·.diff)
    .ok { number := number, ident := ident,
          txCount := txs.length,
          eventCount := (txs.map (·.rcpt.events)).foldl (· + ·) 0,
          txs := txs.map (·.tx), receipts := txs.map (·.rcpt),
          txDiffs := txDiffs, diff := Diff.mergeAll txDiffs, classes := newClasses }

/-- `sn2core.AdaptPreConfirmedWithDelta(current, delta)` -/
def adaptDelta (cur : PreConf) (ident : String) (txs : List WireTx) : Except Err PreConf :=
  if cur.ident != ident then .error .identMismatch
  else if txs.any (·.bad) then .error .adapt
  else
    let added := txs.map (·.diff)
    .ok { cur with
          txs := cur.txs ++ txs.map (·.tx)
          receipts := cur.receipts ++ txs.map (·.rcpt)
          txDiffs := cur.txDiffs ++ added
          diff := added.foldl Diff.merge (Diff.merge Diff.empty cur.diff)
          txCount := cur.txCount + txs.length
          eventCount := cur.eventCount + (txs.map (·.rcpt.events)).foldl (· + ·) 0 }

/-! ## the wire shape, its validation, and what the adapters index into

`starknet.PreConfirmedBlock` / `PreConfirmedDeltaUpdate` carry three parallel slices. The adapters
loop over the TRANSACTIONS and index the other two (`response.TransactionStateDiffs[i]`,
`response.Receipts[i].Events`) and dereference `response.L1GasPrice` without any check: their
contract ("it is assumed that `starknet.PreConfirmedBlock` is valid") is
`PreConfirmedUpdateEnvelope.Validate`, which every `DataSource` of juno goes through
(`clients/feeder` `fetchPreConfirmedUpdate`). `WireTx` above is the validated case. -/

structure RawUpdate where
  txs      : List (Option (Tx × Bool))  -- `none`: the zero value `Transaction{}`; else transaction, `bad`
  receipts : List (Option Rcpt)         -- `nil` elements possible
  diffs    : List (Option Diff)

/-- the scalar fields of a full block that `validate()` looks at -/
structure RawMeta where
  ident        : String
  statusOk     : Bool   -- `Status == "PRE_CONFIRMED"`
  version      : String
  timestamp    : Nat
  hasSequencer : Bool   -- `SequencerAddress != nil`
  hasL1Gas     : Bool
  hasL2Gas     : Bool
  hasL1DataGas : Bool

/-- `starknet.PreConfirmedUpdateEnvelope.Update` -/
inductive RawEnvelope
  | noChange
  | delta (ident : String) (u : RawUpdate)
  | block (m : RawMeta) (u : RawUpdate)

/-- `validateTxsLength(txs, receipts, stateDiffs)` (`true` = no error) -/
def validateTxsLength (u : RawUpdate) : Bool :=
  if u.txs.length != u.receipts.length || u.txs.length != u.diffs.length then false
  else (List.range u.txs.length).all fun i =>
    (u.txs[i]?.join).isSome && (u.receipts[i]?.join).isSome && (u.diffs[i]?.join).isSome

/-- `(*PreConfirmedUpdateEnvelope).Validate()` with the `validate()` methods of the variants -/
def RawEnvelope.validate : RawEnvelope → Bool
  | .noChange => true
  | .delta ident u =>
    if ident == "" then false
    else if u.txs.length == 0 then false
    else validateTxsLength u
  | .block m u =>
    if m.ident == "" then false
    else if !m.statusOk then false
    else if m.version == "" then false
    else if m.timestamp == 0 then false
    else if !m.hasSequencer then false
    else if !m.hasL1Gas then false
    else if !m.hasL2Gas then false
    else if !m.hasL1DataGas then false
    else validateTxsLength u

inductive RawOutcome
  | ok (ws : List WireTx)
  | adaptError                        -- AdaptTransaction failed before anything else was touched
  | panics                            -- index out of range / nil dereference in the writer goroutine

/-- the per-index accesses of `AdaptPreConfirmedBlock` / `AdaptPreConfirmedWithDelta`, in order:
`AdaptTransaction(txs[i])` (the zero-valued transaction has type `Invalid`: an error),
`AdaptStateDiff(diffs[i])`, `receipts[i]` and `.Events` of it -/
def zipRaw (u : RawUpdate) : RawOutcome :=
  go u.txs 0 []
where
  go : List (Option (Tx × Bool)) → Nat → List WireTx → RawOutcome
    | [], _, acc => .ok acc.reverse
    | none :: _, _, _ => .adaptError
    | some (tx, bad) :: rest, i, acc =>
      if bad then .adaptError
      else match u.diffs[i]? with
        | some (some d) =>
          match u.receipts[i]? with
          | some (some rc) => go rest (i + 1) ({ tx := tx, bad := false, rcpt := rc, diff := d } :: acc)
          | _ => .panics
        | _ => .panics

/-- what the adapter does with an envelope: the loop, then (full block only) the header, which
dereferences `response.L1GasPrice` -/
def RawEnvelope.adapt : RawEnvelope → RawOutcome
  | .noChange => .ok []
  | .delta _ u => zipRaw u
  | .block m u =>
    match zipRaw u with
    | .ok ws => if m.hasL1Gas then .ok ws else .panics
    | o => o

/-! ## sequencer mode: the view over the block under construction

`Sequencer.PreConfirmedChain` returns `NewChain(s.buildState.PreConfirmed)`: the view's single
node points at the builder's live entry, which `updatePreconfirmedBlock` updates IN PLACE for every
executed batch. A mutable cell per entry is all that is needed to say it. -/

/-- `updatePreconfirmedBlock(preconfirmed, receipts, transactions, stateDiffs)` on the entry value -/
def runBatch (e : PreConf) (ws : List WireTx) : PreConf :=
  { e with
    receipts := e.receipts ++ ws.map (·.rcpt)
    txDiffs := e.txDiffs ++ ws.map (·.diff)
    txs := e.txs ++ ws.map (·.tx)
    txCount := e.txCount + ws.length
    eventCount := e.eventCount + (ws.map (·.rcpt.events)).foldl (· + ·) 0
    diff := (ws.map (·.diff)).foldl Diff.merge e.diff }

/-- the builder's step on the memory of entries: the live cell is overwritten -/
def runBatchInPlace (cells : List PreConf) (live : Nat) (ws : List WireTx) : List PreConf :=
  match cells[live]? with
  | some e => cells.set live (runBatch e ws)
  | none => cells

/-- what a reader holding the entry at address `a` sees -/
def readCell (cells : List PreConf) (a : Nat) : Option PreConf := cells[a]?

/-- `Sequencer.PreConfirmedChain` as it is: the view's entry is the live cell -/
def seqViewLive (_cells : List PreConf) (live : Nat) : Nat := live

/-- … with a snapshot (`buildState.Clone()`): the view's entry is a fresh cell -/
def seqViewSnapshot (cells : List PreConf) (live : Nat) : List PreConf × Nat :=
  match cells[live]? with
  | some e => (cells ++ [e], cells.length)
  | none => (cells, live)

/-! ## `ChainReader` and `ChainStorage` -/

structure Reader where
  nodes  : List PreConf   -- the linked list from `head` down to nil, newest first
  length : Nat
  deriving Inhabited

/-- the zero-value `ChainReader{}` -/
def Reader.empty : Reader := { nodes := [], length := 0 }

/-- `c.head.preconfirmed.Block.Number` (Go dereferences `head`; a nil head with length > 0
cannot occur, see `WF`) -/
def Reader.tip (r : Reader) : Nat :=
  match r.nodes with
  | n :: _ => n.number
  | [] => 0

/-- `c.head.preconfirmed.Block.Number - uint64(c.length-1)` -/
def Reader.oldest (r : Reader) : Nat := r.tip - (r.length - 1)

/-- `c.length > 0 && (blockNum >= c.oldestPreConf() && blockNum <= c.tip())` -/
def Reader.contains (r : Reader) (b : Nat) : Bool :=
  decide (r.length > 0) && (decide (b ≥ r.oldest) && decide (b ≤ r.tip))

/-- `NewestFirst`: `length` entries from the head, stopping early at nil -/
def Reader.newestFirst (r : Reader) : List PreConf := r.nodes.take r.length

/-- `walkOldestFirst(current, remaining, yield)` with a collecting `yield` -/
def walkOldestFirst : List PreConf → Nat → List PreConf
  | [], _ => []
  | _ :: _, 0 => []
  | cur :: parent, rem + 1 => walkOldestFirst parent rem ++ [cur]

/-- `OldestFirst` -/
def Reader.oldestFirst (r : Reader) : List PreConf := walkOldestFirst r.nodes r.length

/-- `Head()` -/
def Reader.headEntry (r : Reader) : Option PreConf :=
  if r.length == 0 then none else r.nodes.head?

abbrev Store := Option Reader

/-- `SnapshotForBlock(blockNumber)` -/
def snapshotFor (s : Store) (b : Nat) : Reader :=
  match s with
  | none => Reader.empty
  | some cur =>
    if !cur.contains b then Reader.empty
    else { nodes := cur.nodes, length := cur.tip - b + 1 }

/-- `rebuild(current, keep)` -/
def rebuild : List PreConf → Nat → List PreConf
  | _, 0 => []
  | [], _ => []
  | cur :: parent, keep + 1 => cur :: rebuild parent keep

/-- `AdvanceTo(oldestPreConf)`: the new pointer and the returned bool (the CAS of the single
writer always succeeds) -/
def advanceTo (s : Store) (oldestPreConf : Nat) : Store × Bool :=
  match s with
  | none => (s, false)
  | some cur =>
    if cur.length == 0 then (s, false)
    else
      let currentOldest := cur.oldest
      if oldestPreConf == currentOldest then (s, false)
      else if !cur.contains oldestPreConf then (none, true)
      else
        let drop := oldestPreConf - currentOldest
        let keep := cur.length - drop
        (some { nodes := rebuild cur.nodes keep, length := keep }, true)

/-- result of `computeUpdate`: `(newChain, affected, err)`; `noop` is `(nil, nil, nil)` -/
inductive Outcome
  | changed (chain : Reader) (affected : PreConf)
  | noop
  | err (e : Err)
  deriving Inhabited

/-- `shouldPreserveSlot(existing, incoming)` -/
def shouldPreserveSlot (existing incoming : PreConf) : Bool :=
  if incoming.ident != existing.ident && incoming.ident != blankIdent then false
  else if incoming.txCount > existing.txCount then false
  else if AMap.size incoming.classes > AMap.size existing.classes then false
  else true

/-- `mergeClassesCopying(base, extra)` -/
def mergeClassesCopying (base extra : AMap Felt Nat) : AMap Felt Nat :=
  if AMap.size extra == 0 then base else AMap.copyInto base extra

/-- `bootstrapChain` -/
def bootstrapChain (ident : String) (verOk : Bool) (txs : List WireTx) (blockNumber oldestPreConf : Nat)
    (newClasses : AMap Felt Nat) : Outcome :=
  if blockNumber != oldestPreConf then .err .bootstrapHeight
  else match adaptBlock ident verOk txs blockNumber newClasses with
    | .error e => .err e
    | .ok next => .changed { nodes := [next], length := 1 } next

/-- `extend` -/
def extend (cur : Reader) (ident : String) (verOk : Bool) (txs : List WireTx) (blockNumber : Nat)
    (newClasses : AMap Felt Nat) : Outcome :=
  match adaptBlock ident verOk txs blockNumber newClasses with
  | .error e => .err e
  | .ok next => .changed { nodes := next :: cur.nodes, length := cur.length + 1 } next

/-- `replaceSlot` -/
def replaceSlot (cur : Reader) (u : Update) (blockNumber baseTxCount : Nat)
    (newClasses : AMap Felt Nat) : Outcome :=
  let depth := cur.tip - blockNumber
  -- `target := current.head; for range depthFromHead { target = target.parent }`
  match cur.nodes.drop depth with
  | [] => .err .gap  -- unreachable under `WF` (Go would dereference nil)
  | target :: parent =>
    match u with
    | .block ident verOk txs =>
      match adaptBlock ident verOk txs blockNumber newClasses with
      | .error e => .err e
      | .ok next =>
        if shouldPreserveSlot target next then .noop
        else .changed { nodes := next :: parent, length := cur.length - depth } next
    | .delta ident txs =>
      if depth != 0 then .err .deltaNonTip
      else if target.txs.length != baseTxCount then .err .baseTxCount
      else match adaptDelta target ident txs with
        | .error e => .err e
        | .ok next0 =>
          let next := { next0 with classes := mergeClassesCopying next0.classes newClasses }
          .changed { nodes := next :: parent, length := cur.length } next
    | .noChange =>
      if AMap.size newClasses == 0 then .noop
      else if depth != 0 then .err .noChangeNonTip
      else
        let merged := mergeClassesCopying target.classes newClasses
        if AMap.size merged == AMap.size target.classes then .noop
        else
          let next := { target with classes := merged }
          .changed { nodes := next :: parent, length := cur.length } next

/-- the empty-chain branch of `computeUpdate`: only a full block can bootstrap -/
def bootstrap (u : Update) (blockNumber oldestPreConf : Nat) (newClasses : AMap Felt Nat) : Outcome :=
  match u with
  | .block ident verOk txs => bootstrapChain ident verOk txs blockNumber oldestPreConf newClasses
  | _ => .err .bootstrapVariant

/-- `computeUpdate` -/
def computeUpdate (s : Store) (u : Update) (blockNumber baseTxCount oldestPreConf : Nat)
    (newClasses : AMap Felt Nat) : Outcome :=
  match s with
  | none => bootstrap u blockNumber oldestPreConf newClasses
  | some cur =>
    if cur.length == 0 then bootstrap u blockNumber oldestPreConf newClasses
    else
      let currentOldest := cur.oldest
      if currentOldest != oldestPreConf then .err .unaligned
      else if blockNumber < currentOldest then .err .belowOldest
      else
        let tip := cur.tip
        if blockNumber > succ64 tip then .err .gap
        else if blockNumber == succ64 tip then
          match u with
          | .block ident verOk txs => extend cur ident verOk txs blockNumber newClasses
          | _ => .err .appendVariant
        else replaceSlot cur u blockNumber baseTxCount newClasses

/-- `ApplyUpdate`: the new pointer and what the caller gets back -/
def applyUpdate (s : Store) (u : Update) (blockNumber baseTxCount oldestPreConf : Nat)
    (newClasses : AMap Felt Nat) : Store × Outcome :=
  match computeUpdate s u blockNumber baseTxCount oldestPreConf newClasses with
  | .changed chain aff => (some chain, .changed chain aff)
  | .noop => (s, .noop)
  | .err e => (s, .err e)

/-- a writer operation of the single writer goroutine (the poller) -/
inductive Op
  | apply (u : Update) (blockNumber baseTxCount oldestPreConf : Nat) (newClasses : AMap Felt Nat)
  | advance (oldestPreConf : Nat)
  deriving Inhabited

def step (s : Store) : Op → Store
  | .apply u b t o c => (applyUpdate s u b t o c).1
  | .advance o => (advanceTo s o).1

/-- the storage after a history of writer operations, starting from `NewChainStorage()` -/
def run (ops : List Op) : Store := ops.foldl step none

/-! ## The reader entry point: `Synchronizer.PreConfirmedChain`

```go
height, _ := s.blockchain.Height()
snapshot := s.preConfirmed.SnapshotForBlock(height + 1)
if snapshot.Length() > 0 { return snapshot, nil }
head, _ := s.blockchain.HeadsHeader()
emptyPreConfirmed, _ := MakeEmptyPreConfirmedForParent(s.blockchain, head)
return preconfirmed.NewChain(&emptyPreConfirmed)
```

The state a reader runs against has three components: the canonical height, the chain storage,
and the header the Synchronizer caches (`highestBlockHeader`: moved forward by `storeTask`, never
lowered by a revert, overwritten once a minute with the feeder's latest header, which may be ahead
of the local head). The alignment argument of `SnapshotForBlock` is part of the transcription: it
is `height + 1`; the cached header is an argument that is NOT used. -/

/-- `MakeEmptyPreConfirmedForParent(bc, head)`: block `head+1`, blank identifier, no transactions;
its state diff (the block-hash write of block `head+1-10`) is the parameter `d` -/
def emptyPreConfirmedFor (head : Nat) (d : Diff) : PreConf :=
  { number := head + 1, ident := blankIdent, txCount := 0, eventCount := 0, txs := [], receipts := [],
    txDiffs := [], diff := d }

/-- `core.BlockHashLag` -/
def blockHashLag : Nat := 10

/-- `core.BlockHashStorageContract` (address `0x1`) -/
def blockHashContract : Felt := 1

/-- `makeStateDiffForEmptyBlock(bc, blockNumber)` (sync/helpers.go): nothing for the first
`BlockHashLag` blocks, else the one storage write `0x1[blockNumber-10] = hash(blockNumber-10)`.
`hashOf n` is `bc.BlockHeaderHashByNumber(n)` (`none`: the call fails, and so does the helper). -/
def emptyBlockDiff (hashOf : Nat → Option Felt) (blockNumber : Nat) : Option Diff :=
  if blockNumber < blockHashLag then some {}
  else
    let targetBlock := blockNumber - blockHashLag
    match hashOf targetBlock with
    | none => none
    | some h => some { storage := [((blockHashContract, targetBlock), h)] }

/-- `Synchronizer.PreConfirmedChain()` in a state (canonical height, cached header number, storage) -/
def readerView (height : Nat) (_cachedHeader : Option Nat) (s : Store) (fallbackDiff : Diff) : Reader :=
  let snapshot := snapshotFor s (height + 1)
  if snapshot.length > 0 then snapshot
  else { nodes := [emptyPreConfirmedFor height fallbackDiff], length := 1 }

/-- the whole of `Synchronizer.PreConfirmedChain()`: the aligned snapshot, else the empty block
above the head built by `MakeEmptyPreConfirmedForParent` (`none`: its block-hash lookup failed) -/
def readerViewFull (height : Nat) (cachedHeader : Option Nat) (s : Store) (hashOf : Nat → Option Felt) :
    Option Reader :=
  let snapshot := snapshotFor s (height + 1)
  if snapshot.length > 0 then some snapshot
  else (emptyBlockDiff hashOf (height + 1)).map fun d => readerView height cachedHeader s d

/-! ### `PreConfirmedChain` read by read (round 5)

The method reads the canonical chain up to four times — `Height()`, the atomic load of the storage,
`HeadsHeader()`, `BlockHeaderHashByNumber(head+1-10)` — with nothing held in between: the head may
advance or revert between any two of them. `readerViewFull` above is the special case in which both
height reads see the same head. Every read can also fail (`Height()` / `HeadsHeader()` on a chain
without a head: `db.ErrKeyNotFound`). -/

inductive ChainErr | height | header | blockHash
  deriving DecidableEq, Repr

/-- `Synchronizer.PreConfirmedChain()`: `height` = what `Height()` answers (`none`: error), `s` = the
storage at the moment of `SnapshotForBlock`, `headNum` = the number of `HeadsHeader()` at the moment
the fallback is built (`none`: error), `hashOf` = `BlockHeaderHashByNumber`. `height + 1` /
`latestHeader.Number + 1` wrap only at a canonical height of `2^64-1`. -/
def preConfirmedChain (height : Option Nat) (s : Store) (headNum : Option Nat) (hashOf : Nat → Option Felt) :
    Except ChainErr Reader :=
  match height with
  | none => .error .height
  | some h =>
    let snapshot := snapshotFor s (h + 1)
    if snapshot.length > 0 then .ok snapshot
    else
      match headNum with
      | none => .error .header
      | some hd =>
        match emptyBlockDiff hashOf (hd + 1) with
        | none => .error .blockHash
        | some d => .ok { nodes := [emptyPreConfirmedFor hd d], length := 1 }   -- `NewChain(&emptyPreConfirmed)`

/-! ## Lookups on a view -/

/-- `ChainReader.TransactionByHash` (none = `ErrTransactionNotFound`) -/
def txByHash (r : Reader) (h : Felt) : Option Tx :=
  if r.length == 0 then none
  else r.newestFirst.findSome? (fun e => e.txs.find? (fun tx => tx.hash == h))

/-- `ChainReader.ReceiptByHash`: receipt and the number of the block it lives in -/
def receiptByHash (r : Reader) (h : Felt) : Option (Rcpt × Nat) :=
  if r.length == 0 then none
  else r.newestFirst.findSome?
    (fun e => (e.receipts.find? (fun rc => rc.txHash == h)).map (fun rc => (rc, e.number)))

/-- the loop of `(*PreConfirmed).TransactionByHash`: the first transaction with that hash and its index -/
def txIndexFrom : List Tx → Nat → Felt → Option (Tx × Nat)
  | [], _, _ => none
  | t :: rest, i, h => if t.hash == h then some (t, i) else txIndexFrom rest (i + 1) h

/-- `(*pending.PreConfirmed).TransactionByHash(hash)` (core/pending/pending.go): the transaction and its
index in the block (the index the trace handlers pass to `PreConfirmedStateBeforeIndexAt`);
`none` = `ErrTransactionNotFound` -/
def PreConf.txByHash (e : PreConf) (h : Felt) : Option (Tx × Nat) := txIndexFrom e.txs 0 h

/-- `(*pending.PreConfirmed).ReceiptByHash(hash)`; `none` = `ErrTransactionReceiptNotFound` -/
def PreConf.receiptByHash (e : PreConf) (h : Felt) : Option Rcpt := e.receipts.find? (fun rc => rc.txHash == h)

/-! ## The overlay state reader (`pending.State`) -/

/-- a `core.StateReader` below the view: `none` is `db.ErrKeyNotFound` -/
structure Base where
  classHash : Felt → Option Felt
  nonce     : Felt → Option Felt
  storage   : Felt → Felt → Option Felt
  cls       : Felt → Option Nat
  casm      : Felt → Option Felt
  casmV2    : Felt → Option Felt
  lastUpd   : Felt → Felt → Option Nat := fun _ _ => none   -- ContractStorageLastUpdatedBlock
  clsAt     : Felt → Option Nat := fun _ => none             -- `Class(h).At`: the block that declared the class

/-- `pending.State{stateDiff, newClasses, head}` -/
structure PState where
  diff    : Diff
  classes : AMap Felt Nat
  head    : Base
  blockNumber : Nat

/-- `ContractClassHash` -/
def PState.classHash (p : PState) (a : Felt) : Option Felt :=
  match AMap.get p.diff.replaced a with
  | some c => some c
  | none => match AMap.get p.diff.deployed a with
    | some c => some c
    | none => p.head.classHash a

/-- `ContractNonce` -/
def PState.nonce (p : PState) (a : Felt) : Option Felt :=
  match AMap.get p.diff.nonces a with
  | some n => some n
  | none => if AMap.has p.diff.deployed a then some 0 else p.head.nonce a

/-- `ContractStorage` -/
def PState.storage (p : PState) (a k : Felt) : Option Felt :=
  match AMap.get p.diff.storage (a, k) with
  | some v => some v
  | none => if AMap.has p.diff.deployed a then some 0 else p.head.storage a k

/-- `ContractStorageLastUpdatedBlock`: the block number the state was requested for whenever the
merged diff holds the slot (see `Props.lean`: this is not the block that wrote it) -/
def PState.lastUpdated (p : PState) (a k : Felt) : Option Nat :=
  if AMap.has p.diff.storage (a, k) then some p.blockNumber
  else if AMap.has p.diff.deployed a then some 0
  else p.head.lastUpd a k

/-- `Class` (the definition; `At` is always 0 for a class of the view) -/
def PState.cls (p : PState) (h : Felt) : Option Nat :=
  match AMap.get p.classes h with
  | some c => some c
  | none => p.head.cls h

/-- `Class(h).At` as implemented: `0` for every class the view carries (`DeclaredClassDefinition{At: 0, …}`),
the base's answer otherwise -/
def PState.clsAt (p : PState) (h : Felt) : Option Nat :=
  match AMap.get p.classes h with
  | some _ => some 0
  | none => p.head.clsAt h

/-- `ClassTrie()` / `ContractTrie()` / `ContractStorageTrie(addr)`: a pre-confirmed state has no tries,
every call returns `ErrHistoricalTrieNotSupported` (`false` = that error) -/
def PState.trieSupported (_ : PState) : Bool := false

/-- `CompiledClassHash` -/
def PState.casm (p : PState) (h : Felt) : Option Felt :=
  match AMap.get p.diff.declaredV1 h with
  | some c => some c
  | none => p.head.casm h

/-- `CompiledClassHashV2` -/
def PState.casmV2 (p : PState) (h : Felt) : Option Felt :=
  match AMap.get p.diff.migrated h with
  | some c => some c
  | none => p.head.casmV2 h

/-- `mergeClassesInto(dst, src)` -/
def mergeClassesInto (dst src : AMap Felt Nat) : AMap Felt Nat :=
  if AMap.size src == 0 then dst else AMap.copyInto dst src

/-- the loop of `PreConfirmedStateAt`: merge oldest-first through the entry numbered
`blockNumber` (then `break`) -/
def mergeThrough : List PreConf → Nat → Diff → AMap Felt Nat → Diff × AMap Felt Nat
  | [], _, d, c => (d, c)
  | e :: rest, b, d, c =>
    let d' := d.merge e.diff
    let c' := mergeClassesInto c e.classes
    if e.number == b then (d', c') else mergeThrough rest b d' c'

inductive StateErr | notFound | noBase | invariantBroken | indexOutOfBounds
  deriving DecidableEq, Repr

/-- `PreConfirmedStateAt(blockNumber, bcReader)`. `baseAt n` is `bcReader.StateAtBlockNumber(n)`
AT THE TIME OF THE CALL (`none`: the call fails — head reverted below the view, state pruned, or
`n = 2^64-1` for a chain bootstrapped at block 0); a held view re-resolves its base on every call.
`notFound` = `ErrPreConfirmedNotFound`, `noBase` = the error of `StateAtBlockNumber`. -/
def stateAt (r : Reader) (b : Nat) (baseAt : Nat → Option Base) : Except StateErr PState :=
  if !r.contains b then .error .notFound
  else
    match baseAt (pred64 r.oldest) with
    | none => .error .noBase
    | some base =>
      let (d, c) := mergeThrough r.oldestFirst b Diff.empty []
      .ok { diff := d, classes := c, head := base, blockNumber := b }

/-- the first loop of `PreConfirmedStateBeforeIndexAt`: merge the entries strictly older than
the target, return the target -/
def mergeBefore : List PreConf → Nat → Diff → AMap Felt Nat → Diff × AMap Felt Nat × Option PreConf
  | [], _, d, c => (d, c, none)
  | e :: rest, b, d, c =>
    if e.number == b then (d, c, some e)
    else mergeBefore rest b (d.merge e.diff) (mergeClassesInto c e.classes)

/-- `PreConfirmedStateBeforeIndexAt(blockNumber, index, bcReader)` -/
def stateBeforeIndexAt (r : Reader) (b index : Nat) (baseAt : Nat → Option Base) : Except StateErr PState :=
  if !r.contains b then .error .notFound
  else
    match mergeBefore r.oldestFirst b Diff.empty [] with
    | (_, _, none) => .error .invariantBroken
    | (d, c, some target) =>
      if index > target.txs.length then .error .indexOutOfBounds
      else
        match baseAt (pred64 r.oldest) with
        | none => .error .noBase
        | some base =>
          let c' := mergeClassesInto c target.classes
          let d' := (target.txDiffs.take index).foldl Diff.merge d
          .ok { diff := d', classes := c', head := base, blockNumber := b }

/-- `NewChain(entries...)` (oldest first): the view `Synchronizer.PreConfirmedChain` builds around
the empty fallback block and `Sequencer.PreConfirmedChain` around the block being built. `none` =
error (non-contiguous numbers; nil entries are not modelled). -/
def newChain : List PreConf → Option Reader
  | [] => some Reader.empty
  | e :: rest =>
    let rec go (prev : PreConf) (acc : List PreConf) : List PreConf → Option (List PreConf)
      | [] => some acc
      | x :: xs => if x.number != succ64 prev.number then none else go x (x :: acc) xs
    (go e [e] rest).map fun nodes => { nodes := nodes, length := (e :: rest).length }

/-! ## The specification side: a canonical state and what applying a block's diff means -/

/-- abstract canonical Starknet state (what `core.State` stores), as total functions -/
structure St where
  classHash : Felt → Option Felt        -- `none`: contract not deployed
  nonce     : Felt → Felt
  storage   : Felt → Felt → Felt
  cls       : Felt → Option Nat
  casm      : Felt → Option Felt
  casmV2    : Felt → Option Felt

/-- the reader interface of a canonical state: reads of a contract that is not deployed fail
with `db.ErrKeyNotFound` (`stateHistory.checkDeployed`) -/
def St.reader (s : St) : Base :=
  { classHash := s.classHash
    nonce := fun a => if (s.classHash a).isSome then some (s.nonce a) else none
    storage := fun a k => if (s.classHash a).isSome then some (s.storage a k) else none
    cls := s.cls, casm := s.casm, casmV2 := s.casmV2 }

/-- apply one block (its state diff and the class definitions that come with it) to a canonical
state: deployments first, then class replacements, nonces, storage writes, declarations -/
def St.apply (s : St) (d : Diff) (classes : AMap Felt Nat) : St :=
  { classHash := fun a =>
      match AMap.get d.replaced a with
      | some c => some c
      | none => match AMap.get d.deployed a with
        | some c => some c
        | none => s.classHash a
    nonce := fun a =>
      match AMap.get d.nonces a with
      | some n => n
      | none => if AMap.has d.deployed a then 0 else s.nonce a
    storage := fun a k =>
      match AMap.get d.storage (a, k) with
      | some v => v
      | none => if AMap.has d.deployed a then 0 else s.storage a k
    cls := fun h => match AMap.get classes h with | some c => some c | none => s.cls h
    casm := fun h => match AMap.get d.declaredV1 h with | some c => some c | none => s.casm h
    casmV2 := fun h => match AMap.get d.migrated h with | some c => some c | none => s.casmV2 h }

/-- the number of the newest block of `es` (oldest first) whose diff writes slot `(a, k)` -/
def lastWriter (es : List PreConf) (a k : Felt) : Option Nat :=
  (es.reverse.find? (fun e => AMap.has e.diff.storage (a, k))).map (·.number)

/-- what `ContractStorageLastUpdatedBlock` through a view of blocks `es` over `head` ought to say:
the newest writing block of the view; for a slot the view does not write, 0 if the view deploys the
contract, else what the base says -/
def lastUpdatedSpec (es : List PreConf) (head : Base) (a k : Felt) : Option Nat :=
  match lastWriter es a k with
  | some n => some n
  | none => if es.any (fun e => AMap.has e.diff.deployed a) then some 0 else head.lastUpd a k

end Juno.C20
