import JunoModel.C20.Model
/-!
C20 — helper lemmas about the chain storage model: the well-formedness invariant of the stored
chain, its preservation by every writer operation, and what a snapshot of a well-formed chain
looks like.
-/
namespace Juno.C20

/-! ### descending, gap-free lists -/

/-- newest-first list whose block numbers go down by exactly one per step -/
def Desc : List PreConf → Prop
  | [] => True
  | [_] => True
  | x :: y :: t => x.number = y.number + 1 ∧ Desc (y :: t)

theorem Desc.tail {x : PreConf} {l : List PreConf} (h : Desc (x :: l)) : Desc l := by
  cases l with
  | nil => trivial
  | cons y t => exact h.2

theorem Desc.drop {l : List PreConf} (h : Desc l) (d : Nat) : Desc (l.drop d) := by
  induction d generalizing l with
  | zero => simpa using h
  | succ d ih =>
    cases l with
    | nil => simp [Desc]
    | cons x t => simpa using ih h.tail

theorem Desc.take {l : List PreConf} (h : Desc l) (n : Nat) : Desc (l.take n) := by
  induction n generalizing l with
  | zero => simp [Desc]
  | succ n ih =>
    cases l with
    | nil => simp [Desc]
    | cons x t =>
      cases t with
      | nil => simp [Desc]
      | cons y t' =>
        cases n with
        | zero => simp [Desc]
        | succ n' =>
          have := ih (l := y :: t') h.2
          simp only [List.take_succ_cons] at this ⊢
          exact ⟨h.1, this⟩

/-- replacing the head by an entry with the same number keeps the list gap-free -/
theorem Desc.replaceHead {t x : PreConf} {p : List PreConf} (h : Desc (t :: p))
    (hx : x.number = t.number) : Desc (x :: p) := by
  cases p with
  | nil => trivial
  | cons y q => exact ⟨by rw [hx]; exact h.1, h.2⟩

/-- pushing the successor number on top keeps the list gap-free -/
theorem Desc.push {t x : PreConf} {p : List PreConf} (h : Desc (t :: p))
    (hx : x.number = t.number + 1) : Desc (x :: t :: p) := ⟨hx, h⟩

/-- the `d`-th entry below the head carries the head's number minus `d` -/
theorem Desc.drop_head {x : PreConf} {l : List PreConf} (h : Desc (x :: l)) :
    ∀ d, d < (x :: l).length →
      ∃ t p, (x :: l).drop d = t :: p ∧ t.number + d = x.number := by
  intro d
  induction d generalizing x l with
  | zero => intro _; exact ⟨x, l, rfl, rfl⟩
  | succ d ih =>
    intro hd
    cases l with
    | nil => simp at hd
    | cons y t =>
      have hd' : d < (y :: t).length := by simpa using hd
      obtain ⟨t', p, h1, h2⟩ := ih h.2 hd'
      refine ⟨t', p, by simpa using h1, ?_⟩
      have := h.1
      omega

/-- a gap-free list is never longer than its head number allows -/
theorem Desc.length_le {x : PreConf} {l : List PreConf} (h : Desc (x :: l)) :
    (x :: l).length ≤ x.number + 1 := by
  have hlen : (x :: l).length - 1 < (x :: l).length := by simp
  obtain ⟨t, p, _, h2⟩ := h.drop_head ((x :: l).length - 1) hlen
  omega

/-- numbers of the first `n` entries, oldest first, are `tip+1-n, …, tip` -/
theorem Desc.take_numbers {x : PreConf} {l : List PreConf} (h : Desc (x :: l)) :
    ∀ n, n ≤ (x :: l).length →
      (((x :: l).take n).reverse.map (·.number)) = List.range' (x.number + 1 - n) n := by
  intro n
  induction n generalizing x l with
  | zero => intro _; simp
  | succ n ih =>
    intro hn
    have hlen := h.length_le
    cases l with
    | nil =>
      have : n = 0 := by simpa using hn
      subst this
      simp
    | cons y t =>
      have hn' : n ≤ (y :: t).length := by simpa using hn
      have := ih h.2 hn'
      have hxy := h.1
      simp only [List.take_succ_cons, List.reverse_cons, List.map_append, List.map_cons, List.map_nil]
      rw [this, List.range'_concat]
      have h1 : y.number + 1 - n = x.number + 1 - (n + 1) := by omega
      have h2 : x.number = x.number + 1 - (n + 1) + 1 * n := by
        have : (y :: t).length ≤ y.number + 1 := h.2.length_le
        omega
      rw [h1]
      congr 2

/-! ### the invariant of the stored chain -/

/-- what `ChainStorage.inner` points to, when it is not nil: the linked list is exactly `length`
nodes long (nil-terminated where `length` says), non-empty, and gap-free -/
structure WF (r : Reader) : Prop where
  len : r.length = r.nodes.length
  pos : 0 < r.length
  desc : Desc r.nodes

def StoreWF : Store → Prop
  | none => True
  | some r => WF r

theorem WF.nodes_cons {r : Reader} (h : WF r) : ∃ x l, r.nodes = x :: l := by
  have h1 := h.len
  have h2 := h.pos
  cases hn : r.nodes with
  | nil => rw [hn] at h1; simp at h1; omega
  | cons x l => exact ⟨x, l, rfl⟩

/-- no subtraction in `oldestPreConf()` truncates -/
theorem WF.tip_ge {r : Reader} (h : WF r) : r.length - 1 ≤ r.tip := by
  obtain ⟨x, l, hx⟩ := h.nodes_cons
  have hd := h.desc
  have hl := h.len
  rw [hx] at hd hl
  have := hd.length_le
  simp only [Reader.tip, hx]
  omega

theorem WF.oldest_add {r : Reader} (h : WF r) : r.oldest + (r.length - 1) = r.tip := by
  have := h.tip_ge
  simp only [Reader.oldest]
  omega

theorem rebuild_eq_take (l : List PreConf) (n : Nat) : rebuild l n = l.take n := by
  induction l generalizing n with
  | nil => cases n <;> simp [rebuild]
  | cons x t ih => cases n <;> simp [rebuild, ih]

theorem walkOldestFirst_eq (l : List PreConf) (n : Nat) :
    walkOldestFirst l n = (l.take n).reverse := by
  induction l generalizing n with
  | nil => cases n <;> simp [walkOldestFirst]
  | cons x t ih => cases n <;> simp [walkOldestFirst, ih]

theorem Reader.oldestFirst_eq (r : Reader) : r.oldestFirst = r.newestFirst.reverse := by
  simp [Reader.oldestFirst, Reader.newestFirst, walkOldestFirst_eq]

theorem contains_iff {r : Reader} {b : Nat} :
    r.contains b = true ↔ 0 < r.length ∧ r.oldest ≤ b ∧ b ≤ r.tip := by
  simp [Reader.contains]

/-! ### adapters keep the number they are given -/

theorem adaptBlock_number {ident verOk txs n c next}
    (h : adaptBlock ident verOk txs n c = .ok next) : next.number = n := by
  unfold adaptBlock at h
  split at h
  · cases h
  · split at h
    · cases h
    · cases h; rfl

theorem adaptDelta_number {cur ident txs next}
    (h : adaptDelta cur ident txs = .ok next) : next.number = cur.number := by
  unfold adaptDelta at h
  split at h
  · cases h
  · split at h
    · cases h
    · cases h; rfl

/-! ### every writer operation preserves the invariant -/

theorem advanceTo_wf {s : Store} (h : StoreWF s) (o : Nat) : StoreWF (advanceTo s o).1 := by
  cases s with
  | none => simp [advanceTo, StoreWF]
  | some cur =>
    have hw : WF cur := h
    unfold advanceTo
    simp only
    split
    · exact h
    · split
      · exact h
      · split
        · trivial
        · rename_i hne hc
          have hc' : cur.contains o = true := by simpa using hc
          obtain ⟨_, hlo, hhi⟩ := contains_iff.mp hc'
          have hadd := hw.oldest_add
          have hlen := hw.len
          have hpos := hw.pos
          refine ⟨?_, ?_, ?_⟩
          · simp only [rebuild_eq_take, List.length_take]; omega
          · simp only; omega
          · simp only [rebuild_eq_take]; exact hw.desc.take _

/-- fewer than `2^64` entries: what keeps `tip()+1` from wrapping on a chain whose oldest slot is 0 -/
def LenLt (s : Store) : Prop := ∀ cur, s = some cur → cur.length < U64

theorem succ64_tip {cur : Reader} (hw : WF cur) (hl : cur.length < U64) {b : Nat}
    (hlo : ¬ b < cur.oldest) (hgap : ¬ b > succ64 cur.tip) : succ64 cur.tip = cur.tip + 1 := by
  unfold succ64 at hgap ⊢
  split
  · rename_i hwrap
    exfalso
    rw [if_pos hwrap] at hgap
    have := hw.oldest_add
    have := hw.pos
    unfold U64 at hl hwrap
    omega
  · rfl

theorem computeUpdate_wf {s : Store} (h : StoreWF s) (hl : LenLt s) (u : Update) (b t o : Nat) (c : AMap Felt Nat)
    {chain : Reader} {aff : PreConf}
    (hc : computeUpdate s u b t o c = .changed chain aff) : WF chain := by
  have boot : ∀ {chain aff}, bootstrap u b o c = .changed chain aff → WF chain := by
    intro chain aff hb
    cases u with
    | block ident verOk txs =>
      simp only [bootstrap, bootstrapChain] at hb
      split at hb
      · cases hb
      · split at hb
        · cases hb
        · cases hb; exact ⟨rfl, by simp, trivial⟩
    | delta _ _ => cases hb
    | noChange => cases hb
  cases s with
  | none => exact boot (by simpa [computeUpdate] using hc)
  | some cur =>
    have hw : WF cur := h
    unfold computeUpdate at hc
    simp only at hc
    split at hc
    · exact boot hc
    · split at hc
      · cases hc
      · split at hc
        · cases hc
        · split at hc
          · cases hc
          · rename_i hlen0 hal hlo hgap
            obtain ⟨x, l, hx⟩ := hw.nodes_cons
            have htip : cur.tip = x.number := by simp [Reader.tip, hx]
            have hs := succ64_tip hw (hl cur rfl) hlo hgap
            rw [hs] at hc hgap
            split at hc
            · -- extend
              rename_i hext
              have hb : b = cur.tip + 1 := by simpa using hext
              cases u with
              | block ident verOk txs =>
                simp only [extend] at hc
                split at hc
                · cases hc
                · rename_i next hn
                  cases hc
                  have hnum := adaptBlock_number hn
                  refine ⟨by simp [hw.len], by simp, ?_⟩
                  simp only [hx]
                  have hd := hw.desc
                  rw [hx] at hd
                  exact hd.push (by omega)
              | delta _ _ => cases hc
              | noChange => cases hc
            · -- replaceSlot
              rename_i hext
              have hlo' : cur.oldest ≤ b := by omega
              have hhi : b ≤ cur.tip := by
                have h1 : ¬ b > cur.tip + 1 := hgap
                have h2 : ¬ (b == cur.tip + 1) = true := hext
                have h3 : b ≠ cur.tip + 1 := by simpa using h2
                omega
              have hadd := hw.oldest_add
              have hdlt : cur.tip - b < cur.nodes.length := by
                have := hw.len; have := hw.pos; omega
              have hd := hw.desc
              rw [hx] at hd hdlt
              obtain ⟨tg, p, hdrop, hnum⟩ := hd.drop_head _ hdlt
              have hdesc : Desc (tg :: p) := by rw [← hdrop]; exact hd.drop _
              have hplen : p.length + 1 + (cur.tip - b) = cur.length := by
                have h1 : ((x :: l).drop (cur.tip - b)).length = (tg :: p).length := by rw [hdrop]
                simp only [List.length_drop, List.length_cons] at h1
                have := hw.len
                rw [hx] at this
                simp only [List.length_cons] at this
                omega
              have htg : tg.number = b := by omega
              unfold replaceSlot at hc
              simp only [hx, hdrop] at hc
              cases u with
              | block ident verOk txs =>
                simp only at hc
                split at hc
                · cases hc
                · rename_i next hn
                  split at hc
                  · cases hc
                  · cases hc
                    have := adaptBlock_number hn
                    exact ⟨by simp only [List.length_cons]; omega, by simp only; omega,
                      hdesc.replaceHead (by omega)⟩
              | delta ident txs =>
                simp only at hc
                split at hc
                · cases hc
                · split at hc
                  · cases hc
                  · split at hc
                    · cases hc
                    · rename_i hd0 _ _ next0 hn
                      cases hc
                      have := adaptDelta_number hn
                      have hd0' : cur.tip - b = 0 := by simpa using hd0
                      exact ⟨by simp only [List.length_cons]; omega, hw.pos,
                        hdesc.replaceHead (by simpa using this)⟩
              | noChange =>
                simp only at hc
                split at hc
                · cases hc
                · split at hc
                  · cases hc
                  · split at hc
                    · cases hc
                    · rename_i _ hd0 _
                      cases hc
                      have hd0' : cur.tip - b = 0 := by simpa using hd0
                      exact ⟨by simp only [List.length_cons]; omega, hw.pos,
                        hdesc.replaceHead rfl⟩

theorem applyUpdate_wf {s : Store} (h : StoreWF s) (hl : LenLt s) (u : Update) (b t o : Nat) (c : AMap Felt Nat) :
    StoreWF (applyUpdate s u b t o c).1 := by
  unfold applyUpdate
  split
  · rename_i chain aff hc
    exact computeUpdate_wf h hl u b t o c hc
  · exact h
  · exact h

/-- number of entries the pointer holds (0 for nil) -/
def storeLen : Store → Nat
  | none => 0
  | some r => r.length

/-- one writer operation adds at most one entry -/
theorem computeUpdate_len {s : Store} {u : Update} {b t o : Nat} {c : AMap Felt Nat}
    {chain : Reader} {aff : PreConf} (hc : computeUpdate s u b t o c = .changed chain aff) :
    chain.length ≤ storeLen s + 1 := by
  have boot : ∀ {chain aff}, bootstrap u b o c = .changed chain aff → chain.length ≤ 1 := by
    intro chain aff hb
    cases u with
    | block ident verOk txs =>
      simp only [bootstrap, bootstrapChain] at hb
      split at hb
      · cases hb
      · split at hb
        · cases hb
        · cases hb; exact Nat.le_refl _
    | delta _ _ => cases hb
    | noChange => cases hb
  cases s with
  | none =>
    have := boot (by simpa [computeUpdate] using hc)
    simp only [storeLen]; omega
  | some cur =>
    unfold computeUpdate at hc
    simp only [storeLen] at hc ⊢
    split at hc
    · have := boot hc; omega
    · split at hc
      · cases hc
      · split at hc
        · cases hc
        · split at hc
          · cases hc
          · split at hc
            · cases u with
              | block ident verOk txs =>
                simp only [extend] at hc
                split at hc
                · cases hc
                · cases hc; exact Nat.le_refl _
              | delta _ _ => cases hc
              | noChange => cases hc
            · unfold replaceSlot at hc
              simp only at hc
              split at hc
              · cases hc
              · cases u with
                | block ident verOk txs =>
                  simp only at hc
                  split at hc
                  · cases hc
                  · split at hc
                    · cases hc
                    · cases hc; simp only; omega
                | delta ident txs =>
                  simp only at hc
                  split at hc
                  · cases hc
                  · split at hc
                    · cases hc
                    · split at hc
                      · cases hc
                      · cases hc; simp only; omega
                | noChange =>
                  simp only at hc
                  split at hc
                  · cases hc
                  · split at hc
                    · cases hc
                    · split at hc
                      · cases hc
                      · cases hc; simp only; omega

theorem step_len (s : Store) (op : Op) : storeLen (step s op) ≤ storeLen s + 1 := by
  cases op with
  | apply u b t o c =>
    simp only [step, applyUpdate]
    split
    · rename_i chain aff hc
      exact computeUpdate_len hc
    · exact Nat.le_succ _
    · exact Nat.le_succ _
  | advance o =>
    cases s with
    | none => simp [step, advanceTo, storeLen]
    | some cur =>
      simp only [step, advanceTo]
      split
      · exact Nat.le_succ _
      · split
        · exact Nat.le_succ _
        · split
          · simp [storeLen]
          · simp only [storeLen]; omega

theorem lenLt_of {s : Store} (h : storeLen s < U64) : LenLt s := by
  intro cur hs; subst hs; exact h

theorem step_wf {s : Store} (h : StoreWF s) (hl : storeLen s < U64) (op : Op) : StoreWF (step s op) := by
  cases op with
  | apply u b t o c => exact applyUpdate_wf h (lenLt_of hl) u b t o c
  | advance o => exact advanceTo_wf h o

/-- the invariant along a history: well-formed, and never more entries than operations so far -/
theorem foldl_step_wf (ops : List Op) {s : Store} {n : Nat} (h : StoreWF s) (hn : storeLen s ≤ n)
    (hb : n + ops.length < U64) :
    StoreWF (ops.foldl step s) ∧ storeLen (ops.foldl step s) ≤ n + ops.length := by
  induction ops generalizing s n with
  | nil => exact ⟨h, by simpa using hn⟩
  | cons op rest ih =>
    simp only [List.foldl_cons, List.length_cons] at hb ⊢
    have hl : storeLen s < U64 := by omega
    have hs := step_len s op
    have := ih (s := step s op) (n := n + 1) (step_wf h hl op) (by omega) (by omega)
    exact ⟨this.1, by omega⟩

/-- `ops.length < 2^64`: the histories the theorems speak about. (A chain whose oldest slot is 0
and whose tip is `2^64-1` — `2^64` entries — is where `tip()+1` wraps in the code and the model
alike; it takes `2^64` operations to build.) -/
theorem run_wf (ops : List Op) (hb : ops.length < U64) : StoreWF (run ops) :=
  (foldl_step_wf ops (s := none) (n := 0) trivial (Nat.le_refl _) (by simpa using hb)).1

/-! ### what a snapshot of a well-formed chain is -/

theorem snapshot_spec {s : Store} (h : StoreWF s) (b : Nat) :
    let v := snapshotFor s b
    v.newestFirst.length = v.length ∧
    v.oldestFirst.map (·.number) = List.range' b v.length := by
  cases s with
  | none => simp [snapshotFor, Reader.empty, Reader.newestFirst, Reader.oldestFirst, walkOldestFirst]
  | some cur =>
    have hw : WF cur := h
    simp only [snapshotFor]
    split
    · simp [Reader.empty, Reader.newestFirst, Reader.oldestFirst, walkOldestFirst]
    · rename_i hc
      have hc' : cur.contains b = true := by simpa using hc
      obtain ⟨_, hlo, hhi⟩ := contains_iff.mp hc'
      obtain ⟨x, l, hx⟩ := hw.nodes_cons
      have htip : cur.tip = x.number := by simp [Reader.tip, hx]
      have hadd := hw.oldest_add
      have hlen := hw.len
      have hle : cur.tip - b + 1 ≤ (x :: l).length := by rw [← hx]; omega
      have hd := hw.desc
      rw [hx] at hd
      constructor
      · simp only [Reader.newestFirst, List.length_take, hx]; omega
      · simp only [Reader.oldestFirst, walkOldestFirst_eq, hx]
        rw [hd.take_numbers _ hle]
        congr 1
        omega

/-- maximality: the view for `b` is non-empty exactly when `b` lies in the stored chain, and then it
reaches up to the stored tip (it IS the stored list, cut to `tip - b + 1` entries) -/
theorem snapshot_maximal {cur : Reader} (h : WF cur) (b : Nat) :
    (cur.oldest ≤ b ∧ b ≤ cur.tip →
      (snapshotFor (some cur) b).length = cur.tip - b + 1 ∧
      (snapshotFor (some cur) b).nodes = cur.nodes ∧
      (snapshotFor (some cur) b).newestFirst.head? = cur.nodes.head?) ∧
    (¬ (cur.oldest ≤ b ∧ b ≤ cur.tip) → (snapshotFor (some cur) b).length = 0) := by
  constructor
  · intro hb
    have hc : cur.contains b = true := contains_iff.mpr ⟨h.pos, hb.1, hb.2⟩
    simp only [snapshotFor, hc, Bool.not_true, Bool.false_eq_true, ↓reduceIte, true_and]
    obtain ⟨x, l, hx⟩ := h.nodes_cons
    simp [Reader.newestFirst, hx]
  · intro hb
    have hc : cur.contains b = false := by
      cases hcc : cur.contains b with
      | false => rfl
      | true => obtain ⟨_, h1, h2⟩ := contains_iff.mp hcc; exact absurd ⟨h1, h2⟩ hb
    simp [snapshotFor, hc, Reader.empty]

/-- what the reader entry point hands out: never empty, gap-free, first block = height+1 -/
theorem readerView_spec {s : Store} (h : StoreWF s) (height : Nat) (cached : Option Nat) (d : Diff) :
    let v := readerView height cached s d
    0 < v.length ∧ v.newestFirst.length = v.length ∧
    v.oldestFirst.map (·.number) = List.range' (height + 1) v.length := by
  have hs := snapshot_spec h (height + 1)
  simp only [readerView]
  split
  · rename_i hpos
    exact ⟨hpos, hs.1, hs.2⟩
  · simp [Reader.newestFirst, Reader.oldestFirst, walkOldestFirst, emptyPreConfirmedFor]

end Juno.C20
