import JunoModel.C20.Heap
/-!
C20 — the heap only grows, and what a held `(head, length)` dereferences to never changes.
-/
namespace Juno.C20

/-- every parent pointer points to an older (smaller) address -/
def Closed (h : Heap) : Prop :=
  ∀ (i : Nat) (nd : HNode), h[i]? = some nd → ∀ p, nd.parent = some p → p < i

/-- a pointer is nil or a valid address -/
def PtrOk (h : Heap) (a : Option Nat) : Prop := ∀ x, a = some x → x < h.length

theorem PtrOk.none (h : Heap) : PtrOk h none := by intro x hx; cases hx

theorem PtrOk.mono {h : Heap} {a : Option Nat} (ext : Heap) (ha : PtrOk h a) : PtrOk (h ++ ext) a := by
  intro x hx
  have := ha x hx
  simp only [List.length_append]
  omega

theorem closed_parent {h : Heap} (hc : Closed h) {i : Nat} {nd : HNode} (hi : h[i]? = some nd) :
    PtrOk h nd.parent := by
  intro p hp
  have := hc i nd hi p hp
  have hlt : i < h.length := by
    rcases Nat.lt_or_ge i h.length with hl | hl
    · exact hl
    · rw [List.getElem?_eq_none hl] at hi; cases hi
  omega

theorem hwalk_append {h : Heap} (hc : Closed h) (ext : Heap) :
    ∀ n a, PtrOk h a → hwalk (h ++ ext) a n = hwalk h a n := by
  intro n
  induction n with
  | zero => intro a _; cases a <;> simp [hwalk]
  | succ n ih =>
    intro a ha
    cases a with
    | none => simp [hwalk]
    | some x =>
      have hx : x < h.length := ha x rfl
      simp only [hwalk, List.getElem?_append_left hx]
      cases hnd : h[x]? with
      | none => rfl
      | some nd =>
        simp only
        rw [ih nd.parent (closed_parent hc hnd)]

theorem halloc_spec {h : Heap} (hc : Closed h) (pc : PreConf) {parent : Option Nat}
    (hp : PtrOk h parent) :
    (halloc h pc parent).1 = h ++ [{ pc := pc, parent := parent }] ∧
    Closed (halloc h pc parent).1 ∧ PtrOk (halloc h pc parent).1 (some (halloc h pc parent).2) := by
  refine ⟨rfl, ?_, ?_⟩
  · unfold Closed
    intro i nd hi p hpp
    simp only [halloc] at hi
    rcases Nat.lt_or_ge i h.length with hl | hl
    · rw [List.getElem?_append_left hl] at hi
      exact hc i nd hi p hpp
    · rw [List.getElem?_append_right hl] at hi
      have hi0 : i - h.length = 0 := by
        rcases Nat.eq_zero_or_pos (i - h.length) with h0 | h0
        · exact h0
        · rw [List.getElem?_eq_none (by simp; omega)] at hi; cases hi
      rw [hi0] at hi
      simp only [List.getElem?_cons_zero, Option.some.injEq] at hi
      subst hi
      have := hp p hpp
      omega
  · intro x hx
    simp only [halloc, Option.some.injEq] at hx
    subst hx
    simp [halloc]

/-- `rebuild` only allocates -/
theorem hrebuild_spec {h : Heap} (hc : Closed h) :
    ∀ keep a, PtrOk h a →
      (∃ ext, (hrebuild h a keep).1 = h ++ ext) ∧ Closed (hrebuild h a keep).1 ∧
      PtrOk (hrebuild h a keep).1 (hrebuild h a keep).2 := by
  intro keep
  induction keep with
  | zero => intro a _; exact ⟨⟨[], by simp [hrebuild]⟩, by simpa [hrebuild] using hc, by simp [hrebuild, PtrOk.none]⟩
  | succ keep ih =>
    intro a ha
    cases a with
    | none => exact ⟨⟨[], by simp [hrebuild]⟩, by simpa [hrebuild] using hc, by simp [hrebuild, PtrOk.none]⟩
    | some x =>
      simp only [hrebuild]
      cases hnd : h[x]? with
      | none => exact ⟨⟨[], by simp⟩, hc, PtrOk.none _⟩
      | some nd =>
        simp only
        obtain ⟨⟨ext, he⟩, hc', hp'⟩ := ih nd.parent (closed_parent hc hnd)
        obtain ⟨e1, e2, e3⟩ := halloc_spec hc' nd.pc hp'
        refine ⟨⟨ext ++ [{ pc := nd.pc, parent := (hrebuild h nd.parent keep).2 }], ?_⟩, e2, e3⟩
        rw [e1, he, List.append_assoc]

theorem hfollow_ok {h : Heap} (hc : Closed h) : ∀ d a, PtrOk h a → PtrOk h (hfollow h a d) := by
  intro d
  induction d with
  | zero => intro a ha; cases a <;> simpa [hfollow] using ha
  | succ d ih =>
    intro a ha
    cases a with
    | none => simp [hfollow, PtrOk.none]
    | some x =>
      simp only [hfollow]
      cases hnd : h[x]? with
      | none => exact PtrOk.none _
      | some nd => exact ih nd.parent (closed_parent hc hnd)

/-- invariant of the heap store: the heap is closed and the published head is a valid address -/
structure HOk (s : HStore) : Prop where
  closed : Closed s.heap
  head : ∀ r, s.inner = some r → PtrOk s.heap r.head

theorem hadvanceTo_grows {s : HStore} (hs : HOk s) (o : Nat) :
    (∃ ext, (hadvanceTo s o).1.heap = s.heap ++ ext) ∧ HOk (hadvanceTo s o).1 := by
  unfold hadvanceTo
  cases hin : s.inner with
  | none => exact ⟨⟨[], by simp⟩, hs⟩
  | some cur =>
    simp only
    split
    · exact ⟨⟨[], by simp⟩, hs⟩
    · split
      · exact ⟨⟨[], by simp⟩, hs⟩
      · split
        · exact ⟨⟨[], by simp⟩, ⟨hs.closed, by intro r hr; cases hr⟩⟩
        · obtain ⟨he, hc', hp'⟩ := hrebuild_spec hs.closed
            ((cur.abs s.heap).length - (o - (cur.abs s.heap).oldest)) cur.head (hs.head cur hin)
          refine ⟨he, ⟨hc', ?_⟩⟩
          intro r hr
          simp only [Option.some.injEq] at hr
          subst hr
          exact hp'

theorem happlyUpdate_grows {s : HStore} (hs : HOk s) (u : Update) (b t o : Nat) (c : AMap Felt Nat) :
    (∃ ext, (happlyUpdate s u b t o c).1.heap = s.heap ++ ext) ∧ HOk (happlyUpdate s u b t o c).1 := by
  have alloc : ∀ (next : PreConf) (parent : Option Nat) (len : Nat), PtrOk s.heap parent →
      (∃ ext, ({ heap := (halloc s.heap next parent).1,
                 inner := some { head := some (halloc s.heap next parent).2, length := len } } : HStore).heap
              = s.heap ++ ext) ∧
      HOk { heap := (halloc s.heap next parent).1,
            inner := some { head := some (halloc s.heap next parent).2, length := len } } := by
    intro next parent len hp
    obtain ⟨e1, e2, e3⟩ := halloc_spec hs.closed next hp
    refine ⟨⟨_, e1⟩, ⟨e2, ?_⟩⟩
    intro r hr
    simp only [Option.some.injEq] at hr
    subst hr
    exact e3
  unfold happlyUpdate
  simp only
  split
  · exact ⟨⟨[], by simp⟩, hs⟩
  · exact ⟨⟨[], by simp⟩, hs⟩
  · rename_i chain next _
    cases hin : s.inner with
    | none => exact alloc next none _ (PtrOk.none _)
    | some cur =>
      simp only
      split
      · exact alloc next none _ (PtrOk.none _)
      · split
        · exact alloc next cur.head _ (hs.head cur hin)
        · apply alloc
          unfold hparentOf
          split
          · exact PtrOk.none _
          · split
            · exact PtrOk.none _
            · rename_i nd hnd
              exact closed_parent hs.closed hnd

theorem hstep_grows {s : HStore} (hs : HOk s) (op : Op) :
    (∃ ext, (hstep s op).heap = s.heap ++ ext) ∧ HOk (hstep s op) := by
  cases op with
  | apply u b t o c => exact happlyUpdate_grows hs u b t o c
  | advance o => exact hadvanceTo_grows hs o

theorem hfoldl_grows (ops : List Op) {s : HStore} (hs : HOk s) :
    (∃ ext, (ops.foldl hstep s).heap = s.heap ++ ext) ∧ HOk (ops.foldl hstep s) := by
  induction ops generalizing s with
  | nil => exact ⟨⟨[], by simp⟩, hs⟩
  | cons op rest ih =>
    obtain ⟨⟨e1, h1⟩, ok1⟩ := hstep_grows hs op
    obtain ⟨⟨e2, h2⟩, ok2⟩ := ih ok1
    refine ⟨⟨e1 ++ e2, ?_⟩, ok2⟩
    simp only [List.foldl_cons]
    rw [h2, h1, List.append_assoc]

theorem hok_init : HOk {} := ⟨by unfold Closed; intro i nd hi; simp at hi, by intro r hr; cases hr⟩

theorem hrun_ok (ops : List Op) : HOk (hrun ops) := (hfoldl_grows ops hok_init).2

theorem hsnapshot_ptr {s : HStore} (hs : HOk s) (b : Nat) : PtrOk s.heap (hsnapshotFor s b).head := by
  unfold hsnapshotFor
  cases hin : s.inner with
  | none => exact PtrOk.none _
  | some cur =>
    simp only
    split
    · exact PtrOk.none _
    · exact hs.head cur hin

/-- a view held from an earlier moment reads the same entries in every later heap -/
theorem held_view_stable (ops ops' : List Op) (b : Nat) :
    (hsnapshotFor (hrun ops) b).view (hrun (ops ++ ops')).heap =
    (hsnapshotFor (hrun ops) b).view (hrun ops).heap := by
  have hs := hrun_ok ops
  obtain ⟨⟨ext, he⟩, _⟩ := hfoldl_grows ops' hs
  have : hrun (ops ++ ops') = ops'.foldl hstep (hrun ops) := by simp [hrun, List.foldl_append]
  rw [this, he]
  exact hwalk_append hs.closed ext _ _ (hsnapshot_ptr hs b)

end Juno.C20
