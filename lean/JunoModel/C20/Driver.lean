import JunoModel.Common.Proto
import JunoModel.C20.Model
import JunoModel.C20.Heap
import JunoModel.C20.Alias
import JunoModel.C20.Poller
import JunoModel.C20.ClassAlias
/-!
Line-protocol driver for the C20 model (`lake build c20drv`). All numbers are decimal.

  reset                                              -> ok
  apply B <num> <baseTx> <oldest> <classes> <ident> <verOk> <txs>  -> changed <entry> | noop | err:<class>
  apply D <num> <baseTx> <oldest> <classes> <ident> <txs>
  apply N <num> <baseTx> <oldest> <classes>
  advance <oldest>                                   -> true | false
  snap <b>                                           -> <length> <entries newest first, '|' separated> # <numbers oldest first>
  snapn <b>                                          -> <length> # <numbers oldest first>
  tx <b> <hash>      (on SnapshotForBlock(b))        -> notfound | <hash>.<tag>
  rc <b> <hash>                                      -> notfound | <hash>.<tag>.<events>@<block>
  etx <b> <hash>     (every entry of SnapshotForBlock(b), newest first: (*PreConfirmed).TransactionByHash / ReceiptByHash)
                                                     -> - | <num>:<notfound|hash.tag.kind@index>/<notfound|receipt> ...
  univ <addrs> <slots> <classhashes>                 -> ok          (comma lists; reads are answered over this universe)
  base <n> <table>                                   -> ok          (reader returned by StateAtBlockNumber(n))
  unbase <n>                                         -> ok          (StateAtBlockNumber(n) fails from now on)
  reader <height> <cached|->                         -> <view as snap> | fallback <n>   (Synchronizer.PreConfirmedChain)
  validate <B|D|N> <ntx> <malformation>              -> <valid|invalid> <ok:<n>|adapterr|panics>   (Envelope.Validate; the adapter on the same envelope)
  state <b> <block>  (view SnapshotForBlock(b), PreConfirmedStateAt(block))      -> notfound | nobase | <reads>
  statebi <b> <block> <index>                        -> notfound | broken | oob | nobase | <reads>

  ptick <height> <highest|-> <cfails|-> <cdefs> <Lnum> <K> <ident> <ver> <txs> [<n> <K> <ident> <ver> <txs>]*
       one tick of the real Poller (Poller.lean `tick`) in the given environment: canonical height, cached highest header,
       Class(h) fails for h in cfails and answers cdefs[h] otherwise, the latest poll answers update K (B|D|N, F = error) for
       block Lnum, the by-number poll of n answers the listed update (absent n = error)
                                                     -> <ok|err:height|err:latest|err:bynum|err:fetch|err:apply:<class>> | <calls> #pub <entries>
       calls: lt(ident,txCount) bn(n,ident,txCount) fetch(h,h,..)|fetchfail, joined by ' ; '; #pub: feed sends, joined by ' | '
  newchain <n,n,..|->                                -> err | ok <length> <numbers oldest first>   (preconfirmed.NewChain)
  emptydiff <num> <hash|->                           -> err | <diff>   (makeStateDiffForEmptyBlock; hash = BlockHeaderHashByNumber(num-10))
  pcc <height|-> <head2|-> <hashOk>                  -> err:height | err:header | err:blockhash | <view as snap> | fallback <n>   (PreConfirmedChain read by read)
  runloop <iz> <n|o> <n|o>*                          -> off | <w|t>*   (Poller.Run: the pre-genesis guard around the ticks)
  ppre <height> <highest|->                          -> notip | tip(ident,txCount)   (the tick up to the latest poll, which fails)

  `apply … -> changed <entry> cm=<nil|shared|own>`: which OBJECT the affected entry's NewClasses map is (ClassAlias.lean);
  `state` / `statebi` reads are followed by ` cm=<nil|fresh>`: the class table handed to pending.NewState (never a published map)

  classes: `-` or `h:d,h:d`     txs: `-` or `tx;tx`, tx = hash/tag/bad/rhash/rtag/events/diff/kind/reverted
  diff: `-` or sections joined by `+`: s=a:k:v,..  n=a:v,..  d=a:c  r=a:c  c1=h:c  m=h:c  c0=h,h
  table: sections joined by `+`: ch=a:c  no=a:n  st=a:k:v  cl=h:d  ca=h:c  c2=h:c  lu=a:k:n  at=h:n (Class(h).At)  (absent = not found)
  `state` appends ` lu[a:k=<as implemented>/<specified>,..]` (ContractStorageLastUpdatedBlock)
-/
open Juno.Proto Juno.C20

namespace C20Drv

def nat? (s : String) : Option Nat := s.toNat?

def splitNonEmpty (s : String) (sep : String) : List String :=
  if s == "-" || s.isEmpty then [] else s.splitOn sep

def natList? (s : String) (sep : String) : Option (List Nat) :=
  (splitNonEmpty s sep).mapM nat?

def pairs? (s : String) : Option (List (Nat × Nat)) :=
  (splitNonEmpty s ",").mapM fun e =>
    match e.splitOn ":" with
    | [a, b] => do pure ((← nat? a), (← nat? b))
    | _ => none

def triples? (s : String) : Option (List ((Nat × Nat) × Nat)) :=
  (splitNonEmpty s ",").mapM fun e =>
    match e.splitOn ":" with
    | [a, b, c] => do pure (((← nat? a), (← nat? b)), (← nat? c))
    | _ => none

/-- the wire form of a state diff (sections in wire order) adapted by the model's `adaptStateDiff`:
later entries of a section overwrite earlier ones, as Go builds the maps by assignment in slice order -/
def parseDiff? (s : String) : Option Diff := do
  let w ← (splitNonEmpty s "+").foldlM (init := ({} : WireDiff)) fun d sec =>
    match sec.splitOn "=" with
    | ["s", v] => do pure { d with storage := (← triples? v) }
    | ["n", v] => do pure { d with nonces := (← pairs? v) }
    | ["d", v] => do pure { d with deployed := (← pairs? v) }
    | ["r", v] => do pure { d with replaced := (← pairs? v) }
    | ["c1", v] => do pure { d with declared := (← pairs? v) }
    | ["m", v] => do pure { d with migrated := (← pairs? v) }
    | ["c0", v] => do pure { d with oldDeclared := (← natList? v ",") }
    | _ => none
  pure (adaptStateDiff w)

def parseTx? (s : String) : Option WireTx :=
  match s.splitOn "/" with
  | [h, tag, bad, rh, rtag, ev, diff, kind, rev] => do
    let b ← nat? bad
    let r ← nat? rev
    pure { tx := { hash := (← nat? h), tag := (← nat? tag), kind := (← nat? kind) }, bad := b != 0,
           rcpt := { txHash := (← nat? rh), tag := (← nat? rtag), events := (← nat? ev), reverted := r != 0 },
           diff := (← parseDiff? diff) }
  | _ => none

def parseTxs? (s : String) : Option (List WireTx) := (splitNonEmpty s ";").mapM parseTx?

def sortPairs (l : List (Nat × Nat)) : List (Nat × Nat) := l.mergeSort (fun a b => a.1 ≤ b.1)

def sortTriples (l : List ((Nat × Nat) × Nat)) : List ((Nat × Nat) × Nat) :=
  l.mergeSort (fun a b => a.1.1 < b.1.1 || (a.1.1 == b.1.1 && a.1.2 ≤ b.1.2))

/-- effective content of a shadowing map -/
def effective {α β : Type} [BEq α] (m : AMap α β) : List (α × β) :=
  (AMap.keys m).filterMap fun k => (AMap.get m k).map fun v => (k, v)

def showPairs (m : AMap Nat Nat) : String :=
  ",".intercalate ((sortPairs (effective m)).map fun (a, b) => s!"{a}:{b}")

def showTriples (m : AMap (Nat × Nat) Nat) : String :=
  ",".intercalate ((sortTriples (effective m)).map fun ((a, k), v) => s!"{a}:{k}:{v}")

def showDiff (d : Diff) : String :=
  s!"s={showTriples d.storage}+n={showPairs d.nonces}+d={showPairs d.deployed}+r={showPairs d.replaced}" ++
  s!"+c1={showPairs d.declaredV1}+m={showPairs d.migrated}+c0={",".intercalate (d.declaredV0.map toString)}"

def showEntry (e : PreConf) : String :=
  let txs := ",".intercalate (e.txs.map fun t => s!"{t.hash}.{t.tag}.{t.kind}")
  let rcs := ",".intercalate (e.receipts.map fun r => s!"{r.txHash}.{r.tag}.{r.events}.{if r.reverted then 1 else 0}")
  let tds := ";".intercalate (e.txDiffs.map showDiff)
  s!"{e.number}~{e.ident}~{e.txCount}~{e.eventCount}~{txs}~{rcs}~{showDiff e.diff}~{tds}~{showPairs e.classes}"

def showView (r : Reader) : String :=
  let nf := "|".intercalate (r.newestFirst.map showEntry)
  let of_ := ",".intercalate (r.oldestFirst.map fun e => toString e.number)
  s!"{r.length} {nf} # {of_}"

structure Tables where
  ch : AMap Nat Nat := []
  no : AMap Nat Nat := []
  st : AMap (Nat × Nat) Nat := []
  cl : AMap Nat Nat := []
  ca : AMap Nat Nat := []
  c2 : AMap Nat Nat := []
  lu : AMap (Nat × Nat) Nat := []
  clsAt : AMap Nat Nat := []

def parseTables? (s : String) : Option Tables :=
  (splitNonEmpty s "+").foldlM (init := ({} : Tables)) fun t sec =>
    match sec.splitOn "=" with
    | ["ch", v] => do pure { t with ch := (← pairs? v) }
    | ["no", v] => do pure { t with no := (← pairs? v) }
    | ["st", v] => do pure { t with st := (← triples? v) }
    | ["cl", v] => do pure { t with cl := (← pairs? v) }
    | ["ca", v] => do pure { t with ca := (← pairs? v) }
    | ["c2", v] => do pure { t with c2 := (← pairs? v) }
    | ["lu", v] => do pure { t with lu := (← triples? v) }
    | ["at", v] => do pure { t with clsAt := (← pairs? v) }
    | _ => none

def Tables.toBase (t : Tables) : Base :=
  { classHash := AMap.get t.ch, nonce := AMap.get t.no, storage := fun a k => AMap.get t.st (a, k),
    cls := AMap.get t.cl, casm := AMap.get t.ca, casmV2 := AMap.get t.c2,
    lastUpd := fun a k => AMap.get t.lu (a, k), clsAt := AMap.get t.clsAt }

structure DState where
  store : Store := none
  hstore : HStore := {}   -- the pointer-level model, run in lockstep and cross-checked
  addrs : List Nat := []
  slots : List Nat := []
  chs   : List Nat := []
  bases : AMap Nat Tables := []
  cmem  : CAlias.CMem := []          -- the `NewClasses` map objects (ClassAlias.lean)
  crefs : List CAlias.CRef := []     -- the map value of every node of `store` (newest first, aligned with `nodes`)

def showOpt : Option Nat → String
  | none => "nf"
  | some v => toString v

def showReads (s : DState) (p : PState) : String :=
  let ch := s.addrs.map fun a => s!"{a}={showOpt (p.classHash a)}"
  let no := s.addrs.map fun a => s!"{a}={showOpt (p.nonce a)}"
  let st := s.addrs.flatMap fun a => s.slots.map fun k => s!"{a}:{k}={showOpt (p.storage a k)}"
  let cl := s.chs.map fun h => s!"{h}={showOpt (p.cls h)}"
  let ca := s.chs.map fun h => s!"{h}={showOpt (p.casm h)}"
  let c2 := s.chs.map fun h => s!"{h}={showOpt (p.casmV2 h)}"
  s!"ch[{",".intercalate ch}] no[{",".intercalate no}] st[{",".intercalate st}] " ++
  s!"cl[{",".intercalate cl}] ca[{",".intercalate ca}] c2[{",".intercalate c2}]"

/-- the remaining accessors of `pending.State`: `Class(h).At` over the universe and the three trie getters -/
def showExtra (s : DState) (p : PState) : String :=
  let ats := s.chs.map fun h => s!"{h}={showOpt (p.clsAt h)}"
  s!"x[at:{",".intercalate ats};tries={if p.trieSupported then "ok" else "unsup"}]"

/-- `ContractStorageLastUpdatedBlock` over the universe: `as-implemented/specified` per slot -/
def showLastUpd (s : DState) (p : PState) (es : List PreConf) : String :=
  let xs := s.addrs.flatMap fun a => s.slots.map fun k =>
    s!"{a}:{k}={showOpt (p.lastUpdated a k)}/{showOpt (lastUpdatedSpec es p.head a k)}"
  s!"lu[{",".intercalate xs}]"

/-- `StateAtBlockNumber(n)`; the harness registers every base it can be asked for -/
def baseAt (s : DState) (n : Nat) : Option Base := (AMap.get s.bases n).map Tables.toBase

def dummyBase : Base :=
  { classHash := fun _ => none, nonce := fun _ => none, storage := fun _ _ => none,
    cls := fun _ => none, casm := fun _ => none, casmV2 := fun _ => none }

/-- the map-object model (`Alias.lean`) run on the same inputs: load every diff into fresh map
objects, squash them with the object-level `Merge`, read the result back. `true` = the value model
and the object model agree, and no pre-existing object was written. -/
def aliasAgrees (ds : List Diff) (expect : Diff) : Bool :=
  let (mem, ads) := ds.foldl (fun (acc : Alias.Mem × List Alias.ADiff) d =>
      let (m, a) := Alias.load acc.1 d; (m, acc.2 ++ [a])) ([], [])
  let (mem', r) := Alias.squash mem ads
  showDiff (Alias.denote mem' r) == showDiff expect &&
    (List.range mem.length).all (fun a => mem'[a]? == mem[a]?)

/-- the envelope a (kind, number of transactions, malformation name) triple denotes; the harness
builds the real `starknet.PreConfirmedUpdateEnvelope` from the same triple (spec.go `wireEnvelope`).
Slice malformations touch the LAST element and are no-ops for 0 transactions. -/
def mkRaw (kind : String) (n : Nat) (how : String) : Option RawEnvelope :=
  let txs : List (Option (Tx × Bool)) := (List.range n).map fun i => some ({ hash := i + 1, tag := i + 1 }, false)
  let rcs : List (Option Rcpt) := (List.range n).map fun i => some { txHash := i + 1, tag := i + 1, events := 0 }
  let dfs : List (Option Diff) := (List.range n).map fun _ => some {}
  let setLast {α : Type} (l : List α) (x : α) : List α := if l.isEmpty then l else l.dropLast ++ [x]
  let u : RawUpdate :=
    match how with
    | "short-receipts" => { txs := txs, receipts := rcs.dropLast, diffs := dfs }
    | "short-diffs" => { txs := txs, receipts := rcs, diffs := dfs.dropLast }
    | "long-receipts" => { txs := txs, receipts := rcs ++ [some { txHash := 99, tag := 99, events := 0 }], diffs := dfs }
    | "nil-receipt" => { txs := txs, receipts := setLast rcs none, diffs := dfs }
    | "nil-diff" => { txs := txs, receipts := rcs, diffs := setLast dfs none }
    | "empty-tx" => { txs := setLast txs none, receipts := rcs, diffs := dfs }
    | "bad-tx" => { txs := setLast txs (some ({ hash := n, tag := n }, true)), receipts := rcs, diffs := dfs }
    | _ => { txs := txs, receipts := rcs, diffs := dfs }
  let m : RawMeta :=
    { ident := if how == "no-ident" then "" else "r", statusOk := how != "bad-status",
      version := if how == "no-version" then "" else "0.14.0", timestamp := if how == "zero-timestamp" then 0 else 1,
      hasSequencer := how != "no-sequencer", hasL1Gas := how != "no-l1gas", hasL2Gas := how != "no-l2gas",
      hasL1DataGas := how != "no-l1datagas" }
  match kind with
  | "N" => some .noChange
  | "D" => some (.delta m.ident u)
  | "B" => some (.block m u)
  | _ => none

/-- after a poller tick (whose class maps come from `fetchDeclaredClasses` and are not tracked one by
one): load every stored entry's class table into a fresh object -/
def resyncClasses (s : DState) : DState :=
  match s.store with
  | none => { s with crefs := [] }
  | some r =>
    let (m, refs) := r.nodes.foldl (fun (acc : CAlias.CMem × List CAlias.CRef) e =>
        if e.classes.isEmpty then (acc.1, acc.2 ++ [none])
        else
          let (m', a) := CAlias.calloc acc.1 e.classes
          (m', acc.2 ++ [a])) (s.cmem, [])
    { s with cmem := m, crefs := refs }

def sameBelow (w : Nat) (m m' : CAlias.CMem) : Bool := (List.range w).all fun a => m'[a]? == m[a]?

/-- the class table a state over view `v` up to block `blk` gets, at object level: the readers' loop
over the map objects of the visited entries. `none` = the object model disagrees with the value model
or wrote a published object; else which object the table is (`nil` | `fresh` | `published`) -/
def stateClassOrigin (s : DState) (v : Reader) (blk : Nat) (p : PState) : Option String :=
  let refs := ((s.crefs.take v.length).reverse).take (blk + 1 - v.oldest)
  let (m', r) := CAlias.accumulate s.cmem refs
  if showPairs (CAlias.cget m' r) != showPairs p.classes then none
  else if !sameBelow s.cmem.length s.cmem m' then none
  else some (match r with
    | none => "nil"
    | some a => if a ≥ s.cmem.length then "fresh" else "published")

def showOutcome : Outcome → String
  | .changed _ aff => "changed " ++ showEntry aff
  | .noop => "noop"
  | .err e => "err:" ++ e.name

def doApply (s : DState) (u : Update) (num baseTx oldest cls : String) : DState × String :=
  match nat? num, nat? baseTx, nat? oldest, pairs? cls with
  | some n, some t, some o, some c =>
    let (st', out) := applyUpdate s.store u n t o c.reverse
    let (hs', hout) := happlyUpdate s.hstore u n t o c.reverse
    let agree := showOutcome out == showOutcome hout
    let aliasOk := match out with
      | .changed _ aff => aliasAgrees aff.txDiffs aff.diff
      | _ => true
    -- the class-map objects: the caller's map (nil when empty), the map of the entry at the tip
    let (cm1, caller) := if c.isEmpty then (s.cmem, (none : CAlias.CRef)) else CAlias.calloc s.cmem c.reverse
    let target : CAlias.CRef := match u with
      | .block _ _ _ => none
      | _ => (s.crefs.head?).join
    match out with
    | .changed chain aff =>
      let (cm2, r) := CAlias.applyClassRef cm1 u target caller
      let cOk := showPairs (CAlias.cget cm2 r) == showPairs aff.classes && sameBelow cm1.length cm1 cm2
      -- compared with the real maps: nil | shared (with the replaced, published entry) | own (the caller's map or a
      -- new one: not distinguished, neither is an object any reader holds yet)
      let tok := match CAlias.origin cm1.length target caller r with
        | "caller" => "own"
        | "fresh" => "own"
        | t => t
      let crefs' := r :: s.crefs.drop (s.crefs.length - (chain.nodes.length - 1))
      ({ s with store := st', hstore := hs', cmem := cm2, crefs := crefs' },
        if !agree then "HEAP-MISMATCH " ++ showOutcome hout
        else if !aliasOk then "ALIAS-MISMATCH " ++ showOutcome out
        else if !cOk then "CALIAS-MISMATCH " ++ showOutcome out
        else showOutcome out ++ " cm=" ++ tok)
    | _ =>
      ({ s with store := st', hstore := hs' },
        if !agree then "HEAP-MISMATCH " ++ showOutcome hout else showOutcome out)
  | _, _, _, _ => (s, "bad-op")


def identOut (s : String) : String := if s.isEmpty then "_" else s

def parseUpd? (k ident ver txs : String) : Option (Option Update) :=
  match k with
  | "F" => some none
  | "N" => some (some .noChange)
  | "D" => do let t ← parseTxs? txs; pure (some (.delta ident t))
  | "B" => do let t ← parseTxs? txs; let v ← nat? ver; pure (some (.block ident (v != 0) t))
  | _ => none

/-- the by-number answers: groups of five words -/
def parseByNum? : List String → Option (List (Nat × Option Update))
  | [] => some []
  | n :: k :: ident :: ver :: txs :: rest => do
    let n ← nat? n
    let u ← parseUpd? k ident ver txs
    let more ← parseByNum? rest
    pure ((n, u) :: more)
  | _ => none

def showEv : Ev → Option String
  | .latest ident t => some s!"lt({identOut ident},{t})"
  | .byNumber n ident t => some s!"bn({n},{identOut ident},{t})"
  | .fetch hs ok => some (if ok then s!"fetch({",".intercalate ((hs.mergeSort (· ≤ ·)).map toString)})" else "fetchfail")
  | .publish _ => none
  | .wrote _ => none

def showTickErr : Option TickErr → String
  | none => "ok"
  | some .height => "err:height"
  | some .latest => "err:latest"
  | some (.byNumber _) => "err:bynum"
  | some (.fetch _) => "err:fetch"
  | some (.apply _ e) => "err:apply:" ++ e.name

/-- run one tick on the list model, replay the writer operations it performed on the pointer-level
model, cross-check the two -/
def doTick (s : DState) (i : TickIn) : DState × List Ev × Option TickErr × Bool :=
  let (st', evs, err) := tick s.store i
  let hs' := evs.foldl (fun h e => match e with | .wrote o => hstep h o | _ => h) s.hstore
  let agree := match st', hs'.abs with
    | none, none => true
    | some a, some b => a.length == b.length && (a.nodes.take a.length).map showEntry == (b.nodes.take b.length).map showEntry
    | _, _ => false
  ({ s with store := st', hstore := hs' }, evs, err, agree)

def optNat (s : String) : Option Nat := if s == "-" then none else nat? s

def step (s : DState) (line : String) : DState × String :=
  match words line with
  | ["reset"] => ({ s with store := none, hstore := {}, bases := [], cmem := [], crefs := [] }, "ok")
  | ["apply", "B", num, baseTx, oldest, cls, ident, verOk, txs] =>
    match nat? verOk, parseTxs? txs with
    | some v, some txs => doApply s (.block ident (v != 0) txs) num baseTx oldest cls
    | _, _ => (s, "bad-op")
  | ["apply", "D", num, baseTx, oldest, cls, ident, txs] =>
    match parseTxs? txs with
    | some txs => doApply s (.delta ident txs) num baseTx oldest cls
    | _ => (s, "bad-op")
  | ["apply", "N", num, baseTx, oldest, cls] => doApply s .noChange num baseTx oldest cls
  | ["advance", o] =>
    match nat? o with
    | some o =>
      let (st', b) := advanceTo s.store o
      let (hs', hb) := hadvanceTo s.hstore o
      let crefs' := match st' with
        | none => []
        | some r => s.crefs.take r.nodes.length
      ({ s with store := st', hstore := hs', crefs := crefs' }, if b == hb then toString b else "HEAP-MISMATCH")
    | none => (s, "bad-op")
  | ["snap", b] =>
    match nat? b with
    | some b =>
      let v := snapshotFor s.store b
      let hv := hsnapshotFor s.hstore b
      let same := hv.length == v.length &&
        ((hv.view s.hstore.heap).map showEntry) == (v.newestFirst.map showEntry)
      (s, if same then showView v else "HEAP-MISMATCH " ++ showView (hv.abs s.hstore.heap))
    | none => (s, "bad-op")
  | ["snapn", b] =>
    match nat? b with
    | some b =>
      let v := snapshotFor s.store b
      (s, s!"{v.length} # {",".intercalate (v.oldestFirst.map fun e => toString e.number)}")
    | none => (s, "bad-op")
  | ["tx", b, h] =>
    match nat? b, nat? h with
    | some b, some h =>
      (s, match txByHash (snapshotFor s.store b) h with
          | none => "notfound"
          | some t => s!"{t.hash}.{t.tag}.{t.kind}")
    | _, _ => (s, "bad-op")
  | ["rc", b, h] =>
    match nat? b, nat? h with
    | some b, some h =>
      (s, match receiptByHash (snapshotFor s.store b) h with
          | none => "notfound"
          | some (r, n) => s!"{r.txHash}.{r.tag}.{r.events}.{if r.reverted then 1 else 0}@{n}")
    | _, _ => (s, "bad-op")
  | ["etx", b, h] =>
    -- per-entry lookups on every entry (newest first) of SnapshotForBlock(b)
    match nat? b, nat? h with
    | some b, some h =>
      let es := (snapshotFor s.store b).newestFirst
      let one (e : PreConf) : String :=
        let t := match e.txByHash h with
          | none => "notfound"
          | some (t, i) => s!"{t.hash}.{t.tag}.{t.kind}@{i}"
        let r := match e.receiptByHash h with
          | none => "notfound"
          | some r => s!"{r.txHash}.{r.tag}.{r.events}.{if r.reverted then 1 else 0}"
        s!"{e.number}:{t}/{r}"
      (s, if es.isEmpty then "-" else " ".intercalate (es.map one))
    | _, _ => (s, "bad-op")
  | ["univ", a, k, c] =>
    match natList? a ",", natList? k ",", natList? c "," with
    | some a, some k, some c => ({ s with addrs := a, slots := k, chs := c }, "ok")
    | _, _, _ => (s, "bad-op")
  | ["base", n, t] =>
    match nat? n, parseTables? t with
    | some n, some t => ({ s with bases := AMap.set s.bases n t }, "ok")
    | _, _ => (s, "bad-op")
  | ["validate", kind, n, how] =>
    match nat? n, mkRaw kind (n.toNat?.getD 0) how with
    | some _, some e =>
      let v := if e.validate then "valid" else "invalid"
      let a := match e.adapt with
        | .ok ws => s!"ok:{ws.length}"
        | .adaptError => "adapterr"
        | .panics => "panics"
      (s, s!"{v} {a}")
    | _, _ => (s, "bad-op")
  | ["reader", height, cached] =>
    -- Synchronizer.PreConfirmedChain in the state (height, cached header number or `-`, storage)
    match nat? height with
    | some ht =>
      let v := readerView ht (nat? cached) s.store {}
      (s, if (snapshotFor s.store (ht + 1)).length > 0 then showView v else s!"fallback {ht + 1}")
    | none => (s, "bad-op")
  | ["pcc", height, head2, hashOk] =>
    -- Synchronizer.PreConfirmedChain read by read: Height() = height (`-`: error), HeadsHeader().Number = head2
    -- (`-`: error), BlockHeaderHashByNumber succeeds iff hashOk = 1
    let v := preConfirmedChain (optNat height) s.store (optNat head2) (fun _ => if hashOk == "1" then some 0 else none)
    (s, match v with
        | .error .height => "err:height"
        | .error .header => "err:header"
        | .error .blockHash => "err:blockhash"
        | .ok r =>
          match optNat height with
          | some ht => if (snapshotFor s.store (ht + 1)).length > 0 then showView r else s!"fallback {r.tip}"
          | none => "bad-op")
  | ["runloop", iz, g0, guards] =>
    -- Poller.Run around the ticks: interval == 0 (iz = 1)? first guard answer, then one letter per ticker
    -- firing (n = Height() answers ErrKeyNotFound, o = anything else); answer: per firing `w` (nothing
    -- happens: still in the guard loop) or `t` (a tick runs), or `off`
    let g (c : Char) : Guard := if c == 'n' then .notFound else .other
    if iz == "1" then (s, "off")
    else
      let idle : TickIn := { height := none, highest := none, src := { latest := none, byNumber := fun _ => none, classDef := fun _ => none } }
      let (_, out) := guards.toList.foldl (fun (acc : RunSt × List Char) c =>
          let ticked := acc.1.polling
          ((runEvent acc.1 { guard := g c, env := idle }).1, acc.2 ++ [if ticked then 't' else 'w']))
        (({ polling := g (g0.toList.headD 'o') != .notFound, store := none } : RunSt), [])
      (s, if out.isEmpty then "-" else String.ofList out)
  | ["unbase", n] =>
    match nat? n with
    | some n => ({ s with bases := s.bases.filter (fun kv => kv.1 != n) }, "ok")
    | none => (s, "bad-op")
  | ["state", b, blk] =>
    match nat? b, nat? blk with
    | some b, some blk =>
      let v := snapshotFor s.store b
      (s, match stateAt v blk (baseAt s) with
          | .error .notFound => "notfound"
          | .error .noBase => "nobase"
          | .error _ => "bad-op"
          | .ok p =>
            let es := v.oldestFirst.take (blk + 1 - v.oldest)
            if !aliasAgrees (es.map (·.diff)) p.diff then "ALIAS-MISMATCH"
            else match stateClassOrigin s v blk p with
              | none => "CALIAS-MISMATCH"
              | some tok => showReads s p ++ " cm=" ++ tok ++ " " ++ showExtra s p ++ " " ++ showLastUpd s p es)
    | _, _ => (s, "bad-op")
  | ["statebi", b, blk, idx] =>
    match nat? b, nat? blk, nat? idx with
    | some b, some blk, some idx =>
      let v := snapshotFor s.store b
      (s, match stateBeforeIndexAt v blk idx (baseAt s) with
          | .error .notFound => "notfound"
          | .error .invariantBroken => "broken"
          | .error .indexOutOfBounds => "oob"
          | .error .noBase => "nobase"
          | .ok p => match stateClassOrigin s v blk p with
            | none => "CALIAS-MISMATCH"
            | some tok => showReads s p ++ " cm=" ++ tok ++ " " ++ showExtra s p)
    | _, _, _ => (s, "bad-op")
  | "ptick" :: height :: highest :: cfails :: cdefs :: lnum :: lk :: lident :: lver :: ltxs :: rest =>
    match nat? height, natList? cfails ",", pairs? cdefs, nat? lnum, parseUpd? lk lident lver ltxs, parseByNum? rest with
    | some ht, some fails, some defs, some ln, some lu, some bn =>
      let src : Source :=
        { latest := lu.map fun u => (u, ln)
          byNumber := fun n => (bn.find? (fun p => p.1 == n)).bind (·.2)
          classDef := fun h => if fails.contains h then none else AMap.get defs h }
      let (s', evs, err, agree) := doTick s { height := some ht, highest := optNat highest, src := src }
      let calls := " ; ".intercalate (evs.filterMap showEv)
      let pubs := " | ".intercalate (evs.filterMap fun e => match e with | .publish p => some (showEntry p) | _ => none)
      (resyncClasses s', if agree then s!"{showTickErr err} | {calls} #pub {pubs}" else "HEAP-MISMATCH")
    | _, _, _, _, _, _ => (s, "bad-op")
  | ["newchain", nums] =>
    -- NewChain(entries...) with entries numbered `nums` (oldest first)
    match natList? nums "," with
    | some ns =>
      let es : List PreConf := ns.map fun n =>
        { number := n, ident := "", txCount := 0, eventCount := 0, txs := [], receipts := [], txDiffs := [], diff := {} }
      (s, match newChain es with
          | none => "err"
          | some r => s!"ok {r.length} {",".intercalate (r.oldestFirst.map fun e => toString e.number)}")
    | none => (s, "bad-op")
  | ["emptydiff", num, hash] =>
    -- makeStateDiffForEmptyBlock(bc, num) where BlockHeaderHashByNumber(num-10) answers `hash` (`-`: fails)
    match nat? num with
    | some n =>
      (s, match emptyBlockDiff (fun _ => optNat hash) n with
          | none => "err"
          | some d => showDiff d)
    | none => (s, "bad-op")
  | ["ppre", height, highest] =>
    match nat? height with
    | some ht =>
      let src : Source := { latest := none, byNumber := fun _ => none, classDef := fun _ => none }
      let (s', evs, _, agree) := doTick s { height := some ht, highest := optNat highest, src := src }
      let out := match evs.filterMap showEv with
        | [] => "notip"
        | c :: _ => "tip" ++ (c.drop 2)
      (resyncClasses s', if agree then out else "HEAP-MISMATCH")
    | none => (s, "bad-op")
  | _ => (s, "bad-op")

end C20Drv

def main : IO Unit := loop C20Drv.step {}
