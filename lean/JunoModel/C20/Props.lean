import JunoModel.C20.Proofs
import JunoModel.C20.ProofsOverlay
import JunoModel.C20.ProofsHeap
import JunoModel.C20.ProofsEntries
import JunoModel.C20.ProofsRefine
import JunoModel.C20.ProofsLastUpd
import JunoModel.C20.ProofsAlias
/-!
C20 — property theorems (statements only; helper lemmas are in `Proofs*.lean`).
Every theorem in this module is an obligation listed in evidence/C20.json with its axioms.

The model (`Model.lean`, `Heap.lean`) transcribes `sync/preconfirmed/chain_storage.go`, the
adapters that build its entries (`sn2core.AdaptPreConfirmedBlock/WithDelta`,
`core.StateDiff.Merge`) and `core/pending/state.go`.

`run ops` is the content of `ChainStorage.inner` after ANY history `ops` of writer calls
(`ApplyUpdate` with any update variant — full block, appended-transactions delta, no-change —
any target height incl. gaps / inner slots / below the chain, any `baseTxCount`, any
`oldestPreConf`, any classes, rejected or not; `AdvanceTo` with any argument, i.e. head advances
and reverts), starting from `NewChainStorage()`. No assumption is made about the caller being
well behaved. `snapshotFor s (head+1)` is the view a reader gets for canonical head `head`
(`Synchronizer.PreConfirmedChain` calls `SnapshotForBlock(height+1)`).
-/
namespace Juno.C20.Props
open Juno.C20

/-! ## 1. contiguity and alignment -/

/-- **Every view is a gap-free run starting exactly one above the head it was taken for.**
After any history of writer operations, the view for head `head` yields exactly `Length()`
entries and their block numbers, oldest first, are `head+1, head+2, …, head+Length()`.
(The empty view is the case `Length() = 0`.) -/
theorem snapshot_contiguous_aligned (ops : List Op) (head : Nat) :
    let v := snapshotFor (run ops) (head + 1)
    v.newestFirst.length = v.length ∧
    v.oldestFirst.map (·.number) = List.range' (head + 1) v.length :=
  snapshot_spec (run_wf ops) (head + 1)

/-- The stored chain itself is always well formed: its linked list is nil-terminated after
exactly `length` nodes (so no iterator or `replaceSlot` walk can run off the list), it is never
empty when published, and it is gap-free; in particular no `uint64` subtraction of
`oldestPreConf()` / `SnapshotForBlock` / `AdvanceTo` ever wraps. -/
theorem stored_chain_wellformed (ops : List Op) :
    match run ops with
    | none => True
    | some r => r.nodes.length = r.length ∧ 0 < r.length ∧ Desc r.nodes ∧ r.length - 1 ≤ r.tip := by
  have h := run_wf ops
  cases hr : run ops with
  | none => trivial
  | some r =>
    rw [hr] at h
    have hw : WF r := h
    exact ⟨hw.len.symm, hw.pos, hw.desc, hw.tip_ge⟩

/-- The two iterators of a view enumerate the same entries in opposite order. -/
theorem iterators_agree (r : Reader) : r.oldestFirst = r.newestFirst.reverse :=
  r.oldestFirst_eq

/-! ## 2. immutability of what a reader holds -/

/-- **A view never changes afterwards.** Stated on the pointer-level model (`Heap.lean`: nodes
live in an allocation-only heap, a view is a head address and a length): the entries reached
through a view taken after history `ops`, dereferenced in the heap as it is after ANY further
history `ops'` (updates, head advances, reverts), are the entries it had when it was taken.
(That the entries' own contents are not written to is outside a functional model; the harness
re-hashes every view it ever obtained after every later operation.) -/
theorem snapshot_stable (ops ops' : List Op) (b : Nat) :
    (hsnapshotFor (hrun ops) b).view (hrun (ops ++ ops')).heap =
    (hsnapshotFor (hrun ops) b).view (hrun ops).heap :=
  held_view_stable ops ops' b

/-- **The pointer-level model refines the list model**: after any history, what the published
head address denotes in the heap (the whole linked list down to nil, and the length field) is
exactly the list-model storage. Every theorem about `run ops` is therefore a theorem about the
heap. -/
theorem heap_refines_model (ops : List Op) : (hrun ops).abs = run ops :=
  hrun_refines ops

/-- **Immutability, stated against the model view**: the entries a reader reaches through a view
it took after `ops` — dereferenced at any later time, after any further writer operations `ops'` —
are the entries of the model view `snapshotFor (run ops) b` at the time it was taken (which
`snapshot_contiguous_aligned` describes). -/
theorem held_view_is_the_view_taken (ops ops' : List Op) (b : Nat) :
    (hsnapshotFor (hrun ops) b).view (hrun (ops ++ ops')).heap = (snapshotFor (run ops) b).newestFirst ∧
    (hsnapshotFor (hrun ops) b).length = (snapshotFor (run ops) b).length := by
  rw [held_view_stable ops ops' b]
  exact hsnapshot_view ops b

/-- **`Merge` writes only into maps its receiver owns** (map-object model `Alias.lean`: every Go
map is an object with an address; `w` is any watermark): if all maps of the receiver — the outer
`StorageDiffs` map, every inner map it refers to, the single-level maps — were allocated at or
above `w`, then after `Merge(incoming)`, for ANY `incoming`, every object below `w` is unchanged
and the receiver still owns all it refers to (incoming inner maps are cloned, never adopted). -/
theorem merge_writes_only_owned_maps {w : Nat} {m : Alias.Mem} {d : Alias.ADiff} (inc : Alias.ADiff)
    (h : Alias.Owned w m d) :
    Alias.Unch w m (Alias.merge m d inc).1 ∧
    Alias.Owned w (Alias.merge m d inc).1 (Alias.merge m d inc).2 :=
  Alias.merge_frame inc h

/-- **The adapters and state builders never write to a published map.** The loop
`d := EmptyStateDiff(); for x in xs { d.Merge(x) }` — the body of `AdaptPreConfirmedBlock` (xs = the
per-transaction diffs), of `AdaptPreConfirmedWithDelta` (xs = the CURRENT, published entry's diff
followed by the appended transactions' diffs) and of `PreConfirmedStateAt` /
`PreConfirmedStateBeforeIndexAt` (xs = diffs of the view's published entries) — run on ANY memory
with ANY incoming diffs leaves every map object that existed before the call untouched, and the
diff it returns refers only to maps allocated during the call (so publishing it shares nothing
with what readers already hold). -/
theorem adapters_never_write_published_maps (m : Alias.Mem) (xs : List Alias.ADiff) :
    Alias.Unch m.length m (Alias.squash m xs).1 ∧
    Alias.Owned m.length (Alias.squash m xs).1 (Alias.squash m xs).2 :=
  Alias.squash_frame m xs

/-- The previous theorem is about the clone in `Merge`: the same loop with the incoming inner
storage map adopted instead of cloned (the seeded defect of the self-test, not juno's code) writes
into a published map. -/
theorem frame_depends_on_clone :
    ∃ (m : Alias.Mem) (xs : List Alias.ADiff) (a : Nat),
      a < m.length ∧ (Alias.squashNoClone m xs).1[a]? ≠ m[a]? :=
  Alias.adopting_inner_maps_breaks_frame

/-- Writer operations only allocate: the heap after an operation is the heap before it plus
fresh nodes (no published node is overwritten or unlinked). -/
theorem writer_only_allocates (ops : List Op) (op : Op) :
    ∃ fresh, (hrun (ops ++ [op])).heap = (hrun ops).heap ++ fresh := by
  have := (hstep_grows (hrun_ok ops) op).1
  simpa [hrun, List.foldl_append] using this

/-! ## 3. the state read through a view is a true overlay -/

/-- **Overlay = fold of the diffs, for any list of blocks.** Let `es` be any list of blocks
(oldest first) whose diffs are well-formed in sequence on the canonical state `canon`
(`ValidChain`: a contract is deployed once; class replacement, nonce and storage updates
only touch contracts deployed by then). Then every read — class hash, nonce, storage slot
(including slots written to zero and untouched slots of contracts deployed inside the view),
class definition, compiled class hash v1/v2 — through the `pending.State` built from the MERGED
diffs over the reader of `canon` equals the same read on the canonical state obtained by
applying the blocks one after the other. -/
theorem overlay_equals_fold (canon : St) (es : List PreConf) (bn : Nat) (hv : ValidChain canon es) :
    ReadsEq (overlayOf es canon.reader bn) (applyBlocks canon es).reader :=
  overlay_reads canon es bn hv

/-- **`PreConfirmedStateAt` on a reader's view.** After any history, for the view of head
`head`: a block number inside the view gets the overlay of exactly the view's blocks
`head+1 … b` (oldest first) over `StateAtBlockNumber(head)`; any other block number gets
`ErrPreConfirmedNotFound`. -/
theorem stateAt_merges_prefix (ops : List Op) (head b : Nat) (baseAt : Nat → Base) :
    let v := snapshotFor (run ops) (head + 1)
    ((head + 1 ≤ b ∧ b ≤ head + v.length) →
      stateAt v b baseAt = some (overlayOf (v.oldestFirst.take (b - head)) (baseAt head) b)) ∧
    (¬ (head + 1 ≤ b ∧ b ≤ head + v.length) → stateAt v b baseAt = none) :=
  stateAt_spec (run_wf ops) head b baseAt

/-- **The property's overlay clause, end to end.** After any history, the state read through the
view of head `head` at one of its blocks `b` equals the canonical state below the view (`canon`,
the state at `head`) overlaid with the state diffs of the view's blocks up to `b`, in order. -/
theorem view_state_equals_canonical_overlay (ops : List Op) (head b : Nat) (canon : St)
    (baseAt : Nat → Base) (hbase : baseAt head = canon.reader) :
    let v := snapshotFor (run ops) (head + 1)
    (head + 1 ≤ b ∧ b ≤ head + v.length) →
    ValidChain canon (v.oldestFirst.take (b - head)) →
    ∃ p, stateAt v b baseAt = some p ∧
      ReadsEq p (applyBlocks canon (v.oldestFirst.take (b - head))).reader := by
  intro v hb hvalid
  refine ⟨_, (stateAt_spec (run_wf ops) head b baseAt).1 hb, ?_⟩
  rw [hbase]
  exact overlay_reads canon _ b hvalid

/-- Every entry the storage ever publishes is internally consistent, for all histories (full
blocks, deltas on deltas, class-only updates): its block-level state diff is the merge, in order,
of its per-transaction diffs, and it has as many receipts and per-transaction diffs as
transactions (`TransactionCount` included). -/
theorem entries_consistent (ops : List Op) :
    match run ops with
    | none => True
    | some r => ∀ e ∈ r.nodes, e.diff = Diff.mergeAll e.txDiffs ∧ e.txDiffs.length = e.txs.length ∧
        e.receipts.length = e.txs.length ∧ e.txCount = e.txs.length := by
  have h := run_allOK ops
  cases hr : run ops with
  | none => trivial
  | some r =>
    rw [hr] at h
    intro e he
    have := h e he
    exact ⟨this.diff, this.ndiffs, this.nreceipts, this.count⟩

/-- **`PreConfirmedStateBeforeIndexAt` agrees with `PreConfirmedStateAt`.** After any history, for
every block `b` of a reader's view, the state "before transaction index `len(txs)`" of that block
(all its per-transaction diffs layered over the older blocks of the view) is exactly the state at
block `b`. -/
theorem state_before_last_index_is_state_at (ops : List Op) (head b : Nat) (baseAt : Nat → Base) :
    let v := snapshotFor (run ops) (head + 1)
    (head + 1 ≤ b ∧ b ≤ head + v.length) →
    ∃ e p, e ∈ v.newestFirst ∧ e.number = b ∧ stateAt v b baseAt = some p ∧
      stateBeforeIndexAt v b e.txs.length baseAt = .ok p :=
  stateBeforeIndex_end (run_wf ops) (run_allOK ops) head b baseAt

/-! ### `ContractStorageLastUpdatedBlock` through a view (a defect of juno, see notes/C20.md)

The full-strength statement — false of juno as it is — would be:

    theorem lastUpdated_is_newest_writer (es : List PreConf) (head : Base) (b : Nat) (a k : Felt) :
        (overlayOf es head b).lastUpdated a k = lastUpdatedSpec es head a k

i.e. through a view the last-updated block of a slot is the newest block of the view (up to the
requested one) that writes it. `pending.State` keeps one block number for the whole merged diff, so
it answers the REQUESTED block for every slot any block of the view writes. -/

/-- What the code answers, for every overlay (any list of blocks): the requested block number for
any slot some block of the view writes; 0 for other slots of contracts the view deploys; the base's
answer otherwise. -/
theorem lastUpdated_as_implemented (es : List PreConf) (head : Base) (b : Nat) (a k : Felt) :
    (overlayOf es head b).lastUpdated a k =
      if es.any (fun e => AMap.has e.diff.storage (a, k)) then some b
      else if es.any (fun e => AMap.has e.diff.deployed a) then some 0
      else head.lastUpd a k :=
  lastUpdated_asis es head b a k

/-- `_partial`: the answer is the newest writing block only when the view does not write the slot
at all or the newest block writing it is the requested block itself. Missing for the full
statement: the case of a slot last written in an OLDER block of the view — there juno is wrong
(next theorem). -/
theorem lastUpdated_is_newest_writer_partial (es : List PreConf) (head : Base) (b : Nat) (a k : Felt)
    (h : lastWriter es a k = none ∨ lastWriter es a k = some b) :
    (overlayOf es head b).lastUpdated a k = lastUpdatedSpec es head a k :=
  lastUpdated_right_when es head b a k h

private def luBlock (n : Nat) (d : Diff) : PreConf :=
  { number := n, ident := "x", txCount := 0, eventCount := 0, txs := [], receipts := [], txDiffs := [d], diff := d }
private def luBase : Base :=
  { classHash := fun _ => some 30, nonce := fun _ => some 0, storage := fun _ _ => some 0,
    cls := fun _ => none, casm := fun _ => none, casmV2 := fun _ => none, lastUpd := fun _ _ => some 0 }

/-- **Negation witness** (the replay `storage-last-updated-block-is-the-requested-block`): a view of
blocks 11 and 12 where slot (7,1) is written in block 11 only; asked at block 12, juno answers 12,
the newest writing block is 11. -/
theorem lastUpdated_is_newest_writer_fails :
    ∃ (es : List PreConf) (head : Base) (b a k : Nat),
      (overlayOf es head b).lastUpdated a k ≠ lastUpdatedSpec es head a k :=
  ⟨[luBlock 11 { storage := [((7, 1), 5)] }, luBlock 12 { storage := [((7, 2), 6)] }], luBase, 12, 7, 1,
    by decide⟩

/-! ## 4. lookups find exactly the items of the view's blocks -/

/-- **Transaction lookup is exact.** A hit is a transaction with that hash that belongs to a
block of the view; a miss means no block of the view holds a transaction with that hash. -/
theorem lookup_exact_tx (r : Reader) (h : Felt) :
    (∀ tx, txByHash r h = some tx → tx.hash = h ∧ ∃ e ∈ r.newestFirst, tx ∈ e.txs) ∧
    (txByHash r h = none ↔ ∀ e ∈ r.newestFirst, ∀ tx ∈ e.txs, tx.hash ≠ h) :=
  ⟨fun _ hs => txByHash_some hs, txByHash_none⟩

/-- **Receipt lookup is exact**, and the block number returned with a receipt is the number of
the view's block that holds it. -/
theorem lookup_exact_receipt (r : Reader) (h : Felt) :
    (∀ rc n, receiptByHash r h = some (rc, n) →
        rc.txHash = h ∧ ∃ e ∈ r.newestFirst, rc ∈ e.receipts ∧ e.number = n) ∧
    (receiptByHash r h = none ↔ ∀ e ∈ r.newestFirst, ∀ rc ∈ e.receipts, rc.txHash ≠ h) :=
  ⟨fun _ _ hs => receiptByHash_some hs, receiptByHash_none⟩

/-! ## non-vacuity -/

private def wtx (h tag : Nat) (d : Diff) : WireTx :=
  { tx := { hash := h, tag := tag }, bad := false, rcpt := { txHash := h, tag := tag, events := 1 }, diff := d }
private def blk (id : String) (txs : List WireTx := []) : Update := .block id true txs
/-- bootstrap at 11, extend to 13, new round at the inner slot 12 (truncates 13), extend, delta,
realign to head 11 -/
private def hist : List Op :=
  [.apply (blk "a" [wtx 1 1 { deployed := [(7, 30)] }]) 11 0 11 [],
   .apply (blk "b") 12 0 11 [], .apply (blk "c") 13 0 11 [],
   .apply (blk "b2" [wtx 2 2 { storage := [((7, 1), 5)], nonces := [(7, 1)] }]) 12 0 11 [],
   .apply (blk "d" [wtx 3 3 { storage := [((7, 1), 0)], replaced := [(7, 31)] }]) 13 0 11 [(9, 90)],
   .apply (.delta "d" [wtx 4 4 { nonces := [(7, 2)] }]) 13 1 11 [],
   .advance 12]
example : (snapshotFor (run hist) 12).length = 2 := by decide
example : (snapshotFor (run hist) 12).oldestFirst.map (·.number) = [12, 13] := by decide
example : (snapshotFor (run hist) 11).length = 0 := by decide
example : (txByHash (snapshotFor (run hist) 12) 4).map (·.tag) = some 4 := by decide
example : txByHash (snapshotFor (run hist) 12) 1 = none := by decide
example : (receiptByHash (snapshotFor (run hist) 12) 2).map (·.2) = some 12 := by decide
-- the heap model runs the same history and a view taken before the realignment still reads 3 entries
example : ((hsnapshotFor (hrun (hist.take 6)) 11).view (hrun hist).heap).map (·.number) = [13, 12, 11] := by
  decide
-- a valid chain on a concrete canonical state (contract 7 deployed in the first block of the view)
private def canon0 : St :=
  { classHash := fun _ => none, nonce := fun _ => 0, storage := fun _ _ => 0,
    cls := fun _ => none, casm := fun _ => none, casmV2 := fun _ => none }
example : ((overlayOf ((snapshotFor (run (hist.take 6)) 11).oldestFirst) canon0.reader 13).classHash 7,
           (overlayOf ((snapshotFor (run (hist.take 6)) 11).oldestFirst) canon0.reader 13).nonce 7,
           (overlayOf ((snapshotFor (run (hist.take 6)) 11).oldestFirst) canon0.reader 13).storage 7 1)
          = (some 31, some 2, some 0) := by decide

end Juno.C20.Props
