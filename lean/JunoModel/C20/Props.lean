import JunoModel.C20.Proofs
import JunoModel.C20.ProofsOverlay
import JunoModel.C20.ProofsHeap
import JunoModel.C20.ProofsEntries
import JunoModel.C20.ProofsRefine
import JunoModel.C20.ProofsLastUpd
import JunoModel.C20.ProofsAlias
import JunoModel.C20.ProofsMisc
import JunoModel.C20.ProofsPoller
import JunoModel.C20.ProofsInterleave
import JunoModel.C20.ProofsClassAlias
import JunoModel.C20.ProofsRun
import JunoModel.C20.ProofsWire
import JunoModel.C20.ProofsCas
/-!
C20 — property theorems (statements only; helper lemmas are in `Proofs*.lean`).
Every theorem in this module is an obligation listed in evidence/C20.json with its axioms.

The model (`Model.lean`, `Heap.lean`, `Alias.lean`, `Poller.lean`) transcribes
`sync/preconfirmed/chain_storage.go`, the adapters that build its entries
(`sn2core.AdaptPreConfirmedBlock/WithDelta`, `core.StateDiff.Merge`), `core/pending/state.go`, the
single writer `sync/preconfirmed/poller.go` (section 5: `prun ins`, any data source) and the
empty-block fallback of `sync/helpers.go`.

`run ops` is the content of `ChainStorage.inner` after ANY history `ops` of writer calls
(`ApplyUpdate` with any update variant — full block, appended-transactions delta, no-change —
any target height incl. gaps / inner slots / below the chain / block 0 / `2^64-1`, any
`baseTxCount`, any `oldestPreConf`, any classes, rejected or not; `AdvanceTo` with any argument,
i.e. head advances and reverts), starting from `NewChainStorage()`. No assumption is made about the
caller being well behaved. The only hypothesis on histories is `ops.length < 2^64` (`U64`): a chain
with oldest slot 0 and tip `2^64-1` is where `tip()+1` wraps in the code, and it takes `2^64`
operations to build. `snapshotFor s (head+1)` is the view a reader gets for canonical head `head`
(`Synchronizer.PreConfirmedChain` calls `SnapshotForBlock(height+1)`).

What is NOT here (see notes/C20.md "Coverage of the property text"): interleavings of concurrent
readers with the writer (exercised, not proved); immutability of the REAL nodes and entries (the
pointer-level statements below are about two transcriptions; on the real objects it is checked by
re-hashing, pointer-identity oracles and a source guard).
-/
namespace Juno.C20.Props
open Juno.C20

/-! ## 1. contiguity, alignment, maximality -/

/-- **Every view is a gap-free run starting exactly one above the head it was taken for.**
After any history of fewer than `2^64` writer operations, the view for head `head` yields exactly
`Length()` entries and their block numbers, oldest first, are `head+1, …, head+Length()`.
(Alone this would be satisfied by an always-empty view: see `snapshot_maximal`.) -/
theorem snapshot_contiguous_aligned (ops : List Op) (hops : ops.length < U64) (head : Nat) :
    let v := snapshotFor (run ops) (head + 1)
    v.newestFirst.length = v.length ∧
    v.oldestFirst.map (·.number) = List.range' (head + 1) v.length :=
  snapshot_spec (run_wf ops hops) (head + 1)

/-- **Maximality.** The view for block `b` (any `b`, 0 included) is non-empty exactly when `b` is
a slot of the stored chain, and then it has `tip - b + 1` entries and its newest entry is the
stored chain's newest entry: a view never drops entries at either end. With nothing stored every
view is empty. -/
theorem snapshot_maximal (ops : List Op) (hops : ops.length < U64) (b : Nat) :
    match run ops with
    | none => (snapshotFor none b).length = 0
    | some cur =>
      (cur.oldest ≤ b ∧ b ≤ cur.tip →
        (snapshotFor (some cur) b).length = cur.tip - b + 1 ∧
        (snapshotFor (some cur) b).newestFirst.head? = cur.nodes.head?) ∧
      (¬ (cur.oldest ≤ b ∧ b ≤ cur.tip) → (snapshotFor (some cur) b).length = 0) := by
  have h := run_wf ops hops
  cases hr : run ops with
  | none => rfl
  | some cur =>
    rw [hr] at h
    have := Juno.C20.snapshot_maximal (cur := cur) h b
    exact ⟨fun hb => ⟨(this.1 hb).1, (this.1 hb).2.2⟩, this.2⟩

/-- **The reader entry point aligns to the CANONICAL head.** In every state a reader can run
against — any storage reachable by writer operations, any canonical height (advanced or reverted
arbitrarily relative to the storage), and ANY cached `highestBlockHeader` (absent, behind, equal,
ahead of the local head) — the view `Synchronizer.PreConfirmedChain` hands out is never empty,
yields `Length()` entries, and its blocks are `height+1, height+2, …`: it starts exactly one above
the canonical head (so its base `oldest-1` is the canonical head) — the snapshot when the storage
holds slot `height+1`, the empty fallback block otherwise. The cached header is a component of the
state that the result does not depend on (`reader_view_ignores_cached_header`). -/
theorem reader_view_starts_above_canonical_head (ops : List Op) (hops : ops.length < U64)
    (height : Nat) (cached : Option Nat) (fallbackDiff : Diff) :
    let v := readerView height cached (run ops) fallbackDiff
    0 < v.length ∧ v.newestFirst.length = v.length ∧
    v.oldestFirst.map (·.number) = List.range' (height + 1) v.length :=
  readerView_spec (run_wf ops hops) height cached fallbackDiff

/-- the transcription of `PreConfirmedChain` does not read the cached header: two states that differ
only in it give the same view (a code change that aligns to `highestBlockHeader` makes the driver's
answers differ from the code's, and the harness' oracle fires in the windows where the two differ) -/
theorem reader_view_ignores_cached_header (height : Nat) (c₁ c₂ : Option Nat) (s : Store) (d : Diff) :
    readerView height c₁ s d = readerView height c₂ s d := rfl

/-- **The reader entry point read by read: the head may move DURING the call.** `PreConfirmedChain`
reads the canonical chain several times with nothing held in between (`Height()`, the atomic load of the
storage, then — only for the fallback — `HeadsHeader()` and a block-hash lookup). For any reachable
storage, any height `h1` seen by the first read and anything `h2` the second height read answers
(another height: the head advanced or reverted meanwhile; `none`: the chain lost its head):
* if the storage holds slot `h1+1` the result is the snapshot aligned to `h1` — gap-free, starting at
  `h1+1` — and the later reads are not made;
* otherwise it is the error of the second read, the error of the block-hash lookup, or the single blank
  block `h2+1`: a one-block view starting exactly one above the head the second read saw.
In every case a view that is handed out starts one above A canonical head observed during the call. -/
theorem reader_view_under_head_movement (ops : List Op) (hops : ops.length < U64) (h1 : Nat) (h2 : Option Nat)
    (hashOf : Nat → Option Felt) :
    let snap := snapshotFor (run ops) (h1 + 1)
    (0 < snap.length →
      preConfirmedChain (some h1) (run ops) h2 hashOf = .ok snap ∧
      snap.newestFirst.length = snap.length ∧
      snap.oldestFirst.map (·.number) = List.range' (h1 + 1) snap.length) ∧
    (snap.length = 0 →
      preConfirmedChain (some h1) (run ops) h2 hashOf =
        match h2 with
        | none => .error .header
        | some hd =>
          match emptyBlockDiff hashOf (hd + 1) with
          | none => .error .blockHash
          | some d => .ok { nodes := [emptyPreConfirmedFor hd d], length := 1 }) :=
  ⟨preConfirmedChain_snapshot (run_wf ops hops) h1 h2 hashOf, preConfirmedChain_fallback (run ops) h1 h2 hashOf⟩

/-- without a canonical head (`Height()` fails: before genesis) no view is handed out; with both height
reads seeing the same head the method is `readerViewFull` (the case the earlier theorems are about) -/
theorem reader_view_without_head_or_with_a_steady_head (s : Store) (h : Nat) (cached h2 : Option Nat)
    (hashOf : Nat → Option Felt) :
    preConfirmedChain none s h2 hashOf = .error .height ∧
    preConfirmedChain (some h) s (some h) hashOf =
      match readerViewFull h cached s hashOf with
      | some v => .ok v
      | none => .error .blockHash :=
  ⟨rfl, preConfirmedChain_same_head s h cached hashOf⟩

/-- The stored chain itself is always well formed: its linked list is nil-terminated after
exactly `length` nodes (so no iterator or `replaceSlot` walk can run off the list), it is never
empty when published, it is gap-free, and `length-1 ≤ tip`: the subtractions of
`oldestPreConf()` / `SnapshotForBlock` / `AdvanceTo` never wrap. (The ADDITION `tip()+1` does wrap
at `tip = 2^64-1`: `updates_at_max_tip_are_rejected`.) -/
theorem stored_chain_wellformed (ops : List Op) (hops : ops.length < U64) :
    match run ops with
    | none => True
    | some r => r.nodes.length = r.length ∧ 0 < r.length ∧ Desc r.nodes ∧ r.length - 1 ≤ r.tip := by
  have h := run_wf ops hops
  cases hr : run ops with
  | none => trivial
  | some r =>
    rw [hr] at h
    have hw : WF r := h
    exact ⟨hw.len.symm, hw.pos, hw.desc, hw.tip_ge⟩

/-- The two iterators of a view enumerate the same entries in opposite order. -/
theorem iterators_agree (r : Reader) : r.oldestFirst = r.newestFirst.reverse :=
  r.oldestFirst_eq

/-- **`uint64` boundary 1.** On a chain whose tip is `2^64-1`, `tip()+1` is 0: every update that
passes the alignment and below-oldest checks and targets a block ≥ 1 — a new round for the tip, a
delta, a no-change — is rejected as a gap; the chain can only be realigned or dropped. (Same
behaviour as the Go code; compared on generated boundary histories.) -/
theorem updates_at_max_tip_are_rejected {cur : Reader} (hpos : 0 < cur.length) (htip : cur.tip = U64 - 1)
    (u : Update) (b t o : Nat) (c : AMap Felt Nat)
    (hal : cur.oldest = o) (hlo : ¬ b < cur.oldest) (hb : 1 ≤ b) :
    computeUpdate (some cur) u b t o c = .err .gap :=
  update_at_max_tip hpos htip u b t o c hal hlo hb

/-- **`uint64` boundary 2.** A view whose oldest slot is block 0 (a chain bootstrapped before any
head exists) asks `StateAtBlockNumber(2^64-1)` for its base: state reads through it fail with the
base's error. -/
theorem chain_at_block_zero_has_no_base {r : Reader} {b : Nat} (ho : r.oldest = 0)
    (hc : r.contains b = true) (baseAt : Nat → Option Base) (hnone : baseAt (U64 - 1) = none) :
    stateAt r b baseAt = .error .noBase :=
  state_below_block_zero ho hc baseAt hnone

/-! ## 2. what a reader holds

The two statements of this section relate the pointer-level transcription (`Heap.lean`: nodes in a
heap whose only operation is allocation, sharing as in the Go code) to the list model. They show
that the sharing the code uses (`extend` points at the old head, `replaceSlot` at the replaced
node's parent, `rebuild` copies) denotes exactly the list-model storage, and that a held
`(head, length)` keeps denoting what it denoted. That the Go code never assigns to a field of a
published node is the PREMISE of `Heap.lean`, not a consequence: it is checked on the source
(harness: no assignment to `.parent` / `.preconfirmed` in chain_storage.go) and on the real objects
(re-hash of every view ever obtained, pointer freshness of every published entry). -/

/-- The pointer-level transcription denotes the list-model storage after every history. -/
theorem heap_refines_model (ops : List Op) : (hrun ops).abs = run ops :=
  hrun_refines ops

/-- In the pointer-level transcription, the entries reached through a view taken after `ops` and
dereferenced after any further writer operations `ops'` are the entries of the model view
`snapshotFor (run ops) b` at the time it was taken. -/
theorem held_view_is_the_view_taken (ops ops' : List Op) (b : Nat) :
    (hsnapshotFor (hrun ops) b).view (hrun (ops ++ ops')).heap = (snapshotFor (run ops) b).newestFirst ∧
    (hsnapshotFor (hrun ops) b).length = (snapshotFor (run ops) b).length := by
  rw [held_view_stable ops ops' b]
  exact hsnapshot_view ops b

/-- **`Merge` writes only into maps its receiver owns** (map-object model `Alias.lean`, which HAS an
in-place write: every Go map is an object with an address; `w` is any watermark): if all maps of the
receiver — the outer `StorageDiffs` map, every inner map it refers to, the single-level maps — were
allocated at or above `w`, then after `Merge(incoming)`, for ANY `incoming`, every object below `w`
is unchanged and the receiver still owns all it refers to (incoming inner maps are cloned, never
adopted). The aliasing this predicts — every map of a freshly built diff is a new object — is
observed on the real maps by pointer identity in the harness. -/
theorem merge_writes_only_owned_maps {w : Nat} {m : Alias.Mem} {d : Alias.ADiff} (inc : Alias.ADiff)
    (h : Alias.Owned w m d) :
    Alias.Unch w m (Alias.merge m d inc).1 ∧
    Alias.Owned w (Alias.merge m d inc).1 (Alias.merge m d inc).2 :=
  Alias.merge_frame inc h

/-- **The squash loop never writes to a pre-existing map and returns only fresh maps.**
`d := EmptyStateDiff(); for x in xs { d.Merge(x) }` — the body of `AdaptPreConfirmedBlock`, of
`AdaptPreConfirmedWithDelta` (xs = the CURRENT, published entry's diff followed by the appended
transactions' diffs) and of `PreConfirmedStateAt` / `BeforeIndexAt` — on ANY memory with ANY
incoming diffs. Not covered by the object model: `NewClasses` maps, slices, `*felt.Felt` values. -/
theorem adapters_never_write_published_maps (m : Alias.Mem) (xs : List Alias.ADiff) :
    Alias.Unch m.length m (Alias.squash m xs).1 ∧
    Alias.Owned m.length (Alias.squash m xs).1 (Alias.squash m xs).2 :=
  Alias.squash_frame m xs

/-- **What "never changes" means for state reads.** Two calls of `PreConfirmedStateAt` on the same
view — at any two times, i.e. with any two resolvers of `StateAtBlockNumber` (the head may have
advanced or reverted in between) — agree on "not found", and when both find their base they carry
the SAME merged diff, classes and block number; only the base reader is that of its own time (it
is re-resolved by NUMBER on every call: after a reorg that replaces the canonical block below the
view, the same held view reads over the new block). -/
theorem held_view_state_over_time (r : Reader) (b : Nat) (baseAt₁ baseAt₂ : Nat → Option Base) :
    (stateAt r b baseAt₁ = .error .notFound ↔ stateAt r b baseAt₂ = .error .notFound) ∧
    ∀ p₁ p₂, stateAt r b baseAt₁ = .ok p₁ → stateAt r b baseAt₂ = .ok p₂ →
      p₁.diff = p₂.diff ∧ p₁.classes = p₂.classes ∧ p₁.blockNumber = p₂.blockNumber ∧
      some p₁.head = baseAt₁ (pred64 r.oldest) ∧ some p₂.head = baseAt₂ (pred64 r.oldest) :=
  stateAt_time_independent r b baseAt₁ baseAt₂

/-! ### 2b. interleavings of the writer with lock-free readers (round 5)

`Interleave.lean`: a reader is a goroutine with a program counter — the atomic load of
`SnapshotForBlock(b)`, then ONE pointer dereference of the `NewestFirst` loop per move, each executed
against the heap as it is at that moment — and a schedule (`List Act`) says who moves next: the single
writer (a whole `ApplyUpdate` / `AdvanceTo`) or reader `i`. Nothing is assumed about the schedule.
What this rests on: sequential consistency of the `atomic.Pointer` (Go memory model) and the premise
of `Heap.lean` (no field of an existing node is ever assigned; checked on source and objects). -/

/-- **Every reader, in every interleaving, iterates the view it loaded.** One writer and any number
of readers `rs`, any schedule `acts`, after any history `ops`. For reader `i` (about to call
`SnapshotForBlock(b)`): either it was never scheduled, or its own moves split the schedule at its
load into the writer operations `pre` performed before it and the rest `post`, and what its loop has
yielded so far is exactly the first `readerMoves post` entries of `snapshotFor (run (ops ++ pre)) b` —
the LIST-MODEL view of the storage at the moment of the load — no matter what the writer publishes,
realigns or drops while the reader iterates, and no matter what the other readers do. All theorems
about `snapshotFor (run …) b` (contiguity, alignment, maximality, lookups, state) therefore hold for
what a concurrent reader actually walks. -/
theorem interleaved_readers_see_their_snapshot (ops : List Op) (rs : List RThread) (acts : List Act)
    (i b : Nat) (hi : rs[i]? = some (.idle b)) :
    ((sched (hrun ops) rs acts).2[i]? = some (.idle b) ∧ readerMoves (project i acts) = 0) ∨
    ∃ w pre post, (sched (hrun ops) rs acts).2[i]? = some (.walking w) ∧
      project i acts = pre.map some ++ none :: post ∧
      w.out = ((snapshotFor (run (ops ++ pre)) b).newestFirst).take (readerMoves post) := by
  obtain ⟨h1, _⟩ := sched_project i acts (hrun ops) rs (.idle b) hi
  rcases sched1_reader b (project i acts) ops with ⟨e, m⟩ | ⟨w, pre, post, e, hsplit, hout⟩
  · exact Or.inl ⟨by rw [h1, e], m⟩
  · exact Or.inr ⟨w, pre, post, by rw [h1, e], hsplit, hout⟩

/-- **What a concurrent reader ends up with** (round 6). In ANY interleaving, a reader whose loop has run
to completion — it made at least `Length()` moves after its load, however the writer's operations and
the other readers' moves are scheduled in between — has yielded EXACTLY the entries of the list-model
view at its load: their block numbers are `b, b+1, …, b+Length()-1` (newest first), the reverse is what
`OldestFirst` yields on that view, and the lookups computed from the yielded entries are the model's
lookups on that view (so `lookup_exact_tx` / `lookup_exact_receipt` apply to what the concurrent reader
found). Needs only that the writer performed fewer than `2^64` operations before the load. -/
theorem interleaved_reader_completed_walk (ops : List Op) (rs : List RThread) (acts : List Act)
    (i b : Nat) (hi : rs[i]? = some (.idle b)) (w : Walk)
    (hw : (sched (hrun ops) rs acts).2[i]? = some (.walking w)) :
    ∃ pre post, project i acts = pre.map some ++ none :: post ∧
      ((ops ++ pre).length < U64 →
        let v := snapshotFor (run (ops ++ pre)) b
        v.length ≤ readerMoves post →
          w.out = v.newestFirst ∧ w.out.length = v.length ∧
          w.out.reverse = v.oldestFirst ∧
          w.out.reverse.map (·.number) = List.range' b v.length ∧
          (∀ h, txByHash { nodes := w.out, length := w.out.length } h = txByHash v h) ∧
          (∀ h, receiptByHash { nodes := w.out, length := w.out.length } h = receiptByHash v h)) := by
  rcases interleaved_readers_see_their_snapshot ops rs acts i b hi with ⟨h1, _⟩ | ⟨w', pre, post, h1, hsplit, hout⟩
  · rw [h1] at hw; cases hw
  · rw [h1] at hw
    have hww : w' = w := by injection hw with hw; injection hw
    subst hww
    refine ⟨pre, post, hsplit, ?_⟩
    intro hlen v hmoves
    have hs := snapshot_spec (run_wf (ops ++ pre) hlen) b
    have hnl : v.newestFirst.length = v.length := hs.1
    have hfull : w'.out = v.newestFirst := by
      rw [hout]; exact take_all_of_le (by rw [hnl]; exact hmoves)
    have hol : w'.out.length = v.length := by rw [hfull, hnl]
    have hrev : w'.out.reverse = v.oldestFirst := by rw [hfull, v.oldestFirst_eq]
    refine ⟨hfull, hol, hrev, by rw [hrev]; exact hs.2, ?_, ?_⟩
    · intro h
      simp only [txByHash, Reader.newestFirst, List.take_length]
      rw [hol, hfull]; rfl
    · intro h
      simp only [receiptByHash, Reader.newestFirst, List.take_length]
      rw [hol, hfull]; rfl

/-- … and the readers write nothing: the storage after the schedule is the storage after the writer's
operations alone (so `heap_refines_model` gives its list-model content). -/
theorem interleaved_store_is_writer_history (ops : List Op) (rs : List RThread) (acts : List Act)
    (i : Nat) (t : RThread) (hi : rs[i]? = some t) :
    (sched (hrun ops) rs acts).1.abs = run (ops ++ writerOps (project i acts)) := by
  rw [(sched_project i acts (hrun ops) rs t hi).2, sched1_store, hrun_refines]

/-- A load that falls INSIDE a writer operation — after its allocations, before its publishing
compare-and-swap: the old pointer, a larger heap — takes the same view as a load before the operation
(scheduling whole writer operations loses no behaviour). -/
theorem load_inside_writer_operation_sees_old_view (ops : List Op) (ext : Heap) (b : Nat) :
    hsnapshotFor { heap := (hrun ops).heap ++ ext, inner := (hrun ops).inner } b = hsnapshotFor (hrun ops) b :=
  load_between_allocation_and_publication (hrun_ok ops) ext b

/-! ### 2b'. the publication step: `Load` … `CompareAndSwap` (round 6)

`Cas.lean`: `ApplyUpdate` / `AdvanceTo` as two atomic steps — `current := s.inner.Load()`, then the pure
computation on the object loaded followed (only if it produced something to publish) by
`CompareAndSwap(current, new)` on POINTERS — for any number of goroutines and any schedule. This is the
branch `chain changed between load and store` that `run ops` (one function per operation) leaves out. -/

/-- **Whatever races on the storage, its content is a writer history.** Any number of goroutines calling
`ApplyUpdate` / `AdvanceTo`, any schedule of their `Load`s and swaps: the content of the storage is
`run` of exactly the operations whose `CompareAndSwap` succeeded, in the order of the swaps. A failed
swap (`casFailed`: the error of `ApplyUpdate`, `false` of `AdvanceTo`) and an operation that returned
before swapping leave no trace; an operation never publishes a chain computed from a stale load. So
contiguity / alignment / maximality / lookups / overlay (all stated over `run ops`) hold for every view a
reader can get even if the single-writer discipline were broken — only WHICH operations took effect
changes. -/
theorem racing_writers_content_is_history_of_swaps (acts : List CAct) :
    (csched acts).store.content = run (swappedOps (csched acts).log) :=
  csched_content_from acts {} rfl

/-- **With ONE writer goroutine the swap never fails** and nothing is lost: in any schedule in which only
goroutine `w0` acts (the poller: `tick` → `AdvanceTo`, `apply` → `ApplyUpdate`, one after the other), no
operation ends in `casFailed` and the content is `run` of ALL finished operations in order — the
assumption every other theorem of this file is stated under (`run ops`, "the single writer's CAS never
fails"), now a consequence of the transcription. -/
theorem single_writer_swap_never_fails (w0 : Nat) (acts : List CAct) (hw : ∀ a ∈ acts, a.who = w0) :
    (∀ e ∈ (csched acts).log, e.2 ≠ .casFailed) ∧
    (csched acts).store.content = run ((csched acts).log.map (·.1)) := by
  have h0 : SoleWriter w0 {} := by
    refine ⟨?_, ?_, rfl⟩
    · intro p hp; cases hp
    · intro e he; cases he
  have h := sole_writer_from w0 acts hw {} h0
  exact ⟨h.nofail, h.all⟩

/-! ### 2c. the `NewClasses` maps as objects (round 5)

`ClassAlias.lean`: every `map[felt.Felt]core.ClassDefinition` is an object in a memory with an IN-PLACE
write (`maps.Copy(dst, src)` of `mergeClassesInto`); a map value is nil or an address. Up to round 4
the immutability of published `NewClasses` maps rested on re-hashing only. The identities these
theorems predict (`nil | caller | shared | fresh`) are compared with the pointer identity of the real Go
maps after every `ApplyUpdate` and every state built over a view. -/

/-- **The readers never write a published class map.** The accumulation loop of `PreConfirmedStateAt` /
`PreConfirmedStateBeforeIndexAt` (`newClasses = mergeClassesInto(newClasses, entry.NewClasses)`, which
copies INTO its accumulator) over ANY list of published maps `refs` on ANY memory `m`: every object that
existed before the call is unchanged afterwards; the table handed to `pending.NewState` is nil or a map
the loop allocated itself — never a published one —; and it denotes the value model's fold. -/
theorem readers_never_write_published_class_maps (m : CAlias.CMem) (refs : List CAlias.CRef)
    (hv : ∀ r ∈ refs, CAlias.Valid m r) :
    CAlias.Unch m.length m (CAlias.accumulate m refs).1 ∧
    CAlias.FreshOrNil m.length (CAlias.accumulate m refs).2 ∧
    CAlias.cget (CAlias.accumulate m refs).1 (CAlias.accumulate m refs).2 =
      (refs.map (CAlias.cget m)).foldl mergeClassesInto [] :=
  CAlias.accumulate_frame m refs hv

/-- **The writer never writes a published class map.** Whatever the update variant, what
`computeUpdate` does to class maps when it builds the affected entry (`next.NewClasses = newClasses` for a
full block; `mergeClassesCopying(<the replaced entry's map>, newClasses)` for a delta / no-change) leaves
every existing object unchanged; for a delta / no-change the entry's map is the replaced entry's map
ITSELF when no classes come with the update (read-only sharing) and a freshly allocated map otherwise,
and it denotes the value model's `mergeClassesCopying`. -/
theorem writer_never_writes_published_class_maps (m : CAlias.CMem) (u : Update) {target caller : CAlias.CRef}
    (ht : CAlias.Valid m target) (hc : CAlias.Valid m caller) :
    CAlias.Unch m.length m (CAlias.applyClassRef m u target caller).1 ∧
    ((u matches .block ..) = true → (CAlias.applyClassRef m u target caller).2 = caller) ∧
    ((u matches .block ..) = false →
      (AMap.size (CAlias.cget m caller) = 0 → (CAlias.applyClassRef m u target caller).2 = target) ∧
      (AMap.size (CAlias.cget m caller) ≠ 0 →
        ∃ a, (CAlias.applyClassRef m u target caller).2 = some a ∧ m.length ≤ a) ∧
      CAlias.cget (CAlias.applyClassRef m u target caller).1 (CAlias.applyClassRef m u target caller).2 =
        mergeClassesCopying (CAlias.cget m target) (CAlias.cget m caller)) := by
  refine ⟨CAlias.applyClassRef_frame m u ht hc, ?_, ?_⟩
  · intro hb; cases u <;> simp_all [CAlias.applyClassRef]
  · intro hb
    have h := CAlias.mergeClassesCopying_frame m ht hc
    cases u with
    | block _ _ _ => simp at hb
    | delta _ _ => exact ⟨h.2.1, h.2.2.1, h.2.2.2⟩
    | noChange => exact ⟨h.2.1, h.2.2.1, h.2.2.2⟩

/-- **Over whole histories: a class map, once it exists, is never written again.** Any sequence of
callers allocating the maps they pass in, writer operations building entries and readers building states,
in any order and number (`acts`; every map value an action mentions exists when it runs): every object of
the memory `m` the history started from is unchanged at the end — and `m` is arbitrary, so this holds
from any point of the history on. The caller's part of the bargain (a map handed to `ApplyUpdate` is
never touched again by the caller) is the poller's `fetchDeclaredClasses`, which allocates one map per
call and passes it to exactly one `apply`. -/
theorem class_maps_immutable_over_histories (m : CAlias.CMem) (acts : List CAlias.CAct)
    (h : CAlias.ValidHist m acts) : CAlias.Unch m.length m (acts.foldl CAlias.cstep m) :=
  CAlias.hist_frame acts m h

-- non-vacuity: two published maps (objects 0 and 1); the readers' loop allocates object 2 with both tables
-- and leaves 0 and 1 alone; the writer's delta with no classes shares object 0, with classes allocates object 2
example : CAlias.accumulate [[(200, 1)], [(201, 2)]] [some 0, none, some 1] =
    ([[(200, 1)], [(201, 2)], [(201, 2), (200, 1)]], some 2) := by decide
example : CAlias.applyClassRef [[(200, 1)]] (.delta "r" []) (some 0) none = ([[(200, 1)]], some 0) := by decide
example : CAlias.applyClassRef [[(200, 1)], [(201, 2)]] .noChange (some 0) (some 1) =
    ([[(200, 1)], [(201, 2)], [(201, 2), (200, 1)]], some 2) := by decide

/-! ## 3. the state read through a view is a true overlay -/

/-- **Overlay = fold of the diffs, for any list of blocks.** Let `es` be any list of blocks
(oldest first) whose diffs are well-formed in sequence on the canonical state `canon`
(`ValidChain`). Then every read through the `pending.State` built from the MERGED diffs over the
reader of `canon` equals the same read on the state obtained by applying the blocks one after the
other. Content: merging commutes with sequential application (for one block both sides are the
same precedence table by definition; that this table is what juno's canonical state does is the
harness' second-node oracle, not this theorem). The class table of the specification side is the
entries' `NewClasses`: whether the definitions of declared classes are PRESENT on the entry is
outside it. -/
theorem overlay_equals_fold (canon : St) (es : List PreConf) (bn : Nat) (hv : ValidChain canon es) :
    ReadsEq (overlayOf es canon.reader bn) (applyBlocks canon es).reader :=
  overlay_reads canon es bn hv

/-- **`PreConfirmedStateAt` on a reader's view.** After any history, for the view of head `head`:
a block number outside the view is `ErrPreConfirmedNotFound`; inside it the call fails with the
base's error when `StateAtBlockNumber(head)` fails, and otherwise returns the overlay of exactly the
view's blocks `head+1 … b` (oldest first) over that base. -/
theorem stateAt_merges_prefix (ops : List Op) (hops : ops.length < U64) (head b : Nat)
    (baseAt : Nat → Option Base) :
    let v := snapshotFor (run ops) (head + 1)
    ((head + 1 ≤ b ∧ b ≤ head + v.length) →
      stateAt v b baseAt =
        match baseAt head with
        | none => .error .noBase
        | some base => .ok (overlayOf (v.oldestFirst.take (b - head)) base b)) ∧
    (¬ (head + 1 ≤ b ∧ b ≤ head + v.length) → stateAt v b baseAt = .error .notFound) :=
  stateAt_spec (run_wf ops hops) head b baseAt

/-- **The property's overlay clause, end to end.** After any history, if the canonical state at
`head` is available (`baseAt head = some canon.reader`), the state read through the view of `head`
at one of its blocks `b` equals `canon` overlaid with the state diffs of the view's blocks up to `b`,
in order. -/
theorem view_state_equals_canonical_overlay (ops : List Op) (hops : ops.length < U64) (head b : Nat)
    (canon : St) (baseAt : Nat → Option Base) (hbase : baseAt head = some canon.reader) :
    let v := snapshotFor (run ops) (head + 1)
    (head + 1 ≤ b ∧ b ≤ head + v.length) →
    ValidChain canon (v.oldestFirst.take (b - head)) →
    ∃ p, stateAt v b baseAt = .ok p ∧
      ReadsEq p (applyBlocks canon (v.oldestFirst.take (b - head))).reader := by
  intro v hb hvalid
  have := (stateAt_spec (run_wf ops hops) head b baseAt).1 hb
  rw [hbase] at this
  exact ⟨_, this, overlay_reads canon _ b hvalid⟩

/-- **What a transaction's state diff IS once adapted** (`sn2core.AdaptStateDiff`, transcribed as
`adaptStateDiff`; the overlay theorems speak about adapted diffs). Every map is built by assignment in
wire order, so a read of the adapted diff finds the LAST wire entry with that key — for storage (per
contract and key), nonces, deployments, replacements, declarations, migrations — and a key that does not
occur on the wire is absent; the cairo-0 declarations are the wire list itself. -/
theorem adapted_diff_reads_last_wire_entry (w : WireDiff) :
    (∀ a k, AMap.get (adaptStateDiff w).storage (a, k) =
      (w.storage.reverse.find? (fun e => e.1 == (a, k))).map (·.2)) ∧
    (∀ a, AMap.get (adaptStateDiff w).nonces a = (w.nonces.reverse.find? (fun e => e.1 == a)).map (·.2)) ∧
    (∀ a, AMap.get (adaptStateDiff w).deployed a = (w.deployed.reverse.find? (fun e => e.1 == a)).map (·.2)) ∧
    (∀ a, AMap.get (adaptStateDiff w).replaced a = (w.replaced.reverse.find? (fun e => e.1 == a)).map (·.2)) ∧
    (∀ h, AMap.get (adaptStateDiff w).declaredV1 h = (w.declared.reverse.find? (fun e => e.1 == h)).map (·.2)) ∧
    (∀ h, AMap.get (adaptStateDiff w).migrated h = (w.migrated.reverse.find? (fun e => e.1 == h)).map (·.2)) ∧
    (adaptStateDiff w).declaredV0 = w.oldDeclared :=
  ⟨fun _ _ => assignAll_get _ _, fun _ => assignAll_get _ _, fun _ => assignAll_get _ _, fun _ => assignAll_get _ _,
   fun _ => assignAll_get _ _, fun _ => assignAll_get _ _, rfl⟩

-- a slot written twice in one transaction's wire diff reads the later value; so does a nonce
example : AMap.get (adaptStateDiff { storage := [((7, 1), 5), ((7, 2), 6), ((7, 1), 0)] }).storage (7, 1) = some 0 := by decide
example : AMap.size (adaptStateDiff { storage := [((7, 1), 5), ((7, 2), 6), ((7, 1), 0)] }).storage = 2 := by decide

/-- Every entry the storage ever publishes is internally consistent, for all histories: its
block-level state diff is the merge, in order, of ALL its per-transaction diffs (whatever the
transactions' execution status), and it has as many receipts and per-transaction diffs as
transactions (`TransactionCount` included). -/
theorem entries_consistent (ops : List Op) :
    match run ops with
    | none => True
    | some r => ∀ e ∈ r.nodes, e.diff = Diff.mergeAll e.txDiffs ∧ e.txDiffs.length = e.txs.length ∧
        e.receipts.length = e.txs.length ∧ e.txCount = e.txs.length := by
  have h := run_allOK ops
  cases hr : run ops with
  | none => trivial
  | some r =>
    rw [hr] at h
    intro e he
    have := h e he
    exact ⟨this.diff, this.ndiffs, this.nreceipts, this.count⟩

/-- **`PreConfirmedStateBeforeIndexAt`, every index.** After any history, for the view of `head`:
outside the view not found; for a block `b` of the view (entry `e`): index out of bounds for
`k > len(txs)`; else the base's error if `StateAtBlockNumber(head)` fails; else the view's blocks
older than `b` merged, then the first `k` per-transaction diffs of `b` (classes: older blocks' and
ALL of block `b`'s). -/
theorem stateBeforeIndexAt_layers_prefix (ops : List Op) (hops : ops.length < U64) (head b k : Nat)
    (baseAt : Nat → Option Base) :
    let v := snapshotFor (run ops) (head + 1)
    ((head + 1 ≤ b ∧ b ≤ head + v.length) →
      ∃ e, v.oldestFirst[b - (head + 1)]? = some e ∧ e.number = b ∧
        stateBeforeIndexAt v b k baseAt =
          if k > e.txs.length then .error .indexOutOfBounds
          else match baseAt head with
            | none => .error .noBase
            | some base => .ok (overlayBefore (v.oldestFirst.take (b - (head + 1))) e k base b)) ∧
    (¬ (head + 1 ≤ b ∧ b ≤ head + v.length) → stateBeforeIndexAt v b k baseAt = .error .notFound) :=
  stateBeforeIndexAt_spec (run_wf ops hops) head b k baseAt

/-- With a consistent entry (every published entry is: `entries_consistent`), the state before index
`len(txs)` of a block is the state at that block. -/
theorem state_before_last_index_is_state_at (older : List PreConf) (e : PreConf)
    (he : e.diff = Diff.mergeAll e.txDiffs) (hn : e.txDiffs.length = e.txs.length)
    (head : Base) (bn : Nat) :
    overlayBefore older e e.txs.length head bn = overlayOf (older ++ [e]) head bn := by
  have e1 : e.txDiffs.take e.txs.length = e.txDiffs := by rw [← hn]; exact List.take_length
  simp only [overlayBefore, overlayOf, e1, List.map_append, List.map_cons, List.map_nil,
    List.foldl_append, List.foldl_cons, List.foldl_nil]
  rw [he, merge_mergeAll]

/-- **Views built with `NewChain` around one entry** (the empty-block fallback of
`Synchronizer.PreConfirmedChain`, the block under construction of `Sequencer.PreConfirmedChain`):
state at the entry's number is the overlay of that one entry over the state at number-1 (on
`uint64`), anything else is not found. -/
theorem single_entry_view_state (e : PreConf) (b : Nat) (baseAt : Nat → Option Base) :
    newChain [e] = some { nodes := [e], length := 1 } ∧
    stateAt { nodes := [e], length := 1 } b baseAt =
      if b = e.number then
        match baseAt (pred64 e.number) with
        | none => .error .noBase
        | some base => .ok (overlayOf [e] base b)
      else .error .notFound :=
  ⟨rfl, single_view_state e b baseAt⟩


/-- **The empty-block fallback, whole.** When the storage holds no slot `height+1`,
`Synchronizer.PreConfirmedChain()` builds its view around `MakeEmptyPreConfirmedForParent`, whose state
diff is `makeStateDiffForEmptyBlock` (transcribed: `emptyBlockDiff`, `BlockHashLag = 10`): if the
block-hash lookup fails so does the call; otherwise the view is the single blank block `height+1`, and
every read through it is the read on the canonical state at the head — except storage slot
`height+1-10` of contract `0x1`, which (from block 10 on) reads the hash of block `height+1-10`. -/
theorem fallback_view_is_head_state_plus_blockhash (height : Nat) (cached : Option Nat) (s : Store)
    (hashOf : Nat → Option Felt) (hs : (snapshotFor s (height + 1)).length = 0) :
    match emptyBlockDiff hashOf (height + 1) with
    | none => readerViewFull height cached s hashOf = none
    | some d =>
      readerViewFull height cached s hashOf = some { nodes := [emptyPreConfirmedFor height d], length := 1 } ∧
      ∀ base : Base,
        let p := overlayOf [emptyPreConfirmedFor height d] base (height + 1)
        (∀ a, p.classHash a = base.classHash a) ∧ (∀ a, p.nonce a = base.nonce a) ∧
        (∀ h, p.cls h = base.cls h) ∧ (∀ h, p.casm h = base.casm h) ∧ (∀ h, p.casmV2 h = base.casmV2 h) ∧
        (∀ a k, p.storage a k =
          if a = blockHashContract ∧ blockHashLag ≤ height + 1 ∧ k = height + 1 - blockHashLag then hashOf k
          else base.storage a k) := by
  cases hd : emptyBlockDiff hashOf (height + 1) with
  | none => simp [readerViewFull, hs, hd]
  | some d =>
    refine ⟨?_, fun base => fallback_reads height hashOf d hd base⟩
    simp [readerViewFull, readerView, hs, hd]

-- the lag boundary: block 9 writes nothing, block 10 writes the hash of block 0; a failing lookup fails the call
example : emptyBlockDiff (fun n => some (7000 + n)) 9 = some {} := by decide
example : emptyBlockDiff (fun n => some (7000 + n)) 10 = some { storage := [((1, 0), 7000)] } := by decide
example : emptyBlockDiff (fun _ => none) 10 = none := by decide
example : emptyBlockDiff (fun _ => none) 9 = some {} := by decide

/-! ### wire updates and the adapters' contract

The adapters index receipts and state diffs by transaction and dereference `L1GasPrice` without
checks; their stated contract is `PreConfirmedUpdateEnvelope.Validate`, which every `DataSource`
of juno applies before an update can reach `ApplyUpdate` (`clients/feeder`). -/

/-- **Every update that passes `Validate` is adapted without a panic**: for any envelope — any
lengths of the three slices, nil / zero-valued elements, missing header fields — if
`Validate()` returns nil then the adapter loop and header construction end in an entry or in the
error of `AdaptTransaction`, never in an out-of-range index or nil dereference. -/
theorem validated_update_never_panics (e : RawEnvelope) (h : e.validate = true) :
    (∃ ws, e.adapt = .ok ws) ∨ e.adapt = .adaptError :=
  validated_adapt_no_panic e h

/-- The hypothesis is what carries it: an update that `Validate` refuses (one transaction, no
receipt) does panic the adapter — outside the contract, the harness counts such cases
(`outside-contract-…`) and checks that `Validate` refuses them. -/
theorem unvalidated_update_can_panic :
    ∃ e : RawEnvelope, e.validate = false ∧ (e.adapt matches .panics) = true :=
  ⟨.delta "r" { txs := [some ({ hash := 1, tag := 1 }, false)], receipts := [], diffs := [some {}] },
    by decide, by decide⟩

-- `Validate` accepts well-shaped updates (non-vacuity of the hypothesis)
example : (RawEnvelope.delta "r" (RawUpdate.ofWire
    [{ tx := { hash := 1, tag := 1 }, bad := false, rcpt := { txHash := 1, tag := 1, events := 0 }, diff := {} }])).validate
    = true := by decide

/-! ### sequencer mode: the view over the block under construction (a defect of juno)

Full-strength statement, false of juno: the entry a reader reaches through the view
`Sequencer.PreConfirmedChain` returned is the same after the builder's next batch. -/

/-- `_partial`: it holds if the view is taken over a SNAPSHOT of the build state
(`buildState.Clone()`, the proposed fix). Missing: the code hands out the live entry. -/
theorem sequencer_view_stable_partial (cells : List PreConf) (live : Nat) (ws : List WireTx)
    (hl : live < cells.length) :
    readCell (runBatchInPlace (seqViewSnapshot cells live).1 live ws) (seqViewSnapshot cells live).2 =
      readCell cells live :=
  snapshot_cell_stable cells live ws hl

/-- **Negation witness** (replay `sequencer-view-is-the-live-build-state`): the view over the live
entry reads another transaction list after one batch. -/
theorem sequencer_view_stable_fails :
    ∃ (cells : List PreConf) (live : Nat) (ws : List WireTx),
      (readCell (runBatchInPlace cells live ws) (seqViewLive cells live)).map (·.txs.length) ≠
      (readCell cells live).map (·.txs.length) :=
  ⟨[{ number := 7, ident := "", txCount := 0, eventCount := 0, txs := [], receipts := [], txDiffs := [], diff := {} }],
    0, [{ tx := { hash := 1, tag := 1 }, bad := false, rcpt := { txHash := 1, tag := 1, events := 0 }, diff := {} }],
    by decide⟩

/-! ### `ContractStorageLastUpdatedBlock` through a view (a defect of juno, see notes/C20.md)

The full-strength statement — false of juno as it is — would be:

    theorem lastUpdated_is_newest_writer (es : List PreConf) (head : Base) (b : Nat) (a k : Felt) :
        (overlayOf es head b).lastUpdated a k = lastUpdatedSpec es head a k

i.e. through a view the last-updated block of a slot is the newest block of the view (up to the
requested one) that writes it. `pending.State` keeps one block number for the whole merged diff, so
it answers the REQUESTED block for every slot any block of the view writes. -/

/-- the remaining accessors of `pending.State`, as implemented: `Class(h).At` is 0 for every class the view
carries (the canonical state would answer the declaring block) and the base's answer otherwise; the three
trie getters are never supported -/
theorem class_at_and_tries_through_a_view (p : PState) (h : Felt) :
    p.clsAt h = (if AMap.has p.classes h then some 0 else p.head.clsAt h) ∧ p.trieSupported = false := by
  refine ⟨?_, rfl⟩
  unfold PState.clsAt AMap.has
  cases AMap.get p.classes h <;> rfl

/-- What the code answers, for every overlay (any list of blocks). -/
theorem lastUpdated_as_implemented (es : List PreConf) (head : Base) (b : Nat) (a k : Felt) :
    (overlayOf es head b).lastUpdated a k =
      if es.any (fun e => AMap.has e.diff.storage (a, k)) then some b
      else if es.any (fun e => AMap.has e.diff.deployed a) then some 0
      else head.lastUpd a k :=
  lastUpdated_asis es head b a k

/-- `_partial`: right only when the view does not write the slot at all or the newest block
writing it is the requested block itself. Missing: a slot last written in an OLDER block of the
view — there juno is wrong (next theorem). -/
theorem lastUpdated_is_newest_writer_partial (es : List PreConf) (head : Base) (b : Nat) (a k : Felt)
    (h : lastWriter es a k = none ∨ lastWriter es a k = some b) :
    (overlayOf es head b).lastUpdated a k = lastUpdatedSpec es head a k :=
  lastUpdated_right_when es head b a k h

private def luBlock (n : Nat) (d : Diff) : PreConf :=
  { number := n, ident := "x", txCount := 0, eventCount := 0, txs := [], receipts := [], txDiffs := [d], diff := d }
private def luBase : Base :=
  { classHash := fun _ => some 30, nonce := fun _ => some 0, storage := fun _ _ => some 0,
    cls := fun _ => none, casm := fun _ => none, casmV2 := fun _ => none, lastUpd := fun _ _ => some 0 }

/-- **Negation witness** (replay `storage-last-updated-block-is-the-requested-block`): blocks 11
and 12, slot (7,1) written in 11 only; asked at 12 juno answers 12, the newest writer is 11. -/
theorem lastUpdated_is_newest_writer_fails :
    ∃ (es : List PreConf) (head : Base) (b a k : Nat),
      (overlayOf es head b).lastUpdated a k ≠ lastUpdatedSpec es head a k :=
  ⟨[luBlock 11 { storage := [((7, 1), 5)] }, luBlock 12 { storage := [((7, 2), 6)] }], luBase, 12, 7, 1,
    by decide⟩

/-! ## 4. lookups find exactly the items of the view's blocks -/

/-- **Transaction lookup is exact.** -/
theorem lookup_exact_tx (r : Reader) (h : Felt) :
    (∀ tx, txByHash r h = some tx → tx.hash = h ∧ ∃ e ∈ r.newestFirst, tx ∈ e.txs) ∧
    (txByHash r h = none ↔ ∀ e ∈ r.newestFirst, ∀ tx ∈ e.txs, tx.hash ≠ h) :=
  ⟨fun _ hs => txByHash_some hs, txByHash_none⟩

/-- **Receipt lookup is exact**, and the block number returned with a receipt is the number of
the view's block that holds it. -/
theorem lookup_exact_receipt (r : Reader) (h : Felt) :
    (∀ rc n, receiptByHash r h = some (rc, n) →
        rc.txHash = h ∧ ∃ e ∈ r.newestFirst, rc ∈ e.receipts ∧ e.number = n) ∧
    (receiptByHash r h = none ↔ ∀ e ∈ r.newestFirst, ∀ rc ∈ e.receipts, rc.txHash ≠ h) :=
  ⟨fun _ _ hs => receiptByHash_some hs, receiptByHash_none⟩



/-- **Per-entry lookups** (`(*PreConfirmed).TransactionByHash / ReceiptByHash`, what the rpc handlers
call on an entry of a view; the index goes to `PreConfirmedStateBeforeIndexAt`): a hit is the FIRST
transaction of that entry with that hash, at its position; a miss means the entry holds none. -/
theorem entry_lookup_exact (e : PreConf) (h : Felt) :
    (∀ tx k, e.txByHash h = some (tx, k) →
      e.txs[k]? = some tx ∧ tx.hash = h ∧ ∀ j, j < k → ∀ t, e.txs[j]? = some t → t.hash ≠ h) ∧
    (e.txByHash h = none ↔ ∀ t ∈ e.txs, t.hash ≠ h) ∧
    (∀ rc, e.receiptByHash h = some rc → rc ∈ e.receipts ∧ rc.txHash = h) ∧
    (e.receiptByHash h = none ↔ ∀ rc ∈ e.receipts, rc.txHash ≠ h) := by
  refine ⟨?_, txIndexFrom_none, ?_, ?_⟩
  · intro tx k hs
    have := txIndexFrom_some hs
    simpa using this.2
  · intro rc hs
    exact ⟨List.mem_of_find?_eq_some hs, by simpa using List.find?_some hs⟩
  · simp [PreConf.receiptByHash, List.find?_eq_none]

/-! ## 5. the writer: `preconfirmed.Poller` against an arbitrary data source

`prun ins` is the storage after ANY history of ticks of the real writer (`Poller.lean`: `tick`,
`backfill`, `apply`, `fetchDeclaredClasses`, `atTip`), each tick in ANY environment: any canonical
height (advanced / reverted at will between ticks), any cached `highestBlockHeader`, and a data source
that answers every poll with any update shape (full block / delta / no-change), any identifier, any
content, any block number, or an error, and any `Class` call with any definition or an error. -/

/-- every poller history is a history of writer operations: all statements above about `run ops`
hold for the storages the real writer produces -/
theorem poller_history_is_a_writer_history (ins : List TickIn) : ∃ ops : List Op, prun ins = run ops :=
  prun_reach ins

/-- **`Poller.Run` around the ticks.** (1) Before genesis — while `Height()` answers
`db.ErrKeyNotFound` to the guard at the start and at every ticker firing — `Run` touches nothing: storage
unchanged, no endpoint call, no publication. (2) With polling disabled (`interval == 0`) likewise, for
ever. (3) Whatever the guard answers and whenever, the storage `Run` leaves is the storage after the
ticks that ran (`prun`), hence a writer history (`poller_history_is_a_writer_history`). (4) A tick whose
`Height()` fails (genesis reverted under a running poller) returns the error and touches nothing. -/
theorem poller_run_guard_and_ticks (s : Store) (g0 : Guard) (evs : List TickerEv) (i : TickIn) :
    ((∀ ev ∈ evs, ev.guard = .notFound) → runLoop false s .notFound evs = ({ polling := false, store := s }, [])) ∧
    runLoop true s g0 evs = ({ polling := false, store := s }, []) ∧
    (∀ iz, ∃ ops : List Op, (runLoop iz none g0 evs).1.store = run ops) ∧
    (i.height = none → tick s i = (s, [], some .height)) := by
  refine ⟨runLoop_silent s evs, runLoop_disabled s g0 evs, ?_, tick_without_height s i⟩
  intro iz
  obtain ⟨ins, h⟩ := runLoop_is_tick_history g0 evs iz
  obtain ⟨ops, h'⟩ := prun_reach ins
  exact ⟨ops, h.trans h'⟩

/-- **The decision rule of the class back-fill.** What a successful `fetchDeclaredClasses(storedTip,
update)` returns has as keys EXACTLY: the classes the update's own transaction diffs declare, plus —
only when the update is a delta or a no-change (the re-poll continues the stored tip's round) — the
classes the stored tip's block diff declares. For a full block (a fresh round, whatever its
identifier) nothing of the stored tip is carried over. -/
theorem fetched_classes_exact {src : Source} {tip : Option PreConf} {u : Update} {cls : AMap Felt Nat} {ev : Ev}
    (hf : fetchDeclaredClasses src tip u = (some cls, ev)) (h : Felt) :
    AMap.has cls h = true ↔
      (∃ d ∈ updateDiffs u, Declares d h) ∨
      ((u matches .block ..) = false ∧ ∃ t, tip = some t ∧ Declares t.diff h) := by
  constructor
  · intro hh
    rcases fetch_keys hf h hh with ⟨d, hd, hdecl⟩ | h1
    · right
      cases u with
      | block _ _ _ => simp [storedDiffOf] at hd
      | delta _ _ =>
        simp only [storedDiffOf, Option.map_eq_some_iff] at hd
        obtain ⟨x, hx, rfl⟩ := hd
        exact ⟨rfl, x, hx, hdecl⟩
      | noChange =>
        simp only [storedDiffOf, Option.map_eq_some_iff] at hd
        obtain ⟨x, hx, rfl⟩ := hd
        exact ⟨rfl, x, hx, hdecl⟩
    · exact Or.inl h1
  · rintro (h1 | ⟨hb, t, ht, hdecl⟩)
    · exact fetch_keys_complete hf h (Or.inr h1)
    · apply fetch_keys_complete hf h
      left
      cases u with
      | block _ _ _ => simp at hb
      | delta _ _ => exact ⟨t.diff, by simp [storedDiffOf, ht], hdecl⟩
      | noChange => exact ⟨t.diff, by simp [storedDiffOf, ht], hdecl⟩

/-- **Every entry the poller ever stores carries class definitions only of classes its OWN block
declares** — for all tick histories, all data sources, all head movements. In particular a slot whose
round was replaced (full block with another identifier on the by-number re-poll of the old tip) carries
nothing of the round it replaced. -/
theorem poller_entries_carry_only_declared_classes (ins : List TickIn) :
    match prun ins with
    | none => True
    | some r => ∀ e ∈ r.nodes, ∀ h, AMap.has e.classes h = true → Declares e.diff h :=
  prun_sound ins

/-- **The class table of a view is that of its blocks.** For every poller history, every view
`SnapshotForBlock(b)` and every block `blk` of it: a class the state `PreConfirmedStateAt(blk)`
resolves from the overlay is declared by one of the view's blocks up to `blk` (`uptoBlock`: the
entries the merge loop visits); every other class hash is answered exactly as the canonical state
below the view answers it. The view never resolves a class that none of its blocks (nor the base)
declares. -/
theorem poller_view_classes_declared_by_view_blocks (ins : List TickIn) (b blk : Nat)
    (baseAt : Nat → Option Base) (p : PState)
    (hp : stateAt (snapshotFor (prun ins) b) blk baseAt = .ok p) (h : Felt) :
    (AMap.has p.classes h = true →
      ∃ e ∈ uptoBlock (snapshotFor (prun ins) b).oldestFirst blk, Declares e.diff h) ∧
    (AMap.has p.classes h = false → p.cls h = p.head.cls h) := by
  refine stateAt_classes_declared ?_ hp h
  intro e he
  obtain ⟨r, hr, hmem⟩ := snapshot_nodes_sub _ _ e he
  have := prun_sound ins
  rw [hr] at this
  exact this e hmem

/-- **A slot written by the re-poll step of a tick is class-EXACT.** On a well-formed, class-sound
storage (both are invariants: `stored_chain_wellformed` for every writer history of fewer than `2^64`
operations, `poller_entries_carry_only_declared_classes` for every poller history), let `mostRecent` be
what `tick` computes from the view for `oldestPreConf`. If `fetchDeclaredClasses(mostRecent, update)`
succeeds and `ApplyUpdate(update, n, t, oldestPreConf, fetched)` changes the chain — whatever the
update: full block (bootstrap, extension, same or new round), delta, no-change — then the affected
entry carries the definition of EXACTLY the classes its block diff declares. (That the `storedTip`
handed to the fetch is the slot a delta / no-change lands on is proved, not assumed:
`mostRecentOf_of_changed`.) Exactness is NOT an invariant of all slots over time: see
`poller_tip_classes_incomplete`. -/
theorem repolled_slot_classes_exact {s : Store} (hw : StoreWF s) (hs : StoreSound s) {src : Source}
    {u : Update} {cls : AMap Felt Nat} {ev : Ev} {n t o : Nat}
    (hf : fetchDeclaredClasses src (mostRecentOf s o) u = (some cls, ev))
    {chain : Reader} {aff : PreConf} (hc : computeUpdate s u n t o cls = .changed chain aff) :
    ∀ h, AMap.has aff.classes h = true ↔ Declares aff.diff h :=
  tick_repoll_changed_exact hw hs hf hc

private def pwtx (h : Nat) (d : Diff) : WireTx :=
  { tx := { hash := h, tag := h }, bad := false, rcpt := { txHash := h, tag := h, events := 0 }, diff := d }
private def psrc (latest : Option (Update × Nat)) (byNumber : Nat → Option Update := fun _ => none) : Source :=
  { latest := latest, byNumber := byNumber, classDef := fun h => some (3000 + h) }
private def ptickIn (height : Nat) (s : Source) : TickIn := { height := some height, highest := some height, src := s }

-- `repolled_slot_classes_exact`: the hypotheses are satisfiable and the conclusion is not empty
example : ∃ (s : Store) (cls : AMap Felt Nat) (chain : Reader) (aff : PreConf),
    StoreWF s ∧ StoreSound s ∧
    computeUpdate s (.block "r2" true [pwtx 2 { declaredV0 := [201] }]) 11 1 11 cls = .changed chain aff ∧
    aff.classes = [(201, 3201)] :=
  ⟨run [.apply (.block "r1" true []) 11 0 11 []], [(201, 3201)], _, _, run_wf _ (by decide),
    by intro e he; simp at he
       subst he; intro h hh; simp [AMap.has, AMap.get] at hh,
    rfl, rfl⟩

/-- head 10. Tick 1: the latest block is 11, round `r1`, declaring class 200 (applied by the tick
itself: no classes). Tick 2: the latest block is 12; the by-number re-poll of 11 answers a FULL block
of a NEW round `r2` declaring class 201 only. -/
private def phist : List TickIn :=
  [ptickIn 10 (psrc (some (.block "r1" true [pwtx 1 { declaredV0 := [200] }], 11))),
   ptickIn 10 (psrc (some (.block "s1" true [], 12))
     (fun n => if n = 11 then some (.block "r2" true [pwtx 2 { declaredV0 := [201] }]) else none))]

-- the replaced slot 11 carries class 201 (its own) and NOT class 200 of the round it replaced
example : (match prun phist with
    | some r => r.nodes.map (fun e => (e.number, e.ident, e.classes))
    | none => []) = [(12, "s1", []), (11, "r2", [(201, 3201)])] := by decide

-- the same second tick answered with a NO-CHANGE for the re-poll: the stored tip's class 200 IS carried
example : (match prun [ptickIn 10 (psrc (some (.block "r1" true [pwtx 1 { declaredV0 := [200] }], 11))),
      ptickIn 10 (psrc (some (.block "s1" true [], 12)) (fun n => if n = 11 then some .noChange else none))] with
    | some r => r.nodes.map (fun e => (e.number, e.ident, e.classes))
    | none => []) = [(12, "s1", []), (11, "r1", [(200, 3200)])] := by decide

/-- **Negation witness for completeness at the tip**: the tick applies the sequencer's latest block
with NO classes (`p.apply(update, …, nil)`), so the tip entry declares class 200 while carrying no
definition for it (`Class(200)` through the view is not found until a later backfill re-polls the
slot). The statement "the classes of a view are EXACTLY those its blocks declare" is therefore false
of juno in the ⊇ direction; the ⊆ direction is `poller_entries_carry_only_declared_classes`. -/
theorem poller_tip_classes_incomplete :
    ∃ (ins : List TickIn) (r : Reader) (e : PreConf) (h : Felt),
      prun ins = some r ∧ r.nodes.head? = some e ∧ h ∈ e.diff.declaredV0 ∧ AMap.has e.classes h = false :=
  ⟨phist.take 1, _, _, 200, rfl, rfl, by decide, by decide⟩

-- the fetch rule on concrete inputs: full block vs delta over a tip declaring 200
example : (fetchDeclaredClasses (psrc none)
    (some { number := 11, ident := "r1", txCount := 0, eventCount := 0, txs := [], receipts := [], txDiffs := [],
            diff := { declaredV0 := [200] } })
    (.block "r2" true [pwtx 2 { declaredV0 := [201] }])).1 = some [(201, 3201)] := by decide
example : (fetchDeclaredClasses (psrc none)
    (some { number := 11, ident := "r1", txCount := 0, eventCount := 0, txs := [], receipts := [], txDiffs := [],
            diff := { declaredV0 := [200] } })
    (.delta "r1" [pwtx 2 { declaredV0 := [201] }])).1 = some [(201, 3201), (200, 3200)] := by decide

/-! ## non-vacuity -/

private def wtx (h tag : Nat) (d : Diff) : WireTx :=
  { tx := { hash := h, tag := tag }, bad := false, rcpt := { txHash := h, tag := tag, events := 1 }, diff := d }
private def blk (id : String) (txs : List WireTx := []) : Update := .block id true txs
/-- bootstrap at 11 (deploys 7), extend to 13, new round at the inner slot 12 (truncates 13),
extend, delta, realign to head 11 -/
private def hist : List Op :=
  [.apply (blk "a" [wtx 1 1 { deployed := [(7, 30)] }]) 11 0 11 [],
   .apply (blk "b") 12 0 11 [], .apply (blk "c") 13 0 11 [],
   .apply (blk "b2" [wtx 2 2 { storage := [((7, 1), 5)], nonces := [(7, 1)] }]) 12 0 11 [],
   .apply (blk "d" [wtx 3 3 { storage := [((7, 1), 0)], replaced := [(7, 31)] }]) 13 0 11 [(9, 90)],
   .apply (.delta "d" [wtx 4 4 { nonces := [(7, 2)] }]) 13 1 11 [],
   .advance 12]
example : hist.length < U64 := by decide
example : (snapshotFor (run hist) 12).length = 2 := by decide
example : (snapshotFor (run hist) 12).oldestFirst.map (·.number) = [12, 13] := by decide
example : (snapshotFor (run hist) 11).length = 0 := by decide
-- reader entry point: head 11 → the stored [12,13]; head reverted to 10 (cached header still 13) → fallback block 11
example : (readerView 11 (some 13) (run hist) {}).oldestFirst.map (·.number) = [12, 13] := by decide
example : (readerView 10 (some 13) (run hist) {}).oldestFirst.map (·.number) = [11] := by decide
-- `reader_view_under_head_movement`: head 11 at the first read, reverted to 10 before the second: storage [12,13] → the snapshot for 11; empty storage → block 11
example : (match preConfirmedChain (some 11) (run hist) (some 10) (fun _ => some 9) with
    | .ok v => v.oldestFirst.map (·.number) | .error _ => []) = [12, 13] := by decide
example : (match preConfirmedChain (some 11) none (some 10) (fun _ => some 9) with
    | .ok v => v.oldestFirst.map (·.number) | .error _ => []) = [11] := by decide
example : (preConfirmedChain (some 11) none none (fun _ => some 9) matches .error .header) = true := by decide

example : (txByHash (snapshotFor (run hist) 12) 4).map (·.tag) = some 4 := by decide
example : txByHash (snapshotFor (run hist) 12) 1 = none := by decide
example : ((snapshotFor (run hist) 12).newestFirst.map fun e => (e.txByHash 4).map (·.2)) = [some 1, none] := by decide
example : (receiptByHash (snapshotFor (run hist) 12) 2).map (·.2) = some 12 := by decide
example : ((hsnapshotFor (hrun (hist.take 6)) 11).view (hrun hist).heap).map (·.number) = [13, 12, 11] := by
  decide
-- `interleaved_readers_see_their_snapshot`: two readers and the writer. Reader 0 loads the view for head 10
-- after 3 operations (blocks 13, 12, 11), then the writer replaces slot 12 (truncating 13), extends, appends a
-- delta and realigns while reader 0 walks: it still yields 13, 12 (round "b"), 11. Reader 1 loads after the
-- realignment and yields the new 13, 12 (round "b2").
example : (match (sched (hrun (hist.take 3)) [.idle 11, .idle 12]
      [.reader 0, .writer (hist.getD 3 default), .reader 0, .writer (hist.getD 4 default), .reader 0,
       .writer (hist.getD 5 default), .writer (hist.getD 6 default), .reader 1, .reader 0, .reader 1, .reader 1, .reader 0]).2 with
    | [.walking w0, .walking w1] => (w0.out.map (fun e => (e.number, e.ident)), w1.out.map (fun e => (e.number, e.ident)))
    | _ => ([], [])) = ([(13, "c"), (12, "b"), (11, "a")], [(13, "d"), (12, "b2")]) := by decide
-- `interleaved_reader_completed_walk`: in that schedule reader 0 loads first (`pre = []`), its view has 3 blocks
-- and it makes 3 moves after the load, interleaved with 4 writer operations: the hypotheses are satisfiable
example : (project 0 [Act.reader 0, .writer (hist.getD 3 default), .reader 0, .writer (hist.getD 4 default), .reader 0,
      .writer (hist.getD 5 default), .writer (hist.getD 6 default), .reader 1, .reader 0, .reader 1, .reader 1, .reader 0]).head?.map Option.isNone = some true ∧
    readerMoves ((project 0 [Act.reader 0, .writer (hist.getD 3 default), .reader 0, .writer (hist.getD 4 default), .reader 0,
      .writer (hist.getD 5 default), .writer (hist.getD 6 default), .reader 1, .reader 0, .reader 1, .reader 1, .reader 0]).drop 1) = 4 ∧
    (snapshotFor (run (hist.take 3)) 11).length = 3 := by decide
-- `racing_writers_content_is_history_of_swaps`: goroutines 0 and 1 both load the empty storage and both bootstrap
-- block 11; the first swap wins, the second fails ("chain changed between load and store") and leaves no trace; then
-- goroutine 1 extends. An ABA on nil (0 loads nil; 1 bootstraps and drops the chain again; 0 swaps) succeeds, harmlessly.
example : ((csched [.load 0 (.apply (blk "x") 11 0 11 []), .load 1 (.apply (blk "y") 11 0 11 []), .finish 1, .finish 0,
      .load 1 (.apply (blk "z") 12 0 11 []), .finish 1]).log.map (·.2)) = [.swapped, .casFailed, .swapped] ∧
    (match (csched [.load 0 (.apply (blk "x") 11 0 11 []), .load 1 (.apply (blk "y") 11 0 11 []), .finish 1, .finish 0,
      .load 1 (.apply (blk "z") 12 0 11 []), .finish 1]).store.content with
     | some r => r.nodes.map (fun e => (e.number, e.ident)) | none => []) = [(12, "z"), (11, "y")] := by decide
example : ((csched [.load 0 (.apply (blk "x") 11 0 11 []), .load 1 (.apply (blk "y") 11 0 11 []), .finish 1,
      .load 1 (.advance 20), .finish 1, .finish 0]).log.map (·.2)) = [.swapped, .swapped, .swapped] := by decide
-- one goroutine: a rejected update and an aligned `AdvanceTo` return without swapping, nothing fails
example : ((csched [.load 0 (.apply (blk "x") 11 0 11 []), .finish 0, .load 0 (.apply (blk "g") 14 0 11 []), .finish 0,
      .load 0 (.advance 11), .finish 0]).log.map (·.2)) = [.swapped, .noCas, .noCas] := by decide
-- the two boundaries
example : (computeUpdate (run [.apply (blk "m") (U64 - 1) 0 (U64 - 1) []]) (blk "m2") (U64 - 1) 0 (U64 - 1) []
    matches .err .gap) = true := by decide
example : (snapshotFor (run [.apply (blk "z") 0 0 0 []]) 0).oldest = 0 := by decide

/-! `ValidChain` is satisfiable, and the overlay theorem has a non-trivial instance: the three
blocks the view of `hist.take 6` holds — deploy 7; write slot and nonce; write the slot to zero,
bump the nonce, replace the class — on the empty canonical state. -/
private def canon0 : St :=
  { classHash := fun _ => none, nonce := fun _ => 0, storage := fun _ _ => 0,
    cls := fun _ => none, casm := fun _ => none, casmV2 := fun _ => none }
private def view6 : List PreConf := (snapshotFor (run (hist.take 6)) 11).oldestFirst
example : view6.map (·.number) = [11, 12, 13] := by decide
private def lit (n : Nat) (d : Diff) (c : AMap Felt Nat := []) : PreConf :=
  { number := n, ident := "", txCount := 0, eventCount := 0, txs := [], receipts := [], txDiffs := [], diff := d,
    classes := c }
private def view6lit : List PreConf :=
  [lit 11 { deployed := [(7, 30)] },
   lit 12 { storage := [((7, 1), 5)], nonces := [(7, 1)] },
   lit 13 { storage := [((7, 1), 0)], nonces := [(7, 2)], replaced := [(7, 31)] } [(9, 90)]]
private theorem view6lit_valid : ValidChain canon0 view6lit := by
  refine ⟨⟨?_, ?_, ?_, ?_⟩, ⟨?_, ?_, ?_, ?_⟩, ⟨?_, ?_, ?_, ?_⟩, trivial⟩
  all_goals first
    | (intro a _; rfl)
    | (intro a h; simp [lit, AMap.has, AMap.get] at h; done)
    | (intro a k h; simp [lit, AMap.has, AMap.get] at h; done)
    | (intro a h; simp [lit, AMap.has, AMap.get] at h; subst h; left; decide)
    | (intro a k h; simp [lit, AMap.has, AMap.get] at h; obtain ⟨h1, _⟩ := h; subst h1; left; decide)
private theorem view6_valid : ValidChain canon0 view6 :=
  validChain_congr (by decide) view6lit_valid
/-- the theorem applied: reads through the merged overlay of the three blocks = reads of the state
after applying them one by one, and these are the expected values -/
example : (overlayOf view6 canon0.reader 13).classHash 7 = some 31 ∧
          (overlayOf view6 canon0.reader 13).nonce 7 = some 2 ∧
          (overlayOf view6 canon0.reader 13).storage 7 1 = some 0 ∧
          (overlayOf view6 canon0.reader 13).storage 8 1 = none := by
  have h := overlay_equals_fold canon0 view6 13 view6_valid
  refine ⟨?_, ?_, ?_, ?_⟩
  · rw [h.classHash]; decide
  · rw [h.nonce]; decide
  · rw [h.storage]; decide
  · rw [h.storage]; decide

/-- `view_state_equals_canonical_overlay` instantiated on `hist.take 6`, head 10, block 13, with the
canonical state available at block 10 only: the call succeeds and reads the expected values -/
example : ∃ p, stateAt (snapshotFor (run (hist.take 6)) (10 + 1)) 13
      (fun n => if n = 10 then some canon0.reader else none) = .ok p ∧
    p.nonce 7 = some 2 ∧ p.classHash 7 = some 31 ∧ p.storage 7 1 = some 0 := by
  obtain ⟨p, hp, hr⟩ := view_state_equals_canonical_overlay (hist.take 6) (by decide) 10 13 canon0
    (fun n => if n = 10 then some canon0.reader else none) (by simp) (by decide)
    (validChain_congr (by decide) view6lit_valid)
  refine ⟨p, hp, ?_, ?_, ?_⟩
  · rw [hr.nonce]; decide
  · rw [hr.classHash]; decide
  · rw [hr.storage]; decide
-- … and with the base unavailable (head reverted below the view) the same call fails
example : (stateAt (snapshotFor (run (hist.take 6)) 11) 13 (fun _ => none) matches .error .noBase) = true := by
  decide

end Juno.C20.Props
