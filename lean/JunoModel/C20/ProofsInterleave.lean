import JunoModel.C20.Interleave
import JunoModel.C20.ProofsRefine
/-!
C20 — proofs about interleaved readers (`Interleave.lean`): whatever the schedule, a reader's loop
yields, iteration by iteration, the entries of the view — as the LIST model defines it — of the
storage at the moment of its load.
-/
namespace Juno.C20

theorem take_succ_of_drop_cons {α : Type} {l : List α} {n : Nat} {x : α} {r : List α}
    (h : l.drop n = x :: r) : l.take (n + 1) = l.take n ++ [x] ∧ l.drop (n + 1) = r := by
  induction l generalizing n with
  | nil => simp at h
  | cons y ys ih =>
    cases n with
    | zero =>
      simp only [List.drop_zero, List.cons.injEq] at h
      obtain ⟨rfl, rfl⟩ := h
      simp
    | succ m =>
      simp only [List.drop_succ_cons] at h
      obtain ⟨h1, h2⟩ := ih h
      exact ⟨by simp [List.take_succ_cons, h1], by simpa using h2⟩

theorem take_succ_of_drop_nil {α : Type} {l : List α} {n : Nat} (h : l.drop n = []) :
    l.take (n + 1) = l.take n ∧ l.drop (n + 1) = [] := by
  have hl : l.length ≤ n := List.drop_eq_nil_iff.mp h
  refine ⟨?_, List.drop_eq_nil_iff.mpr (by omega)⟩
  rw [List.take_of_length_le (by omega), List.take_of_length_le hl]

/-- a walk started on the view `V` of heap `h0`, after `n` reader moves: it has yielded the first
`n` entries of `V` and what it can still reach — in `h0` — is the rest of `V` -/
structure WalkInv (h0 : Heap) (V : List PreConf) (n : Nat) (w : Walk) : Prop where
  ptr  : PtrOk h0 w.cur
  out  : w.out = V.take n
  rest : hwalk h0 w.cur w.remaining = V.drop n

/-- one loop iteration executed in ANY later heap `h0 ++ ext` -/
theorem walk_step_inv {h0 : Heap} (hc : Closed h0) (ext : Heap) {V : List PreConf} {n : Nat} {w : Walk}
    (hi : WalkInv h0 V n w) : WalkInv h0 V (n + 1) (w.step (h0 ++ ext)) := by
  obtain ⟨hp, ho, hr⟩ := hi
  rcases w with ⟨cur, rem, out⟩
  simp only at hp ho hr
  cases rem with
  | zero =>
    have hnil : V.drop n = [] := by rw [← hr]; cases cur <;> simp [hwalk]
    obtain ⟨t1, t2⟩ := take_succ_of_drop_nil hnil
    exact ⟨hp, by rw [t1]; exact ho, by rw [t2]; cases cur <;> simp [Walk.step, hwalk]⟩
  | succ k =>
    cases cur with
    | none =>
      have hnil : V.drop n = [] := by rw [← hr]; simp [hwalk]
      obtain ⟨t1, t2⟩ := take_succ_of_drop_nil hnil
      exact ⟨hp, by rw [t1]; exact ho, by rw [t2]; simp [Walk.step, hwalk]⟩
    | some a =>
      have ha : a < h0.length := hp a rfl
      simp only [Walk.step, List.getElem?_append_left ha]
      cases hnd : h0[a]? with
      | none =>
        have hnil : V.drop n = [] := by rw [← hr]; simp [hwalk, hnd]
        obtain ⟨t1, t2⟩ := take_succ_of_drop_nil hnil
        exact ⟨PtrOk.none _, by rw [t1]; exact ho, by rw [t2]; simp [hwalk]⟩
      | some nd =>
        have hcons : V.drop n = nd.pc :: hwalk h0 nd.parent k := by
          rw [← hr]; simp [hwalk, hnd]
        obtain ⟨t1, t2⟩ := take_succ_of_drop_cons hcons
        exact ⟨closed_parent hc hnd, by simp only; rw [t1, ho], by simp only; rw [t2]⟩

/-- a reader that holds a view of `s0` keeps yielding that view's entries through any schedule -/
theorem sched1_walking {s0 : HStore} (hs0 : HOk s0) (V : List PreConf) (acts : List (Option Op)) :
    ∀ (s : HStore) (w : Walk) (n : Nat), HOk s → (∃ ext, s.heap = s0.heap ++ ext) → WalkInv s0.heap V n w →
      ∃ w', (sched1 s (.walking w) acts).2 = .walking w' ∧ WalkInv s0.heap V (n + readerMoves acts) w' := by
  induction acts with
  | nil => intro s w n _ _ hi; exact ⟨w, rfl, by simpa [readerMoves] using hi⟩
  | cons a rest ih =>
    intro s w n hs hext hi
    obtain ⟨ext, he⟩ := hext
    cases a with
    | some o =>
      obtain ⟨⟨e1, h1⟩, ok1⟩ := hstep_grows hs o
      obtain ⟨w', hw', hinv⟩ := ih (hstep s o) w n ok1 ⟨ext ++ e1, by rw [h1, he, List.append_assoc]⟩ hi
      exact ⟨w', by simpa [sched1] using hw', by simpa [readerMoves] using hinv⟩
    | none =>
      have hstep : WalkInv s0.heap V (n + 1) (w.step s.heap) := by
        rw [he]; exact walk_step_inv hs0.closed ext hi
      obtain ⟨w', hw', hinv⟩ := ih s (w.step s.heap) (n + 1) hs ⟨ext, he⟩ hstep
      refine ⟨w', by simpa [sched1, RThread.step] using hw', ?_⟩
      have : n + readerMoves (none :: rest) = n + 1 + readerMoves rest := by
        simp [readerMoves]; omega
      rw [this]; exact hinv

/-- **One reader against the writer, any schedule.** The reader starts idle after the history
`ops`. Either it was never scheduled; or the schedule splits at its first move — the atomic load —
into the writer operations `pre` performed before it and the rest `post`, and what its loop has
yielded is the first `readerMoves post` entries of the LIST-MODEL view of the storage after
`ops ++ pre`, whatever the writer did during the iteration. -/
theorem sched1_reader (b : Nat) (acts : List (Option Op)) : ∀ ops : List Op,
    ((sched1 (hrun ops) (.idle b) acts).2 = .idle b ∧ readerMoves acts = 0) ∨
    ∃ w pre post, (sched1 (hrun ops) (.idle b) acts).2 = .walking w ∧
      acts = pre.map some ++ none :: post ∧
      w.out = ((snapshotFor (run (ops ++ pre)) b).newestFirst).take (readerMoves post) := by
  induction acts with
  | nil => intro ops; exact Or.inl ⟨rfl, rfl⟩
  | cons a rest ih =>
    intro ops
    cases a with
    | some o =>
      have hrun' : hstep (hrun ops) o = hrun (ops ++ [o]) := by simp [hrun, List.foldl_append]
      rcases ih (ops ++ [o]) with ⟨h1, h2⟩ | ⟨w, pre, post, h1, h2, h3⟩
      · exact Or.inl ⟨by simpa [sched1, hrun'] using h1, by simpa [readerMoves] using h2⟩
      · refine Or.inr ⟨w, o :: pre, post, by simpa [sched1, hrun'] using h1, by simp [h2], ?_⟩
        rw [h3, List.append_assoc]; rfl
    | none =>
      right
      have hs := hrun_ok ops
      have hv := hsnapshot_view ops b
      have hi : WalkInv (hrun ops).heap ((hsnapshotFor (hrun ops) b).view (hrun ops).heap) 0
          (Walk.start (hsnapshotFor (hrun ops) b)) :=
        ⟨hsnapshot_ptr hs b, by simp [Walk.start], by simp [Walk.start, HReader.view]⟩
      obtain ⟨w', hw', hinv⟩ := sched1_walking hs _ rest (hrun ops) _ 0 hs ⟨[], by simp⟩ hi
      refine ⟨w', [], rest, by simpa [sched1, RThread.step] using hw', by simp, ?_⟩
      rw [hinv.out, hv.1]; simp

theorem modifyAt_get {α : Type} (f : α → α) : ∀ (l : List α) (j i : Nat),
    (modifyAt f l j)[i]? = if j = i then (l[i]?).map f else l[i]? := by
  intro l
  induction l with
  | nil => intro j i; simp [modifyAt]
  | cons x xs ih =>
    intro j i
    cases j with
    | zero =>
      cases i with
      | zero => simp [modifyAt]
      | succ i => simp [modifyAt]
    | succ j =>
      cases i with
      | zero => simp [modifyAt]
      | succ i => simp [modifyAt, ih j i]

/-- **Readers do not see each other.** In a schedule of one writer and any number of readers,
reader `i` ends exactly where it ends in the one-reader schedule made of the writer's operations and
its own moves; the storage is what the writer's operations make it. -/
theorem sched_project (i : Nat) (acts : List Act) : ∀ (s : HStore) (rs : List RThread) (t : RThread),
    rs[i]? = some t →
    (sched s rs acts).2[i]? = some (sched1 s t (project i acts)).2 ∧
    (sched s rs acts).1 = (sched1 s t (project i acts)).1 := by
  induction acts with
  | nil => intro s rs t h; exact ⟨by simpa [sched, project, sched1] using h, rfl⟩
  | cons a rest ih =>
    intro s rs t h
    cases a with
    | writer o => simpa [sched, project, sched1] using ih (hstep s o) rs t h
    | reader j =>
      by_cases hj : j = i
      · subst hj
        have : (modifyAt (RThread.step s) rs j)[j]? = some (t.step s) := by
          rw [modifyAt_get]; simp [h]
        simpa [sched, project, sched1] using ih s _ _ this
      · have : (modifyAt (RThread.step s) rs j)[i]? = some t := by
          rw [modifyAt_get]; simp [hj, h]
        simpa [sched, project, sched1, hj] using ih s _ _ this

/-- a load that falls between the allocations of a writer operation and its publication (the old
pointer, a larger heap) takes the same view as a load before the operation -/
theorem load_between_allocation_and_publication {s : HStore} (hs : HOk s) (ext : Heap) (b : Nat) :
    hsnapshotFor { heap := s.heap ++ ext, inner := s.inner } b = hsnapshotFor s b := by
  unfold hsnapshotFor
  cases hin : s.inner with
  | none => rfl
  | some cur =>
    have : cur.abs (s.heap ++ ext) = cur.abs s.heap := by
      simp only [HReader.abs]
      have := hfull_append hs.closed ext (hs.head cur hin)
      unfold hfull at this
      rw [this]
    simp only [this]

/-- the storage after a schedule is the storage after the writer's operations: readers write nothing -/
theorem sched1_store (acts : List (Option Op)) : ∀ (ops : List Op) (t : RThread),
    (sched1 (hrun ops) t acts).1 = hrun (ops ++ writerOps acts) := by
  induction acts with
  | nil => intro ops t; simp [sched1, writerOps]
  | cons a rest ih =>
    intro ops t
    cases a with
    | some o =>
      have hrun' : hstep (hrun ops) o = hrun (ops ++ [o]) := by simp [hrun, List.foldl_append]
      simp only [sched1, hrun', ih, writerOps, List.filterMap_cons, id, List.append_assoc]
      rfl
    | none => simp only [sched1, ih, writerOps, List.filterMap_cons, id]

/-- a finished walk: after at least `Length()` moves the reader has yielded the whole view -/
theorem take_all_of_le {α : Type} {l : List α} {n : Nat} (h : l.length ≤ n) : l.take n = l :=
  List.take_of_length_le h

end Juno.C20
