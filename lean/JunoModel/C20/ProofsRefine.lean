import JunoModel.C20.ProofsHeap
import JunoModel.C20.ProofsEntries
/-!
C20 — the pointer-level model (`Heap.lean`) refines the list model (`Model.lean`): after any
history the published heap reader denotes exactly the list-model store, so every theorem about
`run ops` is a theorem about what the heap holds.
-/
namespace Juno.C20

/-- the whole linked list reachable from `a` -/
def hfull (h : Heap) (a : Option Nat) : List PreConf := hwalk h a h.length

/-- fuel above the start address is enough -/
theorem hwalk_fuel {h : Heap} (hc : Closed h) :
    ∀ x n m, x < n → x < m → hwalk h (some x) n = hwalk h (some x) m := by
  intro x
  induction x using Nat.strongRecOn with
  | _ x ih =>
    intro n m hn hm
    cases n with
    | zero => omega
    | succ n =>
      cases m with
      | zero => omega
      | succ m =>
        simp only [hwalk]
        cases hnd : h[x]? with
        | none => rfl
        | some nd =>
          simp only
          cases hp : nd.parent with
          | none => cases n <;> cases m <;> simp [hwalk]
          | some p =>
            have hlt := hc x nd hnd p hp
            rw [ih p hlt n m (by omega) (by omega)]

theorem hfull_cons {h : Heap} (hc : Closed h) {x : Nat} {nd : HNode} (hnd : h[x]? = some nd) :
    hfull h (some x) = nd.pc :: hfull h nd.parent := by
  have hx : x < h.length := by
    rcases Nat.lt_or_ge x h.length with hl | hl
    · exact hl
    · rw [List.getElem?_eq_none hl] at hnd; cases hnd
  unfold hfull
  obtain ⟨k, hk⟩ : ∃ k, h.length = k + 1 := ⟨h.length - 1, by omega⟩
  rw [hk]
  simp only [hwalk, hnd]
  congr 1
  cases hp : nd.parent with
  | none => cases k <;> simp [hwalk]
  | some p =>
    have hlt := hc x nd hnd p hp
    exact hwalk_fuel hc p k (k + 1) (by omega) (by omega)

theorem hfull_none_idx {h : Heap} {x : Nat} (hnd : h[x]? = none) : hfull h (some x) = [] := by
  unfold hfull
  cases hl : h.length with
  | zero => simp [hwalk]
  | succ k => simp [hwalk, hnd]

theorem hfull_nil (h : Heap) : hfull h none = [] := by
  unfold hfull; cases h.length <;> simp [hwalk]

theorem hfull_append {h : Heap} (hc : Closed h) (ext : Heap) {a : Option Nat} (ha : PtrOk h a) :
    hfull (h ++ ext) a = hfull h a := by
  unfold hfull
  rw [hwalk_append hc ext _ a ha]
  cases a with
  | none => cases (h ++ ext).length <;> cases h.length <;> simp [hwalk]
  | some x =>
    have := ha x rfl
    exact hwalk_fuel hc x _ _ (by simp only [List.length_append]; omega) this

theorem hfull_alloc {h : Heap} (hc : Closed h) (pc : PreConf) {parent : Option Nat}
    (hp : PtrOk h parent) :
    hfull (halloc h pc parent).1 (some (halloc h pc parent).2) = pc :: hfull h parent := by
  obtain ⟨e1, e2, _⟩ := halloc_spec hc pc hp
  have hidx : (halloc h pc parent).1[(halloc h pc parent).2]? = some { pc := pc, parent := parent } := by
    simp [halloc]
  rw [hfull_cons e2 hidx]
  simp only
  rw [e1, hfull_append hc _ hp]

theorem hfollow_drop {h : Heap} (hc : Closed h) :
    ∀ d a, hfull h (hfollow h a d) = (hfull h a).drop d := by
  intro d
  induction d with
  | zero => intro a; cases a <;> simp [hfollow]
  | succ d ih =>
    intro a
    cases a with
    | none => simp [hfollow, hfull_nil]
    | some x =>
      simp only [hfollow]
      cases hnd : h[x]? with
      | none => simp [hfull_none_idx hnd, hfull_nil]
      | some nd =>
        simp only
        rw [ih nd.parent, hfull_cons hc hnd]
        simp

theorem hparentOf_drop {h : Heap} (hc : Closed h) (a : Option Nat) (d : Nat) :
    hfull h (hparentOf h (hfollow h a d)) = (hfull h a).drop (d + 1) := by
  have := hfollow_drop hc d a
  rw [← List.drop_drop, ← this]
  cases ht : hfollow h a d with
  | none => simp [hparentOf, hfull_nil]
  | some t =>
    simp only [hparentOf]
    cases hnd : h[t]? with
    | none => simp [hfull_none_idx hnd, hfull_nil]
    | some nd => simp [hfull_cons hc hnd]

theorem hrebuild_take {h : Heap} (hc : Closed h) :
    ∀ keep a, PtrOk h a →
      hfull (hrebuild h a keep).1 (hrebuild h a keep).2 = (hfull h a).take keep := by
  intro keep
  induction keep with
  | zero => intro a _; simp [hrebuild, hfull_nil]
  | succ keep ih =>
    intro a ha
    cases a with
    | none => simp [hrebuild, hfull_nil]
    | some x =>
      simp only [hrebuild]
      cases hnd : h[x]? with
      | none => simp [hfull_none_idx hnd, hfull_nil]
      | some nd =>
        simp only
        obtain ⟨_, hc', hp'⟩ := hrebuild_spec hc keep nd.parent (closed_parent hc hnd)
        rw [hfull_alloc hc' nd.pc hp', ih nd.parent (closed_parent hc hnd), hfull_cons hc hnd]
        simp

/-! ### what the new chain of `computeUpdate` looks like, branch by branch -/

theorem bootstrap_nodes {u : Update} {b o : Nat} {c : AMap Felt Nat} {chain : Reader} {aff : PreConf}
    (hb : bootstrap u b o c = .changed chain aff) : chain.nodes = [aff] := by
  cases u with
  | block ident verOk txs =>
    simp only [bootstrap, bootstrapChain] at hb
    split at hb
    · cases hb
    · split at hb
      · cases hb
      · cases hb; rfl
  | delta _ _ => cases hb
  | noChange => cases hb

theorem computeUpdate_nodes_none {u : Update} {b t o : Nat} {c : AMap Felt Nat}
    {chain : Reader} {aff : PreConf} (hc : computeUpdate none u b t o c = .changed chain aff) :
    chain.nodes = [aff] := bootstrap_nodes (by simpa [computeUpdate] using hc)

theorem computeUpdate_nodes_some {cur : Reader} {u : Update} {b t o : Nat} {c : AMap Felt Nat}
    {chain : Reader} {aff : PreConf} (hc : computeUpdate (some cur) u b t o c = .changed chain aff) :
    if cur.length == 0 then chain.nodes = [aff]
    else if b == succ64 cur.tip then chain.nodes = aff :: cur.nodes
    else chain.nodes = aff :: cur.nodes.drop (cur.tip - b + 1) := by
  unfold computeUpdate at hc
  simp only at hc
  by_cases hl0 : (cur.length == 0) = true
  · simp only [hl0, ↓reduceIte] at hc ⊢
    exact bootstrap_nodes hc
  · simp only [hl0, Bool.false_eq_true, ↓reduceIte] at hc ⊢
    split at hc
    · cases hc
    · split at hc
      · cases hc
      · split at hc
        · cases hc
        · by_cases hext : (b == succ64 cur.tip) = true
          · simp only [hext, ↓reduceIte] at hc ⊢
            cases u with
            | block ident verOk txs =>
              simp only [extend] at hc
              split at hc
              · cases hc
              · cases hc; rfl
            | delta _ _ => cases hc
            | noChange => cases hc
          · simp only [hext, Bool.false_eq_true, ↓reduceIte] at hc ⊢
            unfold replaceSlot at hc
            simp only at hc
            split at hc
            · cases hc
            · rename_i target parent hdrop
              have hpar : cur.nodes.drop (cur.tip - b + 1) = parent := by
                rw [← List.drop_drop, hdrop]; rfl
              rw [hpar]
              cases u with
              | block ident verOk txs =>
                simp only at hc
                split at hc
                · cases hc
                · split at hc
                  · cases hc
                  · cases hc; rfl
              | delta ident txs =>
                simp only at hc
                split at hc
                · cases hc
                · split at hc
                  · cases hc
                  · split at hc
                    · cases hc
                    · cases hc; rfl
              | noChange =>
                simp only at hc
                split at hc
                · cases hc
                · split at hc
                  · cases hc
                  · split at hc
                    · cases hc
                    · cases hc; rfl

/-! ### refinement -/

theorem habs_some (s : HStore) (cur : HReader) (h : s.inner = some cur) :
    s.abs = some { nodes := hfull s.heap cur.head, length := cur.length } := by
  simp [HStore.abs, h, HReader.abs, hfull]

theorem hadvanceTo_refines {s : HStore} (hs : HOk s) (o : Nat) :
    (hadvanceTo s o).1.abs = (advanceTo s.abs o).1 := by
  cases hin : s.inner with
  | none => simp [hadvanceTo, advanceTo, HStore.abs, hin]
  | some cur =>
    have habs := habs_some s cur hin
    unfold hadvanceTo advanceTo
    rw [habs]
    simp only [hin]
    have hr : cur.abs s.heap = { nodes := hfull s.heap cur.head, length := cur.length } := rfl
    rw [hr]
    split
    · exact habs
    · split
      · exact habs
      · split
        · simp [HStore.abs]
        · simp only [HStore.abs, Option.map_some, HReader.abs, rebuild_eq_take]
          have := hrebuild_take hs.closed
            (cur.length - (o - Reader.oldest { nodes := hfull s.heap cur.head, length := cur.length }))
            cur.head (hs.head cur hin)
          simp only [hfull] at this ⊢
          rw [this]

theorem happlyUpdate_refines {s : HStore} (hs : HOk s) (u : Update) (b t o : Nat) (c : AMap Felt Nat) :
    (happlyUpdate s u b t o c).1.abs = (applyUpdate s.abs u b t o c).1 := by
  -- allocation of the new head on top of `parent`
  have alloc : ∀ (next : PreConf) (parent : Option Nat) (chain : Reader), PtrOk s.heap parent →
      chain.nodes = next :: hfull s.heap parent →
      ({ heap := (halloc s.heap next parent).1,
         inner := some { head := some (halloc s.heap next parent).2, length := chain.length } } : HStore).abs
        = some chain := by
    intro next parent chain hp hn
    have := hfull_alloc hs.closed next hp
    simp only [HStore.abs, Option.map_some, HReader.abs]
    simp only [hfull] at this
    rw [this]
    cases chain
    simp_all [hfull]
  unfold happlyUpdate applyUpdate
  simp only
  cases hcu : computeUpdate s.abs u b t o c with
  | noop => rfl
  | err e => rfl
  | changed chain next =>
    simp only
    cases hin : s.inner with
    | none =>
      simp only
      have : s.abs = none := by simp [HStore.abs, hin]
      rw [this] at hcu
      have hnodes := computeUpdate_nodes_none hcu
      exact alloc next none chain (PtrOk.none _) (by simpa [hfull_nil] using hnodes)
    | some cur =>
      have habs := habs_some s cur hin
      rw [habs] at hcu
      have hnodes := computeUpdate_nodes_some hcu
      simp only at hnodes ⊢
      have hr : cur.abs s.heap = { nodes := hfull s.heap cur.head, length := cur.length } := rfl
      rw [hr]
      by_cases hl0 : (cur.length == 0) = true
      · simp only [hl0, ↓reduceIte] at hnodes ⊢
        exact alloc next none chain (PtrOk.none _) (by simpa [hfull_nil] using hnodes)
      · simp only [hl0, Bool.false_eq_true, ↓reduceIte] at hnodes ⊢
        by_cases hext : (b == succ64 (Reader.tip { nodes := hfull s.heap cur.head, length := cur.length })) = true
        · simp only [hext, ↓reduceIte] at hnodes ⊢
          exact alloc next cur.head chain (hs.head cur hin) hnodes
        · simp only [hext, Bool.false_eq_true, ↓reduceIte] at hnodes ⊢
          have hpo := hparentOf_drop hs.closed cur.head
            (Reader.tip { nodes := hfull s.heap cur.head, length := cur.length } - b)
          have hptr : PtrOk s.heap (hparentOf s.heap (hfollow s.heap cur.head
              (Reader.tip { nodes := hfull s.heap cur.head, length := cur.length } - b))) := by
            have hf := hfollow_ok hs.closed
              (Reader.tip { nodes := hfull s.heap cur.head, length := cur.length } - b) cur.head (hs.head cur hin)
            unfold hparentOf
            split
            · exact PtrOk.none _
            · split
              · exact PtrOk.none _
              · rename_i nd hnd
                exact closed_parent hs.closed hnd
          exact alloc next _ chain hptr (by rw [hpo]; exact hnodes)

theorem hstep_refines {s : HStore} (hs : HOk s) (op : Op) : (hstep s op).abs = step s.abs op := by
  cases op with
  | apply u b t o c => exact happlyUpdate_refines hs u b t o c
  | advance o => exact hadvanceTo_refines hs o

theorem hrun_refines (ops : List Op) : (hrun ops).abs = run ops := by
  unfold hrun run
  suffices h : ∀ (s : HStore), HOk s → (ops.foldl hstep s).abs = ops.foldl step s.abs by
    simpa [HStore.abs] using h {} hok_init
  induction ops with
  | nil => intro s _; rfl
  | cons op rest ih =>
    intro s hs
    simp only [List.foldl_cons]
    rw [ih _ (hstep_grows hs op).2, hstep_refines hs op]

theorem hwalk_take {h : Heap} (hc : Closed h) :
    ∀ n a, hwalk h a n = (hfull h a).take n := by
  intro n
  induction n with
  | zero => intro a; cases a <;> simp [hwalk]
  | succ n ih =>
    intro a
    cases a with
    | none => simp [hwalk, hfull_nil]
    | some x =>
      cases hnd : h[x]? with
      | none => simp [hwalk, hnd, hfull_none_idx hnd]
      | some nd => simp [hwalk, hnd, hfull_cons hc hnd, ih nd.parent]

/-- the view a heap reader takes is the view of the list model -/
theorem hsnapshot_view (ops : List Op) (b : Nat) :
    (hsnapshotFor (hrun ops) b).view (hrun ops).heap = (snapshotFor (run ops) b).newestFirst ∧
    (hsnapshotFor (hrun ops) b).length = (snapshotFor (run ops) b).length := by
  have href := hrun_refines ops
  have hok := hrun_ok ops
  generalize hrun ops = s at href hok
  rw [← href]
  cases hin : s.inner with
  | none => simp [hsnapshotFor, snapshotFor, HStore.abs, hin, HReader.view, HReader.empty, hwalk,
      Reader.empty, Reader.newestFirst]
  | some cur =>
    simp only [hsnapshotFor, snapshotFor, HStore.abs, hin, Option.map_some]
    split
    · simp [HReader.view, HReader.empty, hwalk, Reader.empty, Reader.newestFirst]
    · refine ⟨?_, rfl⟩
      simp only [HReader.view, Reader.newestFirst]
      rw [hwalk_take hok.closed]
      rfl

end Juno.C20
