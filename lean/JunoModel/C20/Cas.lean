import JunoModel.C20.Model
/-!
C20 — the publication step: `Load` … `CompareAndSwap` (round 6).

`Model.lean` runs a writer operation as one function `step : Store → Op → Store`: the single writer's
compare-and-swap cannot fail, and up to round 5 the branch

    if !s.inner.CompareAndSwap(current, newChain) { return nil, errors.New("chain changed between load and store") }

of `ApplyUpdate` (and the `bool` of the two `CompareAndSwap`s of `AdvanceTo`) was "not modelled (single
writer)". Here it is transcribed, with ANY number of goroutines calling `ApplyUpdate` / `AdvanceTo`:

* `s.inner` is an `atomic.Pointer[ChainReader]`; every publication stores the address of a FRESH
  `&ChainReader{…}` (or nil). `CasStore.objs` lists the `ChainReader` objects ever published (address =
  index; Go never reuses an address while someone still holds it, so an address denotes one object for
  ever, and the objects are immutable), `CasStore.inner` is the pointer value;
* an operation is two atomic steps: `load` (`current := s.inner.Load()`) and `finish` — the pure
  computation on the object it loaded (`computeUpdate`, or the three cases of `AdvanceTo`) followed, only
  when that computation produced something to publish, by `CompareAndSwap(current, new)`, which compares
  POINTERS (`none == none` is the nil case: an ABA on nil is harmless, nil has one content);
* a schedule (`List CAct`) says which goroutine does which step when. Nothing is assumed about it.

`ProofsCas.lean`: whatever the schedule, the content of the storage is `run` of the operations whose swap
succeeded, in the order of their swaps (a failed swap and an operation that returned before swapping leave
no trace), and with ONE writer goroutine a swap never fails and the content is `run` of all its operations —
the assumption under which every other C20 theorem is stated.

Core Lean only.
-/
namespace Juno.C20

/-- `ChainStorage.inner` with the identity of the objects it has pointed to -/
structure CasStore where
  objs  : List Reader := []
  inner : Option Nat := none
  deriving Inhabited

/-- dereference a `*ChainReader` (nil, or an object that was published at some time) -/
def CasStore.deref (s : CasStore) (p : Option Nat) : Store :=
  match p with
  | none => none
  | some a => s.objs[a]?

/-- what `s.inner.Load()` followed by a dereference yields now -/
def CasStore.content (s : CasStore) : Store := s.deref s.inner

/-- a goroutine between the `Load` and the end of its operation -/
structure PendingOp where
  loaded : Option Nat
  op     : Op
  deriving Inhabited

/-- how an operation ended: its `CompareAndSwap` succeeded / failed ("chain changed between load and
store", resp. `AdvanceTo` = false) / it returned without calling `CompareAndSwap` (rejection, no-op,
already aligned, nothing stored) -/
inductive CasRes | swapped | casFailed | noCas
  deriving DecidableEq, Repr, Inhabited

/-- the pure part of an operation on the content it loaded: `some new` = it goes on to
`CompareAndSwap(current, new)` (`new = none`: `AdvanceTo` dropping the chain), `none` = it returns -/
def wants (cur : Store) : Op → Option Store
  | .apply u b t o c =>
    match computeUpdate cur u b t o c with
    | .changed chain _ => some (some chain)
    | _ => none
  | .advance o =>
    match advanceTo cur o with
    | (s', true) => some s'
    | (_, false) => none

/-- the second step of an operation -/
def casFinish (s : CasStore) (p : PendingOp) : CasStore × CasRes :=
  match wants (s.deref p.loaded) p.op with
  | none => (s, .noCas)
  | some new =>
    if s.inner = p.loaded then
      match new with
      | none => ({ s with inner := none }, .swapped)
      | some r => ({ objs := s.objs ++ [r], inner := some s.objs.length }, .swapped)
    else (s, .casFailed)

/-- who does what next -/
inductive CAct
  | load (w : Nat) (op : Op)   -- goroutine `w` enters `ApplyUpdate` / `AdvanceTo`: `s.inner.Load()`
  | finish (w : Nat)           -- goroutine `w` computes and, if there is something to publish, swaps
  deriving Inhabited

/-- the goroutines: what each one is in the middle of -/
abbrev Threads := Nat → Option PendingOp

structure CasState where
  store   : CasStore := {}
  threads : Threads := fun _ => none
  log     : List (Op × CasRes) := []   -- the finished operations with their outcome, in order of finishing

def CasState.step (st : CasState) : CAct → CasState
  | .load w op =>
    { st with threads := fun j => if j = w then some { loaded := st.store.inner, op := op } else st.threads j }
  | .finish w =>
    match st.threads w with
    | none => st
    | some p =>
      let r := casFinish st.store p
      { store := r.1, threads := fun j => if j = w then none else st.threads j, log := st.log ++ [(p.op, r.2)] }

/-- run a schedule from `NewChainStorage()` with every goroutine idle -/
def csched (acts : List CAct) : CasState := acts.foldl CasState.step {}

/-- the operations whose swap succeeded, in swap order -/
def swappedOps (log : List (Op × CasRes)) : List Op :=
  (log.filter (fun e => e.2 == .swapped)).map (·.1)

/-- the goroutine an action belongs to -/
def CAct.who : CAct → Nat
  | .load w _ => w
  | .finish w => w

end Juno.C20
