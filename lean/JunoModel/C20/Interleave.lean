import JunoModel.C20.Heap
/-!
C20 — one writer and any number of lock-free readers, INTERLEAVED (round 5).

`Heap.lean` runs whole writer operations one after the other and lets a reader dereference a held
`(head, length)` in a later heap in one go. Here the reader is a goroutine with a program counter:

* its first step is the atomic load of `SnapshotForBlock(b)` (`s.inner.Load()`, then the pure
  computation of `contains` / `want` on the immutable `ChainReader` it got);
* every further step is ONE iteration of the loop of `NewestFirst`

      for count := 0; count < c.length && current != nil; count++ {
          yield(current.preconfirmed); current = current.parent }

  i.e. one pointer dereference, executed against the heap AS IT IS AT THAT MOMENT;

and a schedule says who moves next: the single writer (one whole `ApplyUpdate` / `AdvanceTo`: its
allocations followed by the publication) or reader `i`. Nothing is assumed about the schedule.

Granularity. Go's memory model gives sequential consistency to the `atomic.Pointer` accesses; the
nodes and `ChainReader`s a writer operation allocates are not reachable by any reader before the
publishing `CompareAndSwap` (they are only referenced from the writer's stack). A reader load that
falls between the allocations and the publication of an operation therefore sees the old pointer in
a larger heap, which is the same view as a load before the operation
(`ProofsInterleave.load_between_allocation_and_publication`): scheduling whole writer operations
loses no behaviour. The premise of `Heap.lean` stays: no instruction assigns to a field of an
existing node (checked on the source and on the real objects by the harness).

Core Lean only.
-/
namespace Juno.C20

/-- a reader goroutine in the middle of `NewestFirst`: the `current` pointer, how many iterations
are left (`c.length - count`), the entries it has yielded so far (in order) -/
structure Walk where
  cur       : Option Nat
  remaining : Nat
  out       : List PreConf
  deriving Inhabited

/-- the iterator is created on a view -/
def Walk.start (r : HReader) : Walk := { cur := r.head, remaining := r.length, out := [] }

/-- one iteration of the loop against heap `h`; a finished walk stays as it is -/
def Walk.step (h : Heap) (w : Walk) : Walk :=
  match w.remaining, w.cur with
  | n + 1, some a =>
    match h[a]? with
    | some nd => { cur := nd.parent, remaining := n, out := w.out ++ [nd.pc] }
    | none => { w with cur := none }   -- a dangling pointer (Go would fault); excluded by `HOk`
  | _, _ => w

/-- a reader goroutine: about to call `SnapshotForBlock(b)`, or iterating the view it got -/
inductive RThread
  | idle (b : Nat)
  | walking (w : Walk)
  deriving Inhabited

/-- the reader's next step in store `s` -/
def RThread.step (s : HStore) : RThread → RThread
  | .idle b => .walking (Walk.start (hsnapshotFor s b))
  | .walking w => .walking (w.step s.heap)

/-- who moves next -/
inductive Act
  | writer (o : Op)    -- the single writer performs one operation
  | reader (i : Nat)   -- reader `i` performs its next step
  deriving Inhabited

def modifyAt {α : Type} (f : α → α) : List α → Nat → List α
  | [], _ => []
  | x :: xs, 0 => f x :: xs
  | x :: xs, i + 1 => x :: modifyAt f xs i

/-- run a schedule: one writer, the readers `rs` -/
def sched (s : HStore) (rs : List RThread) : List Act → HStore × List RThread
  | [] => (s, rs)
  | .writer o :: rest => sched (hstep s o) rs rest
  | .reader i :: rest => sched s (modifyAt (RThread.step s) rs i) rest

/-- the same with ONE reader: `some o` = the writer performs `o`, `none` = the reader moves -/
def sched1 (s : HStore) (t : RThread) : List (Option Op) → HStore × RThread
  | [] => (s, t)
  | some o :: rest => sched1 (hstep s o) t rest
  | none :: rest => sched1 s (t.step s) rest

/-- what a schedule looks like from reader `i`: the writer's operations and its own steps -/
def project (i : Nat) : List Act → List (Option Op)
  | [] => []
  | .writer o :: rest => some o :: project i rest
  | .reader j :: rest => if j = i then none :: project i rest else project i rest

/-- number of reader moves in a one-reader schedule -/
def readerMoves (acts : List (Option Op)) : Nat := (acts.filter (·.isNone)).length

/-- the writer operations of a one-reader schedule -/
def writerOps (acts : List (Option Op)) : List Op := acts.filterMap id

end Juno.C20
