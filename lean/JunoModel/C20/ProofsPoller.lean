import JunoModel.C20.Poller
import JunoModel.C20.ProofsOverlay
/-!
C20 — the class definitions a view carries are those its own blocks declare, for every history of
ticks of the poller (`Poller.lean`) against an arbitrary data source.
-/
namespace Juno.C20

/-- the state diff `d` declares class `h` (cairo0: `DeclaredV0Classes`, sierra: `DeclaredV1Classes`) -/
def Declares (d : Diff) (h : Felt) : Prop := h ∈ d.declaredV0 ∨ AMap.has d.declaredV1 h = true

/-- every class definition registered on the entry (`NewClasses`) is of a class the entry's own
block diff declares -/
def ClassesSound (e : PreConf) : Prop := ∀ h, AMap.has e.classes h = true → Declares e.diff h

def StoreSound : Store → Prop
  | none => True
  | some r => ∀ e ∈ r.nodes, ClassesSound e

/-! ### association lists -/

theorem AMap.has_iff_mem {β : Type} (m : AMap Felt β) (k : Felt) :
    AMap.has m k = true ↔ k ∈ m.map (·.1) := by
  induction m with
  | nil => simp [AMap.has, AMap.get]
  | cons kv rest ih =>
    obtain ⟨k', v⟩ := kv
    simp only [AMap.has, AMap.get, List.map_cons, List.mem_cons]
    by_cases hk : k' = k
    · subst hk; simp
    · have : (k' == k) = false := by simpa using hk
      simp only [this, Bool.false_eq_true, ↓reduceIte]
      have h' := ih
      simp only [AMap.has] at h'
      rw [h']
      constructor
      · intro h; exact Or.inr h
      · rintro (h | h)
        · exact absurd h.symm hk
        · exact h

theorem AMap.has_nil {β : Type} (k : Felt) : AMap.has ([] : AMap Felt β) k = false := by
  simp [AMap.has, AMap.get]

theorem AMap.has_set {β : Type} (m : AMap Felt β) (k : Felt) (v : β) (h : Felt) :
    AMap.has (AMap.set m k v) h = true ↔ k = h ∨ AMap.has m h = true := by
  simp only [AMap.has_iff_mem, AMap.set, List.map_cons, List.mem_cons]
  constructor
  · rintro (h | h)
    · exact Or.inl h.symm
    · exact Or.inr h
  · rintro (h | h)
    · exact Or.inl h.symm
    · exact Or.inr h

theorem keys_foldl_mem {β : Type} (m : AMap Felt β) (acc : List Felt) (x : Felt) :
    x ∈ m.foldl (fun acc kv => if acc.contains kv.1 then acc else acc ++ [kv.1]) acc ↔
      x ∈ acc ∨ x ∈ m.map (·.1) := by
  induction m generalizing acc with
  | nil => simp
  | cons kv rest ih =>
    simp only [List.foldl_cons, List.map_cons, List.mem_cons]
    rw [ih]
    by_cases hc : acc.contains kv.1 = true
    · simp only [hc, ↓reduceIte]
      have hmem : kv.1 ∈ acc := by simpa using hc
      constructor
      · rintro (h | h)
        · exact Or.inl h
        · exact Or.inr (Or.inr h)
      · rintro (h | h | h)
        · exact Or.inl h
        · exact Or.inl (h ▸ hmem)
        · exact Or.inr h
    · simp only [hc, Bool.false_eq_true, ↓reduceIte, List.mem_append, List.mem_singleton]
      constructor
      · rintro ((h | h) | h)
        · exact Or.inl h
        · exact Or.inr (Or.inl h)
        · exact Or.inr (Or.inr h)
      · rintro (h | h | h)
        · exact Or.inl (Or.inl h)
        · exact Or.inl (Or.inr h)
        · exact Or.inr h

theorem AMap.mem_keys {β : Type} (m : AMap Felt β) (k : Felt) :
    k ∈ AMap.keys m ↔ AMap.has m k = true := by
  rw [AMap.has_iff_mem]
  unfold AMap.keys
  rw [keys_foldl_mem]
  simp

theorem has_mergeClassesCopying (base extra : AMap Felt Nat) (h : Felt) :
    AMap.has (mergeClassesCopying base extra) h = true ↔
      AMap.has extra h = true ∨ AMap.has base h = true := by
  unfold mergeClassesCopying
  split
  · rename_i hs
    have : extra = [] := AMap.size_eq_zero (by simpa using hs)
    subst this
    simp [AMap.has_nil]
  · rw [AMap.has_copyInto]; simp

/-! ### what a diff declares -/

theorem declares_empty (h : Felt) : ¬ Declares Diff.empty h := by
  simp [Declares, Diff.empty, AMap.has_nil]

theorem declares_merge (d inc : Diff) (h : Felt) :
    Declares (d.merge inc) h ↔ Declares d h ∨ Declares inc h := by
  simp only [Declares, Diff.merge, List.mem_append, AMap.has_copyInto, Bool.or_eq_true]
  constructor
  · rintro ((h1 | h1) | (h1 | h1))
    · exact Or.inl (Or.inl h1)
    · exact Or.inr (Or.inl h1)
    · exact Or.inr (Or.inr h1)
    · exact Or.inl (Or.inr h1)
  · rintro ((h1 | h1) | (h1 | h1))
    · exact Or.inl (Or.inl h1)
    · exact Or.inr (Or.inr h1)
    · exact Or.inl (Or.inr h1)
    · exact Or.inr (Or.inl h1)

theorem declares_foldl_merge (l : List Diff) (acc : Diff) (h : Felt) :
    Declares (l.foldl Diff.merge acc) h ↔ Declares acc h ∨ ∃ d ∈ l, Declares d h := by
  induction l generalizing acc with
  | nil => simp
  | cons x rest ih =>
    simp only [List.foldl_cons, List.mem_cons]
    rw [ih, declares_merge]
    constructor
    · rintro ((h1 | h1) | ⟨d, hd, h1⟩)
      · exact Or.inl h1
      · exact Or.inr ⟨x, Or.inl rfl, h1⟩
      · exact Or.inr ⟨d, Or.inr hd, h1⟩
    · rintro (h1 | ⟨d, hd | hd, h1⟩)
      · exact Or.inl (Or.inl h1)
      · exact Or.inl (Or.inr (hd ▸ h1))
      · exact Or.inr ⟨d, hd, h1⟩

theorem declares_mergeAll (l : List Diff) (h : Felt) :
    Declares (Diff.mergeAll l) h ↔ ∃ d ∈ l, Declares d h := by
  unfold Diff.mergeAll
  rw [declares_foldl_merge]
  constructor
  · rintro (h1 | h1)
    · exact absurd h1 (declares_empty h)
    · exact h1
  · exact Or.inr

theorem mem_wireDeclared (d : Diff) (h : Felt) : h ∈ wireDeclared d ↔ Declares d h := by
  simp only [wireDeclared, Declares, List.mem_append, AMap.has_iff_mem, List.map_reverse, List.mem_reverse]

/-! ### the fetch -/

theorem fetchLoop_has {cd : Felt → Option Nat} {hs : List Felt} {acc m : AMap Felt Nat}
    (hf : fetchLoop cd hs acc = some m) (h : Felt) :
    AMap.has m h = true ↔ h ∈ hs ∨ AMap.has acc h = true := by
  induction hs generalizing acc with
  | nil =>
    simp only [fetchLoop, Option.some.injEq] at hf
    subst hf; simp
  | cons x rest ih =>
    simp only [fetchLoop] at hf
    split at hf
    · exact absurd hf (by simp)
    · rw [ih hf, AMap.has_set, List.mem_cons]
      constructor
      · rintro (h1 | h1 | h1)
        · exact Or.inl (Or.inr h1)
        · exact Or.inl (Or.inl h1.symm)
        · exact Or.inr h1
      · rintro ((h1 | h1) | h1)
        · exact Or.inr (Or.inl h1.symm)
        · exact Or.inl h1
        · exact Or.inr (Or.inr h1)

theorem mem_declaredClassHashes (stored : Option Diff) (upd : List Diff) (h : Felt) :
    h ∈ declaredClassHashes stored upd ↔
      (∃ d, stored = some d ∧ Declares d h) ∨ ∃ d ∈ upd, Declares d h := by
  unfold declaredClassHashes
  rw [List.mem_append, List.mem_flatMap]
  have e2 : (∃ a ∈ upd, h ∈ wireDeclared a) ↔ ∃ d ∈ upd, Declares d h := by
    constructor
    · rintro ⟨a, ha, hm⟩; exact ⟨a, ha, (mem_wireDeclared a h).1 hm⟩
    · rintro ⟨a, ha, hm⟩; exact ⟨a, ha, (mem_wireDeclared a h).2 hm⟩
  rw [e2]
  cases stored with
  | none => simp
  | some d =>
    simp only [List.mem_append, AMap.mem_keys, Option.some.injEq, exists_eq_left']
    rfl

/-- what a successful `fetchDeclaredClasses` returns has exactly the declared hashes as keys: those
of the update's own diffs and — for a delta / no-change re-poll only — those the stored tip declares -/
theorem fetch_keys {src : Source} {tip : Option PreConf} {u : Update} {cls : AMap Felt Nat} {ev : Ev}
    (hf : fetchDeclaredClasses src tip u = (some cls, ev)) (h : Felt) :
    AMap.has cls h = true →
      (∃ d, storedDiffOf tip u = some d ∧ Declares d h) ∨ ∃ d ∈ updateDiffs u, Declares d h := by
  unfold fetchDeclaredClasses at hf
  simp only at hf
  split at hf
  · simp only [Prod.mk.injEq, Option.some.injEq] at hf
    obtain ⟨rfl, _⟩ := hf
    simp [AMap.has_nil]
  · split at hf
    · simp at hf
    · rename_i m hm
      simp only [Prod.mk.injEq, Option.some.injEq] at hf
      obtain ⟨rfl, _⟩ := hf
      intro hh
      have := (fetchLoop_has hm h).1 hh
      rcases this with h1 | h1
      · exact (mem_declaredClassHashes _ _ h).1 h1
      · simp [AMap.has_nil] at h1

/-- completeness of a successful fetch: every declared hash is a key -/
theorem fetch_keys_complete {src : Source} {tip : Option PreConf} {u : Update} {cls : AMap Felt Nat} {ev : Ev}
    (hf : fetchDeclaredClasses src tip u = (some cls, ev)) (h : Felt) :
    ((∃ d, storedDiffOf tip u = some d ∧ Declares d h) ∨ ∃ d ∈ updateDiffs u, Declares d h) →
      AMap.has cls h = true := by
  intro hd
  have hmem := (mem_declaredClassHashes (storedDiffOf tip u) (updateDiffs u) h).2 hd
  unfold fetchDeclaredClasses at hf
  simp only at hf
  split at hf
  · rename_i hz
    exfalso
    -- count = 0 but a hash is declared
    have hz' : declaredClassCount (storedDiffOf tip u) (updateDiffs u) = 0 := by simpa using hz
    unfold declaredClassCount at hz'
    unfold declaredClassHashes at hmem
    have hsum : ∀ (l : List Diff) (a : Nat),
        (l.map fun d => d.declaredV0.length + d.declaredV1.length).foldl (· + ·) a = 0 →
        a = 0 ∧ ∀ d ∈ l, d.declaredV0 = [] ∧ d.declaredV1 = [] := by
      intro l
      induction l with
      | nil => intro a ha; exact ⟨by simpa using ha, by simp⟩
      | cons x rest ih =>
        intro a ha
        simp only [List.map_cons, List.foldl_cons] at ha
        obtain ⟨h0, hr⟩ := ih _ ha
        have hx0 : x.declaredV0.length = 0 := by omega
        have hx1 : x.declaredV1.length = 0 := by omega
        refine ⟨by omega, ?_⟩
        intro d hd
        rcases List.mem_cons.1 hd with rfl | hd
        · exact ⟨List.length_eq_zero_iff.1 hx0, List.length_eq_zero_iff.1 hx1⟩
        · exact hr d hd
    generalize hgen : (List.map (fun d => d.declaredV0.length + d.declaredV1.length) (updateDiffs u)).foldl
      (· + ·) 0 = tot at hz'
    have hB := (hsum (updateDiffs u) 0 (by rw [hgen]; omega)).2
    cases hs : storedDiffOf tip u with
    | none =>
      rw [hs] at hmem
      simp only [List.nil_append] at hmem
      obtain ⟨d, hd, hm⟩ := List.mem_flatMap.1 hmem
      obtain ⟨e0, e1⟩ := hB d hd
      simp [wireDeclared, e0, e1] at hm
    | some d =>
      rw [hs] at hmem hz'
      simp only at hmem hz'
      have h0 : d.declaredV0 = [] := List.length_eq_zero_iff.1 (by omega)
      have h1' : d.declaredV1 = [] := AMap.size_eq_zero (by omega)
      rcases List.mem_append.1 hmem with h1 | h1
      · rw [h0, h1'] at h1
        simp [AMap.keys] at h1
      · obtain ⟨d', hd, hm⟩ := List.mem_flatMap.1 h1
        obtain ⟨e0, e1⟩ := hB d' hd
        simp [wireDeclared, e0, e1] at hm
  · split at hf
    · simp at hf
    · rename_i m hm
      simp only [Prod.mk.injEq, Option.some.injEq] at hf
      obtain ⟨rfl, _⟩ := hf
      exact (fetchLoop_has hm h).2 (Or.inl hmem)

/-! ### the storage operations preserve soundness -/

theorem advanceTo_sound {s : Store} (hs : StoreSound s) (o : Nat) : StoreSound (advanceTo s o).1 := by
  unfold advanceTo
  cases s with
  | none => exact hs
  | some cur =>
    simp only
    split
    · exact hs
    · split
      · exact hs
      · split
        · trivial
        · intro e he
          simp only [rebuild_eq_take] at he
          exact hs e (List.mem_of_mem_take he)

theorem adaptBlock_sound {ident : String} {verOk : Bool} {txs : List WireTx} {n : Nat} {cls : AMap Felt Nat}
    {next : PreConf} (ha : adaptBlock ident verOk txs n cls = .ok next)
    (hcls : ∀ h, AMap.has cls h = true → ∃ d ∈ txs.map (·.diff), Declares d h) : ClassesSound next := by
  unfold adaptBlock at ha
  split at ha
  · exact absurd ha (by simp)
  · split at ha
    · exact absurd ha (by simp)
    · simp only [Except.ok.injEq] at ha
      subst ha
      intro h hh
      exact (declares_mergeAll _ h).2 (hcls h hh)

theorem adaptDelta_diff {cur : PreConf} {ident : String} {txs : List WireTx} {next : PreConf}
    (ha : adaptDelta cur ident txs = .ok next) :
    next.classes = cur.classes ∧
    ∀ h, Declares next.diff h ↔ Declares cur.diff h ∨ ∃ d ∈ txs.map (·.diff), Declares d h := by
  unfold adaptDelta at ha
  split at ha
  · exact absurd ha (by simp)
  · split at ha
    · exact absurd ha (by simp)
    · simp only [Except.ok.injEq] at ha
      subst ha
      refine ⟨rfl, ?_⟩
      intro h
      simp only
      rw [declares_foldl_merge, declares_merge]
      constructor
      · rintro ((h1 | h1) | h1)
        · exact absurd h1 (declares_empty h)
        · exact Or.inl h1
        · exact Or.inr h1
      · rintro (h1 | h1)
        · exact Or.inl (Or.inr h1)
        · exact Or.inr h1

/-- the classes handed to `ApplyUpdate` are acceptable for update `u` on storage `s`: each is
declared by the update's own diffs, or — for a delta / no-change only — by the entry at the HEAD
of the stored chain (the slot a delta / no-change can only target) -/
def ClassesFor (s : Store) (u : Update) (cls : AMap Felt Nat) : Prop :=
  ∀ h, AMap.has cls h = true →
    (∃ d ∈ updateDiffs u, Declares d h) ∨
    ((u matches .block ..) = false ∧ ∃ r x rest, s = some r ∧ r.nodes = x :: rest ∧ Declares x.diff h)

theorem bootstrap_sound {u : Update} {n o : Nat} {cls : AMap Felt Nat} {chain : Reader} {aff : PreConf}
    (hcls : ∀ h, AMap.has cls h = true → ∃ d ∈ updateDiffs u, Declares d h)
    (hb : bootstrap u n o cls = .changed chain aff) : ∀ e ∈ chain.nodes, ClassesSound e := by
  unfold bootstrap at hb
  cases u with
  | block ident verOk txs =>
    simp only [bootstrapChain] at hb
    split at hb
    · exact absurd hb (by simp)
    · split at hb
      · exact absurd hb (by simp)
      · rename_i next hn
        simp only [Outcome.changed.injEq] at hb
        obtain ⟨rfl, _⟩ := hb
        intro e he
        simp only [List.mem_singleton] at he
        subst he
        exact adaptBlock_sound hn hcls
  | delta _ _ => simp at hb
  | noChange => simp at hb

theorem computeUpdate_sound {s : Store} (hs : StoreSound s) {u : Update} {n t o : Nat} {cls : AMap Felt Nat}
    (hcls : ClassesFor s u cls) {chain : Reader} {aff : PreConf}
    (hc : computeUpdate s u n t o cls = .changed chain aff) : ∀ e ∈ chain.nodes, ClassesSound e := by
  -- a full block's classes are declared by the block itself
  have hblock : ∀ ident verOk txs, u = .block ident verOk txs →
      ∀ h, AMap.has cls h = true → ∃ d ∈ txs.map (·.diff), Declares d h := by
    intro ident verOk txs hu h hh
    rcases hcls h hh with h1 | ⟨h1, _⟩
    · subst hu; exact h1
    · subst hu; simp at h1
  unfold computeUpdate at hc
  cases s with
  | none =>
    simp only at hc
    refine bootstrap_sound ?_ hc
    intro h hh
    rcases hcls h hh with h1 | ⟨_, r, x, rest, hr, _⟩
    · exact h1
    · exact absurd hr (by simp)
  | some cur =>
    simp only at hc
    have hcur : ∀ e ∈ cur.nodes, ClassesSound e := hs
    split at hc
    · -- length 0: bootstrap; a delta / no-change cannot bootstrap, a block carries its own
      rename_i hl
      cases u with
      | block ident verOk txs =>
        exact bootstrap_sound (hblock ident verOk txs rfl) hc
      | delta _ _ => simp [bootstrap] at hc
      | noChange => simp [bootstrap] at hc
    · split at hc
      · exact absurd hc (by simp)
      · split at hc
        · exact absurd hc (by simp)
        · split at hc
          · exact absurd hc (by simp)
          · split at hc
            · -- extend
              cases u with
              | block ident verOk txs =>
                simp only [extend] at hc
                split at hc
                · exact absurd hc (by simp)
                · rename_i next hn
                  simp only [Outcome.changed.injEq] at hc
                  obtain ⟨rfl, _⟩ := hc
                  intro e he
                  rcases List.mem_cons.1 he with rfl | he
                  · exact adaptBlock_sound hn (hblock ident verOk txs rfl)
                  · exact hcur e he
              | delta _ _ => simp at hc
              | noChange => simp at hc
            · -- replaceSlot
              unfold replaceSlot at hc
              simp only at hc
              split at hc
              · exact absurd hc (by simp)
              · rename_i target parent hdrop
                have hsub : ∀ e ∈ target :: parent, e ∈ cur.nodes := by
                  intro e he
                  rw [← hdrop] at he
                  exact List.mem_of_mem_drop he
                have hpar : ∀ e ∈ parent, ClassesSound e := fun e he => hcur e (hsub e (List.mem_cons_of_mem _ he))
                have htgt : ClassesSound target := hcur target (hsub target (List.mem_cons_self ..))
                cases u with
                | block ident verOk txs =>
                  simp only at hc
                  split at hc
                  · exact absurd hc (by simp)
                  · rename_i next hn
                    split at hc
                    · exact absurd hc (by simp)
                    · simp only [Outcome.changed.injEq] at hc
                      obtain ⟨rfl, _⟩ := hc
                      intro e he
                      rcases List.mem_cons.1 he with rfl | he
                      · exact adaptBlock_sound hn (hblock ident verOk txs rfl)
                      · exact hpar e he
                | delta ident txs =>
                  simp only at hc
                  split at hc
                  · exact absurd hc (by simp)
                  · rename_i hdepth
                    split at hc
                    · exact absurd hc (by simp)
                    · split at hc
                      · exact absurd hc (by simp)
                      · rename_i next0 hn
                        simp only [Outcome.changed.injEq] at hc
                        obtain ⟨rfl, _⟩ := hc
                        obtain ⟨hcl, hdecl⟩ := adaptDelta_diff hn
                        -- depth 0: the target is the head of the stored chain
                        have hd0 : cur.tip - n = 0 := by simpa using hdepth
                        rw [hd0, List.drop_zero] at hdrop
                        intro e he
                        rcases List.mem_cons.1 he with rfl | he
                        · intro h hh
                          simp only at hh ⊢
                          rw [has_mergeClassesCopying, hcl] at hh
                          rw [hdecl]
                          rcases hh with h1 | h1
                          · rcases hcls h h1 with h2 | ⟨_, r, x, rest, hr, hx, h2⟩
                            · exact Or.inr h2
                            · simp only [Option.some.injEq] at hr
                              subst hr
                              rw [hdrop] at hx
                              simp only [List.cons.injEq] at hx
                              rw [hx.1]; exact Or.inl h2
                          · exact Or.inl (htgt h h1)
                        · exact hpar e he
                | noChange =>
                  simp only at hc
                  split at hc
                  · exact absurd hc (by simp)
                  · split at hc
                    · exact absurd hc (by simp)
                    · rename_i hdepth
                      split at hc
                      · exact absurd hc (by simp)
                      · simp only [Outcome.changed.injEq] at hc
                        obtain ⟨rfl, _⟩ := hc
                        have hd0 : cur.tip - n = 0 := by simpa using hdepth
                        rw [hd0, List.drop_zero] at hdrop
                        intro e he
                        rcases List.mem_cons.1 he with rfl | he
                        · intro h hh
                          simp only at hh ⊢
                          rw [has_mergeClassesCopying] at hh
                          rcases hh with h1 | h1
                          · rcases hcls h h1 with ⟨d, hd, _⟩ | ⟨_, r, x, rest, hr, hx, h2⟩
                            · simp [updateDiffs] at hd
                            · simp only [Option.some.injEq] at hr
                              subst hr
                              rw [hdrop] at hx
                              simp only [List.cons.injEq] at hx
                              rw [hx.1]; exact h2
                          · exact htgt h h1
                        · exact hpar e he

theorem applyUpdate_sound {s : Store} (hs : StoreSound s) {u : Update} (n t o : Nat) {cls : AMap Felt Nat}
    (hcls : ClassesFor s u cls) : StoreSound (applyUpdate s u n t o cls).1 := by
  unfold applyUpdate
  split
  · rename_i chain aff hc
    exact computeUpdate_sound hs hcls hc
  · exact hs
  · exact hs

theorem papply_sound {s : Store} (hs : StoreSound s) {u : Update} (n t o : Nat) {cls : AMap Felt Nat}
    (hcls : ClassesFor s u cls) : StoreSound (papply s u n t o cls).1 := by
  have := applyUpdate_sound hs n t o hcls
  unfold papply
  split <;> rename_i heq <;> rw [heq] at this <;> exact this

theorem classesFor_nil (s : Store) (u : Update) : ClassesFor s u [] := by
  intro h hh; simp [AMap.has_nil] at hh

/-- what `fetchDeclaredClasses` returns for a FRESH slot (no stored tip) is acceptable on any storage -/
theorem classesFor_fetch_fresh {src : Source} {u : Update} {cls : AMap Felt Nat} {ev : Ev} (s : Store)
    (hf : fetchDeclaredClasses src none u = (some cls, ev)) : ClassesFor s u cls := by
  intro h hh
  rcases fetch_keys hf h hh with ⟨d, hd, _⟩ | h1
  · cases u <;> simp [storedDiffOf] at hd
  · exact Or.inl h1

/-- … and for the re-poll of the old tip when `storedTip` is the entry at the head of the stored chain -/
theorem classesFor_fetch_tip {src : Source} {u : Update} {cls : AMap Felt Nat} {ev : Ev} {s : Store}
    {tip : Option PreConf}
    (htip : ∀ x, tip = some x → ∃ r rest, s = some r ∧ r.nodes = x :: rest)
    (hf : fetchDeclaredClasses src tip u = (some cls, ev)) : ClassesFor s u cls := by
  intro h hh
  rcases fetch_keys hf h hh with ⟨d, hd, hdecl⟩ | h1
  · right
    cases u with
    | block _ _ _ => simp [storedDiffOf] at hd
    | delta _ _ =>
      simp only [storedDiffOf, Option.map_eq_some_iff] at hd
      obtain ⟨x, hx, rfl⟩ := hd
      obtain ⟨r, rest, hr, hn⟩ := htip x hx
      exact ⟨rfl, r, x, rest, hr, hn, hdecl⟩
    | noChange =>
      simp only [storedDiffOf, Option.map_eq_some_iff] at hd
      obtain ⟨x, hx, rfl⟩ := hd
      obtain ⟨r, rest, hr, hn⟩ := htip x hx
      exact ⟨rfl, r, x, rest, hr, hn, hdecl⟩
  · exact Or.inl h1

theorem backfillFrom_sound (src : Source) (o : Nat) : ∀ (fuel : Nat) (s : Store) (n : Nat),
    StoreSound s → StoreSound (backfillFrom src o s n fuel).1 := by
  intro fuel
  induction fuel with
  | zero => intro s n hs; exact hs
  | succ k ih =>
    intro s n hs
    simp only [backfillFrom]
    split
    · exact hs
    · rename_i u hu
      split
      · exact hs
      · rename_i cls ev hf
        have hp := papply_sound hs (u := u) n 0 o (classesFor_fetch_fresh s hf)
        split
        · rename_i s' e evs heq
          rw [heq] at hp; exact hp
        · rename_i s' evs heq
          rw [heq] at hp
          exact ih s' (n + 1) hp

theorem mostRecentOf_head {s : Store} {o : Nat} {x : PreConf} (h : mostRecentOf s o = some x) :
    ∃ r rest, s = some r ∧ r.nodes = x :: rest := by
  unfold mostRecentOf at h
  simp only at h
  split at h
  · cases s with
    | none => simp [snapshotFor, Reader.empty, Reader.headEntry] at h
    | some cur =>
      simp only [snapshotFor] at h
      split at h
      · simp [Reader.empty, Reader.headEntry] at h
      · simp only [Reader.headEntry] at h
        split at h
        · exact absurd h (by simp)
        · cases hn : cur.nodes with
          | nil => rw [hn] at h; simp at h
          | cons y rest =>
            rw [hn] at h
            simp only [List.head?_cons, Option.some.injEq] at h
            exact ⟨cur, rest, rfl, by rw [h] at hn; exact hn⟩
  · exact absurd h (by simp)

theorem backfill_sound {src : Source} {s : Store} (hs : StoreSound s) (o : Nat) {tip : Option PreConf}
    (htip : ∀ x, tip = some x → ∃ r rest, s = some r ∧ r.nodes = x :: rest)
    (fromBlock : Nat) (ident : String) (txCount endEx : Nat) :
    StoreSound (backfill src s o tip fromBlock ident txCount endEx).1 := by
  unfold backfill
  split
  · exact hs
  · rename_i u hu
    split
    · exact hs
    · rename_i cls ev hf
      have hp := papply_sound hs (u := u) fromBlock txCount o (classesFor_fetch_tip htip hf)
      split
      · rename_i s' e evs heq
        rw [heq] at hp; exact hp
      · rename_i s' evs heq
        rw [heq] at hp
        exact backfillFrom_sound src o _ s' _ hp

theorem tickApply_sound {src : Source} {s1 : Store} (h1 : StoreSound s1) (o : Nat) {mr : Option PreConf}
    (htip : ∀ x, mr = some x → ∃ r rest, s1 = some r ∧ r.nodes = x :: rest)
    (fromBlock : Nat) (ident : String) (txCount : Nat) (update : Update) (num : Nat) :
    StoreSound (tickApply src s1 o mr fromBlock ident txCount update num).1 := by
  have h2 : StoreSound (if num > fromBlock then backfill src s1 o mr fromBlock ident txCount num
      else (s1, [], none)).1 := by
    split
    · exact backfill_sound h1 _ htip _ _ _ _
    · exact h1
  unfold tickApply
  split
  · rename_i s2 evs e heq
    rw [heq] at h2; exact h2
  · rename_i s2 evs heq
    rw [heq] at h2
    have hp := papply_sound h2 (u := update) num txCount o (classesFor_nil s2 update)
    split
    · rename_i s3 e evs' heq'
      rw [heq'] at hp; exact hp
    · rename_i s3 evs' heq'
      rw [heq'] at hp; exact hp

theorem tick_sound {s : Store} (hs : StoreSound s) (i : TickIn) : StoreSound (tick s i).1 := by
  unfold tick
  split
  · exact hs
  · rename_i height hh
    have h1 : StoreSound (advanceTo s (height + 1)).1 := advanceTo_sound hs _
    simp only
    split
    · exact h1
    · split
      · exact h1
      · exact tickApply_sound h1 _ (fun x hx => mostRecentOf_head hx) _ _ _ _ _

theorem prun_sound (ins : List TickIn) : StoreSound (prun ins) := by
  unfold prun
  have : ∀ (s : Store), StoreSound s → StoreSound (ins.foldl (fun s i => (tick s i).1) s) := by
    induction ins with
    | nil => intro s hs; exact hs
    | cons i rest ih => intro s hs; exact ih _ (tick_sound hs i)
  exact this none trivial


/-! ### exactness of a re-polled / backfilled slot -/

theorem adaptBlock_exact {ident : String} {verOk : Bool} {txs : List WireTx} {n : Nat} {cls : AMap Felt Nat}
    {next : PreConf} (ha : adaptBlock ident verOk txs n cls = .ok next)
    (hcls : ∀ h, AMap.has cls h = true ↔ ∃ d ∈ txs.map (·.diff), Declares d h) :
    ∀ h, AMap.has next.classes h = true ↔ Declares next.diff h := by
  unfold adaptBlock at ha
  split at ha
  · exact absurd ha (by simp)
  · split at ha
    · exact absurd ha (by simp)
    · simp only [Except.ok.injEq] at ha
      subst ha
      intro h
      simp only
      rw [declares_mergeAll]
      exact hcls h

/-- **One backfill step makes the slot class-exact.** On a class-sound storage, if
`fetchDeclaredClasses(storedTip, update)` succeeds where `storedTip` is the entry at the head of the
stored chain (what `tick` passes for the re-poll of the old tip; for a full block any `storedTip`
will do) and `ApplyUpdate` with the fetched classes changes the chain, then the affected entry
carries the definition of EXACTLY the classes its block diff declares. -/
theorem repoll_changed_exact {s : Store} (hs : StoreSound s) {src : Source} {tip : Option PreConf}
    {u : Update} {cls : AMap Felt Nat} {ev : Ev}
    (htip : (u matches .block ..) = false → ∀ r x rest, s = some r → r.nodes = x :: rest → tip = some x)
    (hf : fetchDeclaredClasses src tip u = (some cls, ev))
    {n t o : Nat} {chain : Reader} {aff : PreConf}
    (hc : computeUpdate s u n t o cls = .changed chain aff) :
    ∀ h, AMap.has aff.classes h = true ↔ Declares aff.diff h := by
  have hkeys : ∀ h, AMap.has cls h = true ↔
      (∃ d, storedDiffOf tip u = some d ∧ Declares d h) ∨ ∃ d ∈ updateDiffs u, Declares d h :=
    fun h => ⟨fetch_keys hf h, fetch_keys_complete hf h⟩
  have hblock : ∀ ident verOk txs, u = .block ident verOk txs →
      ∀ h, AMap.has cls h = true ↔ ∃ d ∈ txs.map (·.diff), Declares d h := by
    intro ident verOk txs hu h
    subst hu
    rw [hkeys]
    simp [storedDiffOf, updateDiffs]
  have hboot : ∀ {chain aff}, bootstrap u n o cls = .changed chain aff →
      ∀ h, AMap.has aff.classes h = true ↔ Declares aff.diff h := by
    intro chain aff hb
    unfold bootstrap at hb
    cases u with
    | block ident verOk txs =>
      simp only [bootstrapChain] at hb
      split at hb
      · exact absurd hb (by simp)
      · split at hb
        · exact absurd hb (by simp)
        · rename_i next hn
          simp only [Outcome.changed.injEq] at hb
          obtain ⟨_, rfl⟩ := hb
          exact adaptBlock_exact hn (hblock ident verOk txs rfl)
    | delta _ _ => simp at hb
    | noChange => simp at hb
  unfold computeUpdate at hc
  cases s with
  | none => exact hboot hc
  | some cur =>
    simp only at hc
    have hcur : ∀ e ∈ cur.nodes, ClassesSound e := hs
    split at hc
    · exact hboot hc
    · split at hc
      · exact absurd hc (by simp)
      · split at hc
        · exact absurd hc (by simp)
        · split at hc
          · exact absurd hc (by simp)
          · split at hc
            · cases u with
              | block ident verOk txs =>
                simp only [extend] at hc
                split at hc
                · exact absurd hc (by simp)
                · rename_i next hn
                  simp only [Outcome.changed.injEq] at hc
                  obtain ⟨_, rfl⟩ := hc
                  exact adaptBlock_exact hn (hblock ident verOk txs rfl)
              | delta _ _ => simp at hc
              | noChange => simp at hc
            · unfold replaceSlot at hc
              simp only at hc
              split at hc
              · exact absurd hc (by simp)
              · rename_i target parent hdrop
                have htgt : ClassesSound target := by
                  apply hcur
                  have : target ∈ target :: parent := List.mem_cons_self ..
                  rw [← hdrop] at this
                  exact List.mem_of_mem_drop this
                cases u with
                | block ident verOk txs =>
                  simp only at hc
                  split at hc
                  · exact absurd hc (by simp)
                  · rename_i next hn
                    split at hc
                    · exact absurd hc (by simp)
                    · simp only [Outcome.changed.injEq] at hc
                      obtain ⟨_, rfl⟩ := hc
                      exact adaptBlock_exact hn (hblock ident verOk txs rfl)
                | delta ident txs =>
                  simp only at hc
                  split at hc
                  · exact absurd hc (by simp)
                  · rename_i hdepth
                    split at hc
                    · exact absurd hc (by simp)
                    · split at hc
                      · exact absurd hc (by simp)
                      · rename_i next0 hn
                        simp only [Outcome.changed.injEq] at hc
                        obtain ⟨_, rfl⟩ := hc
                        obtain ⟨hcl, hdecl⟩ := adaptDelta_diff hn
                        have hd0 : cur.tip - n = 0 := by simpa using hdepth
                        rw [hd0, List.drop_zero] at hdrop
                        have ht : tip = some target := htip rfl cur target parent rfl hdrop
                        intro h
                        simp only
                        rw [has_mergeClassesCopying, hcl, hdecl, hkeys]
                        simp only [storedDiffOf, ht, Option.map_some, Option.some.injEq, exists_eq_left',
                          updateDiffs]
                        constructor
                        · rintro ((h1 | h1) | h1)
                          · exact Or.inl h1
                          · exact Or.inr h1
                          · exact Or.inl (htgt h h1)
                        · rintro (h1 | h1)
                          · exact Or.inl (Or.inl h1)
                          · exact Or.inl (Or.inr h1)
                | noChange =>
                  simp only at hc
                  split at hc
                  · exact absurd hc (by simp)
                  · split at hc
                    · exact absurd hc (by simp)
                    · rename_i hdepth
                      split at hc
                      · exact absurd hc (by simp)
                      · simp only [Outcome.changed.injEq] at hc
                        obtain ⟨_, rfl⟩ := hc
                        have hd0 : cur.tip - n = 0 := by simpa using hdepth
                        rw [hd0, List.drop_zero] at hdrop
                        have ht : tip = some target := htip rfl cur target parent rfl hdrop
                        intro h
                        simp only
                        rw [has_mergeClassesCopying, hkeys]
                        simp only [storedDiffOf, ht, Option.map_some, Option.some.injEq, exists_eq_left',
                          updateDiffs, List.not_mem_nil, false_and, exists_false, or_false]
                        constructor
                        · rintro (h1 | h1)
                          · exact h1
                          · exact htgt h h1
                        · exact Or.inl


/-- on a well-formed storage, a delta / no-change that `ApplyUpdate` accepts (the chain changes) while
the caller passes `oldestPreConf = o` implies that the view for `o` is not empty and that its head is
the head of the stored chain: the `storedTip` the tick hands to `fetchDeclaredClasses` is the slot the
update lands on -/
theorem mostRecentOf_of_changed {s : Store} (hw : StoreWF s) {u : Update}
    {n t o : Nat} {cls : AMap Felt Nat} {chain : Reader} {aff : PreConf}
    (hc : computeUpdate s u n t o cls = .changed chain aff)
    {r : Reader} {x : PreConf} {rest : List PreConf} (hr : s = some r) (hn : r.nodes = x :: rest) :
    mostRecentOf s o = some x := by
  subst hr
  have hwf : WF r := hw
  have hpos := hwf.pos
  unfold computeUpdate at hc
  simp only at hc
  have hl : (r.length == 0) = false := by simp; omega
  simp only [hl, Bool.false_eq_true, ↓reduceIte] at hc
  split at hc
  · exact absurd hc (by simp)
  · rename_i hal
    have hal' : r.oldest = o := by simpa using hal
    have hc' : r.contains o = true := by
      rw [contains_iff]
      have := hwf.oldest_add
      omega
    unfold mostRecentOf
    simp only [snapshotFor, hc', Bool.not_true, Bool.false_eq_true, ↓reduceIte]
    have hlen : r.tip - o + 1 > 0 := by omega
    simp only [hlen, ↓reduceIte, Reader.headEntry]
    have : (r.tip - o + 1 == 0) = false := by simp
    simp [this, hn]

/-- **the re-poll step of a tick, with the hypothesis about the caller discharged**: on a
well-formed, class-sound storage, if `fetchDeclaredClasses(mostRecent, update)` succeeds — `mostRecent`
being what `tick` computes from the view for `oldestPreConf` — and `ApplyUpdate(update, …,
oldestPreConf, fetched)` changes the chain, the affected entry is class-exact -/
theorem tick_repoll_changed_exact {s : Store} (hw : StoreWF s) (hs : StoreSound s) {src : Source}
    {u : Update} {cls : AMap Felt Nat} {ev : Ev} {n t o : Nat}
    (hf : fetchDeclaredClasses src (mostRecentOf s o) u = (some cls, ev))
    {chain : Reader} {aff : PreConf} (hc : computeUpdate s u n t o cls = .changed chain aff) :
    ∀ h, AMap.has aff.classes h = true ↔ Declares aff.diff h :=
  repoll_changed_exact hs (fun _ _ _ _ hr hn => mostRecentOf_of_changed hw hc hr hn) hf hc

/-! ### the class table of the overlay -/

/-- the entries `PreConfirmedStateAt(b)` merges: oldest first through the first one numbered `b` -/
def uptoBlock : List PreConf → Nat → List PreConf
  | [], _ => []
  | e :: rest, b => if e.number == b then [e] else e :: uptoBlock rest b

theorem uptoBlock_sub (l : List PreConf) (b : Nat) : ∀ e ∈ uptoBlock l b, e ∈ l := by
  induction l with
  | nil => simp [uptoBlock]
  | cons x rest ih =>
    intro e he
    simp only [uptoBlock] at he
    split at he
    · simp only [List.mem_singleton] at he; subst he; exact List.mem_cons_self ..
    · rcases List.mem_cons.1 he with rfl | he
      · exact List.mem_cons_self ..
      · exact List.mem_cons_of_mem _ (ih e he)

theorem mergeThrough_classes (l : List PreConf) (b : Nat) (d : Diff) (c : AMap Felt Nat) (h : Felt) :
    AMap.has (mergeThrough l b d c).2 h = true ↔
      AMap.has c h = true ∨ ∃ e ∈ uptoBlock l b, AMap.has e.classes h = true := by
  induction l generalizing d c with
  | nil => simp [mergeThrough, uptoBlock]
  | cons x rest ih =>
    have hm : AMap.has (mergeClassesInto c x.classes) h = true ↔
        AMap.has x.classes h = true ∨ AMap.has c h = true := by
      simp only [AMap.has, mergeClassesInto_get]
      cases AMap.get x.classes h <;> simp
    simp only [mergeThrough, uptoBlock]
    split
    · simp only [List.mem_singleton, exists_eq_left]
      rw [hm]; exact Or.comm
    · rw [ih, hm]
      simp only [List.mem_cons, exists_eq_or_imp]
      constructor
      · rintro ((h1 | h1) | h1)
        · exact Or.inr (Or.inl h1)
        · exact Or.inl h1
        · exact Or.inr (Or.inr h1)
      · rintro (h1 | h1 | h1)
        · exact Or.inl (Or.inr h1)
        · exact Or.inl (Or.inl h1)
        · exact Or.inr h1

/-- a class the overlay state at block `b` resolves by itself (not through the base) is declared by
one of the view's blocks up to `b` — for every view whose entries are class-sound -/
theorem stateAt_classes_declared {r : Reader} (hr : ∀ e ∈ r.oldestFirst, ClassesSound e) {b : Nat}
    {baseAt : Nat → Option Base} {p : PState} (hp : stateAt r b baseAt = .ok p) (h : Felt) :
    (AMap.has p.classes h = true → ∃ e ∈ uptoBlock r.oldestFirst b, Declares e.diff h) ∧
    (AMap.has p.classes h = false → p.cls h = p.head.cls h) := by
  unfold stateAt at hp
  split at hp
  · exact absurd hp (by simp)
  · split at hp
    · exact absurd hp (by simp)
    · simp only [Except.ok.injEq] at hp
      subst hp
      refine ⟨?_, ?_⟩
      · intro hh
        simp only at hh
        rcases (mergeThrough_classes _ b Diff.empty [] h).1 hh with h1 | ⟨e, he, h1⟩
        · simp [AMap.has_nil] at h1
        · exact ⟨e, he, hr e (uptoBlock_sub _ _ e he) h h1⟩
      · intro hh
        simp only [PState.cls]
        simp only [AMap.has] at hh
        cases hg : AMap.get (mergeThrough r.oldestFirst b Diff.empty []).2 h with
        | none => rfl
        | some c => rw [hg] at hh; simp at hh

theorem snapshot_nodes_sub (s : Store) (b : Nat) :
    ∀ e ∈ (snapshotFor s b).oldestFirst, ∃ r, s = some r ∧ e ∈ r.nodes := by
  intro e he
  rw [Reader.oldestFirst_eq, List.mem_reverse] at he
  cases s with
  | none => simp [snapshotFor, Reader.empty, Reader.newestFirst] at he
  | some cur =>
    simp only [snapshotFor] at he
    split at he
    · simp [Reader.empty, Reader.newestFirst] at he
    · exact ⟨cur, rfl, List.mem_of_mem_take he⟩

/-! ### every poller history is a writer history -/

/-- `s'` is reached from `s` by writer operations -/
def Reach (s s' : Store) : Prop := ∃ ops : List Op, s' = ops.foldl step s

theorem Reach.refl (s : Store) : Reach s s := ⟨[], rfl⟩

theorem Reach.trans {a b c : Store} (h1 : Reach a b) (h2 : Reach b c) : Reach a c := by
  obtain ⟨o1, rfl⟩ := h1
  obtain ⟨o2, rfl⟩ := h2
  exact ⟨o1 ++ o2, by rw [List.foldl_append]⟩

theorem papply_reach (s : Store) (u : Update) (n t o : Nat) (c : AMap Felt Nat) :
    Reach s (papply s u n t o c).1 := by
  refine ⟨[.apply u n t o c], ?_⟩
  simp only [List.foldl_cons, List.foldl_nil, step]
  unfold papply
  split <;> rename_i heq <;> rw [heq]

theorem backfillFrom_reach (src : Source) (o : Nat) : ∀ (fuel : Nat) (s : Store) (n : Nat),
    Reach s (backfillFrom src o s n fuel).1 := by
  intro fuel
  induction fuel with
  | zero => intro s n; exact Reach.refl s
  | succ k ih =>
    intro s n
    simp only [backfillFrom]
    split
    · exact Reach.refl s
    · rename_i u hu
      split
      · exact Reach.refl s
      · rename_i cls ev hf
        have hp := papply_reach s u n 0 o cls
        split
        · rename_i s' e evs heq
          rw [heq] at hp; exact hp
        · rename_i s' evs heq
          rw [heq] at hp
          exact hp.trans (ih s' (n + 1))

theorem backfill_reach (src : Source) (s : Store) (o : Nat) (tip : Option PreConf)
    (fromBlock : Nat) (ident : String) (txCount endEx : Nat) :
    Reach s (backfill src s o tip fromBlock ident txCount endEx).1 := by
  unfold backfill
  split
  · exact Reach.refl s
  · rename_i u hu
    split
    · exact Reach.refl s
    · rename_i cls ev hf
      have hp := papply_reach s u fromBlock txCount o cls
      split
      · rename_i s' e evs heq
        rw [heq] at hp; exact hp
      · rename_i s' evs heq
        rw [heq] at hp
        exact hp.trans (backfillFrom_reach src o _ s' _)

theorem tickApply_reach (src : Source) (s1 : Store) (o : Nat) (mr : Option PreConf)
    (fromBlock : Nat) (ident : String) (txCount : Nat) (update : Update) (num : Nat) :
    Reach s1 (tickApply src s1 o mr fromBlock ident txCount update num).1 := by
  have h2 : Reach s1 (if num > fromBlock then backfill src s1 o mr fromBlock ident txCount num
      else (s1, [], none)).1 := by
    split
    · exact backfill_reach ..
    · exact Reach.refl s1
  unfold tickApply
  split
  · rename_i s2 evs e heq
    rw [heq] at h2; exact h2
  · rename_i s2 evs heq
    rw [heq] at h2
    have hp := papply_reach s2 update num txCount o []
    split
    · rename_i s3 e evs' heq'
      rw [heq'] at hp; exact h2.trans hp
    · rename_i s3 evs' heq'
      rw [heq'] at hp; exact h2.trans hp

theorem tick_reach (s : Store) (i : TickIn) : Reach s (tick s i).1 := by
  unfold tick
  split
  · exact Reach.refl s
  · rename_i height hh
    have h1 : Reach s (advanceTo s (height + 1)).1 := ⟨[.advance (height + 1)], rfl⟩
    simp only
    split
    · exact h1
    · split
      · exact h1
      · exact h1.trans (tickApply_reach ..)

theorem prun_reach (ins : List TickIn) : ∃ ops : List Op, prun ins = run ops := by
  unfold prun run
  have : ∀ (s : Store), Reach s (ins.foldl (fun s i => (tick s i).1) s) := by
    induction ins with
    | nil => intro s; exact Reach.refl s
    | cons i rest ih => intro s; exact (tick_reach s i).trans (ih _)
  exact this none

end Juno.C20
