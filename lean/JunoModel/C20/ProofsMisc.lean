import JunoModel.C20.ProofsEntries
/-!
C20 — boundaries of the `uint64` block numbers, and the single-entry views built with `NewChain`
(empty-block fallback of `Synchronizer.PreConfirmedChain`, `Sequencer.PreConfirmedChain`).
-/
namespace Juno.C20

/-- at `tip = 2^64-1`, `tip()+1` is 0: every update that passes the alignment and below-oldest
checks and targets a block ≥ 1 is rejected as a gap (also a new round for the tip itself) -/
theorem update_at_max_tip {cur : Reader} (hpos : 0 < cur.length) (htip : cur.tip = U64 - 1)
    (u : Update) (b t o : Nat) (c : AMap Felt Nat)
    (hal : cur.oldest = o) (hlo : ¬ b < cur.oldest) (hb : 1 ≤ b) :
    computeUpdate (some cur) u b t o c = .err .gap := by
  have h0 : (cur.length == 0) = false := by simp; omega
  have hs : succ64 cur.tip = 0 := by simp [succ64, htip, U64]
  simp only [computeUpdate, h0, Bool.false_eq_true, ↓reduceIte, hal, bne_self_eq_false, hs]
  have : ¬ b < o := by rw [← hal]; exact hlo
  simp [this]
  omega

/-- a chain whose oldest slot is block 0 asks for the state at block `2^64-1` -/
theorem state_below_block_zero {r : Reader} {b : Nat} (ho : r.oldest = 0) (hc : r.contains b = true)
    (baseAt : Nat → Option Base) (hnone : baseAt (U64 - 1) = none) :
    stateAt r b baseAt = .error .noBase := by
  simp [stateAt, hc, ho, pred64, hnone]

theorem newChain_single (e : PreConf) : newChain [e] = some { nodes := [e], length := 1 } := rfl

/-- the single-entry view around entry `e`: state at `e.number` is the overlay of `[e]` over the
state at `e.number - 1` (on `uint64`), anything else is not found -/
theorem single_view_state (e : PreConf) (b : Nat) (baseAt : Nat → Option Base) :
    stateAt { nodes := [e], length := 1 } b baseAt =
      if b = e.number then
        match baseAt (pred64 e.number) with
        | none => .error .noBase
        | some base => .ok (overlayOf [e] base b)
      else .error .notFound := by
  by_cases hb : b = e.number
  · subst hb
    simp only [stateAt, Reader.contains, Reader.oldest, Reader.tip, Reader.oldestFirst, walkOldestFirst,
      overlayOf]
    simp
    cases baseAt (pred64 e.number) with
    | none => rfl
    | some base => simp [mergeThrough]
  · have : ({ nodes := [e], length := 1 } : Reader).contains b = false := by
      cases hcc : ({ nodes := [e], length := 1 } : Reader).contains b with
      | false => rfl
      | true =>
        obtain ⟨_, h1, h2⟩ := contains_iff.mp hcc
        have e1 : ({ nodes := [e], length := 1 } : Reader).tip = e.number := rfl
        have e2 : ({ nodes := [e], length := 1 } : Reader).oldest = e.number := by
          simp [Reader.oldest, e1]
        rw [e2] at h1; rw [e1] at h2
        exact absurd (Nat.le_antisymm h2 h1) hb
    simp [stateAt, this, hb]

/-- the overlay part of what a view reads does not depend on when it is read: two calls of
`PreConfirmedStateAt` on the same view, with whatever base resolvers (the head may have advanced or
reverted in between), agree on success/failure kind `notFound`, and when both find a base they
carry the SAME merged diff, classes and block number — only the base reader is the one of its
own time -/
theorem stateAt_time_independent (r : Reader) (b : Nat) (baseAt₁ baseAt₂ : Nat → Option Base) :
    (stateAt r b baseAt₁ = .error .notFound ↔ stateAt r b baseAt₂ = .error .notFound) ∧
    ∀ p₁ p₂, stateAt r b baseAt₁ = .ok p₁ → stateAt r b baseAt₂ = .ok p₂ →
      p₁.diff = p₂.diff ∧ p₁.classes = p₂.classes ∧ p₁.blockNumber = p₂.blockNumber ∧
      some p₁.head = baseAt₁ (pred64 r.oldest) ∧ some p₂.head = baseAt₂ (pred64 r.oldest) := by
  constructor
  · simp only [stateAt]
    cases r.contains b <;> simp <;>
      cases baseAt₁ (pred64 r.oldest) <;> cases baseAt₂ (pred64 r.oldest) <;> simp
  · intro p₁ p₂ h₁ h₂
    simp only [stateAt] at h₁ h₂
    cases hc : r.contains b with
    | false => simp [hc] at h₁
    | true =>
      simp only [hc, Bool.not_true, Bool.false_eq_true, ↓reduceIte] at h₁ h₂
      cases hb₁ : baseAt₁ (pred64 r.oldest) with
      | none => simp [hb₁] at h₁
      | some base₁ =>
        cases hb₂ : baseAt₂ (pred64 r.oldest) with
        | none => simp [hb₂] at h₂
        | some base₂ =>
          simp only [hb₁, hb₂] at h₁ h₂
          cases h₁; cases h₂
          exact ⟨rfl, rfl, rfl, rfl, rfl⟩

/-! ### wire updates that pass `Validate` -/

theorem validateTxsLength_spec {u : RawUpdate} (h : validateTxsLength u = true) :
    u.txs.length = u.receipts.length ∧ u.txs.length = u.diffs.length ∧
    ∀ i, i < u.txs.length → (u.receipts[i]?.join).isSome = true ∧ (u.diffs[i]?.join).isSome = true := by
  unfold validateTxsLength at h
  split at h
  · cases h
  · rename_i hl
    simp only [Bool.or_eq_true, bne_iff_ne, ne_eq, not_or, Decidable.not_not] at hl
    refine ⟨hl.1, hl.2, ?_⟩
    intro i hi
    have := (List.all_eq_true.mp h) i (List.mem_range.mpr hi)
    simp only [Bool.and_eq_true] at this
    exact ⟨this.1.2, this.2⟩

/-- the adapter loop never panics once every index below `txs.length` has a receipt and a diff -/
theorem zipRaw_go_no_panic (u : RawUpdate)
    (hall : ∀ i, i < u.txs.length → (u.receipts[i]?.join).isSome = true ∧ (u.diffs[i]?.join).isSome = true) :
    ∀ (rest : List (Option (Tx × Bool))) (i : Nat) (acc : List WireTx), i + rest.length = u.txs.length →
      (∃ ws, zipRaw.go u rest i acc = .ok ws) ∨ zipRaw.go u rest i acc = .adaptError := by
  intro rest
  induction rest with
  | nil => intro i acc _; exact Or.inl ⟨acc.reverse, rfl⟩
  | cons t rest ih =>
    intro i acc hi
    cases t with
    | none => exact Or.inr rfl
    | some tb =>
      obtain ⟨tx, bad⟩ := tb
      simp only [zipRaw.go]
      cases bad with
      | true => exact Or.inr rfl
      | false =>
        simp only [Bool.false_eq_true, ↓reduceIte]
        have hlt : i < u.txs.length := by simp only [List.length_cons] at hi; omega
        obtain ⟨hr, hd⟩ := hall i hlt
        cases hdi : u.diffs[i]? with
        | none => simp [hdi] at hd
        | some od =>
          cases od with
          | none => simp [hdi] at hd
          | some d =>
            cases hri : u.receipts[i]? with
            | none => simp [hri] at hr
            | some orc =>
              cases orc with
              | none => simp [hri] at hr
              | some rc =>
                simp only
                exact ih (i + 1) _ (by simp only [List.length_cons] at hi; omega)

theorem zipRaw_no_panic {u : RawUpdate} (h : validateTxsLength u = true) :
    (∃ ws, zipRaw u = .ok ws) ∨ zipRaw u = .adaptError := by
  obtain ⟨_, _, hall⟩ := validateTxsLength_spec h
  exact zipRaw_go_no_panic u hall u.txs 0 [] (by simp)

/-- **every update that passes `Validate` is adapted without a panic** -/
theorem validated_adapt_no_panic (e : RawEnvelope) (h : e.validate = true) :
    (∃ ws, e.adapt = .ok ws) ∨ e.adapt = .adaptError := by
  cases e with
  | noChange => exact Or.inl ⟨[], rfl⟩
  | delta ident u =>
    simp only [RawEnvelope.validate] at h
    split at h
    · cases h
    · split at h
      · cases h
      · exact zipRaw_no_panic h
  | block m u =>
    have hl1 : m.hasL1Gas = true := by
      cases hh : m.hasL1Gas with
      | true => rfl
      | false => simp [RawEnvelope.validate, hh] at h
    have hv : validateTxsLength u = true := by
      cases hh : validateTxsLength u with
      | true => rfl
      | false => simp [RawEnvelope.validate, hh] at h
    simp only [RawEnvelope.adapt]
    rcases zipRaw_no_panic hv with ⟨ws, hw⟩ | hw
    · rw [hw]; simp only [hl1, ↓reduceIte]; exact Or.inl ⟨ws, rfl⟩
    · rw [hw]; exact Or.inr rfl

/-- the well-shaped raw update of a list of wire transactions -/
def RawUpdate.ofWire (ws : List WireTx) : RawUpdate :=
  { txs := ws.map fun w => some (w.tx, w.bad), receipts := ws.map fun w => some w.rcpt,
    diffs := ws.map fun w => some w.diff }

theorem ofWire_valid (ws : List WireTx) : validateTxsLength (RawUpdate.ofWire ws) = true := by
  simp only [validateTxsLength, RawUpdate.ofWire, List.length_map, bne_self_eq_false, Bool.or_self,
    Bool.false_eq_true, ↓reduceIte, List.all_eq_true, List.mem_range]
  intro i hi
  simp [List.getElem?_map, List.getElem?_eq_getElem hi]

/-! ### sequencer mode -/

theorem snapshot_cell_stable (cells : List PreConf) (live : Nat) (ws : List WireTx)
    (hl : live < cells.length) :
    readCell (runBatchInPlace (seqViewSnapshot cells live).1 live ws) (seqViewSnapshot cells live).2 =
      readCell cells live := by
  have hget : cells[live]? = some cells[live] := List.getElem?_eq_getElem hl
  simp only [seqViewSnapshot, hget, runBatchInPlace, readCell]
  rw [List.getElem?_append_left hl, hget]
  simp only
  rw [List.getElem?_set_ne (by omega)]
  simp

/-! ### the empty-block fallback -/

/-- reads through the view around the empty fallback block: the canonical state at the head, plus
exactly the block-hash write -/
theorem fallback_reads (height : Nat) (hashOf : Nat → Option Felt) (d : Diff)
    (hd : emptyBlockDiff hashOf (height + 1) = some d) (base : Base) :
    let p := overlayOf [emptyPreConfirmedFor height d] base (height + 1)
    (∀ a, p.classHash a = base.classHash a) ∧ (∀ a, p.nonce a = base.nonce a) ∧
    (∀ h, p.cls h = base.cls h) ∧ (∀ h, p.casm h = base.casm h) ∧ (∀ h, p.casmV2 h = base.casmV2 h) ∧
    (∀ a k, p.storage a k =
      if a = blockHashContract ∧ blockHashLag ≤ height + 1 ∧ k = height + 1 - blockHashLag then hashOf k
      else base.storage a k) := by
  unfold emptyBlockDiff at hd
  split at hd
  · rename_i hlt
    simp only [Option.some.injEq] at hd
    subst hd
    refine ⟨?_, ?_, ?_, ?_, ?_, ?_⟩ <;> intros <;>
      simp [overlayOf, emptyPreConfirmedFor, PState.classHash, PState.nonce, PState.cls, PState.casm,
        PState.casmV2, PState.storage, Diff.merge, Diff.empty, AMap.copyInto, AMap.get, AMap.has,
        mergeClassesInto, AMap.size, AMap.keys]
    omega
  · rename_i hge
    simp only at hd
    split at hd
    · exact absurd hd (by simp)
    · rename_i hh hk
      simp only [Option.some.injEq] at hd
      subst hd
      refine ⟨?_, ?_, ?_, ?_, ?_, ?_⟩
      · intro a
        simp [overlayOf, emptyPreConfirmedFor, PState.classHash, Diff.merge, Diff.empty, AMap.copyInto, AMap.get]
      · intro a
        simp [overlayOf, emptyPreConfirmedFor, PState.nonce, Diff.merge, Diff.empty, AMap.copyInto, AMap.get, AMap.has]
      · intro h
        simp [overlayOf, emptyPreConfirmedFor, PState.cls, mergeClassesInto, AMap.size, AMap.keys, AMap.get]
      · intro h
        simp [overlayOf, emptyPreConfirmedFor, PState.casm, Diff.merge, Diff.empty, AMap.copyInto, AMap.get]
      · intro h
        simp [overlayOf, emptyPreConfirmedFor, PState.casmV2, Diff.merge, Diff.empty, AMap.copyInto, AMap.get]
      · intro a k
        simp only [overlayOf, emptyPreConfirmedFor, PState.storage, Diff.merge, Diff.empty, AMap.copyInto,
          List.map_cons, List.map_nil, List.foldl_cons, List.foldl_nil, List.append_nil, AMap.get, AMap.has,
          Option.isSome_none, Bool.false_eq_true, ↓reduceIte]
        by_cases hc : a = blockHashContract ∧ k = height + 1 - blockHashLag
        · obtain ⟨rfl, rfl⟩ := hc
          have : blockHashLag ≤ height + 1 := by omega
          simp [this, hk]
        · have hne : ((blockHashContract, height + 1 - blockHashLag) == (a, k)) = false := by
            rw [beq_eq_false_iff_ne]
            intro he
            simp only [Prod.mk.injEq] at he
            exact hc ⟨he.1.symm, he.2.symm⟩
          simp only [hne, Bool.false_eq_true, ↓reduceIte]
          have : ¬ (a = blockHashContract ∧ blockHashLag ≤ height + 1 ∧ k = height + 1 - blockHashLag) := by
            rintro ⟨h1, _, h3⟩; exact hc ⟨h1, h3⟩
          simp [this]

/-! ### per-entry lookups -/

theorem txIndexFrom_some {l : List Tx} {i : Nat} {h : Felt} {tx : Tx} {k : Nat}
    (hs : txIndexFrom l i h = some (tx, k)) :
    i ≤ k ∧ l[k - i]? = some tx ∧ tx.hash = h ∧ ∀ j, j < k - i → ∀ t, l[j]? = some t → t.hash ≠ h := by
  induction l generalizing i with
  | nil => simp [txIndexFrom] at hs
  | cons t rest ih =>
    simp only [txIndexFrom] at hs
    split at hs
    · rename_i heq
      simp only [Option.some.injEq, Prod.mk.injEq] at hs
      obtain ⟨rfl, rfl⟩ := hs
      refine ⟨Nat.le_refl _, by simp, by simpa using heq, ?_⟩
      intro j hj; omega
    · rename_i hne
      obtain ⟨h1, h2, h3, h4⟩ := ih hs
      refine ⟨by omega, ?_, h3, ?_⟩
      · have : k - i = (k - (i + 1)) + 1 := by omega
        rw [this, List.getElem?_cons_succ]; exact h2
      · intro j hj t' ht'
        cases j with
        | zero =>
          simp only [List.getElem?_cons_zero, Option.some.injEq] at ht'
          subst ht'
          simpa using hne
        | succ j' =>
          rw [List.getElem?_cons_succ] at ht'
          exact h4 j' (by omega) t' ht'

theorem txIndexFrom_none {l : List Tx} {i : Nat} {h : Felt} :
    txIndexFrom l i h = none ↔ ∀ t ∈ l, t.hash ≠ h := by
  induction l generalizing i with
  | nil => simp [txIndexFrom]
  | cons t rest ih =>
    simp only [txIndexFrom, List.mem_cons, forall_eq_or_imp]
    split
    · rename_i heq
      have : t.hash = h := by simpa using heq
      simp [this]
    · rename_i hne
      have : t.hash ≠ h := by simpa using hne
      rw [ih]
      simp [this]

end Juno.C20
