import JunoModel.C20.ProofsPoller
/-!
C20 — `Poller.Run` (the pre-genesis guard, the disabled poller) and `Synchronizer.PreConfirmedChain`
read by read (the head may move between its reads).
-/
namespace Juno.C20

/-- `PreConfirmedChain` when the snapshot for `Height()+1` is not empty: that snapshot, aligned to the
height the FIRST read saw, whatever the later reads would answer -/
theorem preConfirmedChain_snapshot {s : Store} (hw : StoreWF s) (h1 : Nat) (h2 : Option Nat)
    (hashOf : Nat → Option Felt) (hpos : 0 < (snapshotFor s (h1 + 1)).length) :
    preConfirmedChain (some h1) s h2 hashOf = .ok (snapshotFor s (h1 + 1)) ∧
    (snapshotFor s (h1 + 1)).newestFirst.length = (snapshotFor s (h1 + 1)).length ∧
    (snapshotFor s (h1 + 1)).oldestFirst.map (·.number) = List.range' (h1 + 1) (snapshotFor s (h1 + 1)).length := by
  have hs := snapshot_spec hw (h1 + 1)
  refine ⟨?_, hs.1, hs.2⟩
  simp [preConfirmedChain, hpos]

/-- … and when it is empty: the blank block above the head the SECOND height read saw, or the error of
that read / of the block-hash lookup -/
theorem preConfirmedChain_fallback (s : Store) (h1 : Nat) (h2 : Option Nat) (hashOf : Nat → Option Felt)
    (hz : (snapshotFor s (h1 + 1)).length = 0) :
    preConfirmedChain (some h1) s h2 hashOf =
      match h2 with
      | none => .error .header
      | some hd =>
        match emptyBlockDiff hashOf (hd + 1) with
        | none => .error .blockHash
        | some d => .ok { nodes := [emptyPreConfirmedFor hd d], length := 1 } := by
  cases h2 with
  | none => simp [preConfirmedChain, hz]
  | some hd => cases hd' : emptyBlockDiff hashOf (hd + 1) <;> simp [preConfirmedChain, hz, hd']

/-- with both height reads seeing the same head it is `readerViewFull` -/
theorem preConfirmedChain_same_head (s : Store) (h : Nat) (cached : Option Nat) (hashOf : Nat → Option Felt) :
    preConfirmedChain (some h) s (some h) hashOf =
      match readerViewFull h cached s hashOf with
      | some v => .ok v
      | none => .error .blockHash := by
  simp only [preConfirmedChain, readerViewFull, readerView]
  split
  · rfl
  · cases emptyBlockDiff hashOf (h + 1) <;> simp_all

/-- inside the guard loop nothing happens -/
theorem runEvent_waiting (s : Store) (ev : TickerEv) (hg : ev.guard = .notFound) :
    runEvent { polling := false, store := s } ev = ({ polling := false, store := s }, [], none) := by
  simp [runEvent, hg]

/-- **Before genesis `Run` is silent**: while `Height()` answers `db.ErrKeyNotFound` to the guard — at
the start and at every ticker firing — the storage is untouched and no endpoint is called, no entry
published, no writer operation performed. -/
theorem runLoop_silent (s : Store) (evs : List TickerEv) (h : ∀ ev ∈ evs, ev.guard = .notFound) :
    runLoop false s .notFound evs = ({ polling := false, store := s }, []) := by
  simp only [runLoop, Bool.false_eq_true, if_false]
  have : ∀ (evs : List TickerEv), (∀ ev ∈ evs, ev.guard = .notFound) →
      evs.foldl (fun (acc : RunSt × List Ev) ev => ((runEvent acc.1 ev).1, acc.2 ++ (runEvent acc.1 ev).2.1))
        (({ polling := false, store := s } : RunSt), ([] : List Ev)) = ({ polling := false, store := s }, []) := by
    intro evs
    induction evs with
    | nil => intro _; rfl
    | cons ev rest ih =>
      intro hh
      simp only [List.foldl_cons]
      rw [runEvent_waiting s ev (hh ev (by simp))]
      simpa using ih (fun e he => hh e (by simp [he]))
  simpa using this evs h

/-- a disabled poller (`interval == 0`) does nothing at all -/
theorem runLoop_disabled (s : Store) (g0 : Guard) (evs : List TickerEv) :
    runLoop true s g0 evs = ({ polling := false, store := s }, []) := by
  simp [runLoop]

/-- the storage `Run` leaves is the storage after the ticks that ran -/
theorem runLoop_is_tick_history (g0 : Guard) (evs : List TickerEv) (iz : Bool) :
    ∃ ins : List TickIn, (runLoop iz none g0 evs).1.store = prun ins := by
  cases iz with
  | true => exact ⟨[], by simp [runLoop, prun]⟩
  | false =>
    simp only [runLoop, Bool.false_eq_true, if_false]
    suffices h : ∀ (evs : List TickerEv) (st : RunSt) (out : List Ev) (ins : List TickIn), st.store = prun ins →
        ∃ ins', (evs.foldl (fun (acc : RunSt × List Ev) ev =>
          ((runEvent acc.1 ev).1, acc.2 ++ (runEvent acc.1 ev).2.1)) (st, out)).1.store = prun ins' by
      exact h evs _ [] [] rfl
    intro evs
    induction evs with
    | nil => intro st out ins h; exact ⟨ins, h⟩
    | cons ev rest ih =>
      intro st out ins h
      simp only [List.foldl_cons]
      by_cases hp : st.polling
      · apply ih _ _ (ins ++ [ev.env])
        simp only [runEvent, hp, Bool.not_true, Bool.false_eq_true, if_false, prun, List.foldl_append,
          List.foldl_cons, List.foldl_nil]
        rw [h]; rfl
      · apply ih _ _ ins
        simp [runEvent, hp, h]

/-- a tick whose `Height()` fails (the chain lost its head: genesis reverted) touches nothing -/
theorem tick_without_height (s : Store) (i : TickIn) (h : i.height = none) :
    tick s i = (s, [], some .height) := by
  simp [tick, h]

end Juno.C20
