import JunoModel.C20.Model
/-!
C20 — `sn2core.AdaptStateDiff` (`adaptStateDiff`): building a Go map by assignment in list order makes
the LAST wire entry of a key the one that is read.
-/
namespace Juno.C20

theorem assignAll_eq_reverse {α β : Type} [BEq α] (xs : List (α × β)) : assignAll xs = xs.reverse := by
  unfold assignAll
  suffices h : ∀ (xs : List (α × β)) (acc : AMap α β),
      xs.foldl (fun m kv => AMap.set m kv.1 kv.2) acc = xs.reverse ++ acc by
    simpa using h xs []
  intro xs
  induction xs with
  | nil => intro acc; rfl
  | cons x rest ih => intro acc; simp [List.foldl_cons, AMap.set]

theorem AMap.get_eq_find {α β : Type} [BEq α] (m : AMap α β) (k : α) :
    AMap.get m k = (m.find? (fun kv => kv.1 == k)).map (·.2) := by
  induction m with
  | nil => rfl
  | cons x rest ih =>
    obtain ⟨k', v⟩ := x
    simp only [AMap.get, List.find?_cons]
    cases h : (k' == k) <;> simp [ih]

/-- a read of a map built by `AdaptStateDiff` finds the last wire entry with that key -/
theorem assignAll_get {α β : Type} [BEq α] (xs : List (α × β)) (k : α) :
    AMap.get (assignAll xs) k = (xs.reverse.find? (fun kv => kv.1 == k)).map (·.2) := by
  rw [assignAll_eq_reverse, AMap.get_eq_find]

end Juno.C20
