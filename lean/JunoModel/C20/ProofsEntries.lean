import JunoModel.C20.ProofsOverlay
/-!
C20 — every entry the storage ever publishes is internally consistent (its block diff is the
merge of its per-transaction diffs, the lists have the same length), for all histories; and the
state "before transaction index `k`" at the end of a block is the state at that block.
-/
namespace Juno.C20

/-! ### algebra of `Merge` -/

theorem Diff.merge_empty_left (d : Diff) : Diff.empty.merge d = d := by
  cases d
  simp [Diff.merge, Diff.empty, AMap.copyInto]

theorem Diff.merge_empty_right (d : Diff) : d.merge Diff.empty = d := by
  cases d
  simp [Diff.merge, Diff.empty, AMap.copyInto]

theorem Diff.merge_assoc (a b c : Diff) : a.merge (b.merge c) = (a.merge b).merge c := by
  simp [Diff.merge, AMap.copyInto, List.append_assoc]

theorem foldl_merge_shift (l : List Diff) (d acc : Diff) :
    d.merge (l.foldl Diff.merge acc) = l.foldl Diff.merge (d.merge acc) := by
  induction l generalizing acc with
  | nil => rfl
  | cons x rest ih => simp only [List.foldl_cons]; rw [ih, Diff.merge_assoc]

theorem merge_mergeAll (d : Diff) (l : List Diff) :
    d.merge (Diff.mergeAll l) = l.foldl Diff.merge d := by
  unfold Diff.mergeAll
  rw [foldl_merge_shift, Diff.merge_empty_right]

/-! ### consistency of one entry -/

structure EntryOK (e : PreConf) : Prop where
  diff : e.diff = Diff.mergeAll e.txDiffs
  ndiffs : e.txDiffs.length = e.txs.length
  nreceipts : e.receipts.length = e.txs.length
  count : e.txCount = e.txs.length

theorem adaptBlock_ok {ident verOk txs n c next}
    (h : adaptBlock ident verOk txs n c = .ok next) : EntryOK next := by
  unfold adaptBlock at h
  split at h
  · cases h
  · split at h
    · cases h
    · cases h; exact ⟨rfl, by simp, by simp, by simp⟩

theorem adaptDelta_ok {cur ident txs next} (hc : EntryOK cur)
    (h : adaptDelta cur ident txs = .ok next) : EntryOK next := by
  unfold adaptDelta at h
  split at h
  · cases h
  · split at h
    · cases h
    · cases h
      refine ⟨?_, ?_, ?_, ?_⟩
      · simp only [Diff.mergeAll, List.foldl_append, Diff.merge_empty_left]
        rw [hc.diff, Diff.mergeAll]
      · simp [hc.ndiffs]
      · simp [hc.nreceipts]
      · simp [hc.count]

/-! ### where the entries of a new chain come from -/

/-- how `computeUpdate` builds the entry it puts on top -/
inductive Built (s : Store) : PreConf → Prop
  | block {ident verOk txs n c next} : adaptBlock ident verOk txs n c = .ok next → Built s next
  | delta {r target ident txs next0} (cls : AMap Felt Nat) : s = some r → target ∈ r.nodes →
      adaptDelta target ident txs = .ok next0 → Built s { next0 with classes := cls }
  | reclass {r target} (cls : AMap Felt Nat) : s = some r → target ∈ r.nodes →
      Built s { target with classes := cls }

theorem computeUpdate_shape {s : Store} {u : Update} {b t o : Nat} {c : AMap Felt Nat}
    {chain : Reader} {aff : PreConf} (hc : computeUpdate s u b t o c = .changed chain aff) :
    ∃ rest, chain.nodes = aff :: rest ∧ Built s aff ∧
      ∀ e ∈ rest, ∃ r, s = some r ∧ e ∈ r.nodes := by
  have boot : ∀ {chain aff}, bootstrap u b o c = .changed chain aff →
      ∃ rest, chain.nodes = aff :: rest ∧ Built s aff ∧ ∀ e ∈ rest, ∃ r, s = some r ∧ e ∈ r.nodes := by
    intro chain aff hb
    cases u with
    | block ident verOk txs =>
      simp only [bootstrap, bootstrapChain] at hb
      split at hb
      · cases hb
      · split at hb
        · cases hb
        · rename_i next hn
          cases hb
          exact ⟨[], rfl, .block hn, by simp⟩
    | delta _ _ => cases hb
    | noChange => cases hb
  cases s with
  | none => exact boot (by simpa [computeUpdate] using hc)
  | some cur =>
    unfold computeUpdate at hc
    simp only at hc
    split at hc
    · exact boot hc
    · split at hc
      · cases hc
      · split at hc
        · cases hc
        · split at hc
          · cases hc
          · split at hc
            · cases u with
              | block ident verOk txs =>
                simp only [extend] at hc
                split at hc
                · cases hc
                · rename_i next hn
                  cases hc
                  exact ⟨cur.nodes, rfl, .block hn, fun e he => ⟨cur, rfl, he⟩⟩
              | delta _ _ => cases hc
              | noChange => cases hc
            · unfold replaceSlot at hc
              simp only at hc
              split at hc
              · cases hc
              · rename_i target parent hdrop
                have hsub : ∀ e ∈ target :: parent, e ∈ cur.nodes := by
                  intro e he
                  rw [← hdrop] at he
                  exact List.mem_of_mem_drop he
                have htg : target ∈ cur.nodes := hsub target (by simp)
                have hpar : ∀ e ∈ parent, ∃ r, some cur = some r ∧ e ∈ r.nodes :=
                  fun e he => ⟨cur, rfl, hsub e (by simp [he])⟩
                cases u with
                | block ident verOk txs =>
                  simp only at hc
                  split at hc
                  · cases hc
                  · rename_i next hn
                    split at hc
                    · cases hc
                    · cases hc
                      exact ⟨parent, rfl, .block hn, hpar⟩
                | delta ident txs =>
                  simp only at hc
                  split at hc
                  · cases hc
                  · split at hc
                    · cases hc
                    · split at hc
                      · cases hc
                      · rename_i next0 hn
                        cases hc
                        exact ⟨parent, rfl, .delta _ rfl htg hn, hpar⟩
                | noChange =>
                  simp only at hc
                  split at hc
                  · cases hc
                  · split at hc
                    · cases hc
                    · split at hc
                      · cases hc
                      · cases hc
                        exact ⟨parent, rfl, .reclass _ rfl htg, hpar⟩

/-! ### the invariant -/

def AllOK : Store → Prop
  | none => True
  | some r => ∀ e ∈ r.nodes, EntryOK e

theorem built_ok {s : Store} (hs : AllOK s) {e : PreConf} (hb : Built s e) : EntryOK e := by
  cases hb with
  | block h => exact adaptBlock_ok h
  | delta cls hr ht hd =>
    subst hr
    have := adaptDelta_ok (hs _ ht) hd
    exact ⟨this.diff, this.ndiffs, this.nreceipts, this.count⟩
  | reclass cls hr ht =>
    subst hr
    have := hs _ ht
    exact ⟨this.diff, this.ndiffs, this.nreceipts, this.count⟩

theorem step_allOK {s : Store} (hs : AllOK s) (op : Op) : AllOK (step s op) := by
  cases op with
  | advance o =>
    cases s with
    | none => simp [step, advanceTo, AllOK]
    | some cur =>
      simp only [step, advanceTo]
      split
      · exact hs
      · split
        · exact hs
        · split
          · trivial
          · intro e he
            simp only [rebuild_eq_take] at he
            exact hs e (List.mem_of_mem_take he)
  | apply u b t o c =>
    simp only [step, applyUpdate]
    split
    · rename_i chain aff hc
      obtain ⟨rest, hn, hb, hrest⟩ := computeUpdate_shape hc
      intro e he
      simp only [hn, List.mem_cons] at he
      rcases he with rfl | he
      · exact built_ok hs hb
      · obtain ⟨r, hr, hm⟩ := hrest e he
        subst hr
        exact hs e hm
    · exact hs
    · exact hs

theorem run_allOK (ops : List Op) : AllOK (run ops) := by
  unfold run
  suffices h : ∀ s, AllOK s → AllOK (ops.foldl step s) from h none trivial
  induction ops with
  | nil => intro s hs; exact hs
  | cons op rest ih => intro s hs; exact ih _ (step_allOK hs op)

/-! ### `PreConfirmedStateBeforeIndexAt` -/

theorem mergeBefore_eq (l : List PreConf) (lo b : Nat) (d : Diff) (c : AMap Felt Nat)
    (hnum : l.map (·.number) = List.range' lo l.length) (hb : lo ≤ b) (hb' : b < lo + l.length) :
    ∃ target, l[b - lo]? = some target ∧ target.number = b ∧
      mergeBefore l b d c =
        (((l.take (b - lo)).map (·.diff)).foldl Diff.merge d,
         ((l.take (b - lo)).map (·.classes)).foldl mergeClassesInto c, some target) := by
  induction l generalizing lo d c with
  | nil => simp at hb'; omega
  | cons e rest ih =>
    simp only [List.map_cons, List.length_cons, List.range'_succ, List.cons.injEq] at hnum
    obtain ⟨he, hrest⟩ := hnum
    by_cases hlb : lo = b
    · subst hlb
      exact ⟨e, by simp, he, by simp [mergeBefore, he]⟩
    · have hne : (e.number == b) = false := by simp [he, hlb]
      have hlen : b < lo + 1 + rest.length := by simp only [List.length_cons] at hb'; omega
      obtain ⟨tg, h1, h2, h3⟩ := ih (lo + 1) (d.merge e.diff) (mergeClassesInto c e.classes) hrest (by omega) hlen
      have e1 : b - lo = (b - (lo + 1)) + 1 := by omega
      refine ⟨tg, by rw [e1]; simpa using h1, h2, ?_⟩
      simp only [mergeBefore, hne, Bool.false_eq_true, ↓reduceIte, h3]
      rw [e1, List.take_succ_cons]
      simp

/-- the overlay `PreConfirmedStateBeforeIndexAt(b, k)` builds: the view's blocks older than `b`
merged, then the first `k` per-transaction diffs of block `b`; classes of the older blocks and ALL
classes of block `b` -/
def overlayBefore (older : List PreConf) (target : PreConf) (k : Nat) (head : Base) (bn : Nat) : PState :=
  { diff := (target.txDiffs.take k).foldl Diff.merge ((older.map (·.diff)).foldl Diff.merge Diff.empty)
    classes := mergeClassesInto ((older.map (·.classes)).foldl mergeClassesInto []) target.classes
    head := head, blockNumber := bn }

/-- `PreConfirmedStateBeforeIndexAt` on a reader's view, for EVERY index: not found outside the
view; inside it, with `e` the view's block `b`: out of bounds for `k > len(txs)`, else the base
error if the base is unavailable, else `overlayBefore`. -/
theorem stateBeforeIndexAt_spec {s : Store} (h : StoreWF s) (head b k : Nat)
    (baseAt : Nat → Option Base) :
    let v := snapshotFor s (head + 1)
    ((head + 1 ≤ b ∧ b ≤ head + v.length) →
      ∃ e, v.oldestFirst[b - (head + 1)]? = some e ∧ e.number = b ∧
        stateBeforeIndexAt v b k baseAt =
          if k > e.txs.length then .error .indexOutOfBounds
          else match baseAt head with
            | none => .error .noBase
            | some base => .ok (overlayBefore (v.oldestFirst.take (b - (head + 1))) e k base b)) ∧
    (¬ (head + 1 ≤ b ∧ b ≤ head + v.length) → stateBeforeIndexAt v b k baseAt = .error .notFound) := by
  have A := snapshot_view h head
  have B := snapshot_spec h (head + 1)
  dsimp only at A B ⊢
  generalize snapshotFor s (head + 1) = v at A B ⊢
  obtain ⟨hv1, hv2⟩ := A
  obtain ⟨hs1, hs2⟩ := B
  constructor
  · intro hb
    have hc : v.contains b = true := (hv2 b).mpr hb
    have hpos : 0 < v.length := by omega
    obtain ⟨ho, _⟩ := hv1 hpos
    have hlen : v.oldestFirst.length = v.length := by
      rw [Reader.oldestFirst_eq, List.length_reverse]; exact hs1
    have hnum : v.oldestFirst.map (·.number) = List.range' (head + 1) v.oldestFirst.length := by
      rw [hlen]; exact hs2
    have hlt : b < head + 1 + v.oldestFirst.length := by rw [hlen]; omega
    obtain ⟨tg, hget, htn, hmb⟩ := mergeBefore_eq v.oldestFirst (head + 1) b Diff.empty [] hnum hb.1 hlt
    refine ⟨tg, hget, htn, ?_⟩
    simp only [stateBeforeIndexAt, hc, Bool.not_true, Bool.false_eq_true, ↓reduceIte, hmb, ho, pred64_succ]
    split
    · rfl
    · cases baseAt head with
      | none => rfl
      | some base => rfl
  · intro hb
    have hc : v.contains b = false := by
      cases hcc : v.contains b with
      | false => rfl
      | true => exact absurd ((hv2 b).mp hcc) hb
    simp [stateBeforeIndexAt, hc]

/-- with a consistent entry, the overlay before index `len(txs)` is the overlay at the block -/
theorem overlayBefore_end (older : List PreConf) (e : PreConf) (he : EntryOK e) (head : Base) (bn : Nat) :
    overlayBefore older e e.txs.length head bn = overlayOf (older ++ [e]) head bn := by
  have e1 : e.txDiffs.take e.txs.length = e.txDiffs := by
    rw [← he.ndiffs]; exact List.take_length
  simp only [overlayBefore, overlayOf, e1, List.map_append, List.map_cons, List.map_nil,
    List.foldl_append, List.foldl_cons, List.foldl_nil]
  rw [he.diff, merge_mergeAll]

/-- every entry of a view of a consistent store is consistent -/
theorem view_entries_ok {s : Store} (hok : AllOK s) (b : Nat) :
    ∀ e ∈ (snapshotFor s b).newestFirst, EntryOK e := by
  intro e he
  cases s with
  | none => simp [snapshotFor, Reader.empty, Reader.newestFirst] at he
  | some cur =>
    simp only [snapshotFor] at he
    split at he
    · simp [Reader.empty, Reader.newestFirst] at he
    · exact hok e (List.mem_of_mem_take he)

end Juno.C20
