import JunoModel.C20.Alias
/-!
C20 — no map that existed before a call of the adapters / state builders is written by it, and
everything the result refers to is fresh.
-/
namespace Juno.C20.Alias
open Juno.C20

/-- every object below the watermark `w` is untouched, and nothing was deallocated -/
def Unch (w : Nat) (m m' : Mem) : Prop :=
  m.length ≤ m'.length ∧ ∀ a, a < w → m'[a]? = m[a]?

theorem Unch.refl (w : Nat) (m : Mem) : Unch w m m := ⟨Nat.le_refl _, fun _ _ => rfl⟩

theorem Unch.trans {w : Nat} {m₁ m₂ m₃ : Mem} (h₁ : Unch w m₁ m₂) (h₂ : Unch w m₂ m₃) :
    Unch w m₁ m₃ :=
  ⟨Nat.le_trans h₁.1 h₂.1, fun a ha => by rw [h₂.2 a ha, h₁.2 a ha]⟩

theorem write_unch {w : Nat} (m : Mem) {a : Nat} (o : Obj) (ha : w ≤ a) : Unch w m (write m a o) := by
  refine ⟨by simp [write], ?_⟩
  intro a' ha'
  simp only [write]
  rw [List.getElem?_set_ne (by omega)]

theorem alloc_unch {w : Nat} (m : Mem) (o : Obj) (hw : w ≤ m.length) : Unch w m (alloc m o).1 := by
  refine ⟨by simp [alloc], ?_⟩
  intro a ha
  simp only [alloc]
  rw [List.getElem?_append_left (by omega)]

/-- writing a single-level map somewhere can only remove entries from what an address reads as an
outer map (it stays the same, or stops being an outer map) -/
theorem outerAt_write_flat (m : Mem) (a o : Nat) (x : AMap Felt Felt) :
    ∀ e ∈ outerAt (write m a (.flat x)) o, e ∈ outerAt m o := by
  intro e he
  simp only [outerAt, write] at he ⊢
  by_cases hao : a = o
  · subst hao
    by_cases hl : a < m.length
    · rw [List.getElem?_set_self hl] at he
      simp at he
    · rw [List.getElem?_eq_none (by simp; omega)] at he
      simp at he
  · rw [List.getElem?_set_ne hao] at he
    exact he

theorem outerAt_alloc_flat (m : Mem) (o : Nat) (x : AMap Felt Felt) :
    ∀ e ∈ outerAt (alloc m (.flat x)).1 o, e ∈ outerAt m o := by
  intro e he
  simp only [outerAt, alloc] at he ⊢
  rcases Nat.lt_trichotomy o m.length with h | h | h
  · rw [List.getElem?_append_left h] at he; exact he
  · subst h
    rw [List.getElem?_append_right (Nat.le_refl _)] at he
    simp at he
  · rw [List.getElem?_eq_none (by simp; omega)] at he
    simp at he

theorem outerAt_write_outer (m : Mem) (o : Nat) (x : AMap Felt Nat) :
    ∀ e ∈ outerAt (write m o (.outer x)) o, e ∈ x := by
  intro e he
  simp only [outerAt, write] at he
  by_cases hl : o < m.length
  · rw [List.getElem?_set_self hl] at he
    exact he
  · rw [List.getElem?_eq_none (by simp; omega)] at he
    simp at he

theorem get_mem {β : Type} {m : AMap Felt β} {k : Felt} {v : β} (h : AMap.get m k = some v) :
    ∃ k', (k', v) ∈ m := by
  induction m with
  | nil => simp [AMap.get] at h
  | cons kv rest ih =>
    obtain ⟨k', v'⟩ := kv
    simp only [AMap.get] at h
    split at h
    · cases h; exact ⟨k', by simp⟩
    · obtain ⟨k'', hk⟩ := ih h
      exact ⟨k'', by simp [hk]⟩

/-- the receiver's storage side: its outer map is above the watermark and so is every inner map it
refers to -/
structure OwnedStorage (w : Nat) (m : Mem) (dOuter : Nat) : Prop where
  outer : w ≤ dOuter
  inner : ∀ e ∈ outerAt m dOuter, w ≤ e.2
  len : w ≤ m.length

theorem mergeStorage_frame {w : Nat} (dOuter : Nat) :
    ∀ (inc : List (Felt × Nat)) (m : Mem), OwnedStorage w m dOuter →
      Unch w m (mergeStorage m dOuter inc) ∧ OwnedStorage w (mergeStorage m dOuter inc) dOuter := by
  intro inc
  induction inc with
  | nil => intro m h; exact ⟨Unch.refl _ _, h⟩
  | cons e rest ih =>
    intro m h
    obtain ⟨addr, incInner⟩ := e
    simp only [mergeStorage]
    cases hg : AMap.get (outerAt m dOuter) addr with
    | some oldInner =>
      simp only
      obtain ⟨k', hk⟩ := get_mem hg
      have hold : w ≤ oldInner := h.inner _ hk
      have hu := write_unch (w := w) m (.flat (AMap.copyInto (flatAt m oldInner) (flatAt m incInner))) hold
      have ho : OwnedStorage w (write m oldInner (.flat (AMap.copyInto (flatAt m oldInner) (flatAt m incInner)))) dOuter :=
        ⟨h.outer, fun e he => h.inner e (outerAt_write_flat m oldInner dOuter _ e he),
          Nat.le_trans h.len hu.1⟩
      obtain ⟨hu2, ho2⟩ := ih _ ho
      exact ⟨hu.trans hu2, ho2⟩
    | none =>
      simp only [alloc]
      have hu1 := alloc_unch (w := w) m (.flat (flatAt m incInner)) h.len
      have hu2 := write_unch (w := w) (m ++ [Obj.flat (flatAt m incInner)])
        (.outer (AMap.set (outerAt (m ++ [Obj.flat (flatAt m incInner)]) dOuter) addr m.length)) h.outer
      have ho : OwnedStorage w (write (m ++ [Obj.flat (flatAt m incInner)]) dOuter
          (.outer (AMap.set (outerAt (m ++ [Obj.flat (flatAt m incInner)]) dOuter) addr m.length))) dOuter := by
        refine ⟨h.outer, ?_, Nat.le_trans h.len (Nat.le_trans hu1.1 hu2.1)⟩
        intro e he
        have := outerAt_write_outer _ dOuter _ e he
        simp only [AMap.set, List.mem_cons] at this
        rcases this with rfl | hin
        · exact h.len
        · exact h.inner e (outerAt_alloc_flat m dOuter _ e hin)
      obtain ⟨hu3, ho3⟩ := ih _ ho
      exact ⟨(hu1.trans hu2).trans hu3, ho3⟩

theorem mergeFlats_frame {w : Nat} (dOuter : Nat) :
    ∀ (ds is : List Nat) (m : Mem), (∀ d ∈ ds, w ≤ d) → OwnedStorage w m dOuter →
      Unch w m (mergeFlats m ds is) ∧ OwnedStorage w (mergeFlats m ds is) dOuter := by
  intro ds
  induction ds with
  | nil => intro is m _ h; cases is <;> exact ⟨Unch.refl _ _, h⟩
  | cons d ds ih =>
    intro is m hd h
    cases is with
    | nil => exact ⟨Unch.refl _ _, h⟩
    | cons i is =>
      simp only [mergeFlats]
      have hu := write_unch (w := w) m (.flat (AMap.copyInto (flatAt m d) (flatAt m i))) (hd d (by simp))
      have ho : OwnedStorage w (write m d (.flat (AMap.copyInto (flatAt m d) (flatAt m i)))) dOuter :=
        ⟨h.outer, fun e he => h.inner e (outerAt_write_flat m d dOuter _ e he), Nat.le_trans h.len hu.1⟩
      obtain ⟨hu2, ho2⟩ := ih is _ (fun d' hd' => hd d' (by simp [hd'])) ho
      exact ⟨hu.trans hu2, ho2⟩

/-- a diff all of whose maps (outer, inner, single-level) were allocated at or above `w` -/
structure Owned (w : Nat) (m : Mem) (d : ADiff) : Prop where
  storage : OwnedStorage w m d.storage
  flats : ∀ f ∈ d.flats, w ≤ f

/-- **`Merge` writes only into maps the receiver owns**, whatever `incoming` is (published or not),
and the receiver still owns everything it refers to afterwards (incoming inner maps are cloned,
never adopted). -/
theorem merge_frame {w : Nat} {m : Mem} {d : ADiff} (inc : ADiff) (h : Owned w m d) :
    Unch w m (merge m d inc).1 ∧ Owned w (merge m d inc).1 (merge m d inc).2 := by
  simp only [merge]
  obtain ⟨hu1, ho1⟩ := mergeStorage_frame d.storage (effective (outerAt m inc.storage)) m h.storage
  obtain ⟨hu2, ho2⟩ := mergeFlats_frame d.storage d.flats inc.flats _ h.flats ho1
  exact ⟨hu1.trans hu2, ⟨ho2, h.flats⟩⟩

theorem emptyDiff_fresh (m : Mem) :
    Unch m.length m (emptyDiff m).1 ∧ Owned m.length (emptyDiff m).1 (emptyDiff m).2 := by
  simp only [emptyDiff, alloc]
  refine ⟨⟨by simp, ?_⟩, ⟨⟨Nat.le_refl _, ?_, by simp⟩, ?_⟩⟩
  · intro a ha
    simp only [List.append_assoc]
    rw [List.getElem?_append_left ha]
  · intro e he
    simp only [outerAt, List.append_assoc] at he
    rw [List.getElem?_append_right (Nat.le_refl _)] at he
    simp at he
  · intro f hf
    simp only [List.length_append, List.length_cons, List.length_nil, List.mem_cons,
      List.not_mem_nil, or_false] at hf
    omega

/-- **The squash loop never writes to a map that existed before it started, and its result refers
to fresh maps only** — for ANY memory and ANY list of incoming diffs (the diffs of published
entries, per-transaction diffs of published entries, freshly adapted diffs). This is the body of
`AdaptPreConfirmedBlock`, of `AdaptPreConfirmedWithDelta` (incoming = current entry's diff followed
by the appended transactions' diffs) and of `PreConfirmedStateAt` /
`PreConfirmedStateBeforeIndexAt` (incoming = the view's diffs). -/
theorem squash_frame (m : Mem) (xs : List ADiff) :
    Unch m.length m (squash m xs).1 ∧ Owned m.length (squash m xs).1 (squash m xs).2 := by
  simp only [squash]
  obtain ⟨hu0, ho0⟩ := emptyDiff_fresh m
  generalize (emptyDiff m).1 = m0 at hu0 ho0
  generalize (emptyDiff m).2 = d0 at ho0
  induction xs generalizing m0 d0 with
  | nil => exact ⟨hu0, ho0⟩
  | cons x rest ih =>
    simp only [List.foldl_cons]
    obtain ⟨hu1, ho1⟩ := merge_frame x ho0
    exact ih _ (hu0.trans hu1) _ ho1

/-- what existed is never written, in terms of reads: every map a published entry refers to reads
the same before and after -/
theorem squash_preserves_published (m : Mem) (xs : List ADiff) (a : Nat) (ha : a < m.length) :
    (squash m xs).1[a]? = m[a]? :=
  (squash_frame m xs).1.2 a ha

/-- two published diffs writing different slots of contract 7 -/
private def pubMem : Mem :=
  (load (load [] { storage := [((7, 1), 5)] }).1 { storage := [((7, 2), 6)] }).1
private def pubA : ADiff := (load [] { storage := [((7, 1), 5)] }).2
private def pubB : ADiff := (load (load [] { storage := [((7, 1), 5)] }).1 { storage := [((7, 2), 6)] }).2

/-- **The frame theorem is about the clone**: with the inner map adopted instead of cloned, merging
two published diffs that touch the same contract writes into the first one's (published) inner
map. -/
theorem adopting_inner_maps_breaks_frame :
    ∃ (m : Mem) (xs : List ADiff) (a : Nat), a < m.length ∧ (squashNoClone m xs).1[a]? ≠ m[a]? :=
  ⟨pubMem, [pubA, pubB], 0, by decide, by decide⟩

-- the same inputs through juno's `Merge`: nothing published changes, and the result is right
example : ∀ a, a < pubMem.length → (squash pubMem [pubA, pubB]).1[a]? = pubMem[a]? :=
  fun a ha => squash_preserves_published pubMem [pubA, pubB] a ha
example : (denote (squash pubMem [pubA, pubB]).1 (squash pubMem [pubA, pubB]).2).storage =
    [((7, 2), 6), ((7, 1), 5)] := by decide

end Juno.C20.Alias
