import JunoModel.C20.Model
/-!
C20 — the adapters and the state builders with the identity of every Go map made explicit.

`Model.lean` treats a `core.StateDiff` as a value. In Go it is a struct of *maps* — mutable
objects that can be shared: `StateDiff.Merge` writes into the maps of its receiver, copies the
entries of the single-level maps and, for `StorageDiffs` (a map of maps), either writes into an
inner map the receiver already has or stores a *clone* of the incoming inner map. Whether the
maps of an entry that readers already hold can be written later is exactly a question about which
map objects the receiver of a `Merge` refers to.

Here every map is an object in a memory `Mem` (address = index). A diff is the tuple of the
addresses of its maps. `merge` performs the writes of `Merge` on the memory. The callers are
transcribed with their allocation pattern: `AdaptPreConfirmedBlock` and `PreConfirmedStateAt`
start from `core.EmptyStateDiff()` (seven fresh maps) and merge published diffs into it;
`AdaptPreConfirmedWithDelta` starts from `EmptyStateDiff()`, merges the current entry's diff, then
the appended transactions' diffs. `ProofsAlias.lean` proves that none of them writes to a map that
existed before the call. Core Lean only (the driver runs it next to the value model).
-/
namespace Juno.C20.Alias
open Juno.C20

/-- a Go map object -/
inductive Obj
  | flat (m : AMap Felt Felt)    -- `map[felt.Felt]*felt.Felt` (and MigratedClasses)
  | outer (m : AMap Felt Nat)    -- `StorageDiffs`: contract address ↦ address of the inner map object
  deriving Inhabited, DecidableEq

abbrev Mem := List Obj

/-- a `*core.StateDiff`: the addresses of its map objects -/
structure ADiff where
  storage : Nat          -- StorageDiffs (an `outer`)
  flats   : List Nat     -- Nonces, DeployedContracts, DeclaredV1Classes, ReplacedClasses, MigratedClasses
  v0      : List Felt    -- DeclaredV0Classes (a slice of immutable felts; `append` copies)
  deriving Inhabited

def alloc (mem : Mem) (o : Obj) : Mem × Nat := (mem ++ [o], mem.length)

/-- `m[k] = v` / `maps.Copy(m, …)`: the object at `a` is overwritten in place -/
def write (mem : Mem) (a : Nat) (o : Obj) : Mem := mem.set a o

def flatAt (mem : Mem) (a : Nat) : AMap Felt Felt :=
  match mem[a]? with
  | some (.flat m) => m
  | _ => []

def outerAt (mem : Mem) (a : Nat) : AMap Felt Nat :=
  match mem[a]? with
  | some (.outer m) => m
  | _ => []

/-- `core.EmptyStateDiff()`: six fresh maps (one outer, five single-level) -/
def emptyDiff (mem : Mem) : Mem × ADiff :=
  let (m1, s) := alloc mem (.outer [])
  let (m2, f1) := alloc m1 (.flat [])
  let (m3, f2) := alloc m2 (.flat [])
  let (m4, f3) := alloc m3 (.flat [])
  let (m5, f4) := alloc m4 (.flat [])
  let (m6, f5) := alloc m5 (.flat [])
  (m6, { storage := s, flats := [f1, f2, f3, f4, f5], v0 := [] })

/-- the storage loop of `Merge`, one incoming contract at a time:
`if old, ok := d.StorageDiffs[addr]; ok { maps.Copy(old, new) } else { d.StorageDiffs[addr] = maps.Clone(new) }` -/
def mergeStorage (mem : Mem) (dOuter : Nat) : List (Felt × Nat) → Mem
  | [] => mem
  | (addr, incInner) :: rest =>
    let mem' :=
      match AMap.get (outerAt mem dOuter) addr with
      | some oldInner => write mem oldInner (.flat (AMap.copyInto (flatAt mem oldInner) (flatAt mem incInner)))
      | none =>
        let (m1, fresh) := alloc mem (.flat (flatAt mem incInner))
        write m1 dOuter (.outer (AMap.set (outerAt m1 dOuter) addr fresh))
    mergeStorage mem' dOuter rest

/-- `maps.Copy(d.X, incoming.X)` for the single-level maps, pairwise -/
def mergeFlats (mem : Mem) : List Nat → List Nat → Mem
  | d :: ds, i :: is => mergeFlats (write mem d (.flat (AMap.copyInto (flatAt mem d) (flatAt mem i)))) ds is
  | _, _ => mem

/-- the effective entries of a shadowing map, first occurrence of each key -/
def effective {β : Type} (m : AMap Felt β) : List (Felt × β) :=
  (AMap.keys m).filterMap fun k => (AMap.get m k).map fun v => (k, v)

/-- `func (d *StateDiff) Merge(incoming *StateDiff)`: returns the memory after the writes and the
receiver (same addresses; only the slice field is a new value) -/
def merge (mem : Mem) (d inc : ADiff) : Mem × ADiff :=
  let m1 := mergeStorage mem d.storage (effective (outerAt mem inc.storage))
  let m2 := mergeFlats m1 d.flats inc.flats
  (m2, { d with v0 := d.v0 ++ inc.v0 })

/-- `stateDiff := core.EmptyStateDiff(); for _, x := range xs { stateDiff.Merge(x) }` — the body of
`AdaptPreConfirmedBlock` (squash of the per-transaction diffs), of `PreConfirmedStateAt` (the
view's block diffs) and, with the current entry's diff first, of `AdaptPreConfirmedWithDelta` -/
def squash (mem : Mem) (xs : List ADiff) : Mem × ADiff :=
  let (m0, d0) := emptyDiff mem
  xs.foldl (fun (acc : Mem × ADiff) x => merge acc.1 acc.2 x) (m0, d0)

/-- NOT juno's code: `Merge` with the clone forgotten (`d.StorageDiffs[addr] = newAddrStorage`),
the seeded defect of the self-test. Kept to show that the frame theorem is about the clone:
`ProofsAlias.adopting_inner_maps_breaks_frame`. -/
def mergeStorageNoClone (mem : Mem) (dOuter : Nat) : List (Felt × Nat) → Mem
  | [] => mem
  | (addr, incInner) :: rest =>
    let mem' :=
      match AMap.get (outerAt mem dOuter) addr with
      | some oldInner => write mem oldInner (.flat (AMap.copyInto (flatAt mem oldInner) (flatAt mem incInner)))
      | none => write mem dOuter (.outer (AMap.set (outerAt mem dOuter) addr incInner))
    mergeStorageNoClone mem' dOuter rest

def squashNoClone (mem : Mem) (xs : List ADiff) : Mem × ADiff :=
  let (m0, d0) := emptyDiff mem
  xs.foldl (fun (acc : Mem × ADiff) x =>
    (mergeFlats (mergeStorageNoClone acc.1 acc.2.storage (effective (outerAt acc.1 x.storage))) acc.2.flats x.flats,
     { acc.2 with v0 := acc.2.v0 ++ x.v0 })) (m0, d0)

/-- load a value diff into fresh map objects (`sn2core.AdaptStateDiff` builds the maps of a
per-transaction diff from the wire lists) -/
def load (mem : Mem) (d : Diff) : Mem × ADiff :=
  -- group the flattened storage by contract: one inner map per address
  let addrs := (AMap.keys d.storage).map (·.1) |>.eraseDups
  let (m1, outer) := addrs.foldl (fun (acc : Mem × AMap Felt Nat) a =>
      let inner : AMap Felt Felt := (effective' d.storage).filterMap fun (ak, v) => if ak.1 == a then some (ak.2, v) else none
      let (m, ia) := alloc acc.1 (.flat inner)
      (m, acc.2 ++ [(a, ia)])) (mem, [])
  let (m2, s) := alloc m1 (.outer outer)
  let (m3, f1) := alloc m2 (.flat d.nonces)
  let (m4, f2) := alloc m3 (.flat d.deployed)
  let (m5, f3) := alloc m4 (.flat d.declaredV1)
  let (m6, f4) := alloc m5 (.flat d.replaced)
  let (m7, f5) := alloc m6 (.flat d.migrated)
  (m7, { storage := s, flats := [f1, f2, f3, f4, f5], v0 := d.declaredV0 })
where
  effective' (m : AMap (Felt × Felt) Felt) : List ((Felt × Felt) × Felt) :=
    (AMap.keys m).filterMap fun k => (AMap.get m k).map fun v => (k, v)

/-- the value a diff object denotes: its maps read out of the memory -/
def denote (mem : Mem) (d : ADiff) : Diff :=
  let st : AMap (Felt × Felt) Felt :=
    (effective (outerAt mem d.storage)).flatMap fun (a, ia) =>
      (effective (flatAt mem ia)).map fun (k, v) => ((a, k), v)
  { storage := st
    nonces := flatAt mem (d.flats.getD 0 0)
    deployed := flatAt mem (d.flats.getD 1 0)
    declaredV1 := flatAt mem (d.flats.getD 2 0)
    replaced := flatAt mem (d.flats.getD 3 0)
    migrated := flatAt mem (d.flats.getD 4 0)
    declaredV0 := d.v0 }

end Juno.C20.Alias
