import JunoModel.C20.Model
/-!
C20 — the `NewClasses` maps with their identity made explicit (round 5).

`Model.lean` treats `pending.PreConfirmed.NewClasses` (a `map[felt.Felt]core.ClassDefinition`) as a
value. In Go it is a mutable object that several entries may SHARE and that two helpers of
`chain_storage.go` treat differently:

* `mergeClassesInto(dst, src)` — used by the READERS (`PreConfirmedStateAt`,
  `PreConfirmedStateBeforeIndexAt`) to accumulate the class table of a view oldest-first — writes
  `src` INTO `dst` in place (`maps.Copy(dst, src)`) and only clones when `dst` is nil;
* `mergeClassesCopying(base, extra)` — used by the WRITER (`replaceSlot`, delta and no-change
  branches) — returns `base` itself when `extra` is empty and otherwise a clone of `base` with `extra`
  copied in;
* `next.NewClasses = newClasses` (bootstrap / extend / full-block replace) ADOPTS the caller's map;
  `next := *current` (delta, no-change) starts out sharing the published entry's map.

Whether a map that readers already hold can be written later is a question about which object the
in-place write of `mergeClassesInto` hits. Here every class map is an object in a memory `CMem`
(address = index); a Go map value is `none` (nil) or the address of an object. `ProofsClassAlias.lean`
proves that neither the readers' accumulation loop nor the writer's operations write to an object that
existed before the call. Core Lean only: the driver runs this next to the value model and reports which
object an entry's / a state's class map is (nil, the caller's, shared with the replaced entry, fresh);
the harness compares that with the pointer identity of the real Go maps.
-/
namespace Juno.C20.CAlias
open Juno.C20

/-- the class-map objects; address = index -/
abbrev CMem := List (AMap Felt Nat)

/-- a Go value of type `map[felt.Felt]core.ClassDefinition`: nil or a map object -/
abbrev CRef := Option Nat

/-- the content a map value denotes (`nil` reads as the empty map) -/
def cget (m : CMem) (r : CRef) : AMap Felt Nat :=
  match r with
  | none => []
  | some a => m.getD a []

/-- `make(map…)` / a map literal: a new object -/
def calloc (m : CMem) (content : AMap Felt Nat) : CMem × CRef := (m ++ [content], some m.length)

/-- `maps.Clone(src)`: nil stays nil, otherwise a new object with the same content -/
def cclone (m : CMem) (src : CRef) : CMem × CRef :=
  match src with
  | none => (m, none)
  | some _ => calloc m (cget m src)

/-- `maps.Copy(dst, src)` on a non-nil `dst`: the object at `d` is overwritten IN PLACE -/
def ccopyInto (m : CMem) (d : Nat) (src : CRef) : CMem :=
  m.set d (AMap.copyInto (cget m (some d)) (cget m src))

/-- `mergeClassesInto(dst, src)` -/
def mergeClassesInto (m : CMem) (dst src : CRef) : CMem × CRef :=
  if AMap.size (cget m src) == 0 then (m, dst)
  else match dst with
    | none => cclone m src
    | some d => (ccopyInto m d src, some d)

/-- `mergeClassesCopying(base, extra)` -/
def mergeClassesCopying (m : CMem) (base extra : CRef) : CMem × CRef :=
  if AMap.size (cget m extra) == 0 then (m, base)
  else
    match cclone m base with
    | (m1, none) =>
      -- `merged = make(map…, len(extra)); maps.Copy(merged, extra)`
      let (m2, r) := calloc m1 []
      match r with
      | some a => (ccopyInto m2 a extra, some a)
      | none => (m2, none)
    | (m1, some a) => (ccopyInto m1 a extra, some a)

/-- the accumulation loop of `PreConfirmedStateAt` over the class maps of the entries it visits
(oldest first): `var newClasses map…; for … { newClasses = mergeClassesInto(newClasses, entry.NewClasses) }` -/
def accumulate (m : CMem) (refs : List CRef) : CMem × CRef :=
  refs.foldl (fun (acc : CMem × CRef) r => mergeClassesInto acc.1 acc.2 r) (m, none)

/-- what `computeUpdate` does with class maps when it produces a new entry for a slot:
`target` = the map of the entry currently at the slot (delta / no-change copy the entry struct and so
start out sharing it), `caller` = the `newClasses` argument -/
def applyClassRef (m : CMem) (u : Update) (target caller : CRef) : CMem × CRef :=
  match u with
  | .block _ _ _ => (m, caller)                           -- `next.NewClasses = newClasses`
  | .delta _ _ => mergeClassesCopying m target caller     -- `mergeClassesCopying(next.NewClasses, newClasses)`
  | .noChange => mergeClassesCopying m target caller      -- `mergeClassesCopying(target.preconfirmed.NewClasses, newClasses)`

/-- NOT juno's code: `mergeClassesInto` returning `src` itself for a nil `dst` (a seeded defect of the
self-tests): the next iteration's in-place copy then hits a PUBLISHED map. Kept to show that the frame
theorem is about the clone (`ProofsClassAlias.adopting_src_breaks_frame`). -/
def mergeClassesIntoNoClone (m : CMem) (dst src : CRef) : CMem × CRef :=
  if AMap.size (cget m src) == 0 then (m, dst)
  else match dst with
    | none => (m, src)
    | some d => (ccopyInto m d src, some d)

def accumulateNoClone (m : CMem) (refs : List CRef) : CMem × CRef :=
  refs.foldl (fun (acc : CMem × CRef) r => mergeClassesIntoNoClone acc.1 acc.2 r) (m, none)

/-- where a map value comes from, relative to the memory before the call (`w` = its size), the
caller's argument and the replaced entry's map: what the harness observes by pointer identity -/
def origin (w : Nat) (target caller result : CRef) : String :=
  match result with
  | none => "nil"
  | some a =>
    if result == caller then "caller"
    else if result == target then "shared"
    else if a ≥ w then "fresh"
    else "other-published"

end Juno.C20.CAlias
