import JunoModel.C13.ProofsShape
/-!
C13 — juno's machine (with the F5 fix) RESTRICTED to the states that satisfy C12's invariant
`MInv` (the vote counter is at the state's height; a stored proposal carries the height, round and
proposer of its slot). `MInv` holds initially and is preserved by EVERY call — also by a timeout
handed to a height that is not started, which the driver's discipline excludes and C12's
`step_chain` therefore does not cover. On this state space the two facts that `ReplaySafeRest`
leaves open for arbitrary records hold: an accepted message is not below the current height, a
commit is for the current height.
-/
namespace Juno.C13
open Juno

/-- "any message may arrive" -/
def AnyMsg : C12.VCChange → Prop := fun _ => True

theorem process_minv (env : C12.Env) (m : C12.Machine) (rr : Option Int) (hi : C12.MInv env m) :
    C12.MInv env (m.process env rr).1 := by
  have hsel := C12.select_spec env m rr
  unfold C12.Machine.process
  split <;> rename_i heq <;> rw [heq] at hsel <;> simp only [C12.SelSpec] at hsel
  · exact (C12.doFirstProposal_spec (A := AnyMsg) env m _ hsel.1 hsel.2 hi).2
  · exact (C12.doPolkaPrevious_spec (A := AnyMsg) env m _ hsel.1 hsel.2 hi).2
  · exact (C12.doPolkaAny_spec (A := AnyMsg) env m hi).2
  · exact (C12.doPolkaCurrent_spec (A := AnyMsg) env m _ hsel.1 hsel.2 hi).2
  · exact (C12.doPolkaNil_spec (A := AnyMsg) env m hsel hi).2
  · exact (C12.doPrecommitAny_spec (A := AnyMsg) env m hi).2
  · exact (C12.doCommitValue_spec (A := AnyMsg) env m _ hsel.1 hsel.2 hi).2
  · exact (C12.startRound_tail (A := AnyMsg) env m _ hi).2
  · exact hi

theorem loop_minv (env : C12.Env) (rr : Option Int) : ∀ (fuel : Nat) (m : C12.Machine)
    (acc : List C12.Action), C12.MInv env m →
    C12.MInv env (C12.Machine.processLoopAux env rr fuel m acc).1 := by
  intro fuel
  induction fuel with
  | zero => intro m acc hi; exact hi
  | succ n ih =>
    intro m acc hi
    have hp := process_minv env m rr hi
    unfold C12.Machine.processLoopAux
    generalize m.process env rr = res at hp
    obtain ⟨m', a, cont⟩ := res
    simp only at hp ⊢
    cases cont with
    | false => exact hp
    | true => simp only [if_true]; exact ih m' _ hp

theorem processLoop_minv (env : C12.Env) (m : C12.Machine) (acts : List C12.Action)
    (rr : Option Int) (hi : C12.MInv env m) : C12.MInv env (m.processLoop env acts rr).1 := by
  unfold C12.Machine.processLoop
  exact loop_minv env rr C12.loopFuel m acts hi

theorem onTimeout_minv (env : C12.Env) (m : C12.Machine) (s : C12.Step) (h : Nat) (r : Int)
    (hi : C12.MInv env m) : C12.MInv env (m.onTimeout env s h r).1 := by
  unfold C12.Machine.onTimeout
  cases s <;> simp only <;> split
  · exact C12.sendPrevote_inv env m none hi
  · exact hi
  · exact C12.sendPrecommit_inv env m none hi
  · exact hi
  · exact (C12.startRound_tail (A := AnyMsg) env m _ hi).2
  · exact hi

/-- **`MInv` is preserved by every call of the driver into C12's machine** — no discipline. -/
theorem step_minv (env : C12.Env) (m : C12.Machine) (ci : C12.Input)
    (hci : ∀ p vs, ci ≠ .sync p vs) (hw : ∀ e, ci ≠ .wal e) (hr : ∀ r, ci = .start r → 0 ≤ r)
    (hi : C12.MInv env m) : C12.MInv env (m.step env ci).1 := by
  cases ci with
  | start r => exact (C12.processStart_chain (A := AnyMsg) env m r (hr r rfl) hi).2
  | proposal p => exact (C12.processProposal_chain (A := AnyMsg) env m p trivial hi).2
  | prevote v => exact (C12.processPrevote_chain (A := AnyMsg) env m v trivial hi).2
  | precommit v => exact (C12.processPrecommit_chain (A := AnyMsg) env m v trivial trivial hi).2
  | timeout s h r =>
    simp only [C12.Machine.step, C12.Machine.processTimeout]
    -- since cd6cea9 C12's `processTimeout` returns at once when `onTimeout*` ignored the timeout
    split
    · exact onTimeout_minv env m s h r hi
    · exact processLoop_minv env _ _ none (onTimeout_minv env m s h r hi)
  | sync p vs => exact absurd rfl (hci p vs)
  | wal e => exact absurd rfl (hw e)

theorem tmT_step_minv (env : C12.Env) (node : Nat) (m : C12.Machine) (i : Input)
    (hi : C12.MInv env m) : C12.MInv env ((tmMachineT env node).step m i).1 := by
  by_cases hig : timeoutIgnored env m i = true
  · simpa [tmMachineT, hig] using hi
  · have hstep : (tmMachineT env node).step m i = (tmMachine env node).step m i := by
      simp [tmMachineT, hig]
    rw [hstep]
    simp only [tmMachine]
    cases hci : convInput i with
    | none => exact hi
    | some ci =>
      apply step_minv env m ci _ _ _ hi
      · intro p vs h; subst h; cases i <;> simp [convInput] at hci
      · intro e h; subst h; cases i <;> simp [convInput] at hci
      · intro r h; subst h; cases i <;> simp [convInput] at hci; omega

/-! ## the restricted machine -/

/-- A machine restricted to the states satisfying an invariant that holds initially and is
preserved by every step. Its runs are the runs of `M` (same actions, same effects). -/
def restrictMachine {S : Type} (M : Machine S) (P : S → Prop) (hinit : ∀ h, P (M.init h))
    (hstep : ∀ s i, P s → P (M.step s i).1) : Machine { s : S // P s } where
  init := fun h => ⟨M.init h, hinit h⟩
  height := fun s => M.height s.1
  started := fun s => M.started s.1
  step := fun s i => (⟨(M.step s.1 i).1, hstep s.1 i s.2⟩, (M.step s.1 i).2)

/-- juno's machine (F5 fix, no `TriggerSync`) on the states that satisfy C12's `MInv`. -/
def tmQTI (env : C12.Env) (node : Nat) : Machine { m : C12.Machine // C12.MInv env m } :=
  restrictMachine (tmQT env node) (C12.MInv env) (fun h => C12.new_MInv env node h)
    (fun m i hi => by rw [tmQT_step]; exact tmT_step_minv env node m i hi)

theorem tmQTI_step (env : C12.Env) (node : Nat) (s : { m : C12.Machine // C12.MInv env m })
    (i : Input) :
    ((tmQTI env node).step s i).1.1 = ((tmQT env node).step s.1 i).1 ∧
    ((tmQTI env node).step s i).2 = ((tmQT env node).step s.1 i).2 := ⟨rfl, rfl⟩

/-! ## a commit is for the current height; an accepted message is not below it -/

theorem process_commit_height (env : C12.Env) (m : C12.Machine) (rr : Option Int)
    (hi : C12.MInv env m) (p : C12.Proposal)
    (h : (m.process env rr).2.1 = some (C12.Action.commit p)) : p.height = m.state.height := by
  have hsel := C12.select_spec env m rr
  unfold C12.Machine.process at h
  split at h <;> rename_i heq <;> rw [heq] at hsel <;> simp only [C12.SelSpec] at hsel <;>
    simp only at h
  · simp [C12.Machine.doFirstProposal, C12.Machine.setStepAndSendPrevote] at h
  · simp [C12.Machine.doProposalAndPolkaPrevious, C12.Machine.setStepAndSendPrevote] at h
  · simp [C12.Machine.doPolkaAny, C12.Machine.scheduleTimeout] at h
  · exfalso
    unfold C12.Machine.doProposalAndPolkaCurrent at h
    by_cases hst : (m.state.step == C12.Step.prevote) = true
    · simp [hst, C12.Machine.setStepAndSendPrecommit] at h
    · simp [hst] at h
  · simp [C12.Machine.doPolkaNil, C12.Machine.setStepAndSendPrecommit] at h
  · simp [C12.Machine.doPrecommitAny, C12.Machine.scheduleTimeout] at h
  · obtain ⟨⟨r, hf⟩, _⟩ := hsel
    obtain ⟨hg, _, _⟩ := C12.findProposal_some env m _ _ hf
    obtain ⟨_, hh, _⟩ := C12.getProposal_ok env m.vc hi.vc r _ hg
    simp only [C12.Machine.doCommitValue, Option.some.injEq, C12.Action.commit.injEq] at h
    rw [← h, hh]; exact hi.cur
  · exfalso
    simp only [C12.Machine.doSkipRound, Option.some.injEq] at h
    exact C12.startRound_not_commit env m _ p h
  · cases h

/-- Every commit the rule loop appends is for the height of the machine it started from. -/
theorem loop_commit_height (env : C12.Env) (rr : Option Int) : ∀ (fuel : Nat) (m : C12.Machine)
    (acc : List C12.Action), C12.MInv env m →
    ∃ out, (C12.Machine.processLoopAux env rr fuel m acc).2.1 = acc ++ out ∧
      ∀ p, C12.Action.commit p ∈ out → p.height = m.state.height := by
  intro fuel
  induction fuel with
  | zero => intro m acc _; exact ⟨[], by simp [C12.Machine.processLoopAux], by simp⟩
  | succ n ih =>
    intro m acc hi
    have hp := process_minv env m rr hi
    have hc := process_commit_height env m rr hi
    have hh := process_height env m rr
    have hpc := C12.process_commit env m rr
    unfold C12.Machine.processLoopAux
    generalize m.process env rr = res at hp hc hh hpc
    obtain ⟨m', a, cont⟩ := res
    simp only at hp hc hh hpc ⊢
    cases a with
    | none =>
      cases cont with
      | false => exact ⟨[], by simp, by simp⟩
      | true =>
        simp only [if_true]
        have hm' : m'.state.height = m.state.height := hh.2.2 (by simp)
        obtain ⟨out, e1, e2⟩ := ih m' acc hp
        exact ⟨out, e1, fun p hpm => by rw [← hm']; exact e2 p hpm⟩
    | some x =>
      cases cont with
      | false =>
        refine ⟨[x], by simp, ?_⟩
        intro p hpm; simp at hpm; subst hpm; exact hc p rfl
      | true =>
        simp only [if_true]
        have hnc : ∀ p, x ≠ C12.Action.commit p := by
          intro p hx; subst hx
          have := (hpc p rfl).1
          cases this
        have hm' : m'.state.height = m.state.height :=
          hh.2.2 (fun p hx => by simp at hx; exact hnc p hx)
        obtain ⟨out, e1, e2⟩ := ih m' (acc ++ [x]) hp
        refine ⟨[x] ++ out, by rw [e1, List.append_assoc], ?_⟩
        intro p hpm
        rcases List.mem_append.mp hpm with h | h
        · simp at h; exact absurd h.symm (hnc p)
        · rw [← hm']; exact e2 p h

theorem processLoop_commit_height (env : C12.Env) (m m1 : C12.Machine) (acc : List C12.Action)
    (rr : Option Int) (hm : m1.state.height = m.state.height) (hi : C12.MInv env m1)
    (hnc : ∀ p, C12.Action.commit p ∉ acc) :
    ∀ p, C12.Action.commit p ∈ (m1.processLoop env acc rr).2 → p.height = m.state.height := by
  unfold C12.Machine.processLoop
  obtain ⟨out, e1, e2⟩ := loop_commit_height env rr C12.loopFuel m1 acc hi
  intro p hp
  have hp' : C12.Action.commit p ∈ (C12.Machine.processLoopAux env rr C12.loopFuel m1 acc).2.1 := hp
  rw [e1] at hp'
  rcases List.mem_append.mp hp' with h | h
  · exact absurd h (hnc p)
  · rw [← hm]; exact e2 p h

theorem processMessage_commit_height (env : C12.Env) (m m1 : C12.Machine) (h : Nat) (r : Int)
    (w : C12.WalEntry) (hm : m1.state.height = m.state.height) (hi : C12.MInv env m1) :
    ∀ p, C12.Action.commit p ∈ (m1.processMessage env h r w).2 → p.height = m.state.height := by
  unfold C12.Machine.processMessage
  split
  · intro p hp; simp at hp
  · exact processLoop_commit_height env m m1 _ _ hm hi (by intro p hp; simp at hp)

/-- Every commit a call returns is for the height the machine had when it was called. -/
theorem step_commit_height (env : C12.Env) (m : C12.Machine) (ci : C12.Input)
    (hci : ∀ p vs, ci ≠ .sync p vs) (hw : ∀ e, ci ≠ .wal e) (hi : C12.MInv env m) :
    ∀ p, C12.Action.commit p ∈ (m.step env ci).2 → p.height = m.state.height := by
  cases ci with
  | start r =>
    simp only [C12.Machine.step, C12.Machine.processStart]
    split
    · intro p hp; cases hp
    · have hs := startRound_height env { m with isHeightStarted := true } r
      have hn := C12.startRound_not_commit env { m with isHeightStarted := true } r
      have hi1 : C12.MInv env { m with isHeightStarted := true } := ⟨hi.vc, hi.cur⟩
      have hi2 := (C12.startRound_tail (A := AnyMsg) env { m with isHeightStarted := true } r hi1).2
      have hl := processLoop_commit_height env m ({ m with isHeightStarted := true }.startRound env r).1
        [({ m with isHeightStarted := true }.startRound env r).2] none hs.1 hi2
        (by intro p hp; simp at hp; exact absurd hp.symm (hn p))
      intro p hp
      simp at hp
      exact hl p hp
  | proposal p =>
    simp only [C12.Machine.step, C12.Machine.processProposal]
    have ha := C12.addProposal_inv env m.vc p hi.vc
    split
    · intro q hq; cases hq
    · exact processMessage_commit_height env m _ _ _ _ rfl
        ⟨ha.1, by show (m.vc.addProposal env p).1.cur = m.state.height; rw [ha.2.1]; exact hi.cur⟩
  | prevote v =>
    simp only [C12.Machine.step, C12.Machine.processPrevote]
    have ha := C12.addVote_inv env m.vc v .prevote hi.vc
    split
    · intro q hq; cases hq
    · exact processMessage_commit_height env m _ _ _ _ rfl
        ⟨ha.1, by show (m.vc.addVote env v .prevote).1.cur = m.state.height; rw [ha.2.1]; exact hi.cur⟩
  | precommit v =>
    simp only [C12.Machine.step, C12.Machine.processPrecommit]
    have ha := C12.addVote_inv env m.vc v .precommit hi.vc
    have hi1 : C12.MInv env { m with vc := (m.vc.addVote env v .precommit).1 } :=
      ⟨ha.1, by show (m.vc.addVote env v .precommit).1.cur = m.state.height; rw [ha.2.1]; exact hi.cur⟩
    split
    · intro q hq; cases hq
    · split
      · have hf := C12.hasFuturePrecommitQuorum_inv env (m.vc.addVote env v .precommit).1 v.height v.round v.id ha.1
        split
        · intro q hq; simp at hq
        · exact processMessage_commit_height env m _ _ _ _ rfl
            ⟨hf.1, by
              show ((m.vc.addVote env v .precommit).1.hasFuturePrecommitQuorum v.height v.round v.id).1.cur = m.state.height
              rw [hf.2, ha.2.1]; exact hi.cur⟩
      · exact processMessage_commit_height env m _ _ _ _ rfl hi1
  | timeout s h r =>
    simp only [C12.Machine.step, C12.Machine.processTimeout]
    have ho := onTimeout_height env m s h r
    split
    · intro q hq; cases hq
    · exact processLoop_commit_height env m _ _ none ho.1 (onTimeout_minv env m s h r hi)
        (C12.onTimeout_noCommit env m s h r)
  | sync p vs => exact absurd rfl (hci p vs)
  | wal e => exact absurd rfl (hw e)

theorem commit_mem_drvActs (acts : List C12.Action) (h v : Nat)
    (hm : Action.commit h v ∈ drvActs acts) :
    ∃ p, C12.Action.commit p ∈ acts ∧ p.height = h := by
  induction acts with
  | nil => simp [drvActs] at hm
  | cons a t ih =>
    rw [drvActs_cons] at hm
    cases a with
    | commit p =>
      simp only [convAction, Action.isSync, Bool.false_eq_true, if_false, List.singleton_append,
        List.mem_cons, Action.commit.injEq] at hm
      rcases hm with ⟨h1, _⟩ | hm
      · exact ⟨p, List.mem_cons_self, h1.symm⟩
      · obtain ⟨q, hq, hh⟩ := ih hm
        exact ⟨q, List.mem_cons_of_mem _ hq, hh⟩
    | _ =>
      simp only [convAction, Action.isSync, Bool.false_eq_true, if_false, if_true,
        List.singleton_append, List.nil_append, List.mem_cons, reduceCtorEq, false_or] at hm
      obtain ⟨q, hq, hh⟩ := ih hm
      exact ⟨q, List.mem_cons_of_mem _ hq, hh⟩

/-- **A commit is for the current height** — in every state that satisfies `MInv`. -/
theorem tmQT_commit_height (env : C12.Env) (node : Nat) (m : C12.Machine) (hi : C12.MInv env m)
    (i : Input) (pre : List Action) (h v : Nat) (post : List Action)
    (hs : ((tmQT env node).step m i).2 = pre ++ Action.commit h v :: post) : h = m.state.height := by
  rw [tmQT_step] at hs
  by_cases hig : timeoutIgnored env m i = true
  · have : (tmMachineT env node).step m i = (m, []) := by simp [tmMachineT, hig]
    rw [this] at hs
    cases pre <;> simp at hs
  · have hstep : (tmMachineT env node).step m i = (tmMachine env node).step m i := by
      simp [tmMachineT, hig]
    rw [hstep] at hs
    simp only [tmMachine] at hs
    cases hci : convInput i with
    | none => rw [hci] at hs; cases pre <;> simp at hs
    | some ci =>
      rw [hci] at hs
      simp only at hs
      have hmem : Action.commit h v ∈ drvActs (m.step env ci).2 := by
        show Action.commit h v ∈ ((m.step env ci).2.map convAction).filter (fun a => !a.isSync)
        rw [hs]; simp
      obtain ⟨p, hp, hh⟩ := commit_mem_drvActs _ h v hmem
      rw [← hh]
      apply step_commit_height env m ci _ _ hi p hp
      · intro p vs h; subst h; cases i <;> simp [convInput] at hci
      · intro e h; subst h; cases i <;> simp [convInput] at hci

theorem addProposal_ok_height (env : C12.Env) (vc : C12.VoteCounter) (p : C12.Proposal)
    (hok : (vc.addProposal env p).2 = true) : vc.cur ≤ p.height := by
  unfold C12.VoteCounter.addProposal C12.VoteCounter.withRoundData at hok
  by_cases hlt : p.height < vc.cur
  · simp [hlt] at hok
  · omega

theorem addVote_ok_height (env : C12.Env) (vc : C12.VoteCounter) (v : C12.Vote) (t : C12.VoteType)
    (hok : (vc.addVote env v t).2 = true) : vc.cur ≤ v.height := by
  unfold C12.VoteCounter.addVote C12.VoteCounter.withRoundData at hok
  by_cases hlt : v.height < vc.cur
  · simp [hlt] at hok
  · omega

/-- **An accepted message is not below the current height** — in every state that satisfies `MInv`
(the first action of a call, when it is a log entry, has a height ≥ the machine's). -/
theorem tmQT_entry_height (env : C12.Env) (node : Nat) (m : C12.Machine) (hi : C12.MInv env m)
    (i : Input) (e : Entry) (rest : List Action)
    (hs : ((tmQT env node).step m i).2 = Action.writeWAL e :: rest) : m.state.height ≤ e.height := by
  rw [tmQT_step] at hs
  rcases tmT_logged_first env node m i with h0 | ⟨e', rest', h1, he, _⟩
  · rw [h0] at hs; cases hs
  · have hee : e' = e := by rw [h1] at hs; simp [Action.isSync] at hs; exact hs.1
    subst hee
    cases i with
    | start => exact Nat.le_of_eq (tmT_entry_current env node m _ e' rest' h1 (Or.inr rfl)).symm
    | timeout st h r =>
      have : e'.isTimeout = true := by cases e' <;> simp [Entry.toInput] at he; rfl
      exact Nat.le_of_eq (tmT_entry_current env node m _ e' rest' h1 (Or.inl this)).symm
    | proposal h r s vr v =>
      have hee : e' = Entry.proposal h r s vr v := by
        cases e' <;> simp [Entry.toInput] at he
        obtain ⟨a, b, c, d, f⟩ := he; rw [a, b, c, d, f]
      subst hee
      simp only [tmMachineT, timeoutIgnored, Bool.false_eq_true, if_false, tmMachine, convInput,
        C12.Machine.step, C12.Machine.processProposal] at h1
      split at h1
      · cases h1
      · rename_i hc
        have hok : (m.vc.addProposal env ⟨h, r, s, vr, v⟩).2 = true := by
          cases hx : (m.vc.addProposal env ⟨h, r, s, vr, v⟩).2 <;> simp [hx] at hc ⊢
        have := addProposal_ok_height env m.vc _ hok
        simp only [Entry.height]
        rw [← hi.cur]; exact this
    | prevote h r s id =>
      have hee : e' = Entry.prevote h r s id := by
        cases e' <;> simp [Entry.toInput] at he
        obtain ⟨a, b, c, d⟩ := he; rw [a, b, c, d]
      subst hee
      simp only [tmMachineT, timeoutIgnored, Bool.false_eq_true, if_false, tmMachine, convInput,
        C12.Machine.step, C12.Machine.processPrevote] at h1
      split at h1
      · cases h1
      · rename_i hc
        have hok : (m.vc.addVote env ⟨h, r, s, id⟩ .prevote).2 = true := by
          cases hx : (m.vc.addVote env ⟨h, r, s, id⟩ .prevote).2 <;> simp [hx] at hc ⊢
        have := addVote_ok_height env m.vc _ _ hok
        simp only [Entry.height]
        rw [← hi.cur]; exact this
    | precommit h r s id =>
      have hee : e' = Entry.precommit h r s id := by
        cases e' <;> simp [Entry.toInput] at he
        obtain ⟨a, b, c, d⟩ := he; rw [a, b, c, d]
      subst hee
      simp only [tmMachineT, timeoutIgnored, Bool.false_eq_true, if_false, tmMachine, convInput,
        C12.Machine.step, C12.Machine.processPrecommit] at h1
      split at h1
      · cases h1
      · rename_i hc
        have hok : (m.vc.addVote env ⟨h, r, s, id⟩ .precommit).2 = true := by
          cases hx : (m.vc.addVote env ⟨h, r, s, id⟩ .precommit).2 <;> simp [hx] at hc ⊢
        have := addVote_ok_height env m.vc _ _ hok
        simp only [Entry.height]
        rw [← hi.cur]; exact this

/-! ## what remains: the state-relation part only -/

/-- The part of `ReplaySafeUpTo` that is about the state relation `r`; everything else is proved
for `tmQTI` below. -/
structure ReplaySafeRel {S : Type} (M : Machine S) (r : Setoid S) : Prop where
  bisim : Bisim M r
  inert_equiv : ∀ s i, (M.started s = true ∨ i = Input.start) → (M.step s i).2 = [] →
    r.r (M.step s i).1 s
  commute : ∀ s (a b : Entry), M.height s ≤ b.height → b.height < a.height → a.toInput ≠ Input.start →
    r.r (replayStep M (replayStep M s a).1 b).1 (replayStep M (replayStep M s b).1 a).1 ∧
    visA (replayStep M (replayStep M s b).1 a).2 = [] ∧
    visA (replayStep M (replayStep M s a).1 b).2 = visA (replayStep M s b).2
  commit_reset : ∀ h (A : List Entry) e, (∀ x ∈ A ++ [e], x.height = h) →
    committed (replayStep M (replayRun M (M.init h) A).1 e).2 = true →
    r.r (replayStep M (replayRun M (M.init h) A).1 e).1 (M.init (h + 1))

/-- **All shape hypotheses hold for juno's machine (F5 fix) on its invariant states**:
`ReplaySafeUpTo (tmQTI env node) r` follows from the state-relation part `ReplaySafeRel` alone. -/
theorem tmQTI_replaySafeUpTo (env : C12.Env) (node : Nat)
    (r : Setoid { m : C12.Machine // C12.MInv env m }) (h : ReplaySafeRel (tmQTI env node) r) :
    ReplaySafeUpTo (tmQTI env node) r where
  bisim := h.bisim
  height_init := fun _ => rfl
  started_init := fun _ => rfl
  logged_or_inert := by
    intro s i hst
    have e2 : ((tmQTI env node).step s i).2 = ((tmQT env node).step s.1 i).2 := rfl
    rcases tmQT_logged_first env node s.1 i with h0 | ⟨e, rest, h1, he, hw⟩
    · exact Or.inl ⟨h.inert_equiv s i hst (by rw [e2]; exact h0), by rw [e2]; exact h0⟩
    · refine Or.inr ⟨e, rest, by rw [e2]; exact h1, he,
        tmQT_entry_height env node s.1 s.2 i e rest h1, ?_, hw⟩
      intro hi
      rw [tmQT_step] at h1
      rcases tmT_logged_first env node s.1 i with h0 | ⟨e', rest', h2, _, _⟩
      · rw [h0] at h1; cases h1
      · have : e' = e := by
          rw [h2] at h1; simp [Action.isSync] at h1; exact h1.1
        subst this
        exact tmT_entry_current env node s.1 i e' rest' h2 (Or.inr hi)
  timeout_entry_current := by
    intro s i e rest h1 ht
    have h1' : ((tmQT env node).step s.1 i).2 = Action.writeWAL e :: rest := h1
    rw [tmQT_step] at h1'
    rcases tmT_logged_first env node s.1 i with h0 | ⟨e', rest', h2, _, _⟩
    · rw [h0] at h1'; cases h1'
    · have : e' = e := by
        rw [h2] at h1'; simp [Action.isSync] at h1'; exact h1'.1
      subst this
      exact tmT_entry_current env node s.1 i e' rest' h2 (Or.inl ht)
  height_mono := by
    intro s i
    obtain ⟨m', acts, e, hh, _⟩ := tmQT_step_spec env node s.1 i
    show s.1.state.height ≤ ((tmQT env node).step s.1 i).1.state.height
    rw [e]
    by_cases hc : ∃ p, C12.Action.commit p ∈ acts
    · have := hh.commit hc; simp only at this ⊢; omega
    · have := hh.nocommit (fun p hp => hc ⟨p, hp⟩); simp only at this ⊢; omega
  commit_last := by
    intro s i pre hh v post hsplit
    have hsplit' : ((tmQT env node).step s.1 i).2 = pre ++ Action.commit hh v :: post := hsplit
    obtain ⟨m', acts, e, hH, hC⟩ := tmQT_step_spec env node s.1 i
    have hch := tmQT_commit_height env node s.1 s.2 i pre hh v post hsplit'
    rw [e] at hsplit'
    simp only at hsplit'
    obtain ⟨h1, h2⟩ := commitLast_drvActs acts hC.1 pre hh v post hsplit'
    have hc : ∃ p, C12.Action.commit p ∈ acts :=
      (committed_drvActs acts).1 (committed_of_split _ pre post hh v hsplit')
    refine ⟨h1, h2, hch, ?_, ?_⟩
    · show ((tmQT env node).step s.1 i).1.state.height = hh + 1
      rw [e]
      have := hH.commit hc
      simp only at this ⊢
      rw [this, hch]
    · show ((tmQT env node).step s.1 i).1.isHeightStarted = false
      rw [e]; exact hC.2 hc
  no_commit_height := by
    intro s i hnc
    have hnc' : committed ((tmQT env node).step s.1 i).2 = false := hnc
    obtain ⟨m', acts, e, hH, _⟩ := tmQT_step_spec env node s.1 i
    show ((tmQT env node).step s.1 i).1.state.height = s.1.state.height
    rw [e] at hnc' ⊢
    simp only at hnc' ⊢
    have : ∀ p, C12.Action.commit p ∉ acts := by
      intro p hp
      have := (committed_drvActs acts).2 ⟨p, hp⟩
      rw [this] at hnc'; cases hnc'
    exact hH.nocommit this
  votes_current_height := by
    intro s i v hv
    have hv' : v ∈ votesOf (effectsOf true ((tmQT env node).step s.1 i).2) := hv
    obtain ⟨m', acts, e, hH, _⟩ := tmQT_step_spec env node s.1 i
    rw [e] at hv'
    exact votes_drvActs s.1.state.height acts hH.acts v hv'
  timers_current_height := by
    intro s i t ht
    have ht' : t ∈ timersOf (effectsOf true ((tmQT env node).step s.1 i).2) := ht
    obtain ⟨m', acts, e, hH, _⟩ := tmQT_step_spec env node s.1 i
    rw [e] at ht'
    exact timers_drvActs s.1.state.height acts hH.acts t ht'
  unstarted_silent := by
    intro s i hs hi ht
    obtain ⟨h1, h2, h3⟩ := tmQT_unstarted_msg env node s.1 i hs hi ht
    have e2 : ((tmQTI env node).step s i).2 = ((tmQT env node).step s.1 i).2 := rfl
    exact ⟨by rw [e2, h1]; rfl, h2, h3⟩
  future_silent := fun s a hlt hns => tmQT_future_silent env node s.1 a hlt hns
  commute := h.commute
  commit_reset := h.commit_reset

/-! ## the restricted machine runs like the machine it restricts -/

section restrict
variable {S : Type} (M : Machine S) (P : S → Prop) (hinit : ∀ h, P (M.init h))
  (hstep : ∀ s i, P s → P (M.step s i).1)

theorem restrict_replayStep (s : { s : S // P s }) (e : Entry) :
    (replayStep (restrictMachine M P hinit hstep) s e).1.1 = (replayStep M s.1 e).1 ∧
    (replayStep (restrictMachine M P hinit hstep) s e).2 = (replayStep M s.1 e).2 := by
  have hh : (restrictMachine M P hinit hstep).height s = M.height s.1 := rfl
  simp only [replayStep, hh]
  split
  · exact ⟨rfl, rfl⟩
  · exact ⟨rfl, rfl⟩

theorem restrict_replayRun (L : List Entry) (s : { s : S // P s }) :
    (replayRun (restrictMachine M P hinit hstep) s L).1.1 = (replayRun M s.1 L).1 ∧
    (replayRun (restrictMachine M P hinit hstep) s L).2 = (replayRun M s.1 L).2 := by
  induction L generalizing s with
  | nil => exact ⟨rfl, rfl⟩
  | cons e L ih =>
    obtain ⟨h1, h2⟩ := restrict_replayStep M P hinit hstep s e
    simp only [replayRun]
    obtain ⟨i1, i2⟩ := ih (replayStep (restrictMachine M P hinit hstep) s e).1
    rw [h1] at i1 i2
    exact ⟨i1, by rw [h2, i2]⟩

theorem restrict_replayOK (L : List Entry) (s : { s : S // P s })
    (h : ReplayOK (restrictMachine M P hinit hstep) s L) : ReplayOK M s.1 L := by
  induction L generalizing s with
  | nil => trivial
  | cons e L ih =>
    obtain ⟨h1, h2⟩ := h
    have := ih _ h2
    rw [(restrict_replayStep M P hinit hstep s e).1] at this
    exact ⟨h1, this⟩

theorem restrict_noEquivocation (ne : NoEquivocation M) :
    NoEquivocation (restrictMachine M P hinit hstep) := by
  intro h L hok v w hv hw
  have e := (restrict_replayRun M P hinit hstep L ((restrictMachine M P hinit hstep).init h)).2
  rw [e] at hv hw
  exact ne h L (restrict_replayOK M P hinit hstep L _ hok) v w hv hw

end restrict

theorem tmQTI_noEquivocation (env : C12.Env) (node : Nat) : NoEquivocation (tmQTI env node) :=
  restrict_noEquivocation _ _ _ _ (tmQuietT_noEquivocation env node)

end Juno.C13
