import JunoModel.C13.ProofsReplay3
/-!
C13 — helper lemmas, part 5: EVERY prefix of the effect trace of a live run yields a crash image
of the shape the recovery theorems need ("durable": the image holds the log of some earlier moment
of the run above a watermark `≤` chain height, the chain is at the base of that moment, and every
vote broadcast so far was broadcast by that moment).
-/
namespace Juno.C13
variable {S : Type}

/-! ## Store algebra -/

theorem entriesOfRecs_append (a b : List Rec) :
    entriesOfRecs (a ++ b) = entriesOfRecs a ++ entriesOfRecs b := by
  induction a with
  | nil => rfl
  | cons r a ih => cases r <;> simp [entriesOfRecs, ih]

theorem entriesOfRecs_map_entry (l : List Entry) : entriesOfRecs (l.map Rec.entry) = l := by
  induction l with
  | nil => rfl
  | cons e l ih => simp [entriesOfRecs, ih]

theorem foldl_entries (ents : List Entry) (v : View) (h : ∀ x ∈ ents, v.1 < x.height) :
    (ents.map Rec.entry).foldl applyRec v = (v.1, v.2 ++ ents) := by
  induction ents generalizing v with
  | nil => simp
  | cons e ents ih =>
    have he := h e (by simp)
    have : applyRec v (Rec.entry e) = (v.1, v.2 ++ [e]) := by
      simp only [applyRec]; rw [if_neg (by omega)]
    simp only [List.map_cons, List.foldl_cons, this]
    rw [ih (v.1, v.2 ++ [e]) (fun x hx => h x (by simp [hx]))]
    simp

theorem view_append_entries (F : List Rec) (ents : List Entry)
    (h : ∀ x ∈ ents, (view F).1 < x.height) :
    view (F ++ ents.map Rec.entry) = ((view F).1, (view F).2 ++ ents) := by
  simp only [view, List.foldl_append]
  exact foldl_entries ents _ h

theorem view_append_prune (F : List Rec) (h : Nat) (hlt : (view F).1 < h) :
    view (F ++ [Rec.prune h]) = (h, (view F).2.filter (fun e => h < e.height)) := by
  simp only [view, List.foldl_append, List.foldl_cons, List.foldl_nil, applyRec]
  rw [if_neg (by simp only [view] at hlt; omega)]

theorem above_append (p : Nat) (a b : List Entry) : above p (a ++ b) = above p a ++ above p b := by
  simp [above, List.filter_append]

theorem above_all (p : Nat) (l : List Entry) (h : ∀ x ∈ l, p < x.height) : above p l = l := by
  simp only [above]
  exact List.filter_eq_self.2 (fun x hx => by simpa using h x hx)

/-! ## Durable images -/

/-- `(sd, Ed, trd)` are the final state, the log and the effect trace of the UNCRASHED live run of
the inputs `insd` from the original boot state (chain at `c0`, empty log). -/
def RefRun (M : Machine S) (c0 : Nat) (insd : List Input) (sd : S) (Ed : List Entry)
    (trd : List Effect) : Prop :=
  ListenOK M (M.init (c0 + 1)) insd ∧ sd = (liveRun M (M.init (c0 + 1)) insd).1 ∧
    Ed = loggedEntries M (M.init (c0 + 1)) insd ∧ trd = (liveRun M (M.init (c0 + 1)) insd).2

/-- The image of `n` (flushed records + chain height) is that of a moment of an uncrashed run:
there are inputs `insd` whose uncrashed live run from the original boot has state `sd`, log `Ed`,
trace `trd`; the image's flushed entries are exactly `Ed`, its live entries are `Ed` above a
watermark `p ≤ chain`; the chain is at most one delivery behind `sd`; the recovery invariant holds
for the chain's base (`LiveInvW`) and for `sd`'s own base (`LiveInv`); and every vote of the
actual history `hist` (all earlier process instances included) is a vote of that uncrashed run. -/
def Durable (M : Machine S) (c0 : Nat) (n : Node) (hist : List Effect) : Prop :=
  ∃ sd Ed trd p insd, RefRun M c0 insd sd Ed trd ∧
    LiveInvW M sd Ed n.chainHeight trd ∧ LiveInv M sd Ed (M.height sd - 1) trd ∧
    n.chainHeight + 1 ≤ M.height sd ∧ M.height sd ≤ n.chainHeight + 2 ∧ p ≤ n.chainHeight ∧
    view n.store.flushed = (p, above p Ed) ∧ entriesOfRecs n.store.flushed = Ed ∧
    (∀ v ∈ votesOf hist, v ∈ votesOf trd)

theorem Durable.congr {M : Machine S} {c0 : Nat} {n n' : Node} {t t' : List Effect}
    (h : Durable M c0 n t) (hf : n'.store.flushed = n.store.flushed)
    (hc : n'.chainHeight = n.chainHeight) (hv : votesOf t' = votesOf t) : Durable M c0 n' t' := by
  obtain ⟨sd, Ed, trd, p, insd, hr, h1, hL, hb1, hb2, h2, h3, h4, h5⟩ := h
  refine ⟨sd, Ed, trd, p, insd, hr, by rw [hc]; exact h1, hL, by rw [hc]; exact hb1,
    by rw [hc]; exact hb2, by rw [hc]; exact h2, by rw [hf]; exact h3, by rw [hf]; exact h4,
    by rw [hv]; exact h5⟩

/-! ## The phases of a node while the effects of one logged input are performed

`n0` is the node before the input, `e` the input's log entry, `h` the height a commit delivers. -/

def FB (n0 : Node) (e : Entry) : List Rec := n0.store.flushed ++ n0.store.pending ++ [Rec.entry e]

def PhA (n0 : Node) (e : Entry) (n : Node) : Prop :=
  n.store = ⟨n0.store.pending ++ [Rec.entry e], n0.store.flushed⟩ ∧ n.chainHeight = n0.chainHeight
def PhB (n0 : Node) (e : Entry) (n : Node) : Prop :=
  n.store = ⟨[], FB n0 e⟩ ∧ n.chainHeight = n0.chainHeight
def PhC (n0 : Node) (e : Entry) (h : Nat) (n : Node) : Prop :=
  n.store = ⟨[], FB n0 e⟩ ∧ n.chainHeight = h
def PhD (n0 : Node) (e : Entry) (h : Nat) (n : Node) : Prop :=
  n.store = ⟨[Rec.prune h], FB n0 e⟩ ∧ n.chainHeight = h
def PhE (n0 : Node) (e : Entry) (h : Nat) (n : Node) : Prop :=
  n.store = ⟨[], FB n0 e ++ [Rec.prune h]⟩ ∧ n.chainHeight = h

/-- Where the node is after a prefix `q` of the effects (`post` = the rest); `fromA` tells whether
the traversal started before the first flush. -/
def Where (n0 : Node) (e : Entry) (h : Nat) (ar : List Action) (fromA : Bool)
    (q post : List Effect) (n : Node) : Prop :=
  (PhA n0 e n ∧ fromA = true ∧ votesOf q = [] ∧ (post = [] → committed ar = false)) ∨
  (PhB n0 e n ∧ (post = [] → committed ar = false)) ∨
  (PhC n0 e h n ∧ committed ar = true ∧ post ≠ []) ∨
  (PhD n0 e h n ∧ committed ar = true ∧ post ≠ []) ∨
  (PhE n0 e h n ∧ committed ar = true)

theorem flush_A (n0 : Node) (e : Entry) (n : Node) (h : PhA n0 e n) :
    PhB n0 e (applyEffect n Effect.flush) := by
  obtain ⟨h1, h2⟩ := h
  refine ⟨?_, h2⟩
  show n.store.flush = _
  rw [h1]
  simp only [Store.flush, FB, List.append_assoc]

theorem flush_B (n0 : Node) (e : Entry) (n : Node) (h : PhB n0 e n) :
    PhB n0 e (applyEffect n Effect.flush) := by
  obtain ⟨h1, h2⟩ := h
  refine ⟨?_, h2⟩
  show n.store.flush = _
  rw [h1]
  simp only [Store.flush, List.append_nil]

theorem deliver_B (n0 : Node) (e : Entry) (h v : Nat) (n : Node) (hb : PhB n0 e n) :
    PhC n0 e h (applyEffect n (Effect.deliver h v)) := ⟨hb.1, rfl⟩

theorem prune_C (n0 : Node) (e : Entry) (h : Nat) (hp : (view (FB n0 e)).1 < h) (n : Node)
    (hc : PhC n0 e h n) : PhD n0 e h (applyEffect n (Effect.prune h)) := by
  refine ⟨?_, hc.2⟩
  show n.store.delete h = _
  rw [hc.1]
  have hlt : ¬ h ≤ (⟨[], FB n0 e⟩ : Store).pruned := by
    show ¬ h ≤ (view (FB n0 e)).1
    omega
  simp [Store.delete, hlt, raisePrune]

theorem flush_D (n0 : Node) (e : Entry) (h : Nat) (n : Node) (hd : PhD n0 e h n) :
    PhE n0 e h (applyEffect n Effect.flush) := by
  refine ⟨?_, hd.2⟩
  show n.store.flush = _
  rw [hd.1]
  simp only [Store.flush]

/-- Effects that touch neither the log nor the chain. -/
def Effect.inert : Effect → Bool
  | .sendProposal .. => true
  | .sendPrevote .. => true
  | .sendPrecommit .. => true
  | .setTimer .. => true
  | .sync .. => true
  | _ => false

theorem inert_node (n : Node) (x : Effect) (hx : x.inert = true) :
    (applyEffect n x).store = n.store ∧ (applyEffect n x).chainHeight = n.chainHeight := by
  cases x <;> simp [Effect.inert] at hx <;> exact ⟨rfl, rfl⟩

theorem inert_A (n0 : Node) (e : Entry) (n : Node) (x : Effect) (hx : x.inert = true)
    (h : PhA n0 e n) : PhA n0 e (applyEffect n x) := by
  obtain ⟨a, b⟩ := inert_node n x hx
  exact ⟨by rw [a]; exact h.1, by rw [b]; exact h.2⟩

theorem inert_B (n0 : Node) (e : Entry) (n : Node) (x : Effect) (hx : x.inert = true)
    (h : PhB n0 e n) : PhB n0 e (applyEffect n x) := by
  obtain ⟨a, b⟩ := inert_node n x hx
  exact ⟨by rw [a]; exact h.1, by rw [b]; exact h.2⟩

/-- The traversal of the effects of the actions after the log entry. -/
theorem traverse (n0 : Node) (e : Entry) (h : Nat)
    (hp : (view (FB n0 e)).1 < h) :
    ∀ (ar : List Action), walOf ar = [] →
      (∀ pre h' v post, ar = pre ++ Action.commit h' v :: post → post = [] ∧ h' = h) →
      ∀ (fromA : Bool) (n : Node), (if fromA then PhA n0 e n else PhB n0 e n) →
      ∀ q post, effectsOf false ar = q ++ post →
        Where n0 e h ar fromA q post (applyEffects n q) := by
  intro ar
  induction ar with
  | nil =>
    intro _ _ fromA n hn q post hsplit
    simp only [effectsOf] at hsplit
    obtain ⟨hq, hpost⟩ := List.append_eq_nil_iff.1 hsplit.symm
    subst hq
    cases fromA
    · exact Or.inr (Or.inl ⟨hn, fun _ => rfl⟩)
    · exact Or.inl ⟨hn, rfl, rfl, fun _ => rfl⟩
  | cons a rest ih =>
    intro hw hcl fromA n hn q post hsplit
    have hcl' : ∀ pre h' v post, rest = pre ++ Action.commit h' v :: post → post = [] ∧ h' = h := by
      intro pre h' v post hr
      exact hcl (a :: pre) h' v post (by rw [hr]; rfl)
    -- the start position, for `q = []`
    have hstart : Where n0 e h (a :: rest) fromA [] (effectsOf false (a :: rest)) n →
        True := fun _ => trivial
    -- a helper: from phase B, continue with the rest
    have contB : ∀ (nB : Node), PhB n0 e nB → ∀ q' post', effectsOf false rest = q' ++ post' →
        walOf rest = [] → Where n0 e h rest false q' post' (applyEffects nB q') :=
      fun nB hB q' post' hs hwr => ih hwr hcl' false nB hB q' post' hs
    cases a with
    | writeWAL e' => simp [walOf] at hw
    | commit h' v =>
      obtain ⟨hrest, hh'⟩ := hcl [] h' v rest rfl
      subst hrest
      subst hh'
      have hB0 : PhB n0 e (applyEffect n Effect.flush) := by
        cases fromA
        · exact flush_B n0 e n hn
        · exact flush_A n0 e n hn
      simp only [effectsOf, Action.requiresWALFlush, Bool.not_false, Bool.true_and, ite_true,
        List.singleton_append] at hsplit
      -- the five prefixes of [flush, deliver, prune, flush]
      rcases q with _ | ⟨x1, q⟩
      · cases fromA
        · exact Or.inr (Or.inl ⟨hn, fun hpe => by subst hpe; simp at hsplit⟩)
        · exact Or.inl ⟨hn, rfl, rfl, fun hpe => by subst hpe; simp at hsplit⟩
      · simp only [List.cons_append, List.cons.injEq] at hsplit
        obtain ⟨rfl, hsplit⟩ := hsplit
        rcases q with _ | ⟨x2, q⟩
        · exact Or.inr (Or.inl ⟨hB0, fun hpe => by subst hpe; simp at hsplit⟩)
        · simp only [List.cons_append, List.cons.injEq] at hsplit
          obtain ⟨rfl, hsplit⟩ := hsplit
          have hC : PhC n0 e h' (applyEffect (applyEffect n Effect.flush) (Effect.deliver h' v)) :=
            deliver_B n0 e h' v _ hB0
          rcases q with _ | ⟨x3, q⟩
          · exact Or.inr (Or.inr (Or.inl ⟨hC, rfl, fun hpe => by subst hpe; simp at hsplit⟩))
          · simp only [List.cons_append, List.cons.injEq] at hsplit
            obtain ⟨rfl, hsplit⟩ := hsplit
            have hD : PhD n0 e h' (applyEffect (applyEffect (applyEffect n Effect.flush)
                (Effect.deliver h' v)) (Effect.prune h')) := prune_C n0 e h' hp _ hC
            rcases q with _ | ⟨x4, q⟩
            · exact Or.inr (Or.inr (Or.inr (Or.inl ⟨hD, rfl, fun hpe => by subst hpe; simp at hsplit⟩)))
            · simp only [List.cons_append, List.cons.injEq] at hsplit
              obtain ⟨rfl, hsplit⟩ := hsplit
              have hq : q = [] := (List.append_eq_nil_iff.1 hsplit.symm).1
              subst hq
              exact Or.inr (Or.inr (Or.inr (Or.inr ⟨flush_D n0 e h' _ hD, rfl⟩)))
    | broadcastProposal hh r vr v =>
      simp only [effectsOf, Action.requiresWALFlush, Bool.not_false, Bool.true_and, ite_true,
        List.singleton_append] at hsplit
      have hB0 : PhB n0 e (applyEffect n Effect.flush) := by
        cases fromA
        · exact flush_B n0 e n hn
        · exact flush_A n0 e n hn
      rcases q with _ | ⟨x1, q⟩
      · cases fromA
        · exact Or.inr (Or.inl ⟨hn, fun hpe => by subst hpe; simp at hsplit⟩)
        · exact Or.inl ⟨hn, rfl, rfl, fun hpe => by subst hpe; simp at hsplit⟩
      · simp only [List.cons_append, List.cons.injEq] at hsplit
        obtain ⟨rfl, hsplit⟩ := hsplit
        rcases q with _ | ⟨x2, q⟩
        · exact Or.inr (Or.inl ⟨hB0, fun hpe => by subst hpe; simp at hsplit⟩)
        · simp only [List.cons_append, List.cons.injEq] at hsplit
          obtain ⟨rfl, hsplit⟩ := hsplit
          have hB1 : PhB n0 e (applyEffect (applyEffect n Effect.flush) (Effect.sendProposal hh r vr v)) :=
            inert_B n0 e _ _ rfl hB0
          have := contB _ hB1 q post hsplit (by simpa [walOf] using hw)
          rcases this with ⟨_, hf, _⟩ | hB | hC | hD | hE
          · cases hf
          · exact Or.inr (Or.inl (by simpa [applyEffects, committed] using hB))
          · exact Or.inr (Or.inr (Or.inl (by simpa [applyEffects, committed] using hC)))
          · exact Or.inr (Or.inr (Or.inr (Or.inl (by simpa [applyEffects, committed] using hD))))
          · exact Or.inr (Or.inr (Or.inr (Or.inr (by simpa [applyEffects, committed] using hE))))
    | broadcastPrevote hh r id =>
      simp only [effectsOf, Action.requiresWALFlush, Bool.not_false, Bool.true_and, ite_true,
        List.singleton_append] at hsplit
      have hB0 : PhB n0 e (applyEffect n Effect.flush) := by
        cases fromA
        · exact flush_B n0 e n hn
        · exact flush_A n0 e n hn
      rcases q with _ | ⟨x1, q⟩
      · cases fromA
        · exact Or.inr (Or.inl ⟨hn, fun hpe => by subst hpe; simp at hsplit⟩)
        · exact Or.inl ⟨hn, rfl, rfl, fun hpe => by subst hpe; simp at hsplit⟩
      · simp only [List.cons_append, List.cons.injEq] at hsplit
        obtain ⟨rfl, hsplit⟩ := hsplit
        rcases q with _ | ⟨x2, q⟩
        · exact Or.inr (Or.inl ⟨hB0, fun hpe => by subst hpe; simp at hsplit⟩)
        · simp only [List.cons_append, List.cons.injEq] at hsplit
          obtain ⟨rfl, hsplit⟩ := hsplit
          have hB1 : PhB n0 e (applyEffect (applyEffect n Effect.flush) (Effect.sendPrevote hh r id)) :=
            inert_B n0 e _ _ rfl hB0
          have := contB _ hB1 q post hsplit (by simpa [walOf] using hw)
          rcases this with ⟨_, hf, _⟩ | hB | hC | hD | hE
          · cases hf
          · exact Or.inr (Or.inl (by simpa [applyEffects, committed] using hB))
          · exact Or.inr (Or.inr (Or.inl (by simpa [applyEffects, committed] using hC)))
          · exact Or.inr (Or.inr (Or.inr (Or.inl (by simpa [applyEffects, committed] using hD))))
          · exact Or.inr (Or.inr (Or.inr (Or.inr (by simpa [applyEffects, committed] using hE))))
    | broadcastPrecommit hh r id =>
      simp only [effectsOf, Action.requiresWALFlush, Bool.not_false, Bool.true_and, ite_true,
        List.singleton_append] at hsplit
      have hB0 : PhB n0 e (applyEffect n Effect.flush) := by
        cases fromA
        · exact flush_B n0 e n hn
        · exact flush_A n0 e n hn
      rcases q with _ | ⟨x1, q⟩
      · cases fromA
        · exact Or.inr (Or.inl ⟨hn, fun hpe => by subst hpe; simp at hsplit⟩)
        · exact Or.inl ⟨hn, rfl, rfl, fun hpe => by subst hpe; simp at hsplit⟩
      · simp only [List.cons_append, List.cons.injEq] at hsplit
        obtain ⟨rfl, hsplit⟩ := hsplit
        rcases q with _ | ⟨x2, q⟩
        · exact Or.inr (Or.inl ⟨hB0, fun hpe => by subst hpe; simp at hsplit⟩)
        · simp only [List.cons_append, List.cons.injEq] at hsplit
          obtain ⟨rfl, hsplit⟩ := hsplit
          have hB1 : PhB n0 e (applyEffect (applyEffect n Effect.flush) (Effect.sendPrecommit hh r id)) :=
            inert_B n0 e _ _ rfl hB0
          have := contB _ hB1 q post hsplit (by simpa [walOf] using hw)
          rcases this with ⟨_, hf, _⟩ | hB | hC | hD | hE
          · cases hf
          · exact Or.inr (Or.inl (by simpa [applyEffects, committed] using hB))
          · exact Or.inr (Or.inr (Or.inl (by simpa [applyEffects, committed] using hC)))
          · exact Or.inr (Or.inr (Or.inr (Or.inl (by simpa [applyEffects, committed] using hD))))
          · exact Or.inr (Or.inr (Or.inr (Or.inr (by simpa [applyEffects, committed] using hE))))
    | scheduleTimeout st hh r =>
      simp only [effectsOf, Action.requiresWALFlush, Bool.and_false, Bool.false_eq_true, if_false, List.nil_append] at hsplit
      rcases q with _ | ⟨x1, q⟩
      · cases fromA
        · exact Or.inr (Or.inl ⟨hn, fun hpe => by subst hpe; simp at hsplit⟩)
        · exact Or.inl ⟨hn, rfl, rfl, fun hpe => by subst hpe; simp at hsplit⟩
      · simp only [List.cons_append, List.cons.injEq] at hsplit
        obtain ⟨rfl, hsplit⟩ := hsplit
        have hn1 : (if fromA then PhA n0 e (applyEffect n (Effect.setTimer st hh r))
            else PhB n0 e (applyEffect n (Effect.setTimer st hh r))) := by
          cases fromA
          · exact inert_B n0 e n _ rfl hn
          · exact inert_A n0 e n _ rfl hn
        have := ih (by simpa [walOf] using hw) hcl' fromA _ hn1 q post hsplit
        rcases this with ⟨hA, hf, hv, hpc⟩ | hB | hC | hD | hE
        · exact Or.inl ⟨by simpa [applyEffects] using hA, hf,
            by simpa [votesOf, Effect.vote?] using hv, by simpa [committed] using hpc⟩
        · exact Or.inr (Or.inl (by simpa [applyEffects, committed] using hB))
        · exact Or.inr (Or.inr (Or.inl (by simpa [applyEffects, committed] using hC)))
        · exact Or.inr (Or.inr (Or.inr (Or.inl (by simpa [applyEffects, committed] using hD))))
        · exact Or.inr (Or.inr (Or.inr (Or.inr (by simpa [applyEffects, committed] using hE))))
    | triggerSync a b =>
      simp only [effectsOf, Action.requiresWALFlush, Bool.and_false, Bool.false_eq_true, if_false, List.nil_append] at hsplit
      rcases q with _ | ⟨x1, q⟩
      · cases fromA
        · exact Or.inr (Or.inl ⟨hn, fun hpe => by subst hpe; simp at hsplit⟩)
        · exact Or.inl ⟨hn, rfl, rfl, fun hpe => by subst hpe; simp at hsplit⟩
      · simp only [List.cons_append, List.cons.injEq] at hsplit
        obtain ⟨rfl, hsplit⟩ := hsplit
        have hn1 : (if fromA then PhA n0 e (applyEffect n (Effect.sync a b))
            else PhB n0 e (applyEffect n (Effect.sync a b))) := by
          cases fromA
          · exact inert_B n0 e n _ rfl hn
          · exact inert_A n0 e n _ rfl hn
        have := ih (by simpa [walOf] using hw) hcl' fromA _ hn1 q post hsplit
        rcases this with ⟨hA, hf, hv, hpc⟩ | hB | hC | hD | hE
        · exact Or.inl ⟨by simpa [applyEffects] using hA, hf,
            by simpa [votesOf, Effect.vote?] using hv, by simpa [committed] using hpc⟩
        · exact Or.inr (Or.inl (by simpa [applyEffects, committed] using hB))
        · exact Or.inr (Or.inr (Or.inl (by simpa [applyEffects, committed] using hC)))
        · exact Or.inr (Or.inr (Or.inr (Or.inl (by simpa [applyEffects, committed] using hD))))
        · exact Or.inr (Or.inr (Or.inr (Or.inr (by simpa [applyEffects, committed] using hE))))

end Juno.C13
