import JunoModel.C13.Model
/-!
C13 — specification vocabulary: votes, conflicts, the hypotheses on the abstract state machine under
which recovery is deterministic (`ReplaySafe`), the no-equivocation hypothesis for a single
uncrashed execution (C12's subject), the listen discipline. Core Lean only.
-/
namespace Juno.C13

/-! ## Votes and conflicts -/

inductive VoteKind where
  | prevote | precommit
  deriving DecidableEq, Repr

structure Vote where
  kind : VoteKind
  h : Nat
  r : Int
  id : Option Nat
  deriving DecidableEq, Repr

def Effect.vote? : Effect → Option Vote
  | .sendPrevote h r id => some ⟨.prevote, h, r, id⟩
  | .sendPrecommit h r id => some ⟨.precommit, h, r, id⟩
  | _ => none

/-- The votes broadcast in an effect trace, in order. -/
def votesOf (es : List Effect) : List Vote := es.filterMap Effect.vote?

/-- Two votes of the same kind for the same height and round with different ids (a nil vote and a
vote for a value conflict, too). -/
def Vote.conflicts (a b : Vote) : Prop := a.kind = b.kind ∧ a.h = b.h ∧ a.r = b.r ∧ a.id ≠ b.id

instance (a b : Vote) : Decidable (a.conflicts b) := by unfold Vote.conflicts; infer_instance

/-- What recovery must reproduce: the visible effects AND the timers armed (a pending timer has no
log entry of its own; it exists after a restart only because replay arms it again). -/
def Effect.observable : Effect → Bool
  | .sendProposal .. => true
  | .sendPrevote .. => true
  | .sendPrecommit .. => true
  | .deliver .. => true
  | .setTimer .. => true
  | _ => false

/-- The effects peers / the chain can observe plus the timers armed, in order. -/
def visibleOf (es : List Effect) : List Effect := es.filter Effect.observable

/-- A timer: (step, height, round). -/
structure Timer where
  step : Nat
  h : Nat
  r : Int
  deriving DecidableEq, Repr

def Effect.timer? : Effect → Option Timer
  | .setTimer st h r => some ⟨st, h, r⟩
  | _ => none

/-- The timers armed in an effect trace, in order. -/
def timersOf (es : List Effect) : List Timer := es.filterMap Effect.timer?

/-- Visible effects of executing an action list (the same in live and in replay mode, see
`visible_effectsOf_mode`). -/
def visA (acts : List Action) : List Effect := visibleOf (effectsOf true acts)

/-- The entries a live run writes to the log, in order. -/
def walOf : List Action → List Entry
  | [] => []
  | .writeWAL e :: rest => e :: walOf rest
  | _ :: rest => walOf rest

def loggedEntries {S} (M : Machine S) : S → List Input → List Entry
  | _, [] => []
  | s, i :: rest => walOf (M.step s i).2 ++ loggedEntries M (M.step s i).1 rest

/-- `listen` only hands a message or a timeout to a machine whose height has been started
(`ProcessStart(0)` is called first, and again after every commit). -/
def ListenOK {S} (M : Machine S) : S → List Input → Prop
  | _, [] => True
  | s, i :: rest => (M.started s = true ∨ i = Input.start) ∧ ListenOK M (M.step s i).1 rest

def Input.isTimeout : Input → Bool
  | .timeout .. => true
  | _ => false

def Entry.isTimeout : Entry → Bool
  | .timeout .. => true
  | _ => false

/-- Discipline of a replay: a timeout entry that is processed (not skipped) meets a machine whose
height has been started. (`ProcessTimeout` does not check `isHeightStarted`; `listen` only delivers
timeouts of timers armed after `ProcessStart`, and the log keeps that order — see `LiveInv.rok`.) -/
def ReplayOK {S} (M : Machine S) : S → List Entry → Prop
  | _, [] => True
  | s, e :: rest =>
    (e.isTimeout = true → skipOnReplay (M.height s) e = false → M.started s = true) ∧
      ReplayOK M (replayStep M s e).1 rest

/-! ## Hypotheses on the state machine -/

/-- What the driver's recovery needs from the state machine. Every field is a statement about
`step` alone; `Props.lean` shows they are satisfiable (the toy machine) and that the conclusion
fails without the determinism that `step` being a fixed function expresses (a value source that
changes across the restart). -/
structure ReplaySafe {S} (M : Machine S) : Prop where
  height_init : ∀ h, M.height (M.init h) = h
  started_init : ∀ h, M.started (M.init h) = false
  /-- In a started height (or for `start`), an input is either ignored completely, or its log
  entry is the FIRST action, re-feeds the same input, is not below the current height (a `Start`
  entry carries exactly the current height), and is the only entry written. -/
  logged_or_inert : ∀ s i, (M.started s = true ∨ i = Input.start) →
    ((M.step s i).1 = s ∧ (M.step s i).2 = []) ∨
    (∃ e rest, (M.step s i).2 = Action.writeWAL e :: rest ∧ e.toInput = i ∧
      M.height s ≤ e.height ∧ (i = Input.start → e.height = M.height s) ∧ walOf rest = [])
  /-- A timeout is only logged when it is for the current height. -/
  timeout_entry_current : ∀ s i e rest, (M.step s i).2 = Action.writeWAL e :: rest →
    e.isTimeout = true → e.height = M.height s
  height_mono : ∀ s i, M.height s ≤ M.height (M.step s i).1
  /-- A commit is the last action of its list, is for the current height, and moves the machine
  to the next height, not started. Without a commit the height stays. -/
  commit_last : ∀ s i pre h v post, (M.step s i).2 = pre ++ Action.commit h v :: post →
    post = [] ∧ committed pre = false ∧ h = M.height s ∧
    M.height (M.step s i).1 = h + 1 ∧ M.started (M.step s i).1 = false
  no_commit_height : ∀ s i, committed (M.step s i).2 = false →
    M.height (M.step s i).1 = M.height s
  /-- Votes and proposals are sent for the current height only. -/
  votes_current_height : ∀ s i v, v ∈ votesOf (effectsOf true (M.step s i).2) → v.h = M.height s
  /-- Timers are armed for the current height only. -/
  timers_current_height : ∀ s i t, t ∈ timersOf (effectsOf true (M.step s i).2) → t.h = M.height s
  /-- Before `start`, MESSAGES are only stored: nothing visible, height and started unchanged.
  (Not so for timeouts: `ProcessTimeout` does not look at `isHeightStarted`; `listen` and the replay
  discipline `ReplayOK` never deliver one to an unstarted height.) -/
  unstarted_silent : ∀ s i, M.started s = false → i ≠ Input.start → i.isTimeout = false →
    visA (M.step s i).2 = [] ∧ M.started (M.step s i).1 = false ∧
    M.height (M.step s i).1 = M.height s
  /-- A message or timeout of a future height is only stored: nothing visible happens. -/
  future_silent : ∀ s (a : Entry), M.height s < a.height → a.toInput ≠ Input.start →
    visA (M.step s a.toInput).2 = [] ∧ M.started (M.step s a.toInput).1 = M.started s
  /-- A future-height entry `a` can be processed before or after an entry `b` of a lower height
  without changing the resulting state or what `b` makes visible; `a` is silent either way. -/
  commute : ∀ s (a b : Entry), M.height s ≤ b.height → b.height < a.height → a.toInput ≠ Input.start →
    (replayStep M (replayStep M s a).1 b).1 = (replayStep M (replayStep M s b).1 a).1 ∧
    visA (replayStep M (replayStep M s b).1 a).2 = [] ∧
    visA (replayStep M (replayStep M s a).1 b).2 = visA (replayStep M s b).2
  /-- A machine that has only seen entries of its own height `h`, when it commits, is exactly a
  fresh machine for `h + 1`. -/
  commit_reset : ∀ h (A : List Entry) e, (∀ x ∈ A ++ [e], x.height = h) →
    committed (replayStep M (replayRun M (M.init h) A).1 e).2 = true →
    (replayStep M (replayRun M (M.init h) A).1 e).1 = M.init (h + 1)

/-- A single uncrashed execution never equivocates: a fresh machine fed ANY sequence of entries
(timeouts only after `start`, `ReplayOK`) broadcasts at most one prevote id and one precommit id
per height and round. This is C12's `no_double_vote`; `Tendermint.lean` derives it for the
transcription of juno's state machine. -/
def NoEquivocation {S} (M : Machine S) : Prop :=
  ∀ h (L : List Entry), ReplayOK M (M.init h) L →
    ∀ v w, v ∈ votesOf (replayRun M (M.init h) L).2 →
    w ∈ votesOf (replayRun M (M.init h) L).2 → ¬ v.conflicts w

/-! ## The crash / recovery scenario -/

/-- All entries of flushed `entry` records, prunes ignored: the complete durable input history. -/
def entriesOfRecs : List Rec → List Entry
  | [] => []
  | .entry e :: rest => e :: entriesOfRecs rest
  | .prune _ :: rest => entriesOfRecs rest

end Juno.C13
