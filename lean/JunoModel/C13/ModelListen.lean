import JunoModel.C13.Model
/-!
C13 — the CALL STRUCTURE of `driver.listen` (core Lean; linked into `c13drv`).

```go
for {                                            // outer loop: one turn per height
    select { case <-ctx.Done(): return nil; default: }
    actions := d.stateMachine.ProcessStart(0)
    isCommitted, err := d.execute(ctx, false, actions)
    for !isCommitted {                           // inner loop: one turn per event of the select
        select { … timeout / proposal / prevote / precommit / sync … }
        isCommitted, err = d.execute(ctx, false, actions)
    }
    d.syncCurrentHeight(ctx)
}
```

The state machine is called with `ProcessStart(0)` exactly at boot (after the replay) and right after
every call whose actions contained a `Commit` — also when that call was itself a `ProcessStart`
(a height decided by messages that arrived early) — and with an event of the select (never a start)
otherwise. `liveRun` takes the whole call sequence as its input list; `driverSeq` says which
sequences `listen` can produce. The theorems' hypothesis `ListenOK` ("a message or timeout only
reaches a machine whose height has been started") is a CONSEQUENCE for such sequences
(`ProofsListen.lean`).
-/
namespace Juno.C13

/-- Is `ins` a call sequence of `listen`, started with `needStart` (= the next call is the outer
loop's `ProcessStart(0)`) from machine state `s`? -/
def driverSeq {S} (M : Machine S) : Bool → S → List Input → Bool
  | _, _, [] => true
  | needStart, s, i :: rest =>
    (decide (i = Input.start) == needStart) &&
      driverSeq M (committed (M.step s i).2) (M.step s i).1 rest

/-- One call: is it the call `listen` makes now, and what comes next. -/
def driverSeqStep (needStart : Bool) (i : Input) (acts : List Action) : Bool × Bool :=
  (decide (i = Input.start) == needStart, committed acts)

end Juno.C13
