import JunoModel.C13.ProofsInv
import JunoModel.C13.ProofsListen
/-!
C13 — OBSERVATIONAL EQUIVALENCE is a bisimulation of every machine, so the relation `r` of
`ReplaySafeUpTo` need not be chosen (and its `Bisim` field need not be assumed): with `r := obsEq M`
— two states are equivalent when NO sequence of calls can tell them apart by the height, the started
flag or the actions returned — the hypothesis `ReplaySafeRel` shrinks to three statements about
observational equivalence of concrete pairs of states of the machine:

* `inert`  : a call that returns no action leaves a state that no later calls can tell from the old one;
* `commute`: a future-height message and a lower-height entry can be processed in either order;
* `reset`  : after a commit, a machine that only saw its own height's entries cannot be told from a
             fresh machine of the next height.

These are what the harness tests on every crash point of the real machine (recovered state against the
uncrashed live process / an uncrashed twin / in a silent network: state equality up to empty
containers, which implies observational equivalence).
-/
namespace Juno.C13
variable {S : Type}

/-- The state after the calls `ins`. -/
def runS (M : Machine S) (s : S) (ins : List Input) : S := ins.foldl (fun s i => (M.step s i).1) s

theorem runS_cons (M : Machine S) (s : S) (i : Input) (ins : List Input) :
    runS M s (i :: ins) = runS M (M.step s i).1 ins := rfl

/-- No sequence of calls tells `s` and `t` apart. -/
def obsEq (M : Machine S) : Setoid S where
  r s t := ∀ ins, M.height (runS M s ins) = M.height (runS M t ins) ∧
    M.started (runS M s ins) = M.started (runS M t ins) ∧
    ∀ i, (M.step (runS M s ins) i).2 = (M.step (runS M t ins) i).2
  iseqv := {
    refl := fun _ _ => ⟨rfl, rfl, fun _ => rfl⟩
    symm := fun h ins => ⟨(h ins).1.symm, (h ins).2.1.symm, fun i => ((h ins).2.2 i).symm⟩
    trans := fun h1 h2 ins => ⟨(h1 ins).1.trans (h2 ins).1, (h1 ins).2.1.trans (h2 ins).2.1,
      fun i => ((h1 ins).2.2 i).trans ((h2 ins).2.2 i)⟩ }

/-- **Observational equivalence is a bisimulation** — of every machine. -/
theorem obsEq_bisim (M : Machine S) : Bisim M (obsEq M) where
  obs := fun s t h => ⟨(h []).1, (h []).2.1⟩
  step := fun s t h i => ⟨(h []).2.2 i, fun ins => by
    have := h (i :: ins)
    simpa [runS_cons] using this⟩

/-- Equal states are observationally equivalent. -/
theorem obsEq_of_eq (M : Machine S) {s t : S} (h : s = t) : (obsEq M).r s t := by
  subst h; exact (obsEq M).iseqv.refl _

/-- `ReplaySafeRel` for observational equivalence: only the three statements about pairs of states. -/
structure ObsSafe (M : Machine S) : Prop where
  inert : ∀ s i, (M.started s = true ∨ i = Input.start) → (M.step s i).2 = [] →
    (obsEq M).r (M.step s i).1 s
  commute : ∀ s (a b : Entry), M.height s ≤ b.height → b.height < a.height → a.toInput ≠ Input.start →
    (obsEq M).r (replayStep M (replayStep M s a).1 b).1 (replayStep M (replayStep M s b).1 a).1 ∧
    visA (replayStep M (replayStep M s b).1 a).2 = [] ∧
    visA (replayStep M (replayStep M s a).1 b).2 = visA (replayStep M s b).2
  reset : ∀ h (A : List Entry) e, (∀ x ∈ A ++ [e], x.height = h) →
    committed (replayStep M (replayRun M (M.init h) A).1 e).2 = true →
    (obsEq M).r (replayStep M (replayRun M (M.init h) A).1 e).1 (M.init (h + 1))

theorem ObsSafe.rel {M : Machine S} (h : ObsSafe M) : ReplaySafeRel M (obsEq M) :=
  ⟨obsEq_bisim M, h.inert, h.commute, h.reset⟩

/-- A machine that satisfies the literal hypotheses satisfies the observational ones. -/
theorem ObsSafe.of_replaySafe {M : Machine S} (h : ReplaySafe M) : ObsSafe M where
  inert := by
    intro s i hst h0
    rcases h.logged_or_inert s i hst with ⟨h1, _⟩ | ⟨e, rest, h2, _⟩
    · exact obsEq_of_eq M h1
    · rw [h2] at h0; cases h0
  commute := by
    intro s a b h1 h2 h3
    obtain ⟨c1, c2, c3⟩ := h.commute s a b h1 h2 h3
    exact ⟨obsEq_of_eq M c1, c2, c3⟩
  reset := by
    intro hh A e h1 h2
    exact obsEq_of_eq M (h.commit_reset hh A e h1 h2)

/-- Every bisimulation is contained in observational equivalence. -/
theorem bisim_le_obsEq {M : Machine S} {r : Setoid S} (hb : Bisim M r) :
    ∀ (ins : List Input) (s t : S), r.r s t →
      M.height (runS M s ins) = M.height (runS M t ins) ∧
      M.started (runS M s ins) = M.started (runS M t ins) ∧
      ∀ i, (M.step (runS M s ins) i).2 = (M.step (runS M t ins) i).2 := by
  intro ins
  induction ins with
  | nil => intro s t h; exact ⟨(hb.obs s t h).1, (hb.obs s t h).2, fun i => (hb.step s t h i).1⟩
  | cons j rest ih => intro s t h; exact ih _ _ (hb.step s t h j).2

/-- **The relation need not be chosen**: the state-relation hypotheses hold for SOME equivalence iff
they hold for observational equivalence. -/
theorem obsSafe_iff_exists_rel (M : Machine S) : ObsSafe M ↔ ∃ r, ReplaySafeRel M r := by
  constructor
  · intro h; exact ⟨obsEq M, h.rel⟩
  · rintro ⟨r, hb, h1, h2, h3⟩
    have le : ∀ s t, r.r s t → (obsEq M).r s t := fun s t hst ins => bisim_le_obsEq hb ins s t hst
    exact ⟨fun s i a b => le _ _ (h1 s i a b),
      fun s a b x y z => ⟨le _ _ (h2 s a b x y z).1, (h2 s a b x y z).2⟩,
      fun hh A e x y => le _ _ (h3 hh A e x y)⟩

/-- juno's machine on its invariant states starts heights, too (it is `tmMachineQuiet` restricted). -/
theorem tmQTI_startsHeights (env : Juno.C12.Env) (node : Nat) : StartsHeights (tmQTI env node) := by
  have hq : tmQT env node = tmMachineQuiet env node := by
    show quietOf (tmMachineT env node) = _
    rw [tmMachineT_eq_tmMachine]; rfl
  have h := tmQuiet_startsHeights env node
  rw [← hq] at h
  exact ⟨fun s hc => h.start_starts s.1 hc, fun s i hst hc => h.started_stays s.1 i hst hc⟩

end Juno.C13
