import JunoModel.C13.ProofsCrash4
/-!
C13 — the hypotheses UP TO an observational equivalence on machine states.

Literal state equality is too strong for a real state machine (a rejected message may create an
empty container, association lists may be ordered differently). `ReplaySafeUpTo M r` states the
hypotheses of `ReplaySafe` with `≈` (a bisimulation `r` on states: equivalent states have the same
height / started flag, give the same actions and equivalent successors) wherever `ReplaySafe`
compares states. All crash theorems transfer: they are applied to the quotient machine `M / ≈`,
whose runs perform literally the same effects.
-/
namespace Juno.C13
variable {S : Type}

/-- `r` is a bisimulation equivalence of the machine. -/
structure Bisim (M : Machine S) (r : Setoid S) : Prop where
  obs : ∀ s t, r.r s t → M.height s = M.height t ∧ M.started s = M.started t
  step : ∀ s t, r.r s t → ∀ i, (M.step s i).2 = (M.step t i).2 ∧ r.r (M.step s i).1 (M.step t i).1

/-- The machine on equivalence classes. -/
def quotMachine (M : Machine S) (r : Setoid S) (hb : Bisim M r) : Machine (Quotient r) where
  init := fun h => Quotient.mk r (M.init h)
  height := Quotient.lift M.height (fun s t h => (hb.obs s t h).1)
  started := Quotient.lift M.started (fun s t h => (hb.obs s t h).2)
  step := fun q i => Quotient.lift (fun s => (Quotient.mk r (M.step s i).1, (M.step s i).2))
    (fun s t h => by
      obtain ⟨h1, h2⟩ := hb.step s t h i
      exact Prod.ext (Quotient.sound h2) h1) q

variable (M : Machine S) (r : Setoid S) (hb : Bisim M r)

theorem quot_step (s : S) (i : Input) :
    (quotMachine M r hb).step (Quotient.mk r s) i = (Quotient.mk r (M.step s i).1, (M.step s i).2) := rfl

theorem quot_height (s : S) : (quotMachine M r hb).height (Quotient.mk r s) = M.height s := rfl
theorem quot_started (s : S) : (quotMachine M r hb).started (Quotient.mk r s) = M.started s := rfl

theorem quot_liveRun (ins : List Input) (s : S) :
    liveRun (quotMachine M r hb) (Quotient.mk r s) ins =
      (Quotient.mk r (liveRun M s ins).1, (liveRun M s ins).2) := by
  induction ins generalizing s with
  | nil => rfl
  | cons i rest ih => simp [liveRun, quot_step, ih]

theorem quot_replayStep (s : S) (e : Entry) :
    replayStep (quotMachine M r hb) (Quotient.mk r s) e =
      (Quotient.mk r (replayStep M s e).1, (replayStep M s e).2) := by
  simp only [replayStep, quot_height]
  by_cases h : skipOnReplay (M.height s) e = true
  · simp [h]
  · simp [h, quot_step]

theorem quot_replayRun (L : List Entry) (s : S) :
    replayRun (quotMachine M r hb) (Quotient.mk r s) L =
      (Quotient.mk r (replayRun M s L).1, (replayRun M s L).2) := by
  induction L generalizing s with
  | nil => rfl
  | cons e rest ih => simp [replayRun, quot_replayStep, ih]

theorem quot_recover (n : Node) :
    recover (quotMachine M r hb) n = (Quotient.mk r (recover M n).1, (recover M n).2) := by
  show (_, _, _) = (_, _, _)
  have h := quot_replayRun M r hb n.crash.store.load (M.init (n.crash.chainHeight + 1))
  simp only [recover]
  have e1 : (quotMachine M r hb).init (n.crash.chainHeight + 1) =
      Quotient.mk r (M.init (n.crash.chainHeight + 1)) := rfl
  rw [e1, h]

theorem quot_listenOK (ins : List Input) (s : S) :
    ListenOK (quotMachine M r hb) (Quotient.mk r s) ins ↔ ListenOK M s ins := by
  induction ins generalizing s with
  | nil => exact Iff.rfl
  | cons i rest ih => simp only [ListenOK, quot_started, quot_step, ih]

theorem quot_replayOK (L : List Entry) (s : S) :
    ReplayOK (quotMachine M r hb) (Quotient.mk r s) L ↔ ReplayOK M s L := by
  induction L generalizing s with
  | nil => exact Iff.rfl
  | cons e rest ih => simp only [ReplayOK, quot_height, quot_started, quot_replayStep, ih]

theorem quot_noEquivocation (ne : NoEquivocation M) : NoEquivocation (quotMachine M r hb) := by
  intro h L hok v w hv hw
  have e1 : (quotMachine M r hb).init h = Quotient.mk r (M.init h) := rfl
  rw [e1] at hok hv hw
  rw [quot_replayRun] at hv hw
  exact ne h L ((quot_replayOK M r hb L _).1 hok) v w hv hw

theorem quot_moment (c0 : Nat) (n : Node) (hist : List Effect) (hm : Moment M c0 n hist) :
    Moment (quotMachine M r hb) c0 n hist := by
  induction hm with
  | first ins ok pre post h =>
    refine Moment.first ins ((quot_listenOK M r hb ins _).2 ok) pre post ?_
    show (liveRun (quotMachine M r hb) (Quotient.mk r (M.init (c0 + 1))) ins).2 = _
    rw [quot_liveRun]; exact h
  | replaying n hist _ q post h ih =>
    refine Moment.replaying n hist ih q post ?_
    rw [quot_recover]; exact h
  | resumed n hist _ cont okc pre post h ih =>
    have := Moment.resumed (M := quotMachine M r hb) n hist ih cont
      (by rw [quot_recover]; exact (quot_listenOK M r hb cont _).2 okc) pre post
      (by rw [quot_recover]; simp only; rw [quot_liveRun]; exact h)
    rw [quot_recover] at this
    exact this
  | stoppedFirst ins ok =>
    have := Moment.stoppedFirst (M := quotMachine M r hb) (c0 := c0) ins
      ((quot_listenOK M r hb ins _).2 ok)
    have e1 : (quotMachine M r hb).init (c0 + 1) = Quotient.mk r (M.init (c0 + 1)) := rfl
    rw [e1, quot_liveRun] at this
    exact this
  | stoppedResumed n hist _ cont okc ih =>
    have := Moment.stoppedResumed (M := quotMachine M r hb) n hist ih cont
      (by rw [quot_recover]; exact (quot_listenOK M r hb cont _).2 okc)
    rw [quot_recover] at this
    simp only at this
    rw [quot_liveRun] at this
    exact this

theorem quot_logged (ins : List Input) (s : S) :
    loggedEntries (quotMachine M r hb) (Quotient.mk r s) ins = loggedEntries M s ins := by
  induction ins generalizing s with
  | nil => rfl
  | cons i rest ih => simp [loggedEntries, quot_step, ih]

/-- The hypotheses of `ReplaySafe` up to the bisimulation `r`. -/
structure ReplaySafeUpTo (M : Machine S) (r : Setoid S) : Prop where
  bisim : Bisim M r
  height_init : ∀ h, M.height (M.init h) = h
  started_init : ∀ h, M.started (M.init h) = false
  logged_or_inert : ∀ s i, (M.started s = true ∨ i = Input.start) →
    (r.r (M.step s i).1 s ∧ (M.step s i).2 = []) ∨
    (∃ e rest, (M.step s i).2 = Action.writeWAL e :: rest ∧ e.toInput = i ∧
      M.height s ≤ e.height ∧ (i = Input.start → e.height = M.height s) ∧ walOf rest = [])
  timeout_entry_current : ∀ s i e rest, (M.step s i).2 = Action.writeWAL e :: rest →
    e.isTimeout = true → e.height = M.height s
  height_mono : ∀ s i, M.height s ≤ M.height (M.step s i).1
  commit_last : ∀ s i pre h v post, (M.step s i).2 = pre ++ Action.commit h v :: post →
    post = [] ∧ committed pre = false ∧ h = M.height s ∧
    M.height (M.step s i).1 = h + 1 ∧ M.started (M.step s i).1 = false
  no_commit_height : ∀ s i, committed (M.step s i).2 = false →
    M.height (M.step s i).1 = M.height s
  votes_current_height : ∀ s i v, v ∈ votesOf (effectsOf true (M.step s i).2) → v.h = M.height s
  timers_current_height : ∀ s i t, t ∈ timersOf (effectsOf true (M.step s i).2) → t.h = M.height s
  unstarted_silent : ∀ s i, M.started s = false → i ≠ Input.start → i.isTimeout = false →
    visA (M.step s i).2 = [] ∧ M.started (M.step s i).1 = false ∧
    M.height (M.step s i).1 = M.height s
  future_silent : ∀ s (a : Entry), M.height s < a.height → a.toInput ≠ Input.start →
    visA (M.step s a.toInput).2 = [] ∧ M.started (M.step s a.toInput).1 = M.started s
  commute : ∀ s (a b : Entry), M.height s ≤ b.height → b.height < a.height → a.toInput ≠ Input.start →
    r.r (replayStep M (replayStep M s a).1 b).1 (replayStep M (replayStep M s b).1 a).1 ∧
    visA (replayStep M (replayStep M s b).1 a).2 = [] ∧
    visA (replayStep M (replayStep M s a).1 b).2 = visA (replayStep M s b).2
  commit_reset : ∀ h (A : List Entry) e, (∀ x ∈ A ++ [e], x.height = h) →
    committed (replayStep M (replayRun M (M.init h) A).1 e).2 = true →
    r.r (replayStep M (replayRun M (M.init h) A).1 e).1 (M.init (h + 1))

/-- The quotient machine satisfies the literal hypotheses. -/
theorem ReplaySafeUpTo.quot {M : Machine S} {r : Setoid S} (h : ReplaySafeUpTo M r) :
    ReplaySafe (quotMachine M r h.bisim) where
  height_init := h.height_init
  started_init := h.started_init
  logged_or_inert := by
    intro q i
    obtain ⟨s, rfl⟩ := Quotient.exists_rep q
    intro hst
    rcases h.logged_or_inert s i hst with ⟨h1, h2⟩ | h3
    · exact Or.inl ⟨Quotient.sound h1, h2⟩
    · exact Or.inr h3
  timeout_entry_current := by
    intro q i; obtain ⟨s, rfl⟩ := Quotient.exists_rep q; exact h.timeout_entry_current s i
  height_mono := by
    intro q i; obtain ⟨s, rfl⟩ := Quotient.exists_rep q; exact h.height_mono s i
  commit_last := by
    intro q i; obtain ⟨s, rfl⟩ := Quotient.exists_rep q; exact h.commit_last s i
  no_commit_height := by
    intro q i; obtain ⟨s, rfl⟩ := Quotient.exists_rep q; exact h.no_commit_height s i
  votes_current_height := by
    intro q i; obtain ⟨s, rfl⟩ := Quotient.exists_rep q; exact h.votes_current_height s i
  timers_current_height := by
    intro q i; obtain ⟨s, rfl⟩ := Quotient.exists_rep q; exact h.timers_current_height s i
  unstarted_silent := by
    intro q i; obtain ⟨s, rfl⟩ := Quotient.exists_rep q; exact h.unstarted_silent s i
  future_silent := by
    intro q a; obtain ⟨s, rfl⟩ := Quotient.exists_rep q; exact h.future_silent s a
  commute := by
    intro q a b
    obtain ⟨s, rfl⟩ := Quotient.exists_rep q
    intro h1 h2 h3
    obtain ⟨c1, c2, c3⟩ := h.commute s a b h1 h2 h3
    simp only [quot_replayStep]
    exact ⟨Quotient.sound c1, c2, c3⟩
  commit_reset := by
    intro hh A e hall hc
    have e1 : (quotMachine M r h.bisim).init hh = Quotient.mk r (M.init hh) := rfl
    rw [e1, quot_replayRun] at hc ⊢
    simp only [quot_replayStep] at hc ⊢
    exact Quotient.sound (h.commit_reset hh A e hall hc)

/-- **No conflicting vote after recovery, up to `≈`**: for every moment of a history with any
number of crashes. The conclusion is about the effects of `M` itself. -/
theorem no_conflict_upTo {M : Machine S} {r : Setoid S} (h : ReplaySafeUpTo M r)
    (ne : NoEquivocation M) (c0 : Nat) (n : Node) (hist : List Effect) (hm : Moment M c0 n hist)
    (cont : List Input) (okc : ListenOK M (recover M n).1 cont) :
    ∀ v ∈ votesOf hist, ∀ w ∈ votesOf ((recover M n).2.1 ++ (liveRun M (recover M n).1 cont).2),
      ¬ v.conflicts w := by
  have hd := moment_durable _ h.quot c0 n hist (quot_moment M r h.bisim c0 n hist hm)
  have := durable_no_conflict _ h.quot (quot_noEquivocation M r h.bisim ne) c0 n hist hd cont
    (by rw [quot_recover]; exact (quot_listenOK M r h.bisim cont _).2 okc)
  rw [quot_recover] at this
  simp only at this
  rw [quot_liveRun] at this
  exact this

/-- **Recovery reaches the uncrashed live run's state, up to `≈`.** -/
theorem recover_live_upTo {M : Machine S} {r : Setoid S} (h : ReplaySafeUpTo M r) (c0 : Nat)
    (n : Node) (hist : List Effect) (hm : Moment M c0 n hist) :
    ∃ insd, ListenOK M (M.init (c0 + 1)) insd ∧
      r.r (recover M n).1 (liveRun M (M.init (c0 + 1)) insd).1 ∧
      entriesOfRecs n.store.flushed = loggedEntries M (M.init (c0 + 1)) insd ∧
      (∀ v ∈ votesOf hist, v ∈ votesOf (liveRun M (M.init (c0 + 1)) insd).2) := by
  have hd := moment_durable _ h.quot c0 n hist (quot_moment M r h.bisim c0 n hist hm)
  obtain ⟨insd, ok, hst, hent, hv⟩ := durable_recovers_live_run _ h.quot c0 n hist hd
  have e1 : (quotMachine M r h.bisim).init (c0 + 1) = Quotient.mk r (M.init (c0 + 1)) := rfl
  rw [e1] at ok hst hent hv
  rw [quot_recover, quot_liveRun] at hst
  rw [quot_liveRun] at hv
  refine ⟨insd, (quot_listenOK M r h.bisim insd _).1 ok, Quotient.exact hst, ?_, hv⟩
  rw [hent]
  exact quot_logged M r h.bisim insd _

/-- **Timers after recovery** (any history): the restart arms exactly the timers the uncrashed live
run armed for the height the chain is waiting for, and none it did not arm. -/
theorem recover_timers_upTo {M : Machine S} {r : Setoid S} (h : ReplaySafeUpTo M r) (c0 : Nat)
    (n : Node) (hist : List Effect) (hm : Moment M c0 n hist) :
    ∃ insd, ListenOK M (M.init (c0 + 1)) insd ∧
      entriesOfRecs n.store.flushed = loggedEntries M (M.init (c0 + 1)) insd ∧
      (∀ t ∈ timersOf (recover M n).2.1, t ∈ timersOf (liveRun M (M.init (c0 + 1)) insd).2) ∧
      (∀ t ∈ timersOf (liveRun M (M.init (c0 + 1)) insd).2, t.h = n.chainHeight + 1 →
        t ∈ timersOf (recover M n).2.1) := by
  have hd := moment_durable _ h.quot c0 n hist (quot_moment M r h.bisim c0 n hist hm)
  obtain ⟨insd, ok, hent, h1, h2⟩ := durable_timers _ h.quot c0 n hist hd
  have e1 : (quotMachine M r h.bisim).init (c0 + 1) = Quotient.mk r (M.init (c0 + 1)) := rfl
  rw [e1] at ok hent h1 h2
  rw [quot_recover] at h1 h2
  rw [quot_liveRun] at h1 h2
  exact ⟨insd, (quot_listenOK M r h.bisim insd _).1 ok,
    by rw [hent]; exact quot_logged M r h.bisim insd _, h1, h2⟩

end Juno.C13
