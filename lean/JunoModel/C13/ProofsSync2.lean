import JunoModel.C13.ProofsSync
import JunoModel.C13.ProofsInv
/-!
C13 — a fetched block (`listen`'s sync branch: `messageExtractor.Extract`, `ProcessSync`) is processed
like its messages handed over ONE BY ONE: same machine state, same log / broadcast / timer / commit
effects. `ProcessSync` concatenates the action lists of `ProcessProposal` and of every
`ProcessPrecommit`, and `execute` drops whatever follows a `Commit` — so the two differ exactly when a
call of the block commits and a LATER call of the same block still returns actions. `SyncOK` excludes
that; for juno's machine it holds for the blocks the extractor builds (proposal + the fabricated
precommit of the same height): after the commit the machine is one height further and a message of
the old height returns nothing (`tm_syncOK_block`).
-/
namespace Juno.C13
open Juno
variable {S : Type}

theorem effectsOf_append (replaying : Bool) (a b : List Action) :
    effectsOf replaying (a ++ b) =
      if committed a then effectsOf replaying a else effectsOf replaying a ++ effectsOf replaying b := by
  induction a with
  | nil => simp [effectsOf, committed]
  | cons x a ih =>
    by_cases hc : committed a = true
    · cases x <;> cases replaying <;> simp_all [effectsOf, committed, Action.requiresWALFlush]
    · cases x <;> cases replaying <;> simp_all [effectsOf, committed, Action.requiresWALFlush]

/-- No call of the block that follows a committing call returns anything. -/
def SyncOK (M : Machine S) : S → List Input → Prop
  | _, [] => True
  | s, i :: rest =>
    (committed (M.step s i).2 = true → (syncStep M (M.step s i).1 rest).2 = []) ∧
      SyncOK M (M.step s i).1 rest

theorem syncStep_state (M : Machine S) (s : S) (ins : List Input) :
    (syncStep M s ins).1 = (liveRun M s ins).1 := by
  induction ins generalizing s with
  | nil => rfl
  | cons i rest ih => simp [syncStep, liveRun, ih]

theorem liveRun_nil_of_syncStep_nil (M : Machine S) (s : S) (ins : List Input)
    (h : (syncStep M s ins).2 = []) : (liveRun M s ins).2 = [] := by
  induction ins generalizing s with
  | nil => rfl
  | cons i rest ih =>
    simp only [syncStep, List.append_eq_nil_iff] at h
    simp [liveRun, h.1, effectsOf, ih _ h.2]

/-- **`ProcessSync` + one `execute` = the messages one by one.** -/
theorem syncStep_as_liveRun (M : Machine S) (s : S) (ins : List Input) (h : SyncOK M s ins) :
    (syncStep M s ins).1 = (liveRun M s ins).1 ∧
    effectsOf false (syncStep M s ins).2 = (liveRun M s ins).2 := by
  refine ⟨syncStep_state M s ins, ?_⟩
  induction ins generalizing s with
  | nil => rfl
  | cons i rest ih =>
    obtain ⟨h1, h2⟩ := h
    simp only [syncStep, liveRun, effectsOf_append]
    by_cases hc : committed (M.step s i).2 = true
    · simp only [hc, if_true]
      rw [liveRun_nil_of_syncStep_nil M _ rest (h1 hc)]
      simp
    · simp only [hc, Bool.false_eq_true, if_false]
      rw [ih _ h2]

/-- One turn of `listen` for a fetched block: the machine and the log / broadcast / timer / commit
effects are those of `liveRun` over the block's messages. -/
theorem listenStep_syncBlock_as_liveRun (M : Machine S) (st : LState S) (ins : List Input)
    (h : SyncOK M st.s ins) :
    (listenStep M st (.syncBlock ins)).1.s = (liveRun M st.s ins).1 ∧
    baseOf (listenStep M st (.syncBlock ins)).2 = (liveRun M st.s ins).2 := by
  obtain ⟨h1, h2⟩ := syncStep_as_liveRun M st.s ins h
  refine ⟨h1, ?_⟩
  show baseOf (runActs M st _ _).2 = _
  rw [runActs_base, h2]

/-! ## juno's machine: the blocks the extractor builds -/

theorem visA_ne_nil_of_committed (acts : List Action) (h : committed acts = true) : visA acts ≠ [] := by
  induction acts with
  | nil => simp [committed] at h
  | cons a t ih =>
    cases a <;> simp_all [committed, visA, visibleOf, effectsOf, Effect.observable]

/-- A message of a height below the machine's returns nothing (states satisfying `MInv`). -/
theorem tmQT_stale_message_inert (env : C12.Env) (node : Nat) (m : C12.Machine)
    (hi : C12.MInv env m) (e : Entry) (hns : e.toInput ≠ Input.start)
    (hlt : e.height < m.state.height) :
    ((tmQT env node).step m e.toInput).2 = [] := by
  rcases tmQT_logged_first env node m e.toInput with h0 | ⟨e', rest, h1, he, _⟩
  · exact h0
  · have hge := tmQT_entry_height env node m hi e.toInput e' rest h1
    have : e'.height = e.height := by
      cases e <;> cases e' <;> simp_all [Entry.toInput, Entry.height]
    omega

/-- **`SyncOK` for the blocks of `consensus/sync`**: a proposal and a precommit of the SAME height
(`MessageExtractor.Extract`: the block's proposal and one fabricated precommit), from any state of
juno's machine that satisfies `MInv`. If the proposal's call commits, the machine is one height
further and the precommit — now of a past height — returns nothing. -/
theorem tm_syncOK_block (env : C12.Env) (node : Nat) (m : C12.Machine) (hi : C12.MInv env m)
    (h : Nat) (r : Int) (s : Nat) (vr : Int) (v : Nat) (r' : Int) (s' : Nat) (id : Option Nat) :
    SyncOK (tmQT env node) m [.proposal h r s vr v, .precommit h r' s' id] := by
  refine ⟨fun hc => ?_, fun _ => rfl, trivial⟩
  show ((tmQT env node).step _ (Input.precommit h r' s' id)).2 ++ [] = []
  rw [List.append_nil]
  -- the state after the proposal's call
  obtain ⟨m1, acts, hstep, hcall, _⟩ := tmQT_step_spec env node m (.proposal h r s vr v)
  have hm1 : ((tmQT env node).step m (.proposal h r s vr v)).1 = m1 := by rw [hstep]
  have hacts : ((tmQT env node).step m (.proposal h r s vr v)).2 = drvActs acts := by rw [hstep]
  rw [hacts] at hc
  obtain ⟨q, hq⟩ := (committed_drvActs acts).1 hc
  have hh1 : m1.state.height = m.state.height + 1 := hcall.commit ⟨q, hq⟩
  -- a committing call is not for a future height
  have hle : h ≤ m.state.height := by
    apply Nat.le_of_not_lt
    intro hlt
    have := (tmQT_future_silent env node m (.proposal h r s vr v) hlt (by simp [Entry.toInput])).1
    simp only [Entry.toInput] at this
    rw [hacts] at this
    exact visA_ne_nil_of_committed _ hc this
  have hi1 : C12.MInv env m1 := by
    have hm1' : m1 = ((tmMachineT env node).step m (.proposal h r s vr v)).1 := by
      rw [← hm1, tmQT_step]
    rw [hm1']
    exact tmT_step_minv env node m (.proposal h r s vr v) hi
  rw [hm1]
  exact tmQT_stale_message_inert env node m1 hi1 (.precommit h r' s' id) (by simp [Entry.toInput])
    (by simp only [Entry.height]; omega)

end Juno.C13
