import JunoModel.C12.ProofsTrace
import JunoModel.C13.UpTo
import JunoModel.C13.ModelTm
/-!
C13 — the abstract `Machine` instantiated with C12's executable transcription of juno's Tendermint
state machine (`JunoModel.C12.Model`, compared action-for-action with the real code by C12's
harness), and `NoEquivocation` for it, derived from C12's `run_no_double_vote`.

Only C12's `Model` and `ProofsTrace` are imported (read-only).
-/
namespace Juno.C13
open Juno

/-- The inputs `replay` really hands to the machine (entries that are skipped, and timeouts with an
unknown step, are not). -/
def fed (env : C12.Env) (node : Nat) : C12.Machine → List Entry → List C12.Input
  | _, [] => []
  | m, e :: rest =>
    if skipOnReplay m.state.height e then fed env node m rest
    else match convInput e.toInput with
      | none => fed env node m rest
      | some ci => ci :: fed env node (m.step env ci).1 rest

/-- A vote of the driver-level trace as an action of C12's log. -/
def voteIn (acts : List C12.Action) (v : Vote) : Prop :=
  match v.kind with
  | .prevote => ∃ s, C12.Action.bcastPrevote ⟨v.h, v.r, s, v.id⟩ ∈ acts
  | .precommit => ∃ s, C12.Action.bcastPrecommit ⟨v.h, v.r, s, v.id⟩ ∈ acts

theorem voteIn_mono {a b : List C12.Action} (v : Vote) (h : ∀ x ∈ a, x ∈ b) (hv : voteIn a v) :
    voteIn b v := by
  unfold voteIn at *
  cases hk : v.kind <;> simp only [hk] at hv ⊢ <;> obtain ⟨s, hs⟩ := hv <;> exact ⟨s, h _ hs⟩

theorem votes_effects_sub (acts : List C12.Action) (v : Vote)
    (hv : v ∈ votesOf (effectsOf true (acts.map convAction))) : voteIn acts v := by
  induction acts with
  | nil => simp [effectsOf, votesOf] at hv
  | cons a rest ih =>
    cases a with
    | commit p => simp [convAction, effectsOf, votesOf, Effect.vote?] at hv
    | bcastPrevote x =>
      simp only [List.map_cons, convAction, effectsOf, Bool.not_true, Bool.false_and,
        Bool.false_eq_true, if_false, List.nil_append, votesOf, List.filterMap_cons,
        Effect.vote?, List.mem_cons] at hv
      rcases hv with rfl | hv
      · exact ⟨x.sender, by simp⟩
      · exact voteIn_mono v (fun y hy => List.mem_cons_of_mem _ hy) (ih hv)
    | bcastPrecommit x =>
      simp only [List.map_cons, convAction, effectsOf, Bool.not_true, Bool.false_and,
        Bool.false_eq_true, if_false, List.nil_append, votesOf, List.filterMap_cons,
        Effect.vote?, List.mem_cons] at hv
      rcases hv with rfl | hv
      · exact ⟨x.sender, by simp⟩
      · exact voteIn_mono v (fun y hy => List.mem_cons_of_mem _ hy) (ih hv)
    | _ =>
      simp only [List.map_cons, convAction, effectsOf, Bool.not_true, Bool.false_and,
        Bool.false_eq_true, if_false, List.nil_append, votesOf, List.filterMap_cons,
        Effect.vote?] at hv
      exact voteIn_mono v (fun y hy => List.mem_cons_of_mem _ hy) (ih hv)

/-- Every vote of a replay by the driver is a vote action of C12's run over the fed inputs. -/
theorem replay_votes_in_run (env : C12.Env) (node : Nat) (L : List Entry) (m : C12.Machine)
    (v : Vote) (hv : v ∈ votesOf (replayRun (tmMachine env node) m L).2) :
    voteIn (m.run env (fed env node m L)).2 v := by
  induction L generalizing m with
  | nil => simp [replayRun, votesOf] at hv
  | cons e L ih =>
    simp only [replayRun, votesOf_append, List.mem_append] at hv
    simp only [fed]
    have hheight : (tmMachine env node).height m = m.state.height := rfl
    by_cases hsk : skipOnReplay m.state.height e = true
    · simp only [replayStep, hheight, hsk, if_true, effectsOf, votesOf, List.filterMap_nil,
        List.not_mem_nil, false_or] at hv
      simp only [hsk, if_true]
      exact ih m hv
    · simp only [Bool.not_eq_true] at hsk
      simp only [replayStep, hheight, hsk] at hv
      simp only [hsk]
      cases hci : convInput e.toInput with
      | none =>
        simp only [tmMachine, hci, effectsOf, votesOf, List.filterMap_nil, List.not_mem_nil,
          false_or, Bool.false_eq_true, if_false] at hv
        simp only [Bool.false_eq_true, if_false]
        exact ih m hv
      | some ci =>
        simp only [tmMachine, hci, Bool.false_eq_true, if_false] at hv
        simp only [Bool.false_eq_true, if_false, C12.Machine.run]
        rcases hv with hv | hv
        · exact voteIn_mono v (fun y hy => List.mem_append_left _ hy) (votes_effects_sub _ v hv)
        · exact voteIn_mono v (fun y hy => List.mem_append_right _ hy) (ih _ hv)

/-- The driver's replay discipline gives C12's input discipline. -/
theorem fed_disciplined (env : C12.Env) (node : Nat) (L : List Entry) (m : C12.Machine)
    (h : ReplayOK (tmMachine env node) m L) : C12.Disciplined env m (fed env node m L) := by
  induction L generalizing m with
  | nil => trivial
  | cons e L ih =>
    obtain ⟨h1, h2⟩ := h
    have hheight : (tmMachine env node).height m = m.state.height := rfl
    simp only [fed]
    by_cases hsk : skipOnReplay m.state.height e = true
    · simp only [hsk, if_true]
      simp only [replayStep, hheight, hsk, if_true] at h2
      exact ih m h2
    · simp only [Bool.not_eq_true] at hsk
      simp only [hsk, Bool.false_eq_true, if_false]
      simp only [replayStep, hheight, hsk, Bool.false_eq_true, if_false] at h2
      cases hci : convInput e.toInput with
      | none =>
        simp only [tmMachine, hci] at h2
        exact ih m h2
      | some ci =>
        simp only [tmMachine, hci] at h2
        refine ⟨?_, ih _ h2⟩
        cases e with
        | start hh => simp [Entry.toInput, convInput] at hci; subst hci; simp [C12.InputOK]
        | proposal => simp [Entry.toInput, convInput] at hci; subst hci; trivial
        | prevote => simp [Entry.toInput, convInput] at hci; subst hci; trivial
        | precommit => simp [Entry.toInput, convInput] at hci; subst hci; trivial
        | timeout st hh r =>
          simp only [Entry.toInput, convInput, Option.map_eq_some_iff] at hci
          obtain ⟨s, _, rfl⟩ := hci
          exact h1 rfl (by rw [hheight]; exact hsk)

theorem nodup_filterMap_inj {α β : Type} (f : α → Option β) (l : List α)
    (hn : (l.filterMap f).Nodup) (x y : α) (hx : x ∈ l) (hy : y ∈ l) (k : β)
    (fx : f x = some k) (fy : f y = some k) : x = y := by
  induction l with
  | nil => cases hx
  | cons a l ih =>
    simp only [List.mem_cons] at hx hy
    cases hfa : f a with
    | none =>
      rw [List.filterMap_cons_none hfa] at hn
      rcases hx with rfl | hx
      · rw [hfa] at fx; cases fx
      · rcases hy with rfl | hy
        · rw [hfa] at fy; cases fy
        · exact ih hn hx hy
    | some b =>
      rw [List.filterMap_cons_some hfa, List.nodup_cons] at hn
      rcases hx with rfl | hx <;> rcases hy with rfl | hy
      · rfl
      · exfalso
        have hb : b = k := by rw [hfa] at fx; exact Option.some.inj fx
        exact hn.1 (List.mem_filterMap.2 ⟨y, hy, by rw [fy, hb]⟩)
      · exfalso
        have hb : b = k := by rw [hfa] at fy; exact Option.some.inj fy
        exact hn.1 (List.mem_filterMap.2 ⟨x, hx, by rw [fx, hb]⟩)
      · exact ih hn.2 hx hy

/-- **juno's Tendermint machine never equivocates in a single uncrashed execution** (as the driver
sees it): from C12's `run_no_double_vote`. -/
theorem tm_noEquivocation (env : C12.Env) (node : Nat) : NoEquivocation (tmMachine env node) := by
  intro h L hok v w hv hw hc
  have hd := fed_disciplined env node L _ hok
  obtain ⟨npv, npc⟩ := C12.run_no_double_vote env node h (fed env node (C12.Machine.new env node h) L) hd
  have vin := replay_votes_in_run env node L _ v hv
  have win := replay_votes_in_run env node L _ w hw
  obtain ⟨hk, hh, hr, hid⟩ := hc
  unfold voteIn at vin win
  rw [← hk] at win
  cases hkv : v.kind
  · simp only [hkv] at vin win
    obtain ⟨s1, h1⟩ := vin
    obtain ⟨s2, h2⟩ := win
    have := nodup_filterMap_inj C12.pvSlot _ npv _ _ h1 h2 (v.h, v.r) rfl
      (by simp [C12.pvSlot, hh, hr])
    simp only [C12.Action.bcastPrevote.injEq, C12.Vote.mk.injEq] at this
    exact hid this.2.2.2
  · simp only [hkv] at vin win
    obtain ⟨s1, h1⟩ := vin
    obtain ⟨s2, h2⟩ := win
    have := nodup_filterMap_inj C12.pcSlot _ npc _ _ h1 h2 (v.h, v.r) rfl
      (by simp [C12.pcSlot, hh, hr])
    simp only [C12.Action.bcastPrecommit.injEq, C12.Vote.mk.injEq] at this
    exact hid this.2.2.2

/-! ## The machine without the `TriggerSync` actions votes the same -/

theorem votes_filter_sync (acts : List Action) :
    votesOf (effectsOf true (acts.filter (fun a => !a.isSync))) = votesOf (effectsOf true acts) := by
  induction acts with
  | nil => rfl
  | cons a rest ih =>
    cases a <;>
      simp_all [Action.isSync, effectsOf, votesOf, Effect.vote?, List.filter, List.filterMap]

theorem quiet_replayStep (env : C12.Env) (node : Nat) (m : C12.Machine) (e : Entry) :
    (replayStep (tmMachineQuiet env node) m e).1 = (replayStep (tmMachine env node) m e).1 ∧
    votesOf (effectsOf true (replayStep (tmMachineQuiet env node) m e).2) =
      votesOf (effectsOf true (replayStep (tmMachine env node) m e).2) := by
  have hh : (tmMachineQuiet env node).height m = (tmMachine env node).height m := rfl
  simp only [replayStep, hh]
  split
  · exact ⟨rfl, rfl⟩
  · exact ⟨rfl, votes_filter_sync _⟩

theorem quiet_replayRun (env : C12.Env) (node : Nat) (L : List Entry) (m : C12.Machine) :
    (replayRun (tmMachineQuiet env node) m L).1 = (replayRun (tmMachine env node) m L).1 ∧
    votesOf (replayRun (tmMachineQuiet env node) m L).2 =
      votesOf (replayRun (tmMachine env node) m L).2 := by
  induction L generalizing m with
  | nil => exact ⟨rfl, rfl⟩
  | cons e L ih =>
    obtain ⟨h1, h2⟩ := quiet_replayStep env node m e
    simp only [replayRun, votesOf_append, h2]
    rw [h1]
    exact ⟨(ih _).1, by rw [(ih _).2]⟩

theorem quiet_replayOK (env : C12.Env) (node : Nat) (L : List Entry) (m : C12.Machine)
    (h : ReplayOK (tmMachineQuiet env node) m L) : ReplayOK (tmMachine env node) m L := by
  induction L generalizing m with
  | nil => trivial
  | cons e L ih =>
    obtain ⟨h1, h2⟩ := h
    rw [(quiet_replayStep env node m e).1] at h2
    exact ⟨h1, ih _ h2⟩

/-- juno's machine without the `TriggerSync` actions never equivocates either. -/
theorem tmQuiet_noEquivocation (env : C12.Env) (node : Nat) :
    NoEquivocation (tmMachineQuiet env node) := by
  intro h L hok v w hv hw
  have e1 : (tmMachineQuiet env node).init h = (tmMachine env node).init h := rfl
  rw [e1] at hok hv hw
  rw [(quiet_replayRun env node L _).2] at hv hw
  exact tm_noEquivocation env node h L (quiet_replayOK env node L _ hok) v w hv hw

/-! ## Witnesses on the transcription of juno's machine: what it does NOT satisfy -/

/-- 4 equal validators, validator 1 proposes, every value valid; node 4. -/
def env4 : C12.Env :=
  { totalPower := fun _ => 4, power := fun _ _ => 1, proposer := fun _ _ => 1,
    valid := fun _ => true, appValue := fun k => 100 + k }
def tm4 : Machine C12.Machine := tmMachine env4 4
def tmS0 : C12.Machine := (tm4.step (tm4.init 1) .start).1
def tmS1 : C12.Machine := (tm4.step tmS0 (.precommit 3 0 1 (some 9))).1
def tmS2 : C12.Machine := (tm4.step tmS1 (.precommit 3 0 2 (some 9))).1

/-- The CURRENT machine (since b154634): the precommit that completes a quorum of a FUTURE height
is logged first, then the sync is triggered. -/
theorem tm_future_quorum_precommit_logged :
    (tm4.step tmS2 (.precommit 3 0 3 (some 9))).2 =
      [Action.writeWAL (.precommit 3 0 3 (some 9)), Action.triggerSync 1 3] := by
  decide

def tm4Old : Machine C12.Machine := tmMachineBefore_b154634 env4 4

/-- REGRESSION WITNESS (F4, fixed in b154634) on the variant of the machine before the fix: the
call returns only `TriggerSync` — no log entry — although the vote is counted (a second delivery is
a duplicate). -/
theorem tm_future_quorum_precommit_not_logged_before_b154634 :
    (tm4Old.step tmS2 (.precommit 3 0 3 (some 9))).2 = [Action.triggerSync 1 3] ∧
    (tm4Old.step (tm4Old.step tmS2 (.precommit 3 0 3 (some 9))).1 (.precommit 3 0 3 (some 9))).2 = [] := by
  decide

/-- Hence the machine before b154634 satisfied the hypotheses for NO notion of state equivalence. -/
theorem tm_not_replaySafe_upTo_before_b154634 (r : Setoid C12.Machine) :
    ¬ ReplaySafeUpTo tm4Old r := fun hs => by
  have h := hs.logged_or_inert tmS2 (.precommit 3 0 3 (some 9)) (Or.inl (by decide))
  have ha := tm_future_quorum_precommit_not_logged_before_b154634.1
  rcases h with ⟨_, h2⟩ | ⟨e', rest, h2, _⟩ <;> (rw [ha] at h2; cases h2)

/-! ### What still stands between juno's machine and `ReplaySafeUpTo` (after b154634) -/

def w1 : C12.Machine := (tm4.step tmS0 (.proposal 1 0 1 (-1) 7)).1
def w2 : C12.Machine := (tm4.step w1 (.prevote 1 0 1 (some 7))).1
def w3 : C12.Machine := (tm4.step w2 (.prevote 1 0 2 (some 7))).1
def w4 : C12.Machine := (tm4.step w3 (.precommit 1 0 1 (some 7))).1
def w5 : C12.Machine := (tm4.step w4 (.precommit 3 0 1 (some 9))).1
def w6 : C12.Machine := (tm4.step w5 (.precommit 3 0 2 (some 9))).1
/-- completes the precommit quorum of the FUTURE height 3 -/
def eA : Entry := .precommit 3 0 3 (some 9)
/-- completes the precommit quorum of the CURRENT height 1: commit -/
def eB : Entry := .precommit 1 0 2 (some 7)
def wab : C12.Machine := (replayStep tm4 (replayStep tm4 w6 eA).1 eB).1
def wba : C12.Machine := (replayStep tm4 (replayStep tm4 w6 eB).1 eA).1
/-- start the next height, then three precommits for height 5: what does the third one return? -/
def syncProbe (m : C12.Machine) : List Action :=
  (tm4.step (tm4.step (tm4.step (tm4.step m .start).1 (.precommit 5 0 1 (some 3))).1
    (.precommit 5 0 2 (some 3))).1 (.precommit 5 0 3 (some 3))).2

/-- The sync bookkeeping is visible in the ARGUMENTS of `TriggerSync` and depends on whether the
quorum-completing future precommit was processed before or after the commit (live order vs the
height-sorted replay order): `TriggerSync 4 5` vs `TriggerSync 2 5`. -/
theorem tm_sync_bookkeeping_depends_on_order :
    syncProbe wab = [Action.writeWAL (.precommit 5 0 3 (some 3)), Action.triggerSync 4 5] ∧
    syncProbe wba = [Action.writeWAL (.precommit 5 0 3 (some 3)), Action.triggerSync 2 5] := by
  decide

/-- Hence `ReplaySafeUpTo (tmMachine …) r` is false for EVERY bisimulation `r` that must preserve
the full action lists: `commute` would make the two states equivalent, the bisimulation would make
their `TriggerSync` answers equal. (A restart does not restore `lastTriggerSync`; the recovery
theorems therefore have to be about `tmMachineQuiet`, the machine without the `TriggerSync` actions.) -/
theorem tm_replaySafeUpTo_fails_sync_bookkeeping (r : Setoid C12.Machine) :
    ¬ ReplaySafeUpTo tm4 r := fun hs => by
  have h0 := (hs.commute w6 eA eB (by decide) (by decide) (by decide)).1
  have h1 := (hs.bisim.step _ _ h0 .start).2
  have h2 := (hs.bisim.step _ _ h1 (.precommit 5 0 1 (some 3))).2
  have h3 := (hs.bisim.step _ _ h2 (.precommit 5 0 2 (some 3))).2
  have h4 := (hs.bisim.step _ _ h3 (.precommit 5 0 3 (some 3))).1
  have hp := tm_sync_bookkeeping_depends_on_order
  have : syncProbe wab = syncProbe wba := h4
  rw [hp.1, hp.2] at this
  exact absurd this (by decide)

/-- Why state EQUALITY is the wrong notion (and `ReplaySafeUpTo` has `≈`): a proposal from a
non-proposer is rejected (no actions), yet the vote counter has a new, empty round entry. -/
theorem tm_rejected_input_changes_state_literally :
    (tm4.step tmS0 (.proposal 1 5 2 (-1) 9)).2 = [] ∧
    (tm4.step tmS0 (.proposal 1 5 2 (-1) 9)).1.vc.rounds.length = 1 ∧ tmS0.vc.rounds.length = 0 := by
  decide

/-- Why `unstarted_silent` is about messages only: `ProcessTimeout` does not look at
`isHeightStarted` (C12's `timeout_before_start_breaks_one_vote`); `listen` and `ReplayOK` never
deliver a timeout to an unstarted height. -/
theorem tm_timeout_before_start_is_not_silent :
    visA (tm4.step (tm4.init 1) (.timeout 0 1 0)).2 ≠ [] := by decide

end Juno.C13
