import JunoModel.C13.ProofsReplay3
/-!
C13 — the toy machine of `Model.lean` satisfies `ReplaySafe` (non-vacuity of the hypotheses).
-/
namespace Juno.C13

theorem toy_onMsg_wal (t : Toy) (i : Input) : walOf (t.onMsg i).2 = [] := by
  cases i <;> simp only [Toy.onMsg] <;> (repeat' split) <;> simp [walOf]

theorem toy_logged_or_inert (p : Nat → Bool) (app : Nat → Nat) (s : Toy) (i : Input)
    (h : s.started = true ∨ i = Input.start) :
    ((Toy.step p app s i).1 = s ∧ (Toy.step p app s i).2 = []) ∨
    (∃ e rest, (Toy.step p app s i).2 = Action.writeWAL e :: rest ∧ e.toInput = i ∧
      s.height ≤ e.height ∧ (i = Input.start → e.height = s.height) ∧ walOf rest = []) := by
  cases i with
  | start =>
    simp only [Toy.step]
    split
    · exact Or.inl ⟨rfl, rfl⟩
    · split
      · exact Or.inr ⟨_, _, rfl, rfl, Nat.le_refl _, fun _ => rfl, by simp [walOf]⟩
      · exact Or.inr ⟨_, _, rfl, rfl, Nat.le_refl _, fun _ => rfl, by simp [walOf]⟩
  | proposal hh r sd vr v =>
    have hst : s.started = true := by rcases h with h | h; exact h; cases h
    simp only [Toy.step, Input.height?, hst]
    split
    · exact Or.inl ⟨rfl, rfl⟩
    · split
      · simp at *
      · split
        · exact Or.inr ⟨_, _, rfl, rfl, by simp [Input.toEntry, Entry.height]; omega, by simp, by simp [walOf]⟩
        · exact Or.inr ⟨_, _, rfl, rfl, by simp [Input.toEntry, Entry.height]; omega, by simp, toy_onMsg_wal _ _⟩
  | prevote hh r sd id =>
    have hst : s.started = true := by rcases h with h | h; exact h; cases h
    simp only [Toy.step, Input.height?, hst]
    split
    · exact Or.inl ⟨rfl, rfl⟩
    · split
      · simp at *
      · split
        · exact Or.inr ⟨_, _, rfl, rfl, by simp [Input.toEntry, Entry.height]; omega, by simp, by simp [walOf]⟩
        · exact Or.inr ⟨_, _, rfl, rfl, by simp [Input.toEntry, Entry.height]; omega, by simp, toy_onMsg_wal _ _⟩
  | precommit hh r sd id =>
    have hst : s.started = true := by rcases h with h | h; exact h; cases h
    simp only [Toy.step, Input.height?, hst]
    split
    · exact Or.inl ⟨rfl, rfl⟩
    · split
      · simp at *
      · split
        · exact Or.inr ⟨_, _, rfl, rfl, by simp [Input.toEntry, Entry.height]; omega, by simp, by simp [walOf]⟩
        · exact Or.inr ⟨_, _, rfl, rfl, by simp [Input.toEntry, Entry.height]; omega, by simp, toy_onMsg_wal _ _⟩
  | timeout st hh r =>
    have hst : s.started = true := by rcases h with h | h; exact h; cases h
    simp only [Toy.step, Input.height?, hst]
    split
    · exact Or.inl ⟨rfl, rfl⟩
    · split
      · simp at *
      · split
        · exact Or.inl ⟨rfl, rfl⟩
        · exact Or.inr ⟨_, _, rfl, rfl, by simp [Input.toEntry, Entry.height]; omega, by simp, toy_onMsg_wal _ _⟩
end Juno.C13
namespace Juno.C13
open Toy in
theorem toy_height_mono (p : Nat → Bool) (app : Nat → Nat) (s : Toy) (i : Input) :
    s.height ≤ (Toy.step p app s i).1.height := by
  cases i <;> simp only [Toy.step, Input.height?, Toy.onMsg] <;> (repeat' split) <;>
    simp_all [Toy.init] <;> omega

theorem toy_no_commit_height (p : Nat → Bool) (app : Nat → Nat) (s : Toy) (i : Input)
    (h : committed (Toy.step p app s i).2 = false) : (Toy.step p app s i).1.height = s.height := by
  revert h
  cases i <;> simp only [Toy.step, Input.height?, Toy.onMsg] <;> (repeat' split) <;>
    simp_all [Toy.init, committed]

theorem toy_votes_height (p : Nat → Bool) (app : Nat → Nat) (s : Toy) (i : Input) (v : Vote)
    (h : v ∈ votesOf (effectsOf true (Toy.step p app s i).2)) : v.h = s.height := by
  revert h
  cases i <;> simp only [Toy.step, Input.height?, Toy.onMsg] <;> (repeat' split) <;>
    simp_all [votesOf, effectsOf, Effect.vote?] <;> (try (intro h; subst h; rfl))

theorem toy_timers_height (p : Nat → Bool) (app : Nat → Nat) (s : Toy) (i : Input) (t : Timer)
    (h : t ∈ timersOf (effectsOf true (Toy.step p app s i).2)) : t.h = s.height := by
  revert h
  cases i <;> simp only [Toy.step, Input.height?, Toy.onMsg] <;> (repeat' split) <;>
    simp_all [timersOf, effectsOf, Effect.timer?] <;> (try (intro h; subst h; rfl))

theorem toy_unstarted_silent (p : Nat → Bool) (app : Nat → Nat) (s : Toy) (i : Input)
    (hst : s.started = false) (hi : i ≠ Input.start) :
    visA (Toy.step p app s i).2 = [] ∧ (Toy.step p app s i).1.started = false ∧
      (Toy.step p app s i).1.height = s.height := by
  cases i <;> simp only [Toy.step, Input.height?, Toy.onMsg] <;> (repeat' split) <;>
    simp_all [visA, visibleOf, effectsOf]

theorem toy_future_silent (p : Nat → Bool) (app : Nat → Nat) (s : Toy) (a : Entry)
    (h : s.height < a.height) (hns : a.toInput ≠ Input.start) :
    visA (Toy.step p app s a.toInput).2 = [] ∧
      (Toy.step p app s a.toInput).1.started = s.started := by
  cases a <;> simp only [Entry.toInput, Entry.height] at * <;>
    simp only [Toy.step, Input.height?, Toy.onMsg] <;> (repeat' split) <;>
    simp_all [visA, visibleOf, effectsOf] <;> omega

theorem toy_timeout_current (p : Nat → Bool) (app : Nat → Nat) (s : Toy) (i : Input) (e : Entry)
    (rest : List Action) (h : (Toy.step p app s i).2 = Action.writeWAL e :: rest)
    (ht : e.isTimeout = true) : e.height = s.height := by
  revert h
  cases i <;> simp only [Toy.step, Input.height?, Toy.onMsg] <;> (repeat' split) <;>
    intro h <;> simp at h <;>
    (try (obtain ⟨rfl, _⟩ := h)) <;> simp_all [Entry.isTimeout, Input.toEntry, Entry.height] <;> omega
end Juno.C13
namespace Juno.C13

theorem toy_step_cases (p : Nat → Bool) (app : Nat → Nat) (s : Toy) (i : Input) :
    ((Toy.step p app s i).1.height = s.height ∧ committed (Toy.step p app s i).2 = false) ∨
    ((Toy.step p app s i).1 = Toy.init (s.height + 1) ∧ committed (Toy.step p app s i).2 = true) := by
  cases i <;> simp only [Toy.step, Input.height?, Toy.onMsg] <;> (repeat' split) <;>
    simp_all [Toy.init, committed]

theorem toy_commit_last (p : Nat → Bool) (app : Nat → Nat) (s : Toy) (i : Input)
    (pre : List Action) (h v : Nat) (post : List Action)
    (heq : (Toy.step p app s i).2 = pre ++ Action.commit h v :: post) :
    post = [] ∧ committed pre = false ∧ h = s.height ∧
      (Toy.step p app s i).1.height = h + 1 ∧ (Toy.step p app s i).1.started = false := by
  have hm : Action.commit h v ∈ (Toy.step p app s i).2 := by rw [heq]; simp
  revert heq hm
  cases i <;> simp only [Toy.step, Input.height?, Toy.onMsg] <;> (repeat' split) <;>
    intro heq hm <;> simp at hm <;>
    (rcases pre with _ | ⟨a, _ | ⟨a', pre⟩⟩ <;> simp_all [Toy.init]) <;>
    (try (obtain ⟨rfl, _⟩ := heq; simp [committed]))

theorem toy_future_inert (p : Nat → Bool) (app : Nat → Nat) (t : Toy) (a : Entry)
    (hns : a.toInput ≠ Input.start)
    (h : t.height < a.height ∨ (t.height = a.height ∧ t.started = false)) :
    (replayStep (toyMachine p app) t a).1 = t ∧ visA (replayStep (toyMachine p app) t a).2 = [] := by
  have hnsk : skipOnReplay ((toyMachine p app).height t) a = false := by
    simp only [skipOnReplay, decide_eq_false_iff_not]
    show ¬ a.height < t.height
    rcases h with h | h <;> omega
  simp only [replayStep, hnsk]
  cases a <;> simp only [Entry.toInput, Entry.height] at * <;>
    simp only [toyMachine, Toy.step, Input.height?, Toy.onMsg] <;> (repeat' split) <;>
    simp_all [visA, visibleOf, effectsOf] <;> omega

end Juno.C13
namespace Juno.C13

theorem toy_replayStep_mono (p : Nat → Bool) (app : Nat → Nat) (t : Toy) (e : Entry) :
    t.height ≤ (replayStep (toyMachine p app) t e).1.height := by
  unfold replayStep
  split
  · exact Nat.le_refl _
  · exact toy_height_mono p app t _

theorem toy_run_mono (p : Nat → Bool) (app : Nat → Nat) (L : List Entry) (t : Toy) :
    t.height ≤ (replayRun (toyMachine p app) t L).1.height := by
  induction L generalizing t with
  | nil => exact Nat.le_refl _
  | cons e L ih => exact Nat.le_trans (toy_replayStep_mono p app t e) (ih _)

theorem toy_replaySafe (p : Nat → Bool) (app : Nat → Nat) : ReplaySafe (toyMachine p app) where
  height_init := fun _ => rfl
  started_init := fun _ => rfl
  logged_or_inert := fun s i h => toy_logged_or_inert p app s i h
  timeout_entry_current := fun s i e rest h ht => toy_timeout_current p app s i e rest h ht
  height_mono := fun s i => toy_height_mono p app s i
  commit_last := fun s i pre h v post heq => toy_commit_last p app s i pre h v post heq
  no_commit_height := fun s i h => toy_no_commit_height p app s i h
  votes_current_height := fun s i v h => toy_votes_height p app s i v h
  timers_current_height := fun s i t h => toy_timers_height p app s i t h
  unstarted_silent := fun s i h1 h2 _ => toy_unstarted_silent p app s i h1 h2
  future_silent := fun s a h1 h2 => toy_future_silent p app s a h1 h2
  commute := by
    intro s a b hsb hba hns
    have hsb' : s.height ≤ b.height := hsb
    have ha := toy_future_inert p app s a hns (Or.inl (by show s.height < a.height; omega))
    have hnsk : replayStep (toyMachine p app) s b = Toy.step p app s b.toInput :=
      replayStep_of_not_stale (toyMachine p app) s b hsb
    have hcond : (replayStep (toyMachine p app) s b).1.height < a.height ∨
        ((replayStep (toyMachine p app) s b).1.height = a.height ∧
          (replayStep (toyMachine p app) s b).1.started = false) := by
      rw [hnsk]
      rcases toy_step_cases p app s b.toInput with ⟨h1, _⟩ | ⟨h1, _⟩
      · left; rw [h1]; show s.height < a.height; omega
      · rw [h1]
        by_cases h : s.height + 1 < a.height
        · left; exact h
        · right; refine ⟨?_, rfl⟩
          show s.height + 1 = a.height
          omega
    have hb := toy_future_inert p app (replayStep (toyMachine p app) s b).1 a hns hcond
    refine ⟨?_, hb.2, ?_⟩
    · rw [ha.1, hb.1]
    · rw [ha.1]
  commit_reset := by
    intro h A e hall hc
    have hm := toy_run_mono p app A (Toy.init h)
    have heh : e.height = h := hall e (by simp)
    unfold replayStep at hc ⊢
    split
    · next hsk => rw [if_pos hsk] at hc; simp [committed] at hc
    · next hsk =>
      rw [if_neg hsk] at hc
      have hle : (replayRun (toyMachine p app) (Toy.init h) A).1.height ≤ e.height := by
        simp only [skipOnReplay, decide_eq_true_eq] at hsk
        exact Nat.not_lt.1 hsk
      have hth : (replayRun (toyMachine p app) (Toy.init h) A).1.height = h := by
        have : (Toy.init h).height = h := rfl
        omega
      rcases toy_step_cases p app (replayRun (toyMachine p app) (Toy.init h) A).1 e.toInput with
        ⟨_, h2⟩ | ⟨h1, _⟩
      · have : committed (Toy.step p app (replayRun (toyMachine p app) (Toy.init h) A).1 e.toInput).2 = true := hc
        rw [h2] at this; cases this
      · exact h1.trans (congrArg (fun k => Toy.init (k + 1)) hth)

end Juno.C13

namespace Juno.C13

/-- The machine that ignores everything: shows that `ReplaySafe` and `NoEquivocation` are jointly
satisfiable (a voting instance of `NoEquivocation` is C12's `no_double_vote`). -/
def idleMachine : Machine Nat where
  init := fun h => h
  height := fun s => s
  started := fun _ => false
  step := fun s _ => (s, [])

theorem idle_replayStep (s : Nat) (e : Entry) : replayStep idleMachine s e = (s, []) := by
  unfold replayStep; split <;> rfl

theorem idle_replayRun (L : List Entry) (s : Nat) : replayRun idleMachine s L = (s, []) := by
  induction L generalizing s with
  | nil => rfl
  | cons e L ih => simp [replayRun, idle_replayStep, ih, effectsOf]

theorem idle_replaySafe : ReplaySafe idleMachine where
  height_init := fun _ => rfl
  started_init := fun _ => rfl
  logged_or_inert := fun _ _ _ => Or.inl ⟨rfl, rfl⟩
  timeout_entry_current := by intro s i e rest h; simp [idleMachine] at h
  height_mono := fun _ _ => Nat.le_refl _
  commit_last := by
    intro s i pre h v post heq
    have : ([] : List Action) = pre ++ Action.commit h v :: post := heq
    cases pre <;> simp at this
  no_commit_height := fun _ _ _ => rfl
  votes_current_height := by intro s i v hv; simp [idleMachine, effectsOf, votesOf] at hv
  timers_current_height := by intro s i t ht; simp [idleMachine, effectsOf, timersOf] at ht
  unstarted_silent := fun _ _ _ _ _ => ⟨rfl, rfl, rfl⟩
  future_silent := fun _ _ _ _ => ⟨rfl, rfl⟩
  commute := by
    intro s a b _ _ _
    simp [idle_replayStep, visA, visibleOf, effectsOf]
  commit_reset := by
    intro h A e _ hc
    rw [idle_replayStep] at hc
    simp [committed] at hc

theorem idle_noEquivocation : NoEquivocation idleMachine := by
  intro h L _ v w hv
  rw [idle_replayRun] at hv
  simp [votesOf] at hv

end Juno.C13

namespace Juno.C13

/-- A machine whose `start` step already commits its height (as the real machine does when a
proposal and enough votes for the height arrived early). `aliased = true` logs the `Start` entry
with the height AFTER that commit (what `(*wal.Start)(&s.state.height)` yields in the real code),
`aliased = false` logs it with the height that was started. -/
def eagerMachine (aliased : Bool) : Machine (Nat × Bool) where
  init := fun h => (h, false)
  height := fun s => s.1
  started := fun s => s.2
  step := fun s i =>
    match i with
    | .start =>
      if s.2 then (s, [])
      else ((s.1 + 1, false),
        [.writeWAL (.start (if aliased then s.1 + 1 else s.1)), .commit s.1 7])
    | _ => (s, [])

end Juno.C13
