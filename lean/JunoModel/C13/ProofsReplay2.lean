import JunoModel.C13.ProofsReplay
/-!
C13 — helper lemmas, part 3: the invariant of a live run ("the state is what a fresh machine at
the current height reaches on the sorted log above the last committed height"), and what follows
for a restart.
-/
namespace Juno.C13
variable {S : Type}

/-- The entries above height `b`. -/
def above (b : Nat) (E : List Entry) : List Entry := E.filter (fun e => decide (b < e.height))

abbrev ins : List Entry → Entry → List Entry := fun a e => insertByHeight e a

/-! ## Facts about `sortByHeight` -/

theorem sort_snoc (X : List Entry) (e : Entry) :
    sortByHeight (X ++ [e]) = insertByHeight e (sortByHeight X) := by
  simp [sortByHeight, List.foldl_append]

theorem sorted_foldl (L acc : List Entry) (h : SortedH acc) : SortedH (L.foldl ins acc) := by
  induction L generalizing acc with
  | nil => exact h
  | cons e L ih => exact ih _ (sorted_insert e acc h)

theorem sorted_sort (X : List Entry) : SortedH (sortByHeight X) := sorted_foldl X [] trivial

theorem mem_foldl_ins (x : Entry) (L acc : List Entry) : x ∈ L.foldl ins acc ↔ x ∈ acc ∨ x ∈ L := by
  induction L generalizing acc with
  | nil => simp
  | cons e L ih =>
    simp only [List.foldl_cons, ih, ins, mem_insertByHeight, List.mem_cons]
    constructor
    · rintro ((h | h) | h)
      · exact Or.inr (Or.inl h)
      · exact Or.inl h
      · exact Or.inr (Or.inr h)
    · rintro (h | h | h)
      · exact Or.inl (Or.inr h)
      · exact Or.inl (Or.inl h)
      · exact Or.inr h

theorem mem_sort (x : Entry) (X : List Entry) : x ∈ sortByHeight X ↔ x ∈ X := by
  simp [sortByHeight, mem_foldl_ins x X []]

theorem insert_all_gt (e : Entry) (Y : List Entry) (h : ∀ y ∈ Y, e.height < y.height) :
    insertByHeight e Y = e :: Y := by
  cases Y with
  | nil => rfl
  | cons y ys =>
    have := h y (by simp)
    simp only [insertByHeight]
    rw [if_neg (by omega)]

theorem insert_past (e : Entry) (A Y : List Entry) (h : ∀ a ∈ A, a.height ≤ e.height) :
    insertByHeight e (A ++ Y) = A ++ insertByHeight e Y := by
  induction A with
  | nil => rfl
  | cons a A ih =>
    simp only [List.cons_append, insertByHeight]
    rw [if_pos (h a (by simp)), ih (fun x hx => h x (by simp [hx]))]

/-- Splitting off the block of minimal height `m`. -/
theorem foldl_split_min (m : Nat) (L A Y : List Entry) (hL : ∀ x ∈ L, m ≤ x.height)
    (hA : ∀ a ∈ A, a.height = m) (hY : ∀ y ∈ Y, m < y.height) :
    L.foldl ins (A ++ Y) =
      (A ++ L.filter (fun e => decide (e.height = m))) ++
        (L.filter (fun e => decide (m < e.height))).foldl ins Y := by
  induction L generalizing A Y with
  | nil => simp
  | cons e L ih =>
    have hLe := hL e (by simp)
    have hL' : ∀ x ∈ L, m ≤ x.height := fun x hx => hL x (by simp [hx])
    simp only [List.foldl_cons, ins]
    by_cases hem : e.height = m
    · have h1 : insertByHeight e (A ++ Y) = (A ++ [e]) ++ Y := by
        rw [insert_past e A Y (fun a ha => by rw [hA a ha]; omega),
          insert_all_gt e Y (fun y hy => by have := hY y hy; omega)]
        simp
      rw [h1, ih (A ++ [e]) Y hL' (by
        intro a ha
        simp only [List.mem_append, List.mem_singleton] at ha
        rcases ha with ha | rfl
        · exact hA a ha
        · exact hem) hY]
      simp [hem]
    · have hgt : m < e.height := by omega
      have h1 : insertByHeight e (A ++ Y) = A ++ insertByHeight e Y :=
        insert_past e A Y (fun a ha => by rw [hA a ha]; omega)
      rw [h1, ih A (insertByHeight e Y) hL' hA (by
        intro y hy
        rcases (mem_insertByHeight e y Y).1 hy with rfl | hy
        · exact hgt
        · exact hY y hy)]
      simp [hem, hgt, ins]

theorem sort_split_min (m : Nat) (L : List Entry) (hL : ∀ x ∈ L, m ≤ x.height) :
    sortByHeight L = L.filter (fun e => decide (e.height = m)) ++
      sortByHeight (L.filter (fun e => decide (m < e.height))) := by
  have := foldl_split_min m L [] [] hL (by simp) (by simp)
  simpa [sortByHeight] using this

theorem filter_insert_sorted (p : Entry → Bool) (e : Entry) (X : List Entry) (h : SortedH X) :
    (insertByHeight e X).filter p =
      if p e then insertByHeight e (X.filter p) else X.filter p := by
  induction X with
  | nil => by_cases hp : p e <;> simp [insertByHeight, hp]
  | cons x xs ih =>
    obtain ⟨h1, h2⟩ := h
    simp only [insertByHeight]
    by_cases hle : x.height ≤ e.height
    · rw [if_pos hle]
      by_cases hpx : p x <;> by_cases hpe : p e <;>
        simp [hpx, hpe, ih h2, insertByHeight, hle]
    · rw [if_neg hle]
      have hall : ∀ y ∈ (x :: xs).filter p, e.height < y.height := by
        intro y hy
        have hy' := (List.mem_filter.1 hy).1
        simp only [List.mem_cons] at hy'
        rcases hy' with rfl | hy'
        · omega
        · have := h1 y hy'; omega
      by_cases hpe : p e
      · rw [if_pos hpe, insert_all_gt e _ hall]
        simp [List.filter_cons, hpe]
      · rw [if_neg hpe]
        simp [List.filter_cons, hpe]

theorem foldl_filter (p : Entry → Bool) (L acc : List Entry) (h : SortedH acc) :
    (L.foldl ins acc).filter p = (L.filter p).foldl ins (acc.filter p) := by
  induction L generalizing acc with
  | nil => rfl
  | cons e L ih =>
    simp only [List.foldl_cons, ins]
    rw [ih _ (sorted_insert e acc h), filter_insert_sorted p e acc h]
    by_cases hp : p e <;> simp [hp, ins]

theorem sort_filter (p : Entry → Bool) (X : List Entry) :
    (sortByHeight X).filter p = sortByHeight (X.filter p) := by
  simpa [sortByHeight] using foldl_filter p X [] trivial

/-! ## Stale entries are skipped -/

theorem skipStale (M : Machine S) (hs : ReplaySafe M) (b : Nat) (L : List Entry) (t : S)
    (ht : b + 1 ≤ M.height t) : replayRun M t L = replayRun M t (above b L) := by
  induction L generalizing t with
  | nil => rfl
  | cons e L ih =>
    by_cases hb : b < e.height
    · have : above b (e :: L) = e :: above b L := by simp [above, hb]
      rw [this]
      simp only [replayRun]
      rw [ih _ (Nat.le_trans ht (replayStep_height_mono M hs t e))]
    · have : above b (e :: L) = above b L := by simp [above, hb]
      rw [this]
      have hlt : e.height < M.height t := by omega
      have hsk : replayStep M t e = (t, []) := by simp [replayStep, skipOnReplay, hlt]
      simp only [replayRun, hsk, effectsOf, List.nil_append]
      exact ih t ht

/-! ## `committed` is determined by what is visible -/

def Effect.isDeliver : Effect → Bool
  | .deliver .. => true
  | _ => false

theorem committed_eq_any (acts : List Action) : committed acts = (visA acts).any Effect.isDeliver := by
  induction acts with
  | nil => rfl
  | cons a rest ih =>
    cases a <;>
      simp_all [visA, visibleOf, effectsOf, committed, Effect.observable, Effect.isDeliver, List.filter]

/-! ## Before `start` everything is silent -/

theorem unstarted_run_silent (M : Machine S) (hs : ReplaySafe M) (L : List Entry) (t : S)
    (hst : M.started t = false)
    (hns : ∀ x ∈ L, x.toInput ≠ Input.start ∧ x.isTimeout = false) :
    visibleOf (replayRun M t L).2 = [] := by
  induction L generalizing t with
  | nil => rfl
  | cons e L ih =>
    have he := hns e (by simp)
    simp only [replayRun, visibleOf_append]
    unfold replayStep
    split
    · simp only [effectsOf, visibleOf, List.filter_nil, List.nil_append]
      exact ih t hst (fun x hx => hns x (by simp [hx]))
    · have hnt : e.toInput.isTimeout = false := by
        have := he.2
        cases e <;> simp_all [Entry.isTimeout, Entry.toInput, Input.isTimeout]
      obtain ⟨v1, v2, _⟩ := hs.unstarted_silent t e.toInput hst he.1 hnt
      have v1' : visibleOf (effectsOf true (M.step t e.toInput).2) = [] := v1
      rw [v1', List.nil_append]
      exact ih _ v2 (fun x hx => hns x (by simp [hx]))

/-! ## Replay discipline -/

theorem replayOK_append (M : Machine S) (X Y : List Entry) (t : S) :
    ReplayOK M t (X ++ Y) ↔ ReplayOK M t X ∧ ReplayOK M (replayRun M t X).1 Y := by
  induction X generalizing t with
  | nil => simp [ReplayOK, replayRun]
  | cons x X ih => simp [ReplayOK, replayRun, ih, and_assoc]

theorem replayOK_no_timeouts (M : Machine S) (L : List Entry) (t : S)
    (h : ∀ x ∈ L, x.isTimeout = false) : ReplayOK M t L := by
  induction L generalizing t with
  | nil => trivial
  | cons e L ih =>
    refine ⟨fun ht => ?_, ih _ (fun x hx => h x (by simp [hx]))⟩
    rw [h e (by simp)] at ht; cases ht

/-- The position at which `insertByHeight` puts `e` in a sorted list. -/
theorem insert_split (e : Entry) (X : List Entry) (h : SortedH X) :
    ∃ A B, X = A ++ B ∧ insertByHeight e X = A ++ e :: B ∧
      (∀ a ∈ A, a.height ≤ e.height) ∧ (∀ b ∈ B, e.height < b.height) := by
  induction X with
  | nil => exact ⟨[], [], rfl, rfl, by simp, by simp⟩
  | cons x xs ih =>
    obtain ⟨h1, h2⟩ := h
    by_cases hle : x.height ≤ e.height
    · obtain ⟨A, B, hx, hi, hA, hB⟩ := ih h2
      refine ⟨x :: A, B, by rw [hx]; rfl, by simp [insertByHeight, hle, hi], ?_, hB⟩
      intro a ha
      simp only [List.mem_cons] at ha
      rcases ha with rfl | ha
      · exact hle
      · exact hA a ha
    · refine ⟨[], x :: xs, rfl, by simp [insertByHeight, hle], by simp, ?_⟩
      intro b hb
      simp only [List.mem_cons] at hb
      rcases hb with rfl | hb
      · omega
      · have := h1 b hb; omega

/-- A block of future-height, non-`Start` entries changes neither the height nor `started`. -/
theorem futures_keep (M : Machine S) (hs : ReplaySafe M) (B : List Entry) (t : S)
    (hB : ∀ b ∈ B, M.height t < b.height ∧ b.toInput ≠ Input.start) :
    M.started (replayRun M t B).1 = M.started t ∧ M.height (replayRun M t B).1 = M.height t := by
  induction B generalizing t with
  | nil => exact ⟨rfl, rfl⟩
  | cons b B ih =>
    obtain ⟨hlt, hns⟩ := hB b (by simp)
    have hnst : replayStep M t b = M.step t b.toInput :=
      replayStep_of_not_stale M t b (by omega)
    obtain ⟨f1, f2⟩ := hs.future_silent t b hlt hns
    have hh : M.height (replayStep M t b).1 = M.height t :=
      replayStep_silent_height M hs t b (by rw [hnst]; exact f1)
    have := ih (replayStep M t b).1 (fun y hy => by rw [hh]; exact hB y (by simp [hy]))
    simp only [replayRun]
    rw [this.1, this.2, hh, hnst, f2]
    exact ⟨rfl, rfl⟩

/-! ## The invariant of a live run -/

/-- `s` is at height `b + 1`; it is the state a fresh machine for `b + 1` reaches on the sorted
log above `b`; log entries above the current height are not `Start` entries; every vote of the
trace so far is for a height `≤ b + 1`, and the ones for `b + 1` are re-emitted by that replay. -/
structure LiveInv (M : Machine S) (s : S) (E : List Entry) (b : Nat) (tr : List Effect) : Prop where
  height : M.height s = b + 1
  state : s = (replayRun M (M.init (b + 1)) (sortByHeight (above b E))).1
  futns : ∀ x ∈ E, b + 1 < x.height → x.toInput ≠ Input.start ∧ x.isTimeout = false
  votes : ∀ v ∈ votesOf tr, v.h ≤ b + 1 ∧
    (v.h = b + 1 → v ∈ votesOf (replayRun M (M.init (b + 1)) (sortByHeight (above b E))).2)
  rok : ReplayOK M (M.init (b + 1)) (sortByHeight (above b E))
  /-- the replay broadcasts no vote the live run has not broadcast -/
  votesR : ∀ v ∈ votesOf (replayRun M (M.init (b + 1)) (sortByHeight (above b E))).2, v ∈ votesOf tr
  /-- timers: every timer of the trace is for a height `≤ b + 1`; those for `b + 1` are armed again
  by the replay, and the replay arms no other -/
  timers : ∀ t ∈ timersOf tr, t.h ≤ b + 1 ∧
    (t.h = b + 1 → t ∈ timersOf (replayRun M (M.init (b + 1)) (sortByHeight (above b E))).2)
  timersR : ∀ t ∈ timersOf (replayRun M (M.init (b + 1)) (sortByHeight (above b E))).2, t ∈ timersOf tr

/-- The part of the invariant that also holds for the base BEFORE a commit, right after the
committing step (the machine is already one height further, the chain is not). -/
structure LiveInvW (M : Machine S) (s : S) (E : List Entry) (b : Nat) (tr : List Effect) : Prop where
  state : s = (replayRun M (M.init (b + 1)) (sortByHeight (above b E))).1
  votes : ∀ v ∈ votesOf tr, v.h ≤ b + 1 ∧
    (v.h = b + 1 → v ∈ votesOf (replayRun M (M.init (b + 1)) (sortByHeight (above b E))).2)
  rok : ReplayOK M (M.init (b + 1)) (sortByHeight (above b E))
  votesR : ∀ v ∈ votesOf (replayRun M (M.init (b + 1)) (sortByHeight (above b E))).2, v ∈ votesOf tr
  timers : ∀ t ∈ timersOf tr, t.h ≤ b + 1 ∧
    (t.h = b + 1 → t ∈ timersOf (replayRun M (M.init (b + 1)) (sortByHeight (above b E))).2)
  timersR : ∀ t ∈ timersOf (replayRun M (M.init (b + 1)) (sortByHeight (above b E))).2, t ∈ timersOf tr

theorem LiveInv.toW {M : Machine S} {s : S} {E : List Entry} {b : Nat} {tr : List Effect}
    (h : LiveInv M s E b tr) : LiveInvW M s E b tr :=
  ⟨h.state, h.votes, h.rok, h.votesR, h.timers, h.timersR⟩

theorem votesOf_append (a b : List Effect) : votesOf (a ++ b) = votesOf a ++ votesOf b := by
  simp [votesOf]

theorem votesOf_visibleOf_eq {a b : List Effect} (h : visibleOf a = visibleOf b) :
    votesOf a = votesOf b := by
  rw [← votesOf_visibleOf a, h, votesOf_visibleOf]

theorem timersOf_append (a b : List Effect) : timersOf (a ++ b) = timersOf a ++ timersOf b := by
  simp [timersOf]

theorem timersOf_visibleOf_eq {a b : List Effect} (h : visibleOf a = visibleOf b) :
    timersOf a = timersOf b := by
  rw [← timersOf_visibleOf a, h, timersOf_visibleOf]

theorem above_snoc_ge (b : Nat) (E : List Entry) (e : Entry) (h : b < e.height) :
    above b (E ++ [e]) = above b E ++ [e] := by
  simp [above, List.filter_append, h]

theorem above_above (b c : Nat) (E : List Entry) (h : b ≤ c) : above c (above b E) = above c E := by
  simp only [above, List.filter_filter]
  congr 1
  funext e
  by_cases h1 : c < e.height <;> simp [h1] <;> omega

/-- One logged (not ignored) live input preserves the invariant; `b'` is the new base. -/
theorem liveInv_step (M : Machine S) (hs : ReplaySafe M) (s : S) (E : List Entry) (b : Nat)
    (tr : List Effect) (inv : LiveInv M s E b tr) (i : Input) (e : Entry) (ar : List Action)
    (hst : M.started s = true ∨ i = Input.start)
    (h2 : (M.step s i).2 = Action.writeWAL e :: ar) (hi : e.toInput = i)
    (hh : M.height s ≤ e.height) (hstart : i = Input.start → e.height = M.height s) :
    -- the replay from the OLD base reproduces the new state and votes (also when the input commits)
    LiveInvW M (M.step s i).1 (E ++ [e]) b (tr ++ effectsOf false (M.step s i).2) ∧
    LiveInv M (M.step s i).1 (E ++ [e]) (M.height (M.step s i).1 - 1)
      (tr ++ effectsOf false (M.step s i).2) := by
  have hb : b < e.height := by have := inv.height; omega
  have hrs : replayStep M s e = M.step s i := by rw [replayStep_of_not_stale M s e hh, hi]
  have hens : M.height s < e.height → e.toInput ≠ Input.start := by
    intro hlt hst'; rw [hi] at hst'; have := hstart hst'; omega
  -- insertion at the sorted position = processing `e` last
  have hsortE : sortByHeight (above b (E ++ [e])) = insertByHeight e (sortByHeight (above b E)) := by
    rw [above_snoc_ge b E e hb, sort_snoc]
  have hmemE : ∀ x ∈ sortByHeight (above b E), x ∈ E := by
    intro x hx
    exact (List.mem_filter.1 ((mem_sort x _).1 hx)).1
  have hins := insert_equiv M hs e (sortByHeight (above b E)) (M.init (b + 1)) (sorted_sort _)
    (by rw [← inv.state]; exact hh)
    (fun x hx hlt => (inv.futns x (hmemE x hx) (by have := inv.height; omega)).1)
  have hrun : replayRun M (M.init (b + 1)) (sortByHeight (above b E) ++ [e]) =
      ((M.step s i).1, (replayRun M (M.init (b + 1)) (sortByHeight (above b E))).2 ++
        effectsOf true (M.step s i).2) := by
    rw [replayRun_append, ← inv.state]
    simp [replayRun, hrs]
  have hstate0 : (M.step s i).1 =
      (replayRun M (M.init (b + 1)) (sortByHeight (above b (E ++ [e])))).1 := by
    rw [hsortE, hins.1, hrun]
  have hvis0 : visibleOf (replayRun M (M.init (b + 1)) (sortByHeight (above b (E ++ [e])))).2 =
      visibleOf (replayRun M (M.init (b + 1)) (sortByHeight (above b E))).2 ++
        visibleOf (effectsOf true (M.step s i).2) := by
    rw [hsortE, hins.2, hrun, visibleOf_append]
  -- votes of this step are for the current height
  have hnewvotes : ∀ v ∈ votesOf (effectsOf false (M.step s i).2), v.h = b + 1 := by
    intro v hv
    rw [votes_effectsOf_mode] at hv
    rw [hs.votes_current_height s i v hv, inv.height]
  have hnewtimers : ∀ t ∈ timersOf (effectsOf false (M.step s i).2), t.h = b + 1 := by
    intro t ht
    rw [timers_effectsOf_mode] at ht
    rw [hs.timers_current_height s i t ht, inv.height]
  have hetm : e.isTimeout = true → e.height = M.height s :=
    fun ht => hs.timeout_entry_current s i e ar h2 ht
  have hefut : M.height s < e.height → e.toInput ≠ Input.start ∧ e.isTimeout = false := by
    intro hlt
    refine ⟨hens hlt, ?_⟩
    cases htm : e.isTimeout
    · rfl
    · have := hetm htm; omega
  have hrok0 : ReplayOK M (M.init (b + 1)) (sortByHeight (above b (E ++ [e]))) := by
    rw [hsortE]
    obtain ⟨A, B, hX, hI, hA, hB⟩ := insert_split e (sortByHeight (above b E)) (sorted_sort _)
    rw [hI]
    have hrokX := inv.rok
    rw [hX] at hrokX
    obtain ⟨rA, _⟩ := (replayOK_append M A B _).1 hrokX
    have hBfut : ∀ x ∈ B, x.toInput ≠ Input.start ∧ x.isTimeout = false := by
      intro x hx
      have hxE := hmemE x (by rw [hX]; simp [hx])
      exact inv.futns x hxE (by have := hB x hx; have := inv.height; omega)
    refine (replayOK_append M A (e :: B) _).2 ⟨rA, ?_, replayOK_no_timeouts M B _ (fun x hx => (hBfut x hx).2)⟩
    intro htm _
    -- a timeout is for the current height and was delivered to a started machine; the block `B`
    -- of future-height messages processed in between does not change `started`
    have hsA : s = (replayRun M (replayRun M (M.init (b + 1)) A).1 B).1 := by
      have := inv.state
      rw [hX, replayRun_append] at this
      exact this
    have htAle : M.height (replayRun M (M.init (b + 1)) A).1 ≤ b + 1 := by
      have := replayRun_height_mono M hs B (replayRun M (M.init (b + 1)) A).1
      rw [← hsA, inv.height] at this
      exact this
    have hk := futures_keep M hs B (replayRun M (M.init (b + 1)) A).1 (fun x hx =>
      ⟨by have := hB x hx; have := inv.height; omega, (hBfut x hx).1⟩)
    rw [← hsA] at hk
    rw [← hk.1]
    rcases hst with h | h
    · exact h
    · rw [← hi] at h
      cases e <;> simp [Entry.isTimeout] at htm <;> simp [Entry.toInput] at h
  have hW : LiveInvW M (M.step s i).1 (E ++ [e]) b (tr ++ effectsOf false (M.step s i).2) := by
    have hvotes0 := votesOf_visibleOf_eq (hvis0.trans (visibleOf_append _ _).symm)
    rw [votesOf_append] at hvotes0
    have htimers0 := timersOf_visibleOf_eq (hvis0.trans (visibleOf_append _ _).symm)
    rw [timersOf_append] at htimers0
    refine ⟨hstate0, ?_, hrok0, ?_, ?_, ?_⟩
    rotate_left
    · intro v hv
      rw [hvotes0, List.mem_append] at hv
      rw [votesOf_append, List.mem_append]
      rcases hv with hv | hv
      · exact Or.inl (inv.votesR v hv)
      · right; rw [votes_effectsOf_mode]; exact hv
    · intro t ht
      rw [timersOf_append, List.mem_append] at ht
      rcases ht with ht | ht
      · refine ⟨(inv.timers t ht).1, fun h => ?_⟩
        rw [htimers0, List.mem_append]
        exact Or.inl ((inv.timers t ht).2 h)
      · refine ⟨by rw [hnewtimers t ht]; omega, fun _ => ?_⟩
        rw [htimers0, List.mem_append]
        rw [timers_effectsOf_mode] at ht
        exact Or.inr ht
    · intro t ht
      rw [htimers0, List.mem_append] at ht
      rw [timersOf_append, List.mem_append]
      rcases ht with ht | ht
      · exact Or.inl (inv.timersR t ht)
      · right; rw [timers_effectsOf_mode]; exact ht
    intro v hv
    rw [votesOf_append, List.mem_append] at hv
    rcases hv with hv | hv
    · refine ⟨(inv.votes v hv).1, fun h => ?_⟩
      rw [hvotes0, List.mem_append]
      exact Or.inl ((inv.votes v hv).2 h)
    · refine ⟨by rw [hnewvotes v hv]; omega, fun _ => ?_⟩
      rw [hvotes0, List.mem_append]
      rw [votes_effectsOf_mode] at hv
      exact Or.inr hv
  refine ⟨hW, ?_⟩
  by_cases hc : committed (M.step s i).2 = true
  · -- the input commits height b + 1
    obtain ⟨pre, h, v, post, hsplit, hpre⟩ : ∃ pre h v post,
        (M.step s i).2 = pre ++ Action.commit h v :: post ∧ True := by
      clear hstate0 hvis0 hrun hins
      generalize (M.step s i).2 = acts at hc
      induction acts with
      | nil => simp [committed] at hc
      | cons a rest ih =>
        cases a with
        | commit h v => exact ⟨[], h, v, rest, rfl, trivial⟩
        | _ =>
          simp only [committed] at hc
          obtain ⟨pre, h, v, post, hsp, _⟩ := ih hc
          exact ⟨_ :: pre, h, v, post, by rw [hsp]; rfl, trivial⟩
    obtain ⟨_, _, hh', hnew, _⟩ := hs.commit_last s i pre h v post hsplit
    have hnewh : M.height (M.step s i).1 = b + 2 := by rw [hnew, hh', inv.height]
    -- `e` is of the current height (a future-height input is silent)
    have heq : e.height = b + 1 := by
      by_cases hlt : M.height s < e.height
      · have hsil := (hs.future_silent s e hlt (hens hlt)).1
        rw [hi] at hsil
        rw [visA_nil_not_committed _ hsil] at hc
        cases hc
      · have := inv.height; omega
    -- decomposition of the sorted log: block of height b+1, then the rest
    have hall : ∀ x ∈ above b (E ++ [e]), b + 1 ≤ x.height := by
      intro x hx
      have := (List.mem_filter.1 hx).2
      simp at this; omega
    have hsplitS := sort_split_min (b + 1) (above b (E ++ [e])) hall
    have hfut : (above b (E ++ [e])).filter (fun x => decide (b + 1 < x.height)) =
        above (b + 1) (E ++ [e]) := above_above b (b + 1) (E ++ [e]) (by omega)
    rw [hfut] at hsplitS
    have hblk : (above b (E ++ [e])).filter (fun x => decide (x.height = b + 1)) =
        (above b E).filter (fun x => decide (x.height = b + 1)) ++ [e] := by
      rw [above_snoc_ge b E e hb, List.filter_append]
      simp [heq]
    -- the old sorted log decomposes the same way
    have hall0 : ∀ x ∈ above b E, b + 1 ≤ x.height := by
      intro x hx
      have := (List.mem_filter.1 hx).2
      simp at this; omega
    have hsplit0 := sort_split_min (b + 1) (above b E) hall0
    have hfut0 : (above b E).filter (fun x => decide (b + 1 < x.height)) = above (b + 1) E :=
      above_above b (b + 1) E (by omega)
    rw [hfut0] at hsplit0
    have hfutE : above (b + 1) (E ++ [e]) = above (b + 1) E := by
      simp [above, List.filter_append, heq]
    -- abbreviations
    let A := (above b E).filter (fun x => decide (x.height = b + 1))
    let Fut := sortByHeight (above (b + 1) E)
    let tA := (replayRun M (M.init (b + 1)) A).1
    have hsA : s = (replayRun M tA Fut).1 := by
      have := inv.state
      rw [hsplit0, replayRun_append] at this
      exact this
    -- the commit happens at `e` also when `e` is processed right after the block
    have hFutB : ∀ x ∈ Fut, e.height < x.height ∧ x.toInput ≠ Input.start := by
      intro x hx
      have hx' := (mem_sort x _).1 hx
      have hxE := (List.mem_filter.1 hx').1
      have hxh := (List.mem_filter.1 hx').2
      simp at hxh
      exact ⟨by omega, (inv.futns x hxE hxh).1⟩
    have htA : M.height tA ≤ e.height := by
      have := replayRun_height_mono M hs Fut tA
      rw [← hsA, inv.height] at this
      omega
    obtain ⟨_, _, hsw3, _⟩ := swapPast M hs e Fut tA htA hFutB
    have hcA : committed (replayStep M tA e).2 = true := by
      rw [committed_eq_any, ← hsw3, ← hsA, hrs, ← committed_eq_any]
      exact hc
    have hreset := hs.commit_reset (b + 1) A e (by
      intro x hx
      simp only [List.mem_append, List.mem_singleton] at hx
      rcases hx with hx | rfl
      · have := (List.mem_filter.1 hx).2
        simpa using this
      · exact heq) hcA
    -- the new state from the new base
    have hstate1 : (M.step s i).1 =
        (replayRun M (M.init (b + 2)) (sortByHeight (above (b + 1) (E ++ [e])))).1 := by
      rw [hstate0, hsplitS, hblk, hfutE, replayRun_append, replayRun_append]
      simp only [replayRun]
      rw [hreset]
    have hbase : M.height (M.step s i).1 - 1 = b + 1 := by omega
    rw [hbase]
    have hFutSilent : votesOf (replayRun M (M.init (b + 2))
        (sortByHeight (above (b + 1) (E ++ [e])))).2 = [] := by
      rw [← votesOf_visibleOf, unstarted_run_silent M hs _ _ (hs.started_init _) (fun x hx => by
        have hx' := (mem_sort x _).1 hx
        have hxE := (List.mem_filter.1 hx').1
        have hxh := (List.mem_filter.1 hx').2
        simp at hxh
        simp only [List.mem_append, List.mem_singleton] at hxE
        rcases hxE with hxE | rfl
        · exact inv.futns x hxE hxh
        · omega)]
      rfl
    have hFutSilentT : timersOf (replayRun M (M.init (b + 2))
        (sortByHeight (above (b + 1) (E ++ [e])))).2 = [] := by
      rw [← timersOf_visibleOf, unstarted_run_silent M hs _ _ (hs.started_init _) (fun x hx => by
        have hx' := (mem_sort x _).1 hx
        have hxE := (List.mem_filter.1 hx').1
        have hxh := (List.mem_filter.1 hx').2
        simp at hxh
        simp only [List.mem_append, List.mem_singleton] at hxE
        rcases hxE with hxE | rfl
        · exact inv.futns x hxE hxh
        · omega)]
      rfl
    refine ⟨hnewh, hstate1, ?futns, ?votes, ?rok, (by rw [hFutSilent]; intro v hv; cases hv), ?timers,
      (by rw [hFutSilentT]; intro t ht; cases ht)⟩
    case timers =>
      intro t ht
      rw [timersOf_append, List.mem_append] at ht
      rcases ht with ht | ht
      · have := (inv.timers t ht).1
        exact ⟨by omega, fun h => by omega⟩
      · have := hnewtimers t ht
        exact ⟨by omega, fun h => by omega⟩
    case rok =>
      refine replayOK_no_timeouts M _ _ (fun x hx => ?_)
      have hx' := (mem_sort x _).1 hx
      have hxE := (List.mem_filter.1 hx').1
      have hxh := (List.mem_filter.1 hx').2
      simp at hxh
      simp only [List.mem_append, List.mem_singleton] at hxE
      rcases hxE with hxE | rfl
      · exact (inv.futns x hxE hxh).2
      · omega
    case futns =>
      intro x hx hlt
      simp only [List.mem_append, List.mem_singleton] at hx
      rcases hx with hx | rfl
      · exact inv.futns x hx (by omega)
      · omega
    case votes =>
      intro v hv
      rw [votesOf_append, List.mem_append] at hv
      rcases hv with hv | hv
      · have := (inv.votes v hv).1
        exact ⟨by omega, fun h => by omega⟩
      · have := hnewvotes v hv
        exact ⟨by omega, fun h => by omega⟩
  · -- no commit: same base
    have hc' : committed (M.step s i).2 = false := by
      cases hcc : committed (M.step s i).2 <;> simp_all
    have hnewh : M.height (M.step s i).1 = b + 1 := by
      rw [hs.no_commit_height s i hc', inv.height]
    have hbase : M.height (M.step s i).1 - 1 = b := by omega
    rw [hbase]
    refine ⟨hnewh, hstate0, ?_, hW.votes, hrok0, hW.votesR, hW.timers, hW.timersR⟩
    intro x hx hlt
    simp only [List.mem_append, List.mem_singleton] at hx
    rcases hx with hx | rfl
    · exact inv.futns x hx hlt
    · exact hefut (by have := inv.height; omega)

end Juno.C13
