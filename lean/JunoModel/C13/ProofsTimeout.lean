import JunoModel.C13.Tendermint
/-!
C13 — `ProcessTimeout` on a timeout that does not apply any more (finding F5), on C12's
transcription of juno's state machine:

* the machine AS IT IS (`tmMachineL`) takes a pending commit when an obsolete, unlogged timeout
  arrives (`tmL_ignored_timeout_takes_pending_commit`), hence satisfies the recovery hypotheses for
  no state equivalence (`tmL_not_replaySafe_upTo`);
* the machine WITH THE FIX (`tmMachineT`): every call returns nothing at all or starts with the
  `WriteWAL` of exactly its input and writes no second entry — for ALL states and inputs, no
  hypothesis (`tmT_logged_first`); it never equivocates (`tmT_noEquivocation`).
-/
namespace Juno.C13
open Juno

/-! ## generic: the machine without its `TriggerSync` actions -/

section quiet
variable {S : Type} (M : Machine S)

theorem quietOf_replayStep (s : S) (e : Entry) :
    (replayStep (quietOf M) s e).1 = (replayStep M s e).1 ∧
    votesOf (effectsOf true (replayStep (quietOf M) s e).2) =
      votesOf (effectsOf true (replayStep M s e).2) := by
  have hh : (quietOf M).height s = M.height s := rfl
  simp only [replayStep, hh]
  split
  · exact ⟨rfl, rfl⟩
  · exact ⟨rfl, votes_filter_sync _⟩

theorem quietOf_replayRun (L : List Entry) (s : S) :
    (replayRun (quietOf M) s L).1 = (replayRun M s L).1 ∧
    votesOf (replayRun (quietOf M) s L).2 = votesOf (replayRun M s L).2 := by
  induction L generalizing s with
  | nil => exact ⟨rfl, rfl⟩
  | cons e L ih =>
    obtain ⟨h1, h2⟩ := quietOf_replayStep M s e
    simp only [replayRun, votesOf_append, h2]
    rw [h1]
    exact ⟨(ih _).1, by rw [(ih _).2]⟩

theorem quietOf_replayOK (L : List Entry) (s : S) (h : ReplayOK (quietOf M) s L) :
    ReplayOK M s L := by
  induction L generalizing s with
  | nil => trivial
  | cons e L ih =>
    obtain ⟨h1, h2⟩ := h
    rw [(quietOf_replayStep M s e).1] at h2
    exact ⟨h1, ih _ h2⟩

theorem quietOf_noEquivocation (ne : NoEquivocation M) : NoEquivocation (quietOf M) := by
  intro h L hok v w hv hw
  have e1 : (quietOf M).init h = M.init h := rfl
  rw [e1] at hok hv hw
  rw [(quietOf_replayRun M L _).2] at hv hw
  exact ne h L (quietOf_replayOK M L _ hok) v w hv hw

end quiet

/-! ## the fixed machine never equivocates

A run of `tmMachineT` is the run of C12's machine over the same entries without the timeouts that
`tmMachineT` ignores (they change nothing there). -/

/-- The entries of `L` that `tmMachineT` does not ignore (skipped ones stay: both sides skip them). -/
def dropIgnored (env : C12.Env) (node : Nat) : C12.Machine → List Entry → List Entry
  | _, [] => []
  | m, e :: rest =>
    if skipOnReplay m.state.height e then e :: dropIgnored env node m rest
    else if timeoutIgnored env m e.toInput then dropIgnored env node m rest
    else e :: dropIgnored env node ((tmMachine env node).step m e.toInput).1 rest

theorem tmT_replayRun (env : C12.Env) (node : Nat) (L : List Entry) (m : C12.Machine) :
    replayRun (tmMachineT env node) m L = replayRun (tmMachine env node) m (dropIgnored env node m L) := by
  induction L generalizing m with
  | nil => rfl
  | cons e L ih =>
    have hT : (tmMachineT env node).height m = m.state.height := rfl
    have hM : (tmMachine env node).height m = m.state.height := rfl
    simp only [dropIgnored]
    by_cases hsk : skipOnReplay m.state.height e = true
    · simp only [hsk, if_true, replayRun, replayStep, hT, hM]
      rw [ih m]
    · simp only [Bool.not_eq_true] at hsk
      by_cases hig : timeoutIgnored env m e.toInput = true
      · simp only [hsk, hig, Bool.false_eq_true, if_false, if_true]
        simp only [replayRun, replayStep, hT, hsk, Bool.false_eq_true, if_false]
        have : (tmMachineT env node).step m e.toInput = (m, []) := by
          simp [tmMachineT, hig]
        rw [this]
        simp only [effectsOf, List.nil_append]
        exact ih m
      · simp only [Bool.not_eq_true] at hig
        simp only [hsk, hig, Bool.false_eq_true, if_false]
        simp only [replayRun, replayStep, hT, hM, hsk, Bool.false_eq_true, if_false]
        have : (tmMachineT env node).step m e.toInput = (tmMachine env node).step m e.toInput := by
          simp [tmMachineT, hig]
        rw [this, ih]

theorem tmT_replayOK (env : C12.Env) (node : Nat) (L : List Entry) (m : C12.Machine)
    (h : ReplayOK (tmMachineT env node) m L) :
    ReplayOK (tmMachine env node) m (dropIgnored env node m L) := by
  induction L generalizing m with
  | nil => trivial
  | cons e L ih =>
    obtain ⟨h1, h2⟩ := h
    have hT : (tmMachineT env node).height m = m.state.height := rfl
    have hM : (tmMachine env node).height m = m.state.height := rfl
    have hsT : (tmMachineT env node).started m = m.isHeightStarted := rfl
    have hsM : (tmMachine env node).started m = m.isHeightStarted := rfl
    simp only [dropIgnored]
    by_cases hsk : skipOnReplay m.state.height e = true
    · simp only [hsk, if_true]
      simp only [replayStep, hT, hsk, if_true] at h2
      refine ⟨?_, ?_⟩
      · intro _ hns; rw [hM, hsk] at hns; cases hns
      · simp only [replayStep, hM, hsk, if_true]; exact ih m h2
    · simp only [Bool.not_eq_true] at hsk
      by_cases hig : timeoutIgnored env m e.toInput = true
      · simp only [hsk, hig, Bool.false_eq_true, if_false, if_true]
        have : (tmMachineT env node).step m e.toInput = (m, []) := by
          simp [tmMachineT, hig]
        simp only [replayStep, hT, hsk, Bool.false_eq_true, if_false, this] at h2
        exact ih m h2
      · simp only [Bool.not_eq_true] at hig
        simp only [hsk, hig, Bool.false_eq_true, if_false]
        have : (tmMachineT env node).step m e.toInput = (tmMachine env node).step m e.toInput := by
          simp [tmMachineT, hig]
        simp only [replayStep, hT, hsk, Bool.false_eq_true, if_false, this] at h2
        refine ⟨?_, ?_⟩
        · intro ht hns; rw [hsM]; rw [hT, hsT] at h1; exact h1 ht hsk
        · simp only [replayStep, hM, hsk, Bool.false_eq_true, if_false]; exact ih _ h2

/-- juno's machine with the fix never equivocates in one uncrashed execution. -/
theorem tmT_noEquivocation (env : C12.Env) (node : Nat) : NoEquivocation (tmMachineT env node) := by
  intro h L hok v w hv hw
  have e1 : (tmMachineT env node).init h = (tmMachine env node).init h := rfl
  rw [e1] at hok hv hw
  rw [tmT_replayRun] at hv hw
  exact tm_noEquivocation env node h _ (tmT_replayOK env node L _ hok) v w hv hw

theorem tmQuietT_noEquivocation (env : C12.Env) (node : Nat) :
    NoEquivocation (quietOf (tmMachineT env node)) :=
  quietOf_noEquivocation _ (tmT_noEquivocation env node)

/-! ## the fixed machine logs first — for all states and inputs -/

def isWal : C12.Action → Bool
  | .writeWAL _ => true
  | _ => false

theorem startRound_not_wal (env : C12.Env) (m : C12.Machine) (r : Int) :
    isWal (m.startRound env r).2 = false := by
  unfold C12.Machine.startRound
  simp only
  split
  · split <;> simp [C12.Machine.sendProposal, isWal]
  · simp [C12.Machine.scheduleTimeout, isWal]

/-- No rule of `process` returns a `WriteWAL`. -/
theorem process_not_wal (env : C12.Env) (m : C12.Machine) (rr : Option Int) (a : C12.Action)
    (h : (m.process env rr).2.1 = some a) : isWal a = false := by
  unfold C12.Machine.process at h
  split at h <;> simp only at h
  · simp [C12.Machine.doFirstProposal, C12.Machine.setStepAndSendPrevote] at h; subst h; rfl
  · simp [C12.Machine.doProposalAndPolkaPrevious, C12.Machine.setStepAndSendPrevote] at h; subst h; rfl
  · simp [C12.Machine.doPolkaAny, C12.Machine.scheduleTimeout] at h; subst h; rfl
  · unfold C12.Machine.doProposalAndPolkaCurrent at h
    by_cases hst : (m.state.step == C12.Step.prevote) = true
    · simp [hst, C12.Machine.setStepAndSendPrecommit] at h; subst h; rfl
    · simp [hst] at h
  · simp [C12.Machine.doPolkaNil, C12.Machine.setStepAndSendPrecommit] at h; subst h; rfl
  · simp [C12.Machine.doPrecommitAny, C12.Machine.scheduleTimeout] at h; subst h; rfl
  · simp [C12.Machine.doCommitValue] at h; subst h; rfl
  · simp only [C12.Machine.doSkipRound, Option.some.injEq] at h
    subst h; exact startRound_not_wal env m _
  · cases h

/-- The rule loop only appends, and nothing it appends is a `WriteWAL`. -/
theorem loop_no_wal (env : C12.Env) (rr : Option Int) : ∀ (fuel : Nat) (m : C12.Machine)
    (acc : List C12.Action),
    ∃ out, (C12.Machine.processLoopAux env rr fuel m acc).2.1 = acc ++ out ∧
      ∀ a ∈ out, isWal a = false := by
  intro fuel
  induction fuel with
  | zero => intro m acc; exact ⟨[], by simp [C12.Machine.processLoopAux], by simp⟩
  | succ n ih =>
    intro m acc
    have hp := process_not_wal env m rr
    unfold C12.Machine.processLoopAux
    generalize m.process env rr = res at hp
    obtain ⟨m', a, cont⟩ := res
    simp only at hp ⊢
    cases a with
    | none =>
      cases cont with
      | false => exact ⟨[], by simp, by simp⟩
      | true => simp only [if_true]; exact ih m' acc
    | some x =>
      have hx : isWal x = false := hp x rfl
      cases cont with
      | false => exact ⟨[x], by simp, by intro a ha; simp at ha; subst ha; exact hx⟩
      | true =>
        simp only [if_true]
        obtain ⟨out, e1, e2⟩ := ih m' (acc ++ [x])
        refine ⟨[x] ++ out, by rw [e1, List.append_assoc], ?_⟩
        intro a ha
        rcases List.mem_append.mp ha with h | h
        · simp at h; subst h; exact hx
        · exact e2 a h

theorem processLoop_no_wal (env : C12.Env) (m : C12.Machine) (acts : List C12.Action)
    (rr : Option Int) :
    ∃ out, (m.processLoop env acts rr).2 = acts ++ out ∧ ∀ a ∈ out, isWal a = false := by
  unfold C12.Machine.processLoop
  exact loop_no_wal env rr C12.loopFuel m acts

theorem walOf_map_noWal (l : List C12.Action) (h : ∀ a ∈ l, isWal a = false) :
    walOf (l.map convAction) = [] := by
  induction l with
  | nil => rfl
  | cons a l ih =>
    have ha := h a List.mem_cons_self
    have hl := ih (fun b hb => h b (List.mem_cons_of_mem _ hb))
    cases a <;> simp_all [isWal, convAction, walOf]

theorem stepOfNat_rank (st : Nat) (s : C12.Step) (h : stepOfNat st = some s) : s.rank = st := by
  unfold stepOfNat at h
  split at h <;> simp at h <;> subst h <;> rfl

/-- What one call of the state machine returns, shape only. -/
def LoggedFirst (i : Input) (acts : List Action) : Prop :=
  acts = [] ∨ ∃ e rest, acts = Action.writeWAL e :: rest ∧ e.toInput = i ∧ walOf rest = []

theorem loggedFirst_of_loop (env : C12.Env) (m : C12.Machine) (w : C12.WalEntry)
    (pre : List C12.Action) (rr : Option Int) (i : Input) (hw : (convEntry w).toInput = i)
    (hpre : ∀ a ∈ pre, isWal a = false) :
    LoggedFirst i ((m.processLoop env (C12.Action.writeWAL w :: pre) rr).2.map convAction) := by
  obtain ⟨out, e, hn⟩ := processLoop_no_wal env m (C12.Action.writeWAL w :: pre) rr
  rw [e]
  refine Or.inr ⟨convEntry w, (pre ++ out).map convAction, by simp [convAction], hw, ?_⟩
  apply walOf_map_noWal
  intro a ha
  rcases List.mem_append.mp ha with h | h
  · exact hpre a h
  · exact hn a h

theorem processMessage_loggedFirst (env : C12.Env) (m : C12.Machine) (h : Nat) (r : Int)
    (w : C12.WalEntry) (i : Input) (hw : (convEntry w).toInput = i) :
    LoggedFirst i ((m.processMessage env h r w).2.map convAction) := by
  unfold C12.Machine.processMessage
  split
  · exact Or.inr ⟨convEntry w, [], by simp [convAction], hw, rfl⟩
  · exact loggedFirst_of_loop env m w [] (some r) i hw (by simp)

/-- **The fixed machine logs first.** For EVERY state (reachable or not, started or not) and every
input, `tmMachineT` returns no action at all, or the first action is the `WriteWAL` of exactly this
input and no other entry is written. -/
theorem tmT_logged_first (env : C12.Env) (node : Nat) (m : C12.Machine) (i : Input) :
    LoggedFirst i ((tmMachineT env node).step m i).2 := by
  by_cases hig : timeoutIgnored env m i = true
  · left; simp [tmMachineT, hig]
  · have hstep : (tmMachineT env node).step m i = (tmMachine env node).step m i := by
      simp [tmMachineT, hig]
    rw [hstep]
    cases i with
    | start =>
      simp only [tmMachine, convInput, C12.Machine.step, C12.Machine.processStart]
      split
      · left; rfl
      · right
        obtain ⟨out, e, hn⟩ := processLoop_no_wal env
          ({ m with isHeightStarted := true }.startRound env 0).1
          [({ m with isHeightStarted := true }.startRound env 0).2] none
        simp only
        rw [e]
        refine ⟨.start m.state.height,
          ([({ m with isHeightStarted := true }.startRound env 0).2] ++ out).map convAction,
          by simp only [List.map_cons, convAction, convEntry], rfl, ?_⟩
        apply walOf_map_noWal
        intro a ha
        rcases List.mem_append.mp ha with h | h
        · simp at h; subst h; exact startRound_not_wal env _ _
        · exact hn a h
    | proposal h r s vr v =>
      simp only [tmMachine, convInput, C12.Machine.step, C12.Machine.processProposal]
      split
      · left; rfl
      · exact processMessage_loggedFirst env _ _ _ _ _ rfl
    | prevote h r s id =>
      simp only [tmMachine, convInput, C12.Machine.step, C12.Machine.processPrevote]
      split
      · left; rfl
      · exact processMessage_loggedFirst env _ _ _ _ _ rfl
    | precommit h r s id =>
      simp only [tmMachine, convInput, C12.Machine.step, C12.Machine.processPrecommit]
      split
      · left; rfl
      · split
        · split
          · right
            exact ⟨.precommit h r s id,
              [Action.triggerSync (max (m.lastTriggerSync + 1) m.state.height) (max m.lastQuorum h)],
              by simp only [List.map_cons, List.map_nil, convAction, convEntry], rfl, rfl⟩
          · exact processMessage_loggedFirst env _ _ _ _ _ rfl
        · exact processMessage_loggedFirst env _ _ _ _ _ rfl
    | timeout st h r =>
      simp only [tmMachine, convInput]
      cases hs : stepOfNat st with
      | none => left; simp
      | some sp =>
        have hr := stepOfNat_rank st sp hs
        simp only [timeoutIgnored, hs, Bool.not_eq_true, List.isEmpty_eq_false_iff] at hig
        simp only [Option.map_some, C12.Machine.step, C12.Machine.processTimeout]
        -- the timeout applies: `onTimeout` returned `[WriteWAL, a]`
        have hshape : ∃ a, (m.onTimeout env sp h r).2 = [C12.Action.writeWAL (.timeout sp h r), a] ∧
            isWal a = false := by
          unfold C12.Machine.onTimeout at hig ⊢
          cases sp with
          | propose =>
            simp only at hig ⊢
            split
            · exact ⟨_, rfl, by simp [C12.Machine.setStepAndSendPrevote, isWal]⟩
            · rename_i hc; simp [hc] at hig
          | prevote =>
            simp only at hig ⊢
            split
            · exact ⟨_, rfl, by simp [C12.Machine.setStepAndSendPrecommit, isWal]⟩
            · rename_i hc; simp [hc] at hig
          | precommit =>
            simp only at hig ⊢
            split
            · exact ⟨_, rfl, startRound_not_wal env _ _⟩
            · rename_i hc; simp [hc] at hig
        obtain ⟨a, ha, hwa⟩ := hshape
        rw [ha]
        exact loggedFirst_of_loop env _ (.timeout sp h r) [a] none _
          (by simp [convEntry, Entry.toInput, hr]) (by intro b hb; simp at hb; subst hb; exact hwa)

/-! ## the machine as it is: an obsolete timeout takes a pending commit, unlogged (F5) -/

def tm4L : Machine C12.Machine := tmMachineL env4 4
def tm4T : Machine C12.Machine := tmMachineT env4 4

/-- Height 1, 4 equal validators, node 4, validator 1 proposes. Round 0 ends with nil votes (the
node missed the proposal and saw only two prevotes for 7); round 1 re-proposes 7 with valid round
0; two prevotes and two precommits of round 1 for 7 arrive; then the third round-0 prevote for 7
arrives LATE (a message of round 0 while the node is in round 1): the polka of round 0 makes the
node prevote 7 in round 1, its own prevote completes the polka of round 1, it precommits 7, its own
precommit completes the precommit quorum of round 1 — and `process` checks the commit rule only for
round 0 (the round of the message just received): the commit stays pending. -/
def pendIns : List Input :=
  [.start, .timeout 0 1 0, .prevote 1 0 1 (some 7), .prevote 1 0 2 (some 7), .timeout 1 1 0,
   .precommit 1 0 1 none, .precommit 1 0 2 none, .timeout 2 1 0, .proposal 1 1 1 0 7,
   .prevote 1 1 1 (some 7), .prevote 1 1 2 (some 7), .precommit 1 1 1 (some 7),
   .precommit 1 1 2 (some 7), .prevote 1 0 3 (some 7)]

def tmPend : C12.Machine := (liveRun tm4L (tm4L.init 1) pendIns).1

/-- **F5 on the model of the code as it is**: in that state the (long obsolete) propose timer of
round 1 fires; `onTimeoutPropose` ignores it (step is `precommit`), nothing is logged, yet the call
returns `Commit` — the decision of height 1 is delivered because of an input that is not in the
log. With the fix the same call returns nothing. The last effects of the run show that the node had
broadcast its precommit without committing. -/
theorem tmL_ignored_timeout_takes_pending_commit :
    (tm4L.step tmPend (.timeout 0 1 1)).2 = [Action.commit 1 7] ∧
    (tm4T.step tmPend (.timeout 0 1 1)).2 = [] ∧
    tmPend.isHeightStarted = true ∧
    ((liveRun tm4L (tm4L.init 1) pendIns).2.drop 22 =
      [.flush, .sendPrevote 1 1 (some 7), .setTimer 1 1 1, .flush, .sendPrecommit 1 1 (some 7),
       .setTimer 2 1 1]) := by
  decide

/-- Hence the machine as it is satisfies the recovery hypotheses for NO state equivalence `r`
(`logged_or_inert` fails in a started, reachable state): for the code before the fix the
`…_tendermint_partial` theorem would be vacuous. -/
theorem tmL_not_replaySafe_upTo (r : Setoid C12.Machine) : ¬ ReplaySafeUpTo (quietOf tm4L) r :=
  fun hs => by
    have h := hs.logged_or_inert tmPend (.timeout 0 1 1) (Or.inl (by decide))
    have ha : ((quietOf tm4L).step tmPend (.timeout 0 1 1)).2 = [Action.commit 1 7] := by decide
    rcases h with ⟨_, h2⟩ | ⟨e', rest, h2, _⟩ <;> (rw [ha] at h2; cases h2)

end Juno.C13
