import JunoModel.C13.Model
/-!
C13 — the block-sync logic of the DRIVER (`consensus/driver/driver.go`), core Lean (linked into
`c13drv`): what `execute` does with a `TriggerSync` action, `triggerSync`, `syncCurrentHeight`,
`hasFutureQuorum`, the driver's own volatile variable `lastQuorum`, and the branches of `listen`
that `liveRun` (Model.lean) leaves out — a gossiped message carrying the sync pseudo-sender is
dropped, a failed block fetch re-arms the fetch and RE-EXECUTES the loop variable `actions` (the
previous input's actions: `actions` is not reset in that branch), a fetched block is handed to
`ProcessSync`, and `syncCurrentHeight` is called after every commit.

Transcribed code:
* `Driver.hasFutureQuorum`     → `Drv.hasFutureQuorum`
* `Driver.syncCurrentHeight`   → `syncCurrentHeight` (`wg.Go(blockFetcher.ProcessBlock(height))` = `XEffect.fetch`)
* `Driver.triggerSync`         → `triggerSync`
* `Driver.execute`             → `executeX` (its projection to the log / broadcast / timer / commit effects
                                 is `effectsOf`: `executeX_base` in ProofsSync.lean)
* `Driver.listen` (one turn of the inner loop) → `listenStep`
* `stateMachine.ProcessSync`   → `syncStep` (the proposal, then every precommit; action lists concatenated)
-/
namespace Juno.C13

/-- The driver's own state besides the state machine and the log. In memory only: 0 after a restart. -/
structure Drv where
  lastQuorum : Nat := 0
  deriving DecidableEq, Repr, Inhabited

/-- An effect of the driver with the sync logic: one of Model.lean's effects, or the launch of a
block fetch for a height (`d.wg.Go(func() { d.blockFetcher.ProcessBlock(ctx, height, d.syncListener) })`). -/
inductive XEffect where
  | base (e : Effect)
  | fetch (h : Nat)
  deriving DecidableEq, Repr, Inhabited

/-- `d.lastQuorum > d.stateMachine.Height()` -/
def Drv.hasFutureQuorum (d : Drv) (smHeight : Nat) : Bool := decide (d.lastQuorum > smHeight)

/-- `syncCurrentHeight`: fetch the block of the state machine's current height if a quorum of a
future height is known. -/
def syncCurrentHeight (d : Drv) (smHeight : Nat) : List XEffect :=
  if d.hasFutureQuorum smHeight then [XEffect.fetch smHeight] else []

/-- `triggerSync`: raise `lastQuorum`; start a fetch only if none was wanted before. -/
def triggerSync (d : Drv) (smHeight : Nat) (e : Nat) : Drv × List XEffect :=
  let had := d.hasFutureQuorum smHeight
  let d' : Drv := { lastQuorum := max d.lastQuorum e }
  (d', if had then [] else syncCurrentHeight d' smHeight)

/-- `execute(ctx, isReplaying, actions)` with `TriggerSync` really executed. `smHeight` is what
`d.stateMachine.Height()` returns while the list is executed (the machine has already processed the
input). A `Commit` returns: the rest of the list is dropped. -/
def executeX (replaying : Bool) (smHeight : Nat) : Drv → List Action → Drv × List XEffect
  | d, [] => (d, [])
  | d, a :: rest =>
    match a with
    | .commit .. => (d, (effectsOf replaying [a]).map XEffect.base)
    | .triggerSync _ e =>
      let r := triggerSync d smHeight e
      let t := executeX replaying smHeight r.1 rest
      (t.1, (effectsOf replaying [a]).map XEffect.base ++ r.2 ++ t.2)
    | _ =>
      let t := executeX replaying smHeight d rest
      (t.1, (effectsOf replaying [a]).map XEffect.base ++ t.2)

/-- The log / broadcast / timer / commit effects of a trace. -/
def baseOf : List XEffect → List Effect
  | [] => []
  | .base e :: rest => e :: baseOf rest
  | .fetch _ :: rest => baseOf rest

/-- The heights for which a block fetch was launched, in order. -/
def fetchesOf : List XEffect → List Nat
  | [] => []
  | .base _ :: rest => fetchesOf rest
  | .fetch h :: rest => h :: fetchesOf rest

/-- `ProcessSync(proposal, precommits)`: `ProcessProposal`, then `ProcessPrecommit` for every
precommit; the action lists are concatenated. -/
def syncStep {S} (M : Machine S) : S → List Input → S × List Action
  | s, [] => (s, [])
  | s, i :: rest =>
    let r := M.step s i
    let t := syncStep M r.1 rest
    (t.1, r.2 ++ t.2)

/-- What the select of `listen`'s inner loop can deliver. -/
inductive LInput where
  /-- a timeout, or a message from a real sender; `Input.start` stands for the `ProcessStart(0)` the
  outer loop performs at boot and after every commit -/
  | msg (i : Input)
  /-- a gossiped message whose sender is the sync pseudo-sender: `continue` — no call into the state
  machine, `actions` untouched, nothing executed -/
  | pseudo
  /-- the block fetcher reported an error -/
  | syncErr
  /-- the block fetcher delivered a block: `messageExtractor.Extract`, then `ProcessSync` -/
  | syncBlock (ins : List Input)
  deriving Repr, Inhabited

/-- The state of `listen`: the state machine, the driver's own variables, and the loop variable
`actions` (what the last call into the state machine returned). -/
structure LState (S : Type) where
  s : S
  d : Drv
  last : List Action

/-- `execute` of freshly returned actions, and — when a commit was executed — the
`syncCurrentHeight` that follows the inner loop. -/
def runActs {S} (M : Machine S) (st : LState S) (s' : S) (acts : List Action) :
    LState S × List XEffect :=
  let r := executeX false (M.height s') st.d acts
  let after := if committed acts then syncCurrentHeight r.1 (M.height s') else []
  ({ s := s', d := r.1, last := acts }, r.2 ++ after)

/-- One turn of `listen`. -/
def listenStep {S} (M : Machine S) (st : LState S) : LInput → LState S × List XEffect
  | .msg i => runActs M st (M.step st.s i).1 (M.step st.s i).2
  | .pseudo => (st, [])
  | .syncBlock ins => runActs M st (syncStep M st.s ins).1 (syncStep M st.s ins).2
  | .syncErr =>
    -- `d.syncCurrentHeight(ctx)`, then `execute(ctx, false, actions)` with the OLD `actions`
    let xs := syncCurrentHeight st.d (M.height st.s)
    let r := runActs M st st.s st.last
    (r.1, xs ++ r.2)

/-- `listen` with `actions = nil` in the fetch-error branch (the one-line repair of the stale
re-execution; not the code as it is — `c13drv` uses it when a probe of the real driver finds that a
failed fetch no longer re-executes anything). -/
def listenStepReset {S} (M : Machine S) (st : LState S) : LInput → LState S × List XEffect
  | .syncErr => ({ st with last := [] }, syncCurrentHeight st.d (M.height st.s))
  | li => listenStep M st li

def listenRun {S} (M : Machine S) : LState S → List LInput → LState S × List XEffect
  | st, [] => (st, [])
  | st, i :: rest =>
    let r := listenStep M st i
    let t := listenRun M r.1 rest
    (t.1, r.2 ++ t.2)

/-- One entry of `driver.replay` with the sync logic (a replayed `TriggerSync` starts a fetch, too). -/
def replayStepX {S} (M : Machine S) (s : S) (d : Drv) (e : Entry) : S × Drv × List XEffect :=
  let r := replayStep M s e
  let x := executeX true (M.height r.1) d r.2
  (r.1, x.1, x.2)

end Juno.C13
