/-!
C13 — model of the consensus DRIVER (`consensus/driver/driver.go`) around an abstract, deterministic
Tendermint state machine, with the write-ahead log (`consensus/walstore`) reduced to its logical
contract (pending vs flushed records; the physical log is C14's subject).

Core Lean only: this module is linked into `c13drv`.

Transcribed code:
* `consensus/types/wal/wal.go`            → `Entry`, `Entry.height`
* `tendermint.ProcessWAL`                 → `Entry.toInput`
* `consensus/types/actions/actions.go`    → `Action`, `Action.requiresWALFlush`
* `driver.execute` / `driver.commit`      → `effectsOf`, `committed`
* `walstore` SetWALEntry / DeleteWALEntries / Flush / LoadAllEntries, loss of the process
                                          → `Store.setEntry/delete/flush/load/crash`
* `driver.replay`                         → `replayRun` (skip rule `GetHeight() < Height()`)
* `driver.listen` (one input)             → `liveRun`
* `consensus.Init` (`currentHeight = chainHeight + 1`, fresh store handle) → `recover`
-/
namespace Juno.C13

/-! ## Data -/

/-- `consensus/types/wal/wal.go`: the five kinds of log entries. Values, ids, senders are numbers
(felts); `id = none` is the nil vote. -/
inductive Entry where
  | start (h : Nat)
  | proposal (h : Nat) (r : Int) (sender : Nat) (vr : Int) (v : Nat)
  | prevote (h : Nat) (r : Int) (sender : Nat) (id : Option Nat)
  | precommit (h : Nat) (r : Int) (sender : Nat) (id : Option Nat)
  | timeout (step : Nat) (h : Nat) (r : Int)
  deriving DecidableEq, Repr, Inhabited

/-- `GetHeight()` of each entry kind. -/
def Entry.height : Entry → Nat
  | .start h => h
  | .proposal h .. => h
  | .prevote h .. => h
  | .precommit h .. => h
  | .timeout _ h _ => h

/-- What the driver hands to the state machine (`ProcessStart(0)`, `ProcessProposal`, …). -/
inductive Input where
  | start
  | proposal (h : Nat) (r : Int) (sender : Nat) (vr : Int) (v : Nat)
  | prevote (h : Nat) (r : Int) (sender : Nat) (id : Option Nat)
  | precommit (h : Nat) (r : Int) (sender : Nat) (id : Option Nat)
  | timeout (step : Nat) (h : Nat) (r : Int)
  deriving DecidableEq, Repr, Inhabited

/-- `stateMachine.ProcessWAL`: which call a logged entry is turned into. A `Start` entry becomes
`ProcessStart(0)` whatever height it carries. -/
def Entry.toInput : Entry → Input
  | .start _ => .start
  | .proposal h r s vr v => .proposal h r s vr v
  | .prevote h r s id => .prevote h r s id
  | .precommit h r s id => .precommit h r s id
  | .timeout st h r => .timeout st h r

/-- `consensus/types/actions/actions.go`. Own messages carry the node's address as sender; it is
constant and left out. -/
inductive Action where
  | writeWAL (e : Entry)
  | broadcastProposal (h : Nat) (r : Int) (vr : Int) (v : Nat)
  | broadcastPrevote (h : Nat) (r : Int) (id : Option Nat)
  | broadcastPrecommit (h : Nat) (r : Int) (id : Option Nat)
  | scheduleTimeout (step : Nat) (h : Nat) (r : Int)
  | commit (h : Nat) (v : Nat)
  | triggerSync (s e : Nat)
  deriving DecidableEq, Repr, Inhabited

/-- `RequiresWALFlush()` per action type, actions.go:30-44. -/
def Action.requiresWALFlush : Action → Bool
  | .writeWAL _ => false
  | .broadcastProposal .. => true
  | .broadcastPrevote .. => true
  | .broadcastPrecommit .. => true
  | .scheduleTimeout .. => false
  | .commit .. => true
  | .triggerSync .. => false

/-- One individual effect the driver performs on the outside world. -/
inductive Effect where
  | flush                                   -- db.Flush()
  | append (e : Entry)                      -- db.SetWALEntry(e)
  | sendProposal (h : Nat) (r : Int) (vr : Int) (v : Nat)
  | sendPrevote (h : Nat) (r : Int) (id : Option Nat)
  | sendPrecommit (h : Nat) (r : Int) (id : Option Nat)
  | setTimer (step : Nat) (h : Nat) (r : Int)
  | deliver (h : Nat) (v : Nat)             -- commitListener.OnCommit returned true
  | prune (h : Nat)                         -- db.DeleteWALEntries(h)
  | sync (s e : Nat)                        -- triggerSync (no durable effect)
  deriving DecidableEq, Repr, Inhabited

/-- Effects that peers / the chain can observe. -/
def Effect.visible : Effect → Bool
  | .sendProposal .. => true
  | .sendPrevote .. => true
  | .sendPrecommit .. => true
  | .deliver .. => true
  | _ => false

/-! ## `driver.execute` -/

/-- The effect list of `execute(ctx, isReplaying, actions)` in the exact order of the code: for
each action, `Flush` first if it `RequiresWALFlush` and we are not replaying; `WriteWAL` appends
unless replaying; a `Commit` performs deliver → prune → flush and RETURNS (the remaining actions
are dropped). -/
def effectsOf (replaying : Bool) : List Action → List Effect
  | [] => []
  | a :: rest =>
    (if !replaying && a.requiresWALFlush then [Effect.flush] else []) ++
    (match a with
     | .writeWAL e => (if replaying then [] else [Effect.append e]) ++ effectsOf replaying rest
     | .broadcastProposal h r vr v => Effect.sendProposal h r vr v :: effectsOf replaying rest
     | .broadcastPrevote h r id => Effect.sendPrevote h r id :: effectsOf replaying rest
     | .broadcastPrecommit h r id => Effect.sendPrecommit h r id :: effectsOf replaying rest
     | .scheduleTimeout st h r => Effect.setTimer st h r :: effectsOf replaying rest
     | .commit h v => [Effect.deliver h v, Effect.prune h, Effect.flush]
     | .triggerSync s e => Effect.sync s e :: effectsOf replaying rest)

/-- `isCommitted` result of `execute`. -/
def committed : List Action → Bool
  | [] => false
  | .commit .. :: _ => true
  | _ :: rest => committed rest

/-! ## The log store (logical contract of `walstore`) -/

inductive Rec where
  | entry (e : Entry)
  | prune (h : Nat)
  deriving DecidableEq, Repr, Inhabited

/-- `(prunedUpToHeight, live entries in the order they became durable)`. -/
abbrev View := Nat × List Entry

/-- `updateIndexesFromCommittedRecords` / `applyEncodedRecord` for one record. -/
def applyRec (v : View) : Rec → View
  | .entry e => if e.height ≤ v.1 then v else (v.1, v.2 ++ [e])
  | .prune h => if h ≤ v.1 then v else (h, v.2.filter (fun e => h < e.height))

/-- The durable view is a function of the flushed records (what a reopen reconstructs). The initial
watermark is 0, so height-0 entries are never kept (as in the code). -/
def view (rs : List Rec) : View := rs.foldl applyRec (0, [])

structure Store where
  pending : List Rec
  flushed : List Rec
  deriving Repr, Inhabited

def Store.empty : Store := ⟨[], []⟩

def Store.pruned (s : Store) : Nat := (view s.flushed).1

/-- `SetWALEntry`: buffered unless at or below the durable prune watermark. -/
def Store.setEntry (s : Store) (e : Entry) : Store :=
  if e.height ≤ s.pruned then s else { s with pending := s.pending ++ [Rec.entry e] }

/-- Raise the first pending prune record to at least `h`; `none` if there is none. -/
def raisePrune (h : Nat) : List Rec → Option (List Rec)
  | [] => none
  | .prune k :: rest => some (.prune (max k h) :: rest)
  | r :: rest => (raisePrune h rest).map (r :: ·)

/-- `DeleteWALEntries`. -/
def Store.delete (s : Store) (h : Nat) : Store :=
  if h ≤ s.pruned then s else
  match raisePrune h s.pending with
  | some p => { s with pending := p }
  | none => { s with pending := s.pending ++ [Rec.prune h] }

/-- `Flush`: the pending batch becomes durable atomically (C14's subject). -/
def Store.flush (s : Store) : Store := ⟨[], s.flushed ++ s.pending⟩

/-- Loss of the process: pending records are gone, flushed records stay. -/
def Store.crash (s : Store) : Store := ⟨[], s.flushed⟩

/-- Stable insertion by height: `e` goes after every entry whose height is `≤` its own. -/
def insertByHeight (e : Entry) : List Entry → List Entry
  | [] => [e]
  | x :: xs => if x.height ≤ e.height then x :: insertByHeight e xs else e :: x :: xs

/-- `LoadAllEntries` order: heights ascending, append order within a height. -/
def sortByHeight (l : List Entry) : List Entry := l.foldl (fun acc e => insertByHeight e acc) []

def Store.load (s : Store) : List Entry := sortByHeight (view s.flushed).2

/-! ## The node: log + chain -/

structure Node where
  store : Store
  /-- `blockchain.Height()`: the last height whose commit was delivered (persisted block). -/
  chainHeight : Nat
  /-- delivered `(height, value)` pairs, oldest first (ghost). -/
  delivered : List (Nat × Nat)
  deriving Repr, Inhabited

def Node.fresh (chainHeight : Nat) : Node := ⟨Store.empty, chainHeight, []⟩

def applyEffect (n : Node) : Effect → Node
  | .flush => { n with store := n.store.flush }
  | .append e => { n with store := n.store.setEntry e }
  | .prune h => { n with store := n.store.delete h }
  | .deliver h v => { n with chainHeight := h, delivered := n.delivered ++ [(h, v)] }
  | _ => n

def applyEffects (n : Node) (es : List Effect) : Node := es.foldl applyEffect n

/-- Process death + restart of the storage handles. -/
def Node.crash (n : Node) : Node := { n with store := n.store.crash }

/-! ## The state machine, abstractly -/

/-- A deterministic consensus state machine as the driver sees it. `init h` is
`tendermint.New(…, h)`; `started` is `isHeightStarted`. Everything the machine consults besides
its state and the input (the `Application`: `Value()`, `Valid()`; the validator set) is part of
the function `step` — two machines with different `step` model two different environments. -/
structure Machine (S : Type) where
  init : Nat → S
  height : S → Nat
  started : S → Bool
  step : S → Input → S × List Action

/-- `listen`: feed the inputs one after the other, executing the returned actions with
`isReplaying = false`. (`ProcessStart(0)` calls appear as explicit `Input.start`.) -/
def liveRun {S} (M : Machine S) : S → List Input → S × List Effect
  | s, [] => (s, [])
  | s, i :: rest =>
    let r := M.step s i
    let t := liveRun M r.1 rest
    (t.1, effectsOf false r.2 ++ t.2)

/-- `if walEntry.GetHeight() < d.stateMachine.Height() { continue }`. -/
def skipOnReplay (smHeight : Nat) (e : Entry) : Bool := decide (e.height < smHeight)

/-- One entry of `driver.replay`: skipped when its height is below the machine's, else
`ProcessWAL(entry)`; the returned actions are the ones `execute(isReplaying = true)` gets. -/
def replayStep {S} (M : Machine S) (s : S) (e : Entry) : S × List Action :=
  if skipOnReplay (M.height s) e then (s, []) else M.step s e.toInput

/-- `driver.replay` over the loaded entries. -/
def replayRun {S} (M : Machine S) : S → List Entry → S × List Effect
  | s, [] => (s, [])
  | s, e :: rest =>
    let r := replayStep M s e
    let t := replayRun M r.1 rest
    (t.1, effectsOf true r.2 ++ t.2)

/-- Restart after a crash: the log handle sees the flushed records only, the machine is created at
`chainHeight + 1` (`consensus.Init`), then `replay`. Returns the recovered machine state, the
effects performed during replay and the node after them. -/
def recover {S} (M : Machine S) (n : Node) : S × List Effect × Node :=
  let n' := n.crash
  let r := replayRun M (M.init (n'.chainHeight + 1)) n'.store.load
  (r.1, r.2, applyEffects n' r.2)

/-! ## A small concrete machine (examples, non-vacuity, the negation witness)

One validator's view in a toy protocol with a single round per height, enough to exhibit every
driver path: as proposer it proposes `app height` and prevotes for it at `start`; on a proposal
`v` it prevotes `v` (once); on a prevote it precommits (once); on a precommit it commits the
proposed value. Future-height messages are logged and otherwise ignored.
`app : Nat → Nat` plays `Application.Value()` (a function of the height = replay-stable within
one process; two different `app`s model a value source that changes across a restart). -/

structure Toy where
  height : Nat
  started : Bool
  proposed : Option Nat      -- value seen/proposed at this height
  prevoted : Bool
  precommitted : Bool
  deriving DecidableEq, Repr, Inhabited

def Toy.init (h : Nat) : Toy := ⟨h, false, none, false, false⟩

/-- Processing of a current-height message in a started toy machine (no logging here). -/
def Toy.onMsg (t : Toy) : Input → Toy × List Action
  | .proposal _ r _ _ v =>
    if t.proposed.isNone then
      if t.prevoted then ({ t with proposed := some v }, [])
      else ({ t with proposed := some v, prevoted := true }, [.broadcastPrevote t.height r (some v)])
    else (t, [])
  | .prevote _ r _ id =>
    if t.precommitted then (t, [])
    else ({ t with precommitted := true }, [.broadcastPrecommit t.height r id])
  | .precommit _ _ _ _ =>
    match t.proposed with
    | some v => (Toy.init (t.height + 1), [.commit t.height v])
    | none => (t, [])
  | .timeout _ _ r =>
    if t.prevoted then (t, [])
    else ({ t with prevoted := true }, [.broadcastPrevote t.height r none])
  | .start => (t, [])

def Input.height? : Input → Option Nat
  | .start => none
  | .proposal h .. => some h
  | .prevote h .. => some h
  | .precommit h .. => some h
  | .timeout _ h _ => some h

def Input.toEntry (cur : Nat) : Input → Entry
  | .start => .start cur
  | .proposal h r s vr v => .proposal h r s vr v
  | .prevote h r s id => .prevote h r s id
  | .precommit h r s id => .precommit h r s id
  | .timeout st h r => .timeout st h r

/-- `proposer h` tells whether this node proposes at height `h`; `app h` is its value. -/
def Toy.step (proposer : Nat → Bool) (app : Nat → Nat) (t : Toy) (i : Input) : Toy × List Action :=
  match i with
  | .start =>
    if t.started then (t, []) else
    let t1 := { t with started := true }
    if proposer t.height then
      let v := app t.height
      ({ t1 with proposed := some v, prevoted := true },
        [.writeWAL (.start t.height), .broadcastProposal t.height 0 (-1) v,
         .broadcastPrevote t.height 0 (some v)])
    else (t1, [.writeWAL (.start t.height), .scheduleTimeout 0 t.height 0])
  | i =>
    match i.height? with
    | none => (t, [])
    | some h =>
      if h < t.height then (t, [])
      else if !t.started then (t, [])
      else if h > t.height then
        -- a timeout of another height is ignored, a message of a future height is logged
        (match i with
         | .timeout .. => (t, [])
         | _ => (t, [.writeWAL (i.toEntry t.height)]))
      else
        let r := t.onMsg i
        (r.1, .writeWAL (i.toEntry t.height) :: r.2)

def toyMachine (proposer : Nat → Bool) (app : Nat → Nat) : Machine Toy where
  init := Toy.init
  height := Toy.height
  started := Toy.started
  step := Toy.step proposer app

end Juno.C13
