import JunoModel.C12.Model
import JunoModel.C13.Model
/-!
C13 — the driver's abstract `Machine` instantiated with C12's executable transcription of juno's
Tendermint state machine (`JunoModel.C12.Model`, imported read-only). Core Lean only: linked into
`c13drv`, which EXECUTES this machine on the harness' inputs.
-/
namespace Juno.C13
open Juno

def stepOfNat : Nat → Option C12.Step
  | 0 => some .propose
  | 1 => some .prevote
  | 2 => some .precommit
  | _ => none

def convEntry : C12.WalEntry → Entry
  | .start h => .start h
  | .proposal p => .proposal p.height p.round p.sender p.validRound p.value
  | .prevote v => .prevote v.height v.round v.sender v.id
  | .precommit v => .precommit v.height v.round v.sender v.id
  | .timeout s h r => .timeout s.rank h r

def convAction : C12.Action → Action
  | .writeWAL e => .writeWAL (convEntry e)
  | .bcastProposal p => .broadcastProposal p.height p.round p.validRound p.value
  | .bcastPrevote v => .broadcastPrevote v.height v.round v.id
  | .bcastPrecommit v => .broadcastPrecommit v.height v.round v.id
  | .schedule s h r => .scheduleTimeout s.rank h r
  | .commit p => .commit p.height p.value
  | .triggerSync s e => .triggerSync s e

/-- The call the driver makes for an input; a timeout with an unknown step value is answered with
`nil` by `ProcessTimeout`'s `switch` (no call into the rules). -/
def convInput : Input → Option C12.Input
  | .start => some (.start 0)
  | .proposal h r s vr v => some (.proposal ⟨h, r, s, vr, v⟩)
  | .prevote h r s id => some (.prevote ⟨h, r, s, id⟩)
  | .precommit h r s id => some (.precommit ⟨h, r, s, id⟩)
  | .timeout st h r => (stepOfNat st).map (fun s => .timeout s h r)

/-- juno's Tendermint state machine (C12's transcription) as the driver's `Machine`. -/
def tmMachine (env : C12.Env) (node : Nat) : Machine C12.Machine where
  init := fun h => C12.Machine.new env node h
  height := fun m => m.state.height
  started := fun m => m.isHeightStarted
  step := fun m i =>
    match convInput i with
    | none => (m, [])
    | some ci => ((m.step env ci).1, (m.step env ci).2.map convAction)

def Action.isSync : Action → Bool
  | .triggerSync .. => true
  | _ => false

/-- juno's machine with the `TriggerSync` actions left out — what the driver's log/broadcast/commit
logic sees (the harness keeps that action from the real driver, too; `driver.triggerSync` only
starts a block fetch). The arguments of `TriggerSync` expose the machine's sync bookkeeping
(`lastTriggerSync`), which a restart does not restore — see `tm_replaySafeUpTo_fails_sync_bookkeeping`. -/
def tmMachineQuiet (env : C12.Env) (node : Nat) : Machine C12.Machine :=
  { tmMachine env node with
    step := fun m i =>
      (((tmMachine env node).step m i).1, ((tmMachine env node).step m i).2.filter (fun a => !a.isSync)) }

/-! ## `ProcessTimeout` and a timeout that does not apply any more

`ProcessTimeout` is `processLoop(onTimeoutX(tm), nil)`: the rules are run ALSO when `onTimeoutX`
returned nil, i.e. when the timeout is for another height / round / step and nothing is written to
the log. If an earlier call left a rule pending — `process` checks the commit rule (line 49) only
for the round of the message just received, so a precommit quorum that the node's OWN precommit
completes while it handles a message of another round stays pending — such an obsolete timeout
fires it: a `Commit` with no `WriteWAL` (finding F5). Two explicit variants, selected in `c13drv` by
a probe of the real machine (the model follows the code):

* `tmMachineL` — the code as it is: the loop runs on an ignored timeout;
* `tmMachineT` — the code with proposed-fixes/C13-ignored-timeout-runs-rules.diff: an ignored
  timeout returns nil.

Both are wrappers around C12's transcription that decide the ignored-timeout case themselves, so
they keep their meaning when C12's model follows the repaired code. -/

/-- `onTimeoutPropose/Prevote/Precommit` returned nil: the timeout is not for the machine's current
height, round (and, for propose / prevote, step). Nothing is logged for it. -/
def timeoutIgnored (env : C12.Env) (m : C12.Machine) : Input → Bool
  | .timeout st h r =>
    match stepOfNat st with
    | some s => (m.onTimeout env s h r).2.isEmpty
    | none => false
  | _ => false

/-- juno's machine with the fix: an ignored timeout does nothing at all. -/
def tmMachineT (env : C12.Env) (node : Nat) : Machine C12.Machine :=
  { tmMachine env node with
    step := fun m i => if timeoutIgnored env m i then (m, []) else (tmMachine env node).step m i }

/-- juno's machine as it is: an ignored timeout still runs `processLoop(nil, nil)`. -/
def tmMachineL (env : C12.Env) (node : Nat) : Machine C12.Machine :=
  { tmMachine env node with
    step := fun m i =>
      if timeoutIgnored env m i then
        ((m.processLoop env [] none).1, (m.processLoop env [] none).2.map convAction)
      else (tmMachine env node).step m i }

/-- A machine without its `TriggerSync` actions (what the driver's log / broadcast / timer / commit
logic sees). `tmMachineQuiet env node = quietOf (tmMachine env node)`. -/
def quietOf {S : Type} (M : Machine S) : Machine S :=
  { M with step := fun s i => ((M.step s i).1, (M.step s i).2.filter (fun a => !a.isSync)) }

/-- The machine as it was BEFORE b154634: in the future-quorum branch of `ProcessPrecommit` the
`WriteWAL` of the counted precommit was missing (the call returned only `TriggerSync`). A variant for
regression witnesses; not the current code. -/
def tmMachineBefore_b154634 (env : C12.Env) (node : Nat) : Machine C12.Machine :=
  { tmMachine env node with
    step := fun m i =>
      let r := (tmMachine env node).step m i
      match r.2 with
      | [.writeWAL (.precommit ..), .triggerSync a b] => (r.1, [.triggerSync a b])
      | _ => r }

end Juno.C13
