import JunoModel.C13.Model
/-!
C13 — what is behind `Effect.deliver`: `commitListener.OnCommit` (consensus/driver/commit_listener.go)
and `Driver.commit` (driver.go), as decision procedures (core Lean; linked into `c13drv`).

```go
func (b *commitListener) OnCommit(ctx, height, value) bool {
    buildResult := b.proposalStore.Get(value.Hash())
    if buildResult == nil { return false }                        // (1) no build result
    select { case <-ctx.Done(): return false                      // (2) stop before the hand-over
             case b.commits <- committedBlock: }
    select { case <-ctx.Done(): return false                      // (3) stop before the answer
             case err := <-committedBlock.Persisted:
                 if err != nil { return false } }                 // (4) the block could not be stored
    … postCommitHooks …; b.proposalStore.FinalizeHeight(height); return true
}
func (d *Driver) commit(ctx, commit) error {
    if !d.commitListener.OnCommit(ctx, commit.Height, *commit.Value) {
        if err := ctx.Err(); err != nil { return err }
        return errors.New("commit listener failed")
    }
    if err := d.db.DeleteWALEntries(commit.Height); err != nil { return … }
    return d.db.Flush()
}
```
The environment of one call is what the two `select`s and the store lookup yield.
-/
namespace Juno.C13

/-- What the second `select` of `OnCommit` yields. -/
inductive PersistAnswer where
  | ack        -- `Persisted <- nil`: the block is stored, `blockchain.Height()` is the height now
  | error      -- `Persisted <- err`
  | ctxDone    -- the context ended first
  deriving DecidableEq, Repr, Inhabited

structure CommitEnv where
  /-- `proposalStore.Get(value.Hash()) != nil` -/
  found : Bool
  /-- first `select`: the persister takes the block (else the context ended first) -/
  handedOver : Bool
  persist : PersistAnswer
  deriving DecidableEq, Repr, Inhabited

/-- The steps of `OnCommit` that have an effect outside the call. -/
inductive CStep where
  | handover   -- the block reached the persister
  | acked      -- the persister acknowledged it (the chain has the block)
  | hooks      -- post-commit hooks ran
  | finalize   -- `proposalStore.FinalizeHeight(height)`: build results up to the height are dropped
  deriving DecidableEq, Repr, Inhabited

/-- `commitListener.OnCommit`: the answer and what happened on the way. -/
def onCommit (e : CommitEnv) : Bool × List CStep :=
  if !e.found then (false, [])
  else if !e.handedOver then (false, [])
  else match e.persist with
    | .ctxDone => (false, [.handover])
    | .error => (false, [.handover])
    | .ack => (true, [.handover, .acked, .hooks, .finalize])

/-- How `Driver.commit` returns. -/
inductive CommitResult where
  | ok                 -- nil (after DeleteWALEntries + Flush)
  | ctxErr             -- `ctx.Err()`
  | refused            -- "commit listener failed"
  deriving DecidableEq, Repr, Inhabited

/-- `Driver.commit` for `Commit{h, v}`; `ctxEnded` = `ctx.Err() != nil` when `OnCommit` has returned
false. The effects are the driver's (`deliver` = `OnCommit` returned true). -/
def driverCommit (e : CommitEnv) (ctxEnded : Bool) (h v : Nat) : CommitResult × List Effect :=
  if (onCommit e).1 then (.ok, [Effect.deliver h v, Effect.prune h, Effect.flush])
  else (if ctxEnded then .ctxErr else .refused, [])

end Juno.C13
