import JunoModel.Common.Proto
import JunoModel.C13.Model
import JunoModel.C13.ModelTm
import JunoModel.C13.ModelStop
import JunoModel.C13.ModelSync
import JunoModel.C13.ModelListen
import JunoModel.C13.ModelCommit
/-!
Line-protocol driver for the C13 model (`lake build c13drv`).

The state machine is a parameter of the model; over the wire its `step` is given extensionally:
the harness sends the action list the REAL tendermint state machine returned for an input, and this
driver answers with what the MODEL of `driver.execute` / `walstore` / `driver.replay` does with it.

Requests (numbers decimal; `nil` is the nil id):
  reset <chainHeight>            fresh node, empty log                        → ok
  live <action>*                 execute(isReplaying=false, actions)           → <committed 0|1> <effect>*
  crash <k|all>                  lose the process after the first k effects of this epoch (flushes with
                                 nothing pending are not counted); the node becomes the crashed node
                                                                               → h=<start height> pruned=<n> log=<entry,…|->
  rentry <smHeight> <entry>      driver.replay's skip rule                     → skip | feed
  ract <action>*                 execute(isReplaying=true, actions)            → <committed 0|1> <effect>*
  close                          regular stop (Close flushes the pending batch)   → flush
  stop <k> <closeOK 0|1>         the k-th effect (counted like `crash`) of this epoch fails (Flush error / commit refused):
                                 nothing further is performed, Close flushes (closeOK = 1)
                                                                → <effect>* (what the stopped process performed)
  state                                                                       → chain=… pruned=… pending=<n> live=<entry,…|->
  env <me> <pmul> <powers,…> <tbl,…>   validator set / proposer table / node (addresses are index+1)  → ok
  boot <h>                       create the state machine (C12's transcription of juno's) at height h → ok
  in <start|entry>               listen: the MODEL MACHINE processes the input (ProcessStart(0) / message /
                                 timeout), execute(isReplaying=false) of what it returns
                                                                → <committed 0|1> <effect>* | <action>*
  rin <entry>                    replay: skip rule on the model machine's height, ProcessWAL, execute(true)
                                                                → skip | <committed 0|1> <effect>* | <action>*
  push / pop                     save / restore the whole model state (to explore several crash
                                 points of the same history)                   → ok
  env … sync                     (6th word) sync mode: the pseudo-sender of consensus/sync has the total voting
                                 power, and TriggerSync actions are EXECUTED (ModelSync.lean: `listenStep`,
                                 `replayStepX`); `in` / `rin` then answer
                                   <committed 0|1> <effect>* | <action>* | <height of a fetch launched>* lq=<lastQuorum>
  xpseudo                        listen: a gossiped message carrying the pseudo-sender (dropped)   → as `in`
  xerr                           listen: the block fetcher reported an error (re-arms the fetch, re-executes
                                 the previous actions)                                             → as `in`
  xblock <p-entry> <c-entry>*    listen: a fetched block: ProcessSync(proposal, precommits)        → as `in`
  variant fetch-error-resets-actions <0|1>   0 = the code as it is (`listenStep`: the previous actions are executed
                                 again after a failed fetch), 1 = `listenStepReset`                → ok
  (call structure of `listen`, ModelListen.lean) `boot` sets "the next live call is ProcessStart(0)"; every
                                 `in` / `xerr` / `xblock` / `xpseudo` is checked against `driverSeqStep` (start exactly
                                 at boot and after a call that committed, an event of the select otherwise); a call
                                 `listen` cannot make at that point is answered with the suffix ` !seq`
  oncommit <found 0|1> <handedOver 0|1> <ack|error|ctx> <ctxEnded 0|1>
                                 ModelCommit.lean: `commitListener.OnCommit` + `Driver.commit` in that environment
                                                                → <ok|ctxerr|refused> <deliver 0|1> <step,…|->
  variant timeout-inert <0|1>    which variant of the state machine the model machine is: 0 = the code
                                 as it is (`tmMachineL`: ProcessTimeout runs the rules also for a timeout it
                                 ignores), 1 = with proposed-fixes/C13-ignored-timeout-runs-rules.diff
                                 (`tmMachineT`). The harness probes the real machine and says which.  → ok
Tokens:
  entry   s:<h> | p:<h>:<r>:<sender>:<vr>:<v> | v:<h>:<r>:<sender>:<id> | c:<h>:<r>:<sender>:<id> | t:<step>:<h>:<r>
  action  W/<entry> | BP:<h>:<r>:<vr>:<v> | BV:<h>:<r>:<id> | BC:<h>:<r>:<id> | ST:<step>:<h>:<r> | CM:<h>:<v> | TS:<s>:<e>
  effect  flush | flush0 (a flush with nothing pending) | append/<entry> | sp:… | sv:… | sc:… | timer:<step>:<r> |
          deliver:<h>:<v> | prune:<h> | sync:<s>:<e>
-/
open Juno.Proto Juno.C13

def parseId? (s : String) : Option (Option Nat) :=
  if s == "nil" then some none else s.toNat?.map some

def showId : Option Nat → String
  | none => "nil"
  | some n => toString n

def parseEntry? (s : String) : Option Entry :=
  match s.splitOn ":" with
  | ["s", h] => do pure (.start (← h.toNat?))
  | ["p", h, r, sd, vr, v] => do
    pure (.proposal (← h.toNat?) (← r.toInt?) (← sd.toNat?) (← vr.toInt?) (← v.toNat?))
  | ["v", h, r, sd, id] => do pure (.prevote (← h.toNat?) (← r.toInt?) (← sd.toNat?) (← parseId? id))
  | ["c", h, r, sd, id] => do pure (.precommit (← h.toNat?) (← r.toInt?) (← sd.toNat?) (← parseId? id))
  | ["t", st, h, r] => do pure (.timeout (← st.toNat?) (← h.toNat?) (← r.toInt?))
  | _ => none

def showEntry : Entry → String
  | .start h => s!"s:{h}"
  | .proposal h r sd vr v => s!"p:{h}:{r}:{sd}:{vr}:{v}"
  | .prevote h r sd id => s!"v:{h}:{r}:{sd}:{showId id}"
  | .precommit h r sd id => s!"c:{h}:{r}:{sd}:{showId id}"
  | .timeout st h r => s!"t:{st}:{h}:{r}"

def parseAction? (s : String) : Option Action :=
  if s.startsWith "W/" then (parseEntry? (s.drop 2).toString).map .writeWAL else
  match s.splitOn ":" with
  | ["BP", h, r, vr, v] => do
    pure (.broadcastProposal (← h.toNat?) (← r.toInt?) (← vr.toInt?) (← v.toNat?))
  | ["BV", h, r, id] => do pure (.broadcastPrevote (← h.toNat?) (← r.toInt?) (← parseId? id))
  | ["BC", h, r, id] => do pure (.broadcastPrecommit (← h.toNat?) (← r.toInt?) (← parseId? id))
  | ["ST", st, h, r] => do pure (.scheduleTimeout (← st.toNat?) (← h.toNat?) (← r.toInt?))
  | ["CM", h, v] => do pure (.commit (← h.toNat?) (← v.toNat?))
  | ["TS", a, b] => do pure (.triggerSync (← a.toNat?) (← b.toNat?))
  | _ => none

def showEffect : Effect → String
  | .flush => "flush"
  | .append e => "append/" ++ showEntry e
  | .sendProposal h r vr v => s!"sp:{h}:{r}:{vr}:{v}"
  | .sendPrevote h r id => s!"sv:{h}:{r}:{showId id}"
  | .sendPrecommit h r id => s!"sc:{h}:{r}:{showId id}"
  | .setTimer st _ r => s!"timer:{st}:{r}"
  | .deliver h v => s!"deliver:{h}:{v}"
  | .prune h => s!"prune:{h}"
  | .sync a b => s!"sync:{a}:{b}"

/-- Effects as tokens, from node `n` on. A `Flush` with nothing pending is rendered `flush0`: it has
no consequence (walstore returns at once), and the harness compares modulo such flushes — a driver
that skips them, or adds one, behaves the same. -/
def showEffectsFrom (n : Node) : List Effect → List String
  | [] => []
  | e :: rest =>
    (match e with
     | .flush => if n.store.pending.isEmpty then "flush0" else "flush"
     | _ => showEffect e) :: showEffectsFrom (applyEffect n e) rest

/-- Effects that are not counted in crash / fault positions: a flush with nothing pending, and the
`sync` marker (`driver.triggerSync` has no sink of its own in the harness). -/
def isNoopFlush (n : Node) : Effect → Bool
  | .flush => n.store.pending.isEmpty
  | .sync .. => true
  | _ => false

/-- The prefix of `es` with `c` effects that are not no-op flushes (no-op flushes behind it included:
they change nothing). Crash points and fault positions are counted this way, so that they mean the
same for a driver that performs no-op flushes and for one that does not. -/
def takeCanon (n : Node) : Nat → List Effect → List Effect
  | _, [] => []
  | c, e :: rest =>
    if isNoopFlush n e then e :: takeCanon (applyEffect n e) c rest
    else match c with
      | 0 => []
      | c + 1 => e :: takeCanon (applyEffect n e) c rest

def countCanon (n : Node) : List Effect → Nat
  | [] => 0
  | e :: rest => (if isNoopFlush n e then 0 else 1) + countCanon (applyEffect n e) rest

def showEntries (l : List Entry) : String :=
  if l.isEmpty then "-" else ",".intercalate (l.map showEntry)

/-- Environment of the model machine, as the harness' stable application and validator set. -/
structure EnvCfg where
  me : Nat := 1
  pmul : Nat := 0
  powers : List Nat := [1]
  tbl : List Nat := [1]
  sync : Bool := false
  deriving Inhabited

/-- The harness' replay-stable value source: the `k`-th `Value()` call at height `h`. -/
def stableValue (h k : Nat) : Nat :=
  let v := h * 1000 + k * 10 + 1
  if v % 7 == 3 then v + 1 else v

structure DS where
  base : Node            -- node at the beginning of the epoch (after reset / crash)
  trace : List Effect    -- effects of this epoch, oldest first
  cur : Node
  ecfg : EnvCfg := {}
  mach : Option Juno.C12.Machine := none
  kAtHeight : Nat := 0   -- Value() calls at the machine's current height so far
  tInert : Bool := false -- model machine variant: an ignored timeout does nothing (F5 fixed)
  errReset : Bool := false -- sync mode variant: `actions = nil` after a failed fetch
  drv : Drv := {}        -- sync mode: the driver's own `lastQuorum`
  last : List Action := []  -- sync mode: the loop variable `actions` of `listen`
  needStart : Bool := true  -- `listen`: the next call is the outer loop's `ProcessStart(0)`
  acts0 : List Action := [] -- what the last live call of the model machine returned
  deriving Inhabited

/-- `Env` of C12's model for the next step: validators from the configuration; `appValue c` is what
the `c`-th call (global counter of the model machine) returns = the next values of this height. -/
def mkEnvBase (c : EnvCfg) (app : Nat → Nat) : Juno.C12.Env :=
  { totalPower := fun _ => c.powers.foldl (· + ·) 0,
    power := fun _ a =>
      -- consensus/sync.SyncProtocolPrecommitSender = 2^64 - 1 carries the total voting power
      if c.sync && a == 18446744073709551615 then c.powers.foldl (· + ·) 0
      else if a == 0 then 0 else (c.powers[a - 1]?).getD 0,
    proposer := fun h r =>
      let n := c.tbl.length
      if n == 0 then 0 else
      let idx := ((h * c.pmul : Nat) + r) % n
      (c.tbl[idx.toNat]?).getD 0 + 1,
    valid := fun v => v % 7 != 3,
    appValue := app }

def mkEnv (c : EnvCfg) (m : Juno.C12.Machine) (k : Nat) : Juno.C12.Env :=
  mkEnvBase c (fun cnt => stableValue m.state.height (k + (cnt - m.valueCalls)))

def showAction : Action → String
  | .writeWAL e => "W/" ++ showEntry e
  | .broadcastProposal h r vr v => s!"BP:{h}:{r}:{vr}:{v}"
  | .broadcastPrevote h r id => s!"BV:{h}:{r}:{showId id}"
  | .broadcastPrecommit h r id => s!"BC:{h}:{r}:{showId id}"
  | .scheduleTimeout st h r => s!"ST:{st}:{h}:{r}"
  | .commit h v => s!"CM:{h}:{v}"
  | .triggerSync a b => s!"TS:{a}:{b}"

def isSync : Action → Bool
  | .triggerSync .. => true
  | _ => false

/-- One step of the model machine on `i`, then `execute` of the returned actions (a `TriggerSync`
is reported but not executed: the harness keeps it from the real driver). -/
def machStep (replaying : Bool) (s : DS) (i : Input) : DS × String :=
  match s.mach with
  | none => (s, "bad-op")
  | some m =>
    let env := mkEnv s.ecfg m s.kAtHeight
    let M := if s.tInert then tmMachineT env s.ecfg.me else tmMachineL env s.ecfg.me
    let r := M.step m i
    let m' := r.1
    let k' := if m'.state.height == m.state.height then s.kAtHeight + (m'.valueCalls - m.valueCalls) else 0
    let acts := r.2
    let effs := effectsOf replaying (acts.filter (fun a => !isSync a))
    let flag := if committed acts then "1" else "0"
    ({ s with trace := s.trace ++ effs, cur := applyEffects s.cur effs, mach := some m', kAtHeight := k',
              acts0 := acts },
      " ".intercalate (flag :: showEffectsFrom s.cur effs) ++ " | " ++ " ".intercalate (acts.map showAction))

def showX (s : DS) (acts : List Action) (xs : List XEffect) (lq : Nat) : String :=
  let effs := baseOf xs
  let flag := if committed acts then "1" else "0"
  " ".intercalate (flag :: showEffectsFrom s.cur effs) ++ " | " ++ " ".intercalate (acts.map showAction) ++
    " | " ++ " ".intercalate ((fetchesOf xs).map toString ++ [s!"lq={lq}"])

/-- Sync mode: one turn of `listen` (ModelSync.`listenStep`) on the model machine. -/
def listenX (s : DS) (li : LInput) : DS × String :=
  match s.mach with
  | none => (s, "bad-op")
  | some m =>
    let env := mkEnv s.ecfg m s.kAtHeight
    let M := if s.tInert then tmMachineT env s.ecfg.me else tmMachineL env s.ecfg.me
    let r := if s.errReset then listenStepReset M { s := m, d := s.drv, last := s.last } li
             else listenStep M { s := m, d := s.drv, last := s.last } li
    let m' := r.1.s
    let k' := if m'.state.height == m.state.height then s.kAtHeight + (m'.valueCalls - m.valueCalls) else 0
    let effs := baseOf r.2
    let acts := match li with
      | .pseudo => []
      | _ => r.1.last
    ({ s with trace := s.trace ++ effs, cur := applyEffects s.cur effs, mach := some m', kAtHeight := k',
              drv := r.1.d, last := r.1.last, acts0 := acts },
      showX s acts r.2 r.1.d.lastQuorum)

/-- Sync mode: one entry of `driver.replay` (ModelSync.`replayStepX`; the skip rule is applied by the caller). -/
def replayX (s : DS) (e : Entry) : DS × String :=
  match s.mach with
  | none => (s, "bad-op")
  | some m =>
    let env := mkEnv s.ecfg m s.kAtHeight
    let M := if s.tInert then tmMachineT env s.ecfg.me else tmMachineL env s.ecfg.me
    let r := replayStepX M m s.drv e
    let m' := r.1
    let k' := if m'.state.height == m.state.height then s.kAtHeight + (m'.valueCalls - m.valueCalls) else 0
    let effs := baseOf r.2.2
    let acts := (replayStep M m e).2
    ({ s with trace := s.trace ++ effs, cur := applyEffects s.cur effs, mach := some m', kAtHeight := k', drv := r.2.1 },
      showX s acts r.2.2 r.2.1.lastQuorum)

/-- `listen`'s call structure: `r` is the result of a live call for `i` (`none`: an event of the select
that is not a call with an input of its own — failed fetch, fetched block). The call must be the one
`listen` makes now (`driverSeqStep`); afterwards the next call is a start iff this one committed. -/
def seqChecked (s : DS) (i : Option Input) (keep : Bool) (r : DS × String) : DS × String :=
  if r.2 == "bad-op" then r else
  let q := driverSeqStep s.needStart (i.getD (Input.timeout 0 0 0)) r.1.acts0
  ({ r.1 with needStart := if keep then s.needStart else q.2 }, if q.1 then r.2 else r.2 ++ " !seq")

def parseNats (s : String) : Option (List Nat) := (s.splitOn ",").mapM String.toNat?

def parseInput? (s : String) : Option Input :=
  if s == "start" then some .start else (parseEntry? s).map Entry.toInput


def parseActions (ws : List String) : Option (List Action) := ws.mapM parseAction?

def runActs (replaying : Bool) (s : DS) (ws : List String) : DS × String :=
  match parseActions ws with
  | none => (s, "bad-op")
  | some acts =>
    let effs := effectsOf replaying acts
    let flag := if committed acts then "1" else "0"
    ({ s with trace := s.trace ++ effs, cur := applyEffects s.cur effs },
      " ".intercalate (flag :: showEffectsFrom s.cur effs))

def step1 (s : DS) (line : String) : DS × String :=
  match words line with
  | ["reset", h] =>
    match h.toNat? with
    | some h => ({ s with base := Node.fresh h, trace := [], cur := Node.fresh h, mach := none }, "ok")
    | none => (s, "bad-op")
  | "live" :: ws => runActs false s ws
  | "ract" :: ws => runActs true s ws
  | ["env", me, pmul, powers, tbl] =>
    match me.toNat?, pmul.toNat?, parseNats powers, parseNats tbl with
    | some me, some pmul, some powers, some tbl => ({ s with ecfg := ⟨me, pmul, powers, tbl, false⟩ }, "ok")
    | _, _, _, _ => (s, "bad-op")
  | ["env", me, pmul, powers, tbl, "sync"] =>
    match me.toNat?, pmul.toNat?, parseNats powers, parseNats tbl with
    | some me, some pmul, some powers, some tbl => ({ s with ecfg := ⟨me, pmul, powers, tbl, true⟩ }, "ok")
    | _, _, _, _ => (s, "bad-op")
  | ["xpseudo"] => if s.ecfg.sync then seqChecked s none true (listenX s .pseudo) else (s, "bad-op")
  | ["xerr"] => if s.ecfg.sync then seqChecked s none false (listenX s .syncErr) else (s, "bad-op")
  | "xblock" :: toks =>
    match toks.mapM parseEntry? with
    | some (e :: es) =>
      if s.ecfg.sync then seqChecked s none false (listenX s (.syncBlock ((e :: es).map Entry.toInput)))
      else (s, "bad-op")
    | _ => (s, "bad-op")
  | ["oncommit", f, ho, pa, ce] =>
    let b? : String → Option Bool := fun x => if x == "1" then some true else if x == "0" then some false else none
    let pa? : Option PersistAnswer :=
      if pa == "ack" then some .ack else if pa == "error" then some .error else if pa == "ctx" then some .ctxDone else none
    match b? f, b? ho, pa?, b? ce with
    | some f, some ho, some pa, some ce =>
      let e : CommitEnv := ⟨f, ho, pa⟩
      let r := driverCommit e ce 0 0
      let res := match r.1 with
        | .ok => "ok"
        | .ctxErr => "ctxerr"
        | .refused => "refused"
      let st := (onCommit e).2.map (fun c => match c with
        | .handover => "handover"
        | .acked => "acked"
        | .hooks => "hooks"
        | .finalize => "finalize")
      (s, s!"{res} {if r.2.isEmpty then 0 else 1} {if st.isEmpty then "-" else ",".intercalate st}")
    | _, _, _, _ => (s, "bad-op")
  | ["variant", "timeout-inert", b] =>
    if b == "1" then ({ s with tInert := true }, "ok")
    else if b == "0" then ({ s with tInert := false }, "ok")
    else (s, "bad-op")
  | ["variant", "fetch-error-resets-actions", b] =>
    if b == "1" then ({ s with errReset := true }, "ok")
    else if b == "0" then ({ s with errReset := false }, "ok")
    else (s, "bad-op")
  | ["boot", h] =>
    match h.toNat? with
    | some h =>
      ({ s with mach := some (Juno.C12.Machine.new (mkEnvBase s.ecfg (fun _ => 0)) s.ecfg.me h),
                kAtHeight := 0, drv := {}, last := [], needStart := true, acts0 := [] }, "ok")
    | none => (s, "bad-op")
  | ["in", tok] =>
    match parseInput? tok with
    | some i => seqChecked s (some i) false (if s.ecfg.sync then listenX s (.msg i) else machStep false s i)
    | none => (s, "bad-op")
  | ["rin", tok] =>
    match parseEntry? tok, s.mach with
    | some e, some m =>
      if skipOnReplay m.state.height e then (s, "skip")
      else if s.ecfg.sync then replayX s e else machStep true s e.toInput
    | _, _ => (s, "bad-op")
  | ["close"] =>
    -- regular stop: `Run`'s deferred `db.Close()` flushes what is pending
    ({ s with trace := s.trace ++ [Effect.flush], cur := applyEffects s.cur [Effect.flush] }, "flush")
  | ["stop", k, c] =>
    match k.toNat? with
    | some k =>
      if k > countCanon s.base s.trace || (c != "0" && c != "1") then (s, "bad-op") else
      let tr := stopTrace s.trace (takeCanon s.base k s.trace).length (c == "1")
      ({ s with trace := tr, cur := applyEffects s.base tr }, " ".intercalate (showEffectsFrom s.base tr))
    | none => (s, "bad-op")
  | ["crash", k] =>
    let kk : Option Nat := if k == "all" then some (countCanon s.base s.trace) else k.toNat?
    match kk with
    | some k =>
      if k > countCanon s.base s.trace then (s, "bad-op") else
      let n := (applyEffects s.base (takeCanon s.base k s.trace)).crash
      ({ s with base := n, trace := [], cur := n, mach := none },
        s!"h={n.chainHeight + 1} pruned={n.store.pruned} log={showEntries n.store.load}")
    | none => (s, "bad-op")
  | ["rentry", h, e] =>
    match h.toNat?, parseEntry? e with
    | some h, some e => (s, if skipOnReplay h e then "skip" else "feed")
    | _, _ => (s, "bad-op")
  | ["state"] =>
    (s, s!"chain={s.cur.chainHeight} pruned={s.cur.store.pruned} pending={s.cur.store.pending.length} live={showEntries s.cur.store.load}")
  | _ => (s, "bad-op")

/-- The protocol state is a stack of model states; the top one is current. -/
def step (st : List DS) (line : String) : List DS × String :=
  match st with
  | [] => ([], "bad-op")
  | s :: rest =>
    match words line with
    | ["push"] => (s :: s :: rest, "ok")
    | ["pop"] => if rest.isEmpty then (st, "bad-op") else (rest, "ok")
    | _ => let r := step1 s line; (r.1 :: rest, r.2)

def main : IO Unit := loop step [{ base := Node.fresh 0, trace := [], cur := Node.fresh 0 }]
