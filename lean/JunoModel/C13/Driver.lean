import JunoModel.Common.Proto
import JunoModel.C13.Model
/-!
Line-protocol driver for the C13 model (`lake build c13drv`).

The state machine is a parameter of the model; over the wire its `step` is given extensionally:
the harness sends the action list the REAL tendermint state machine returned for an input, and this
driver answers with what the MODEL of `driver.execute` / `walstore` / `driver.replay` does with it.

Requests (numbers decimal; `nil` is the nil id):
  reset <chainHeight>            fresh node, empty log                        → ok
  live <action>*                 execute(isReplaying=false, actions)           → <committed 0|1> <effect>*
  crash <k>                      lose the process after the first k effects of this epoch;
                                 the node becomes the crashed node             → h=<start height> pruned=<n> log=<entry,…|->
  rentry <smHeight> <entry>      driver.replay's skip rule                     → skip | feed
  ract <action>*                 execute(isReplaying=true, actions)            → <committed 0|1> <effect>*
  close                          regular stop (Close flushes the pending batch)   → flush
  state                                                                       → chain=… pruned=… pending=<n> live=<entry,…|->
  push / pop                     save / restore the whole model state (to explore several crash
                                 points of the same history)                   → ok
Tokens:
  entry   s:<h> | p:<h>:<r>:<sender>:<vr>:<v> | v:<h>:<r>:<sender>:<id> | c:<h>:<r>:<sender>:<id> | t:<step>:<h>:<r>
  action  W/<entry> | BP:<h>:<r>:<vr>:<v> | BV:<h>:<r>:<id> | BC:<h>:<r>:<id> | ST:<step>:<h>:<r> | CM:<h>:<v> | TS:<s>:<e>
  effect  flush | append/<entry> | sp:… | sv:… | sc:… | timer:<step>:<r> | deliver:<h>:<v> | prune:<h> | sync:<s>:<e>
-/
open Juno.Proto Juno.C13

def parseId? (s : String) : Option (Option Nat) :=
  if s == "nil" then some none else s.toNat?.map some

def showId : Option Nat → String
  | none => "nil"
  | some n => toString n

def parseEntry? (s : String) : Option Entry :=
  match s.splitOn ":" with
  | ["s", h] => do pure (.start (← h.toNat?))
  | ["p", h, r, sd, vr, v] => do
    pure (.proposal (← h.toNat?) (← r.toInt?) (← sd.toNat?) (← vr.toInt?) (← v.toNat?))
  | ["v", h, r, sd, id] => do pure (.prevote (← h.toNat?) (← r.toInt?) (← sd.toNat?) (← parseId? id))
  | ["c", h, r, sd, id] => do pure (.precommit (← h.toNat?) (← r.toInt?) (← sd.toNat?) (← parseId? id))
  | ["t", st, h, r] => do pure (.timeout (← st.toNat?) (← h.toNat?) (← r.toInt?))
  | _ => none

def showEntry : Entry → String
  | .start h => s!"s:{h}"
  | .proposal h r sd vr v => s!"p:{h}:{r}:{sd}:{vr}:{v}"
  | .prevote h r sd id => s!"v:{h}:{r}:{sd}:{showId id}"
  | .precommit h r sd id => s!"c:{h}:{r}:{sd}:{showId id}"
  | .timeout st h r => s!"t:{st}:{h}:{r}"

def parseAction? (s : String) : Option Action :=
  if s.startsWith "W/" then (parseEntry? (s.drop 2).toString).map .writeWAL else
  match s.splitOn ":" with
  | ["BP", h, r, vr, v] => do
    pure (.broadcastProposal (← h.toNat?) (← r.toInt?) (← vr.toInt?) (← v.toNat?))
  | ["BV", h, r, id] => do pure (.broadcastPrevote (← h.toNat?) (← r.toInt?) (← parseId? id))
  | ["BC", h, r, id] => do pure (.broadcastPrecommit (← h.toNat?) (← r.toInt?) (← parseId? id))
  | ["ST", st, h, r] => do pure (.scheduleTimeout (← st.toNat?) (← h.toNat?) (← r.toInt?))
  | ["CM", h, v] => do pure (.commit (← h.toNat?) (← v.toNat?))
  | ["TS", a, b] => do pure (.triggerSync (← a.toNat?) (← b.toNat?))
  | _ => none

def showEffect : Effect → String
  | .flush => "flush"
  | .append e => "append/" ++ showEntry e
  | .sendProposal h r vr v => s!"sp:{h}:{r}:{vr}:{v}"
  | .sendPrevote h r id => s!"sv:{h}:{r}:{showId id}"
  | .sendPrecommit h r id => s!"sc:{h}:{r}:{showId id}"
  | .setTimer st _ r => s!"timer:{st}:{r}"
  | .deliver h v => s!"deliver:{h}:{v}"
  | .prune h => s!"prune:{h}"
  | .sync a b => s!"sync:{a}:{b}"

def showEntries (l : List Entry) : String :=
  if l.isEmpty then "-" else ",".intercalate (l.map showEntry)

structure DS where
  base : Node            -- node at the beginning of the epoch (after reset / crash)
  trace : List Effect    -- effects of this epoch, oldest first
  cur : Node
  deriving Inhabited

def parseActions (ws : List String) : Option (List Action) := ws.mapM parseAction?

def runActs (replaying : Bool) (s : DS) (ws : List String) : DS × String :=
  match parseActions ws with
  | none => (s, "bad-op")
  | some acts =>
    let effs := effectsOf replaying acts
    let flag := if committed acts then "1" else "0"
    ({ s with trace := s.trace ++ effs, cur := applyEffects s.cur effs },
      " ".intercalate (flag :: effs.map showEffect))

def step1 (s : DS) (line : String) : DS × String :=
  match words line with
  | ["reset", h] =>
    match h.toNat? with
    | some h => (⟨Node.fresh h, [], Node.fresh h⟩, "ok")
    | none => (s, "bad-op")
  | "live" :: ws => runActs false s ws
  | "ract" :: ws => runActs true s ws
  | ["close"] =>
    -- regular stop: `Run`'s deferred `db.Close()` flushes what is pending
    ({ s with trace := s.trace ++ [Effect.flush], cur := applyEffects s.cur [Effect.flush] }, "flush")
  | ["crash", k] =>
    match k.toNat? with
    | some k =>
      if k > s.trace.length then (s, "bad-op") else
      let n := (applyEffects s.base (s.trace.take k)).crash
      (⟨n, [], n⟩,
        s!"h={n.chainHeight + 1} pruned={n.store.pruned} log={showEntries n.store.load}")
    | none => (s, "bad-op")
  | ["rentry", h, e] =>
    match h.toNat?, parseEntry? e with
    | some h, some e => (s, if skipOnReplay h e then "skip" else "feed")
    | _, _ => (s, "bad-op")
  | ["state"] =>
    (s, s!"chain={s.cur.chainHeight} pruned={s.cur.store.pruned} pending={s.cur.store.pending.length} live={showEntries s.cur.store.load}")
  | _ => (s, "bad-op")

/-- The protocol state is a stack of model states; the top one is current. -/
def step (st : List DS) (line : String) : List DS × String :=
  match st with
  | [] => ([], "bad-op")
  | s :: rest =>
    match words line with
    | ["push"] => (s :: s :: rest, "ok")
    | ["pop"] => if rest.isEmpty then (st, "bad-op") else (rest, "ok")
    | _ => let r := step1 s line; (r.1 :: rest, r.2)

def main : IO Unit := loop step [⟨Node.fresh 0, [], Node.fresh 0⟩]
