import JunoModel.C13.ProofsCrash3
/-!
C13 — helper lemmas, part 8: histories with any number of crashes.
-/
namespace Juno.C13
variable {S : Type}

/-- A moment at which the process can die, in a history with any number of earlier deaths:
`n` is the node (log + chain) at that moment, `hist` ALL effects performed so far by all process
instances. Either the first process is somewhere in its live run; or, from an earlier moment, the
process died, was restarted and is somewhere in its replay; or it completed the replay and is
somewhere in the live run over further inputs. -/
inductive Moment (M : Machine S) (c0 : Nat) : Node → List Effect → Prop
  | first (ins : List Input) (ok : ListenOK M (M.init (c0 + 1)) ins) (pre post : List Effect)
      (h : (liveRun M (M.init (c0 + 1)) ins).2 = pre ++ post) :
      Moment M c0 (applyEffects (Node.fresh c0) pre) pre
  | replaying (n : Node) (hist : List Effect) (hm : Moment M c0 n hist) (q post : List Effect)
      (h : (recover M n).2.1 = q ++ post) : Moment M c0 (applyEffects n.crash q) (hist ++ q)
  | resumed (n : Node) (hist : List Effect) (hm : Moment M c0 n hist) (cont : List Input)
      (okc : ListenOK M (recover M n).1 cont) (pre post : List Effect)
      (h : (liveRun M (recover M n).1 cont).2 = pre ++ post) :
      Moment M c0 (applyEffects (recover M n).2.2 pre) (hist ++ (recover M n).2.1 ++ pre)
  /-- the first process STOPPED between two inputs — regularly, or because the `SetWALEntry` of the
  next input failed — and `Close` flushed the pending batch -/
  | stoppedFirst (ins : List Input) (ok : ListenOK M (M.init (c0 + 1)) ins) :
      Moment M c0
        (applyEffects (Node.fresh c0) ((liveRun M (M.init (c0 + 1)) ins).2 ++ [Effect.flush]))
        ((liveRun M (M.init (c0 + 1)) ins).2 ++ [Effect.flush])
  /-- a restarted process stopped that way after its replay and any further inputs -/
  | stoppedResumed (n : Node) (hist : List Effect) (hm : Moment M c0 n hist) (cont : List Input)
      (okc : ListenOK M (recover M n).1 cont) :
      Moment M c0
        (applyEffects (recover M n).2.2 ((liveRun M (recover M n).1 cont).2 ++ [Effect.flush]))
        (hist ++ (recover M n).2.1 ++ (liveRun M (recover M n).1 cont).2 ++ [Effect.flush])

theorem moment_durable (M : Machine S) (hs : ReplaySafe M) (c0 : Nat) (n : Node)
    (hist : List Effect) (hm : Moment M c0 n hist) : Durable M c0 n hist := by
  induction hm with
  | first ins ok pre post h =>
    simpa using durable_all M hs c0 ins [] _ [] c0 [] [] (Node.fresh c0) (Ctx.init M hs c0) ok pre post h
  | replaying n hist _ q post h ih => exact (recovery_durable M hs c0 n hist ih).1 q post h
  | resumed n hist _ cont okc pre post h ih =>
    obtain ⟨_, insd, sd, Ed, trd, hsd, ctx⟩ := recovery_durable M hs c0 n hist ih
    rw [hsd] at okc h
    exact durable_all M hs c0 cont insd sd Ed _ trd _ _ ctx okc pre post h
  | stoppedFirst ins ok =>
    have ctx := ctx_all M hs c0 ins [] _ [] c0 [] [] (Node.fresh c0) (Ctx.init M hs c0) ok
    simp only [List.nil_append] at ctx
    simpa [applyEffects_append, applyEffects] using ctx.flush_durable
  | stoppedResumed n hist _ cont okc ih =>
    obtain ⟨_, insd, sd, Ed, trd, hsd, ctx⟩ := recovery_durable M hs c0 n hist ih
    rw [hsd] at okc
    have ctx' := ctx_all M hs c0 cont insd sd Ed _ trd _ _ ctx okc
    rw [hsd]
    simpa [applyEffects_append, applyEffects] using ctx'.flush_durable

/-- From a durable image: the recovered state is the state of the uncrashed LIVE run over inputs
`insd` whose log is exactly the image's flushed entries. -/
theorem durable_recovers_live_run (M : Machine S) (hs : ReplaySafe M) (c0 : Nat) (n : Node)
    (hist : List Effect) (hd : Durable M c0 n hist) :
    ∃ insd, ListenOK M (M.init (c0 + 1)) insd ∧
      (recover M n).1 = (liveRun M (M.init (c0 + 1)) insd).1 ∧
      entriesOfRecs n.store.flushed = loggedEntries M (M.init (c0 + 1)) insd ∧
      (∀ v ∈ votesOf hist, v ∈ votesOf (liveRun M (M.init (c0 + 1)) insd).2) := by
  obtain ⟨sd, Ed, trd, p, insd, ⟨ok, hsd, hEd, htrd⟩, hW, _, _, _, hp, hview, hent, hv⟩ := hd
  obtain ⟨r1, _⟩ := recover_eq M hs n Ed n.chainHeight p rfl hp (by rw [hview])
  exact ⟨insd, ok, by rw [r1, ← hW.state, hsd], by rw [hent, hEd], by rw [← htrd]; exact hv⟩

theorem durable_no_conflict (M : Machine S) (hs : ReplaySafe M) (ne : NoEquivocation M) (c0 : Nat)
    (n : Node) (hist : List Effect) (hd : Durable M c0 n hist) (cont : List Input)
    (okc : ListenOK M (recover M n).1 cont) :
    ∀ v ∈ votesOf hist, ∀ w ∈ votesOf ((recover M n).2.1 ++ (liveRun M (recover M n).1 cont).2),
      ¬ v.conflicts w := by
  obtain ⟨sd, Ed, trd, p, insd, _, hW, _, _, _, hp, hview, _, hv⟩ := hd
  exact no_conflict_core M hs ne sd Ed _ trd hW n p rfl hp (by rw [hview]) hist hv cont okc

/-- Timers: the recovery arms exactly the timers the uncrashed reference run armed for the height
the chain is waiting for, and no timer the reference run did not arm. -/
theorem durable_timers (M : Machine S) (hs : ReplaySafe M) (c0 : Nat) (n : Node)
    (hist : List Effect) (hd : Durable M c0 n hist) :
    ∃ insd, ListenOK M (M.init (c0 + 1)) insd ∧
      entriesOfRecs n.store.flushed = loggedEntries M (M.init (c0 + 1)) insd ∧
      (∀ t ∈ timersOf (recover M n).2.1, t ∈ timersOf (liveRun M (M.init (c0 + 1)) insd).2) ∧
      (∀ t ∈ timersOf (liveRun M (M.init (c0 + 1)) insd).2, t.h = n.chainHeight + 1 →
        t ∈ timersOf (recover M n).2.1) := by
  obtain ⟨sd, Ed, trd, p, insd, ⟨ok, _, hEd, htrd⟩, hW, _, _, _, hp, hview, hent, _⟩ := hd
  obtain ⟨_, r2⟩ := recover_eq M hs n Ed n.chainHeight p rfl hp (by rw [hview])
  refine ⟨insd, ok, by rw [hent, hEd], ?_, ?_⟩
  · intro t ht; rw [r2] at ht; rw [← htrd]; exact hW.timersR t ht
  · intro t ht hh; rw [← htrd] at ht; rw [r2]; exact (hW.timers t ht).2 hh

end Juno.C13
