import JunoModel.C13.ProofsCrash4
/-!
C13 — lemmas about crash IMAGES described by their content (used by the crash-point theorems and by
`regular_stop_recovers_exact_state`). Formerly in `Props.lean`; they quantify over images satisfying
hypotheses, not over crash points, so they are lemmas, not property statements.
-/
namespace Juno.C13
/-- **replay_deterministic.** The node boots with the chain at `c0` and an empty log and processes
ANY inputs `ins` (under the listen discipline). Take ANY crash image `n` in which the chain is one
below the machine's height and the durable live entries are the node's log above some watermark
`p ≤ chain` (pruning may lag behind the chain). Then the restarted node — fresh machine at
`chain + 1`, fed the height-sorted image — (1) ends in exactly the state of the uncrashed run,
(2) re-broadcasts, during replay, every vote the uncrashed run had broadcast at the current height
(prefix-consistent visible effects), and (3) resumes at `chain + 1` where `chain` is the last
delivered height INCLUDING commits completed during the replay. -/
theorem replay_deterministic {S} (M : Machine S) (hs : ReplaySafe M) (c0 : Nat) (ins : List Input)
    (ok : ListenOK M (M.init (c0 + 1)) ins) (n : Node) (p : Nat)
    (hchain : n.chainHeight + 1 = M.height (liveRun M (M.init (c0 + 1)) ins).1)
    (hp : p ≤ n.chainHeight)
    (hview : (view n.store.flushed).2 = above p (loggedEntries M (M.init (c0 + 1)) ins)) :
    (recover M n).1 = (liveRun M (M.init (c0 + 1)) ins).1 ∧
    (∀ v ∈ votesOf (liveRun M (M.init (c0 + 1)) ins).2,
      v.h = M.height (liveRun M (M.init (c0 + 1)) ins).1 → v ∈ votesOf (recover M n).2.1) ∧
    M.height (recover M n).1 = (recover M n).2.2.chainHeight + 1 := by
  have inv := liveInv_run M hs ins _ [] c0 [] (liveInv_init M hs c0) ok
  have hb : M.height (liveRun M (M.init (c0 + 1)) ins).1 - 1 = n.chainHeight := by omega
  rw [hb] at inv
  simp only [List.nil_append] at inv
  obtain ⟨r1, r2⟩ := recover_eq M hs n _ n.chainHeight p rfl hp hview
  refine ⟨by rw [r1, ← inv.state], ?_, ?_⟩
  · intro v hv hvh
    rw [r2]
    exact (inv.votes v hv).2 (by omega)
  · have := resume_height_run M hs n.crash.store.load (M.init (n.crash.chainHeight + 1)) n.crash
      (hs.height_init _)
    exact this

/-- The crash points between the flush in front of a commit and the delivery of that commit: the
machine has already moved to the next height but the chain has not. For the run `ins` followed by
one more input `i` (committing or not), an image that holds the log including `i`'s entry while the
chain is still one below the height BEFORE `i` recovers the state AFTER `i` (a commit is then
re-executed — and delivered — by the replay). -/
theorem replay_deterministic_commit_in_flight {S} (M : Machine S) (hs : ReplaySafe M) (c0 : Nat)
    (ins : List Input) (ok : ListenOK M (M.init (c0 + 1)) ins) (i : Input)
    (hi : M.started (liveRun M (M.init (c0 + 1)) ins).1 = true ∨ i = Input.start)
    (n : Node) (p : Nat)
    (hchain : n.chainHeight + 1 = M.height (liveRun M (M.init (c0 + 1)) ins).1)
    (hp : p ≤ n.chainHeight)
    (hview : (view n.store.flushed).2 = above p (loggedEntries M (M.init (c0 + 1)) ins ++
      walOf (M.step (liveRun M (M.init (c0 + 1)) ins).1 i).2)) :
    (recover M n).1 = (M.step (liveRun M (M.init (c0 + 1)) ins).1 i).1 := by
  have inv := liveInv_run M hs ins _ [] c0 [] (liveInv_init M hs c0) ok
  have hb : M.height (liveRun M (M.init (c0 + 1)) ins).1 - 1 = n.chainHeight := by omega
  rw [hb] at inv
  simp only [List.nil_append] at inv
  obtain ⟨r1, _⟩ := recover_eq M hs n _ n.chainHeight p rfl hp hview
  rcases hs.logged_or_inert _ i hi with ⟨h1, h2⟩ | ⟨e, ar, h2, he, hh, hstart, hw⟩
  · rw [r1, h1, h2]
    simp only [walOf, List.append_nil]
    exact inv.state.symm
  · have hwal : walOf (M.step (liveRun M (M.init (c0 + 1)) ins).1 i).2 = [e] := by
      rw [h2]; simp [walOf, hw]
    rw [r1, hwal]
    exact (liveInv_step M hs _ _ _ _ inv i e ar hi h2 he hh hstart).1.state.symm

/-- **resume_height.** Whatever the crash image, after recovery the machine's height is exactly one
above the last delivered height (deliveries performed while replaying included). -/
theorem resume_height {S} (M : Machine S) (hs : ReplaySafe M) (n : Node) :
    M.height (recover M n).1 = (recover M n).2.2.chainHeight + 1 :=
  resume_height_run M hs n.crash.store.load (M.init (n.crash.chainHeight + 1)) n.crash
    (hs.height_init _)

/-- **Regular stop and restart.** `Run` returns (context cancelled or a listener closed, both only
in the select loop) and its deferred `db.Close()` flushes the pending batch — also entries of
inputs that made nothing visible and were never flushed before. A process restarted on that image
is in exactly the state of the stopped one, and resumes at the right height. -/
theorem regular_stop_recovers_exact_state {S} (M : Machine S) (hs : ReplaySafe M) (c0 : Nat)
    (ins : List Input) (ok : ListenOK M (M.init (c0 + 1)) ins) :
    (recover M (applyEffects (Node.fresh c0)
      ((liveRun M (M.init (c0 + 1)) ins).2 ++ [Effect.flush]))).1 =
      (liveRun M (M.init (c0 + 1)) ins).1 := by
  obtain ⟨hch, p, hp, hview⟩ := stopped_image M hs c0 ins ok
  exact (replay_deterministic M hs c0 ins ok _ p hch hp hview).1

end Juno.C13
