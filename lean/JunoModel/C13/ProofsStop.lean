import JunoModel.C13.ModelStop
import JunoModel.C13.UpTo
import JunoModel.C13.ProofsImage
/-!
C13 — error exits of `driver.Run` are crash points: when a `Flush` fails or a commit is refused the
driver performs nothing further, and the image its `Close` leaves is the image of a process death
at a boundary of the same effect trace. So every recovery theorem (`Moment`) covers them.
-/
namespace Juno.C13
variable {S : Type}

theorem flush_noop_of_pending_empty (n : Node) (h : n.store.pending = []) :
    applyEffect n Effect.flush = n := by
  cases n with
  | mk st ch dl =>
    cases st with
    | mk p f =>
      simp only at h
      subst h
      simp [applyEffect, Store.flush]

/-- Nothing is made visible after the failing effect: what peers and the chain see of the stopped
process is what they saw before the failure. -/
theorem stop_visible (trace : List Effect) (k : Nat) (closeOK : Bool) :
    visibleOf (stopTrace trace k closeOK) = visibleOf (trace.take k) := by
  unfold stopTrace
  cases closeOK <;> simp [visibleOf, Effect.observable]

theorem stop_votes (trace : List Effect) (k : Nat) (closeOK : Bool) :
    votesOf (stopTrace trace k closeOK) = votesOf (trace.take k) := by
  unfold stopTrace
  cases closeOK <;> simp [votesOf, Effect.vote?]

/-- The node a stopped process leaves behind, for a failing FLUSH or a REFUSED COMMIT at any point
of the trace of any live run from any boot node with an empty pending batch: it is the node after a
PREFIX of the same trace (a crash point), and that prefix contains the same votes. -/
theorem stop_node_is_prefix_node (M : Machine S) (s : S) (ins : List Input) (n : Node)
    (hn : n.store.pending = []) (pre : List Effect) (x : Effect) (post : List Effect)
    (hsplit : (liveRun M s ins).2 = pre ++ x :: post)
    (hx : x = Effect.flush ∨ (∃ h v, x = Effect.deliver h v)) (closeOK : Bool) :
    ∃ pre' post', (liveRun M s ins).2 = pre' ++ post' ∧
      applyEffects n (stopTrace (liveRun M s ins).2 pre.length closeOK) = applyEffects n pre' ∧
      votesOf pre' = votesOf pre := by
  have htake : (liveRun M s ins).2.take pre.length = pre := by
    rw [hsplit]; simp
  unfold stopTrace
  rw [htake]
  cases closeOK with
  | false => exact ⟨pre, x :: post, hsplit, by simp, rfl⟩
  | true =>
    rcases hx with rfl | ⟨h, v, rfl⟩
    · -- the flush that failed in `execute` is retried by `Close`: the next boundary of the trace
      refine ⟨pre ++ [Effect.flush], post, by rw [hsplit]; simp, by simp, ?_⟩
      simp [votesOf, Effect.vote?]
    · -- a refused commit: a flush precedes it, nothing is pending, `Close` changes nothing
      have hp := pending_empty_at_visible _ true n (fun _ => hn) (safe_liveRun M s ins true)
        pre _ post hsplit rfl
      refine ⟨pre, Effect.deliver h v :: post, hsplit, ?_, rfl⟩
      simp only [if_true, applyEffects_append]
      exact flush_noop_of_pending_empty _ hp

/-- **An error stop of the first process is a `Moment`**: the recovery theorems apply to the image it
leaves (restart after a failed flush / a refused commit never contradicts what was sent, resumes at
the right height, replays exactly the durable inputs). -/
theorem error_stop_moment_first (M : Machine S) (c0 : Nat) (ins : List Input)
    (ok : ListenOK M (M.init (c0 + 1)) ins) (pre : List Effect) (x : Effect) (post : List Effect)
    (hsplit : (liveRun M (M.init (c0 + 1)) ins).2 = pre ++ x :: post)
    (hx : x = Effect.flush ∨ (∃ h v, x = Effect.deliver h v)) (closeOK : Bool) :
    ∃ hist, Moment M c0
      (applyEffects (Node.fresh c0) (stopTrace (liveRun M (M.init (c0 + 1)) ins).2 pre.length closeOK))
      hist ∧ votesOf hist = votesOf pre := by
  obtain ⟨pre', post', h1, h2, h3⟩ :=
    stop_node_is_prefix_node M (M.init (c0 + 1)) ins (Node.fresh c0) rfl pre x post hsplit hx closeOK
  refine ⟨pre', ?_, h3⟩
  rw [h2]
  exact Moment.first ins ok pre' post' h1

theorem peAfter_sound (es : List Effect) (pe : Bool) (n : Node)
    (h : pe = true → n.store.pending = []) (hp : peAfter pe es = true) :
    (applyEffects n es).store.pending = [] := by
  induction es generalizing pe n with
  | nil => exact h hp
  | cons x es ih =>
    rw [applyEffects_cons]
    exact ih (peStep pe x) (applyEffect n x) (peStep_sound n pe x h) hp

theorem recover_node_pending (M : Machine S) (n : Node) :
    (recover M n).2.2.store.pending = [] := by
  have hs := safe_replayRun M (M.init (n.crash.chainHeight + 1)) n.crash.store.load
  simp only [recover]
  exact peAfter_sound _ true n.crash (fun _ => rfl) hs.2

/-- **An error stop of a restarted process (after its replay) is a `Moment`**, too — histories with
any number of crashes and error stops. -/
theorem error_stop_moment_resumed (M : Machine S) (c0 : Nat) (n : Node) (hist : List Effect)
    (hm : Moment M c0 n hist) (cont : List Input) (okc : ListenOK M (recover M n).1 cont)
    (pre : List Effect) (x : Effect) (post : List Effect)
    (hsplit : (liveRun M (recover M n).1 cont).2 = pre ++ x :: post)
    (hx : x = Effect.flush ∨ (∃ h v, x = Effect.deliver h v)) (closeOK : Bool) :
    ∃ hist', Moment M c0
      (applyEffects (recover M n).2.2 (stopTrace (liveRun M (recover M n).1 cont).2 pre.length closeOK))
      hist' ∧ votesOf hist' = votesOf (hist ++ (recover M n).2.1 ++ pre) := by
  obtain ⟨pre', post', h1, h2, h3⟩ :=
    stop_node_is_prefix_node M (recover M n).1 cont (recover M n).2.2 (recover_node_pending M n)
      pre x post hsplit hx closeOK
  refine ⟨hist ++ (recover M n).2.1 ++ pre', ?_, ?_⟩
  · rw [h2]
    exact Moment.resumed n hist hm cont okc pre' post' h1
  · simp only [votesOf_append, h3]

/-- **Regular stop and restart, up to `≈`**: what `regular_stop_recovers_exact_state` says for
machines that satisfy the hypotheses only up to the bisimulation `r` (as juno's does). -/
theorem regular_stop_upTo {M : Machine S} {r : Setoid S} (h : ReplaySafeUpTo M r) (c0 : Nat)
    (ins : List Input) (ok : ListenOK M (M.init (c0 + 1)) ins) :
    r.r (recover M (applyEffects (Node.fresh c0)
      ((liveRun M (M.init (c0 + 1)) ins).2 ++ [Effect.flush]))).1
      (liveRun M (M.init (c0 + 1)) ins).1 := by
  have e1 : (quotMachine M r h.bisim).init (c0 + 1) = Quotient.mk r (M.init (c0 + 1)) := rfl
  have := regular_stop_recovers_exact_state (quotMachine M r h.bisim) h.quot c0 ins
    (by rw [e1]; exact (quot_listenOK M r h.bisim ins _).2 ok)
  rw [e1, quot_liveRun] at this
  simp only at this
  rw [quot_recover] at this
  exact Quotient.exact this

end Juno.C13
