import JunoModel.C13.ModelCommit
/-!
C13 — `OnCommit` answers true only for a block the persister acknowledged; the driver prunes the
log of a height only then.
-/
namespace Juno.C13

/-- `OnCommit` returns true exactly when the build result was found, the persister took the block
and acknowledged it. -/
theorem onCommit_true_iff (e : CommitEnv) :
    (onCommit e).1 = true ↔ e.found = true ∧ e.handedOver = true ∧ e.persist = .ack := by
  cases e with
  | mk f ho p => cases f <;> cases ho <;> cases p <;> simp [onCommit]

/-- True ⇒ acknowledged, and the build results are dropped (`FinalizeHeight`) only after the
acknowledgement, as the last step. -/
theorem onCommit_true_steps (e : CommitEnv) (h : (onCommit e).1 = true) :
    (onCommit e).2 = [.handover, .acked, .hooks, .finalize] := by
  cases e with
  | mk f ho p => cases f <;> cases ho <;> cases p <;> simp [onCommit] at h ⊢

/-- False ⇒ not acknowledged as far as this call knows, and nothing finalized: the build result of
the value stays in the proposal store, a later attempt (the replay of the restarted process, as long
as the store lives) can still deliver it. -/
theorem onCommit_false_steps (e : CommitEnv) (h : (onCommit e).1 = false) :
    CStep.acked ∉ (onCommit e).2 ∧ CStep.finalize ∉ (onCommit e).2 ∧ CStep.hooks ∉ (onCommit e).2 := by
  cases e with
  | mk f ho p => cases f <;> cases ho <;> cases p <;> simp [onCommit] at h ⊢

/-- **The log of a height is pruned only when its block is acknowledged.** `Driver.commit` performs
`DeleteWALEntries` (and anything at all) only if the persister acknowledged the block; otherwise it
returns an error — the context's if it ended, else "commit listener failed" — with no effect, so the
entries of the height stay in the log and the chain height stays where it was. -/
theorem driverCommit_spec (e : CommitEnv) (ctxEnded : Bool) (h v : Nat) :
    ((driverCommit e ctxEnded h v).1 = .ok ↔ e.found = true ∧ e.handedOver = true ∧ e.persist = .ack) ∧
    ((driverCommit e ctxEnded h v).1 = .ok →
      (driverCommit e ctxEnded h v).2 = [Effect.deliver h v, Effect.prune h, Effect.flush] ∧
      CStep.acked ∈ (onCommit e).2) ∧
    ((driverCommit e ctxEnded h v).1 ≠ .ok →
      (driverCommit e ctxEnded h v).2 = [] ∧ CStep.acked ∉ (onCommit e).2 ∧
      (driverCommit e ctxEnded h v).1 = (if ctxEnded then .ctxErr else .refused)) := by
  cases e with
  | mk f ho p =>
    cases f <;> cases ho <;> cases p <;> cases ctxEnded <;> simp [driverCommit, onCommit]

/-- The commit case of `effectsOf` is `driverCommit` with an acknowledging environment. -/
theorem effectsOf_commit_is_driverCommit (replaying : Bool) (h v : Nat) (rest : List Action)
    (ctxEnded : Bool) :
    effectsOf replaying (Action.commit h v :: rest) =
      (if !replaying then [Effect.flush] else []) ++
        (driverCommit ⟨true, true, .ack⟩ ctxEnded h v).2 := by
  cases replaying <;> simp [effectsOf, Action.requiresWALFlush, driverCommit, onCommit]

end Juno.C13
