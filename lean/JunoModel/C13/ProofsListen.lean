import JunoModel.C13.ModelListen
import JunoModel.C13.ProofsCurrent
/-!
C13 — the listen discipline `ListenOK` is a theorem about the call structure of `driver.listen`
(`ModelListen.driverSeq`), for every machine in which `ProcessStart` starts the height and a call
without a commit does not un-start it — in particular for juno's state machine.
-/
namespace Juno.C13
open Juno
variable {S : Type}

/-- What the discipline needs from the machine. -/
structure StartsHeights (M : Machine S) : Prop where
  /-- after `ProcessStart(0)` the height is started (unless the call already decided it) -/
  start_starts : ∀ s, committed (M.step s Input.start).2 = false →
    M.started (M.step s Input.start).1 = true
  /-- a call that does not commit leaves a started height started -/
  started_stays : ∀ s i, M.started s = true → committed (M.step s i).2 = false →
    M.started (M.step s i).1 = true

theorem driverSeq_listenOK {M : Machine S} (h : StartsHeights M) :
    ∀ (ins : List Input) (s : S) (needStart : Bool), (needStart = false → M.started s = true) →
      driverSeq M needStart s ins = true → ListenOK M s ins := by
  intro ins
  induction ins with
  | nil => intro _ _ _ _; trivial
  | cons i rest ih =>
    intro s ns hst hd
    simp only [driverSeq, Bool.and_eq_true, beq_iff_eq] at hd
    obtain ⟨hi, hrest⟩ := hd
    refine ⟨?_, ih _ _ ?_ hrest⟩
    · cases ns with
      | true => exact Or.inr (by simpa using hi)
      | false => exact Or.inl (hst rfl)
    · intro hc
      cases ns with
      | true =>
        have : i = Input.start := by simpa using hi
        subst this
        exact h.start_starts s hc
      | false => exact h.started_stays s i (hst rfl) hc

/-! ## juno's machine starts heights -/

theorem startRound_started (env : C12.Env) (m : C12.Machine) (r : Int) :
    (m.startRound env r).1.isHeightStarted = m.isHeightStarted := by
  unfold C12.Machine.startRound
  simp only
  split
  · split <;> simp [C12.Machine.sendProposal, C12.Machine.resetState]
  · simp [C12.Machine.resetState]

/-- One rule firing that is not the commit rule leaves `isHeightStarted` alone. -/
theorem process_started (env : C12.Env) (m : C12.Machine) (rr : Option Int) :
    (∀ p, (m.process env rr).2.1 ≠ some (C12.Action.commit p)) →
      (m.process env rr).1.isHeightStarted = m.isHeightStarted := by
  unfold C12.Machine.process
  split
  · simp [C12.Machine.doFirstProposal, C12.Machine.setStepAndSendPrevote]
  · simp [C12.Machine.doProposalAndPolkaPrevious, C12.Machine.setStepAndSendPrevote]
  · simp [C12.Machine.doPolkaAny, C12.Machine.scheduleTimeout]
  · unfold C12.Machine.doProposalAndPolkaCurrent
    by_cases hst : (m.state.step == C12.Step.prevote) = true
    · simp [hst, C12.Machine.setStepAndSendPrecommit]
    · simp [hst]
  · simp [C12.Machine.doPolkaNil, C12.Machine.setStepAndSendPrecommit]
  · simp [C12.Machine.doPrecommitAny, C12.Machine.scheduleTimeout]
  · simp [C12.Machine.doCommitValue]
  · intro _
    simp only [C12.Machine.doSkipRound]
    exact startRound_started env m _
  · simp

theorem loop_started (env : C12.Env) (rr : Option Int) : ∀ (fuel : Nat) (m : C12.Machine)
    (acc : List C12.Action),
    ∃ out, (C12.Machine.processLoopAux env rr fuel m acc).2.1 = acc ++ out ∧
      ((∀ p, C12.Action.commit p ∉ out) →
        (C12.Machine.processLoopAux env rr fuel m acc).1.isHeightStarted = m.isHeightStarted) := by
  intro fuel
  induction fuel with
  | zero =>
    intro m acc
    exact ⟨[], by simp [C12.Machine.processLoopAux], fun _ => by simp [C12.Machine.processLoopAux]⟩
  | succ n ih =>
    intro m acc
    have hp := process_started env m rr
    unfold C12.Machine.processLoopAux
    generalize m.process env rr = res at hp
    obtain ⟨m', a, cont⟩ := res
    simp only at hp ⊢
    cases a with
    | none =>
      have hm' : m'.isHeightStarted = m.isHeightStarted := hp (by simp)
      cases cont with
      | false => exact ⟨[], by simp, fun _ => hm'⟩
      | true =>
        simp only [if_true]
        obtain ⟨out, e1, e2⟩ := ih m' acc
        exact ⟨out, e1, fun hn => by rw [e2 hn, hm']⟩
    | some x =>
      cases cont with
      | false =>
        refine ⟨[x], by simp, fun hn => hp (fun p hpp => ?_)⟩
        simp at hpp; subst hpp; exact hn p (by simp)
      | true =>
        simp only [if_true]
        obtain ⟨out, e1, e2⟩ := ih m' (acc ++ [x])
        refine ⟨[x] ++ out, by rw [e1, List.append_assoc], fun hn => ?_⟩
        have hm' : m'.isHeightStarted = m.isHeightStarted :=
          hp (fun p hpp => by simp at hpp; subst hpp; exact hn p (by simp))
        rw [e2 (fun p hpp => hn p (List.mem_append_right _ hpp)), hm']

theorem processLoop_started (env : C12.Env) (m : C12.Machine) (acc : List C12.Action)
    (rr : Option Int) (hn : ∀ p, C12.Action.commit p ∉ (m.processLoop env acc rr).2) :
    (m.processLoop env acc rr).1.isHeightStarted = m.isHeightStarted := by
  unfold C12.Machine.processLoop at hn ⊢
  obtain ⟨out, e1, e2⟩ := loop_started env rr C12.loopFuel m acc
  apply e2
  intro p hp
  apply hn p
  show C12.Action.commit p ∈ (C12.Machine.processLoopAux env rr C12.loopFuel m acc).2.1
  rw [e1]; exact List.mem_append_right _ hp

theorem processMessage_started (env : C12.Env) (m : C12.Machine) (h : Nat) (r : Int)
    (w : C12.WalEntry) (hn : ∀ p, C12.Action.commit p ∉ (m.processMessage env h r w).2) :
    (m.processMessage env h r w).1.isHeightStarted = m.isHeightStarted := by
  unfold C12.Machine.processMessage at hn ⊢
  split
  · rfl
  · rename_i hh
    simp only [hh] at hn
    exact processLoop_started env m _ _ hn

theorem onTimeout_started (env : C12.Env) (m : C12.Machine) (s : C12.Step) (h : Nat) (r : Int) :
    (m.onTimeout env s h r).1.isHeightStarted = m.isHeightStarted := by
  unfold C12.Machine.onTimeout
  cases s <;> simp only <;> split
  · simp [C12.Machine.setStepAndSendPrevote]
  · rfl
  · simp [C12.Machine.setStepAndSendPrecommit]
  · rfl
  · exact startRound_started env m _
  · rfl

/-- A call of C12's machine that returns no commit: `isHeightStarted` afterwards is `true` for a
`start`, unchanged otherwise. -/
theorem step_started (env : C12.Env) (m : C12.Machine) (ci : C12.Input)
    (hci : ∀ p vs, ci ≠ .sync p vs) (hw : ∀ e, ci ≠ .wal e)
    (hn : ∀ p, C12.Action.commit p ∉ (m.step env ci).2) :
    (m.step env ci).1.isHeightStarted = (match ci with | .start _ => true | _ => m.isHeightStarted) := by
  cases ci with
  | start r =>
    simp only [C12.Machine.step, C12.Machine.processStart] at hn ⊢
    split
    · rename_i hs; simpa using hs
    · rename_i hs
      simp only [hs, Bool.false_eq_true, if_false] at hn
      have := processLoop_started env ({ m with isHeightStarted := true }.startRound env r).1
        [({ m with isHeightStarted := true }.startRound env r).2] none
        (fun p hp => hn p (by simp [hp]))
      simp only
      rw [this, startRound_started]
  | proposal p =>
    simp only [C12.Machine.step, C12.Machine.processProposal] at hn ⊢
    split
    · rfl
    · rename_i hh
      simp only [hh] at hn
      exact processMessage_started env _ _ _ _ hn
  | prevote v =>
    simp only [C12.Machine.step, C12.Machine.processPrevote] at hn ⊢
    split
    · rfl
    · rename_i hh
      simp only [hh] at hn
      exact processMessage_started env _ _ _ _ hn
  | precommit v =>
    simp only [C12.Machine.step, C12.Machine.processPrecommit] at hn ⊢
    split
    · rfl
    · rename_i hh
      simp only [hh] at hn
      split
      · rename_i hq
        simp only [hq, if_true] at hn
        split
        · rfl
        · rename_i hf
          simp only [hf] at hn
          exact processMessage_started env _ _ _ _ hn
      · rename_i hq
        simp only [hq] at hn
        exact processMessage_started env _ _ _ _ hn
  | timeout s h r =>
    simp only [C12.Machine.step, C12.Machine.processTimeout] at hn ⊢
    split
    · exact onTimeout_started env m s h r
    · rename_i hh
      simp only [hh] at hn
      rw [processLoop_started env _ _ _ hn, onTimeout_started]
  | sync p vs => exact absurd rfl (hci p vs)
  | wal e => exact absurd rfl (hw e)

theorem convInput_not_sync_wal (i : Input) (ci : C12.Input) (h : convInput i = some ci) :
    (∀ p vs, ci ≠ .sync p vs) ∧ (∀ e, ci ≠ .wal e) := by
  cases i <;> simp [convInput] at h
  all_goals first
    | (subst h; exact ⟨fun _ _ hh => (by cases hh), fun _ hh => (by cases hh)⟩)
    | (obtain ⟨s, _, rfl⟩ := h; exact ⟨fun _ _ hh => (by cases hh), fun _ hh => (by cases hh)⟩)

theorem tmQuiet_step_acts (env : C12.Env) (node : Nat) (m : C12.Machine) (i : Input)
    (ci : C12.Input) (h : convInput i = some ci) :
    ((tmMachineQuiet env node).step m i).2 = drvActs (m.step env ci).2 ∧
      ((tmMachineQuiet env node).step m i).1 = (m.step env ci).1 := by
  simp [tmMachineQuiet, tmMachine, h, drvActs]

/-- **juno's state machine starts heights**: after `ProcessStart(0)` without a commit the height is
started; a call without a commit leaves a started height started. Every state, every input. -/
theorem tmQuiet_startsHeights (env : C12.Env) (node : Nat) :
    StartsHeights (tmMachineQuiet env node) where
  start_starts := by
    intro m hc
    obtain ⟨ha, hs⟩ := tmQuiet_step_acts env node m .start (.start 0) rfl
    rw [ha] at hc
    have hn : ∀ p, C12.Action.commit p ∉ (m.step env (.start 0)).2 := by
      intro p hp
      have := (committed_drvActs _).2 ⟨p, hp⟩
      rw [hc] at this; cases this
    show ((tmMachineQuiet env node).step m .start).1.isHeightStarted = true
    rw [hs]
    exact step_started env m (.start 0) (fun _ _ h => by cases h) (fun _ h => by cases h) hn
  started_stays := by
    intro m i hst hc
    show ((tmMachineQuiet env node).step m i).1.isHeightStarted = true
    cases hci : convInput i with
    | none =>
      have : ((tmMachineQuiet env node).step m i).1 = m := by simp [tmMachineQuiet, tmMachine, hci]
      rw [this]; exact hst
    | some ci =>
      obtain ⟨ha, hs⟩ := tmQuiet_step_acts env node m i ci hci
      rw [ha] at hc
      have hn : ∀ p, C12.Action.commit p ∉ (m.step env ci).2 := by
        intro p hp
        have := (committed_drvActs _).2 ⟨p, hp⟩
        rw [hc] at this; cases this
      obtain ⟨h1, h2⟩ := convInput_not_sync_wal i ci hci
      rw [hs, step_started env m ci h1 h2 hn]
      cases ci <;> first | rfl | exact hst

end Juno.C13
