import JunoModel.C13.ModelSync
import JunoModel.C13.ProofsReplay2
/-!
C13 — the driver's block-sync logic is an OVERLAY: executing `TriggerSync` for real (instead of
recording it, as `effectsOf` does) adds block fetches and nothing else; the fetch decisions; the
re-execution of stale actions after a failed fetch repeats votes, it never adds one.
-/
namespace Juno.C13

theorem baseOf_append (a b : List XEffect) : baseOf (a ++ b) = baseOf a ++ baseOf b := by
  induction a with
  | nil => rfl
  | cons x a ih => cases x <;> simp [baseOf, ih]

theorem baseOf_map_base (l : List Effect) : baseOf (l.map XEffect.base) = l := by
  induction l with
  | nil => rfl
  | cons x l ih => simp [baseOf, ih]

theorem fetchesOf_append (a b : List XEffect) : fetchesOf (a ++ b) = fetchesOf a ++ fetchesOf b := by
  induction a with
  | nil => rfl
  | cons x a ih => cases x <;> simp [fetchesOf, ih]

theorem fetchesOf_map_base (l : List Effect) : fetchesOf (l.map XEffect.base) = [] := by
  induction l with
  | nil => rfl
  | cons x l ih => simp [fetchesOf, ih]

theorem baseOf_syncCurrentHeight (d : Drv) (h : Nat) : baseOf (syncCurrentHeight d h) = [] := by
  unfold syncCurrentHeight; split <;> rfl

theorem baseOf_triggerSync (d : Drv) (h e : Nat) : baseOf (triggerSync d h e).2 = [] := by
  unfold triggerSync
  simp only
  split
  · rfl
  · exact baseOf_syncCurrentHeight _ _

theorem effectsOf_cons_noncommit (replaying : Bool) (a : Action) (rest : List Action)
    (h : ∀ hh v, a ≠ Action.commit hh v) :
    effectsOf replaying (a :: rest) = effectsOf replaying [a] ++ effectsOf replaying rest := by
  cases a <;> simp [effectsOf] <;> exact absurd rfl (h _ _)

/-- **The sync logic is an overlay.** Whatever `lastQuorum` and the state machine's height are,
the log / broadcast / timer / commit effects of `execute` with `TriggerSync` really executed are
exactly `effectsOf`: every theorem about `liveRun` / `replayRun` holds for the driver with its sync
logic. -/
theorem executeX_base (replaying : Bool) (smHeight : Nat) (d : Drv) (acts : List Action) :
    baseOf (executeX replaying smHeight d acts).2 = effectsOf replaying acts := by
  induction acts generalizing d with
  | nil => rfl
  | cons a rest ih =>
    cases a with
    | commit h v =>
      simp only [executeX, baseOf_map_base]
      simp [effectsOf]
    | triggerSync s e =>
      simp only [executeX, baseOf_append, baseOf_map_base, baseOf_triggerSync, ih, List.append_nil]
      exact (effectsOf_cons_noncommit replaying _ rest (by intro _ _ h; cases h)).symm
    | writeWAL w =>
      simp only [executeX, baseOf_append, baseOf_map_base, ih]
      exact (effectsOf_cons_noncommit replaying _ rest (by intro _ _ h; cases h)).symm
    | broadcastProposal h r vr v =>
      simp only [executeX, baseOf_append, baseOf_map_base, ih]
      exact (effectsOf_cons_noncommit replaying _ rest (by intro _ _ h; cases h)).symm
    | broadcastPrevote h r id =>
      simp only [executeX, baseOf_append, baseOf_map_base, ih]
      exact (effectsOf_cons_noncommit replaying _ rest (by intro _ _ h; cases h)).symm
    | broadcastPrecommit h r id =>
      simp only [executeX, baseOf_append, baseOf_map_base, ih]
      exact (effectsOf_cons_noncommit replaying _ rest (by intro _ _ h; cases h)).symm
    | scheduleTimeout st h r =>
      simp only [executeX, baseOf_append, baseOf_map_base, ih]
      exact (effectsOf_cons_noncommit replaying _ rest (by intro _ _ h; cases h)).symm

theorem triggerSync_mono (d : Drv) (h e : Nat) : d.lastQuorum ≤ (triggerSync d h e).1.lastQuorum := by
  simp only [triggerSync]; exact Nat.le_max_left _ _

/-- `lastQuorum` never decreases while actions are executed. -/
theorem executeX_mono (replaying : Bool) (smHeight : Nat) (d : Drv) (acts : List Action) :
    d.lastQuorum ≤ (executeX replaying smHeight d acts).1.lastQuorum := by
  induction acts generalizing d with
  | nil => exact Nat.le_refl _
  | cons a rest ih =>
    cases a <;> simp only [executeX] <;> first
      | exact Nat.le_refl _
      | exact ih d
      | exact Nat.le_trans (triggerSync_mono d smHeight _) (ih _)

theorem fetches_syncCurrentHeight (d : Drv) (h : Nat) (x : Nat)
    (hx : x ∈ fetchesOf (syncCurrentHeight d h)) : x = h ∧ d.lastQuorum > h := by
  unfold syncCurrentHeight at hx
  split at hx
  · rename_i hq
    simp [fetchesOf] at hx
    exact ⟨hx, by simpa [Drv.hasFutureQuorum] using hq⟩
  · simp [fetchesOf] at hx

/-- **A block is only fetched for the state machine's current height, and only while a precommit
quorum of a later height is known** (`lastQuorum` after the call is above that height). -/
theorem executeX_fetch_spec (replaying : Bool) (smHeight : Nat) (d : Drv) (acts : List Action)
    (x : Nat) (hx : x ∈ fetchesOf (executeX replaying smHeight d acts).2) :
    x = smHeight ∧ (executeX replaying smHeight d acts).1.lastQuorum > smHeight := by
  induction acts generalizing d with
  | nil => simp [executeX, fetchesOf] at hx
  | cons a rest ih =>
    cases a with
    | commit h v => simp [executeX, fetchesOf_map_base] at hx
    | triggerSync s e =>
      simp only [executeX, fetchesOf_append, fetchesOf_map_base, List.nil_append, List.mem_append] at hx ⊢
      rcases hx with hx | hx
      · have hm : max d.lastQuorum e ≤
            (executeX replaying smHeight (triggerSync d smHeight e).1 rest).1.lastQuorum :=
          executeX_mono replaying smHeight (triggerSync d smHeight e).1 rest
        unfold triggerSync at hx
        simp only at hx
        split at hx
        · simp [fetchesOf] at hx
        · obtain ⟨h1, h2⟩ := fetches_syncCurrentHeight _ _ _ hx
          have h2' : max d.lastQuorum e > smHeight := h2
          exact ⟨h1, by omega⟩
      · exact ih _ hx
    | writeWAL w =>
      simp only [executeX, fetchesOf_append, fetchesOf_map_base, List.nil_append] at hx ⊢
      exact ih _ hx
    | broadcastProposal h r vr v =>
      simp only [executeX, fetchesOf_append, fetchesOf_map_base, List.nil_append] at hx ⊢
      exact ih _ hx
    | broadcastPrevote h r id =>
      simp only [executeX, fetchesOf_append, fetchesOf_map_base, List.nil_append] at hx ⊢
      exact ih _ hx
    | broadcastPrecommit h r id =>
      simp only [executeX, fetchesOf_append, fetchesOf_map_base, List.nil_append] at hx ⊢
      exact ih _ hx
    | scheduleTimeout st h r =>
      simp only [executeX, fetchesOf_append, fetchesOf_map_base, List.nil_append] at hx ⊢
      exact ih _ hx

/-- Once a future quorum is known, executing further actions starts no fetch. -/
theorem executeX_no_fetch_when_known (replaying : Bool) (smHeight : Nat) (d : Drv)
    (acts : List Action) (hq : d.lastQuorum > smHeight) :
    fetchesOf (executeX replaying smHeight d acts).2 = [] := by
  induction acts generalizing d with
  | nil => rfl
  | cons a rest ih =>
    cases a with
    | commit h v => simp [executeX, fetchesOf_map_base]
    | triggerSync s e =>
      have hm := triggerSync_mono d smHeight e
      simp only [executeX, fetchesOf_append, fetchesOf_map_base, List.nil_append]
      rw [ih _ (by omega)]
      simp [triggerSync, Drv.hasFutureQuorum, hq, fetchesOf]
    | writeWAL w => simp only [executeX, fetchesOf_append, fetchesOf_map_base, List.nil_append]; exact ih d hq
    | broadcastProposal h r vr v => simp only [executeX, fetchesOf_append, fetchesOf_map_base, List.nil_append]; exact ih d hq
    | broadcastPrevote h r id => simp only [executeX, fetchesOf_append, fetchesOf_map_base, List.nil_append]; exact ih d hq
    | broadcastPrecommit h r id => simp only [executeX, fetchesOf_append, fetchesOf_map_base, List.nil_append]; exact ih d hq
    | scheduleTimeout st h r => simp only [executeX, fetchesOf_append, fetchesOf_map_base, List.nil_append]; exact ih d hq

/-- **At most one fetch per executed action list**: the first `TriggerSync` that finds no future
quorum known starts it, every later one sees `hasFutureQuorum`. -/
theorem executeX_at_most_one_fetch (replaying : Bool) (smHeight : Nat) (d : Drv)
    (acts : List Action) : (fetchesOf (executeX replaying smHeight d acts).2).length ≤ 1 := by
  induction acts generalizing d with
  | nil => simp [executeX, fetchesOf]
  | cons a rest ih =>
    cases a with
    | commit h v => simp [executeX, fetchesOf_map_base]
    | triggerSync s e =>
      simp only [executeX, fetchesOf_append, fetchesOf_map_base, List.nil_append, List.length_append]
      by_cases hq : (triggerSync d smHeight e).1.lastQuorum > smHeight
      · rw [executeX_no_fetch_when_known _ _ _ _ hq]
        simp only [List.length_nil, Nat.add_zero]
        unfold triggerSync syncCurrentHeight
        simp only
        split
        · simp [fetchesOf]
        · split <;> simp [fetchesOf]
      · have h0 : fetchesOf (triggerSync d smHeight e).2 = [] := by
          unfold triggerSync syncCurrentHeight
          simp only
          split
          · rfl
          · split
            · rename_i hh
              simp only [triggerSync] at hq
              simp [Drv.hasFutureQuorum] at hh
              omega
            · rfl
        rw [h0]; simpa using ih _
    | writeWAL w => simp only [executeX, fetchesOf_append, fetchesOf_map_base, List.nil_append]; exact ih d
    | broadcastProposal h r vr v => simp only [executeX, fetchesOf_append, fetchesOf_map_base, List.nil_append]; exact ih d
    | broadcastPrevote h r id => simp only [executeX, fetchesOf_append, fetchesOf_map_base, List.nil_append]; exact ih d
    | broadcastPrecommit h r id => simp only [executeX, fetchesOf_append, fetchesOf_map_base, List.nil_append]; exact ih d
    | scheduleTimeout st h r => simp only [executeX, fetchesOf_append, fetchesOf_map_base, List.nil_append]; exact ih d

/-! ## `listen` -/

variable {S : Type}

theorem runActs_base (M : Machine S) (st : LState S) (s' : S) (acts : List Action) :
    baseOf (runActs M st s' acts).2 = effectsOf false acts := by
  simp only [runActs, baseOf_append, executeX_base]
  split
  · rw [baseOf_syncCurrentHeight]; simp
  · simp [baseOf]

/-- One message or timeout: the log / broadcast / timer / commit effects of `listen` are
`liveRun`'s, the new state is `M.step`'s, and `actions` holds what the call returned. -/
theorem listenStep_msg (M : Machine S) (st : LState S) (i : Input) :
    (listenStep M st (.msg i)).1.s = (M.step st.s i).1 ∧
    (listenStep M st (.msg i)).1.last = (M.step st.s i).2 ∧
    baseOf (listenStep M st (.msg i)).2 = effectsOf false (M.step st.s i).2 :=
  ⟨rfl, rfl, runActs_base M st _ _⟩

/-- A gossiped message that carries the sync pseudo-sender never reaches the state machine and
changes nothing. -/
theorem listenStep_pseudo (M : Machine S) (st : LState S) :
    listenStep M st .pseudo = (st, []) := rfl

/-- **A failed block fetch re-executes the previous input's actions** (`actions` is not reset in
that branch of `listen`): the state machine is not called, the effects are those of executing
`st.last` once more — in particular the votes broadcast are exactly the votes of `st.last`, which
were broadcast when it was executed the first time. No new vote, hence no new conflict. -/
theorem listenStep_syncErr (M : Machine S) (st : LState S) :
    (listenStep M st .syncErr).1.s = st.s ∧
    (listenStep M st .syncErr).1.last = st.last ∧
    baseOf (listenStep M st .syncErr).2 = effectsOf false st.last ∧
    votesOf (baseOf (listenStep M st .syncErr).2) = votesOf (effectsOf false st.last) := by
  refine ⟨rfl, rfl, ?_, ?_⟩ <;>
    simp only [listenStep, baseOf_append, baseOf_syncCurrentHeight, List.nil_append, runActs_base]

/-- Repeating votes that are already in a trace creates no conflict that was not there. -/
theorem no_new_conflict_of_repeated (hist extra : List Effect)
    (hsub : ∀ v ∈ votesOf extra, v ∈ votesOf hist)
    (hok : ∀ v ∈ votesOf hist, ∀ w ∈ votesOf hist, ¬ v.conflicts w) :
    ∀ v ∈ votesOf (hist ++ extra), ∀ w ∈ votesOf (hist ++ extra), ¬ v.conflicts w := by
  intro v hv w hw
  rw [votesOf_append, List.mem_append] at hv hw
  have hv' : v ∈ votesOf hist := hv.elim id (hsub v)
  have hw' : w ∈ votesOf hist := hw.elim id (hsub w)
  exact hok v hv' w hw'

end Juno.C13
