import JunoModel.C13.ProofsToy
/-!
C13 — the toy machine never equivocates (`NoEquivocation`), so the crash theorems are instantiated
by a machine that really votes.
-/
namespace Juno.C13

/-- Flags are only set in a started height. -/
def Toy.WF (t : Toy) : Prop := t.started = false → t.prevoted = false ∧ t.precommitted = false

theorem toy_wf_init (h : Nat) : (Toy.init h).WF := fun _ => ⟨rfl, rfl⟩

/-- What one step of the toy machine broadcasts: nothing, one prevote or one precommit — for the
current height, only if the corresponding flag was clear, and the flag is set afterwards. -/
theorem toy_step_votes (p : Nat → Bool) (app : Nat → Nat) (t : Toy) (i : Input) (wf : t.WF) :
    (Toy.step p app t i).1.WF ∧
    ((Toy.step p app t i).1.height = t.height →
      (t.prevoted = true → (Toy.step p app t i).1.prevoted = true) ∧
      (t.precommitted = true → (Toy.step p app t i).1.precommitted = true)) ∧
    (votesOf (effectsOf true (Toy.step p app t i).2) = [] ∨
     (∃ r id, votesOf (effectsOf true (Toy.step p app t i).2) = [⟨.prevote, t.height, r, id⟩] ∧
        t.prevoted = false ∧ (Toy.step p app t i).1.prevoted = true ∧
        (Toy.step p app t i).1.height = t.height) ∨
     (∃ r id, votesOf (effectsOf true (Toy.step p app t i).2) = [⟨.precommit, t.height, r, id⟩] ∧
        t.precommitted = false ∧ (Toy.step p app t i).1.precommitted = true ∧
        (Toy.step p app t i).1.height = t.height)) := by
  unfold Toy.WF at *
  cases i <;> simp only [Toy.step, Input.height?, Toy.onMsg] <;> (repeat' split) <;>
    simp_all [votesOf, effectsOf, Effect.vote?, Toy.init, List.filterMap]

/-- The votes of a run, relative to the state it starts in. -/
structure ToyGood (t : Toy) (vs : List Vote) : Prop where
  ge : ∀ v ∈ vs, t.height ≤ v.h
  pv : t.prevoted = true → ∀ v ∈ vs, v.kind = .prevote → v.h ≠ t.height
  pc : t.precommitted = true → ∀ v ∈ vs, v.kind = .precommit → v.h ≠ t.height
  uniq : ∀ v ∈ vs, ∀ w ∈ vs, v.kind = w.kind → v.h = w.h → v = w

theorem toy_run_good (p : Nat → Bool) (app : Nat → Nat) (L : List Entry) (t : Toy) (wf : t.WF) :
    ToyGood t (votesOf (replayRun (toyMachine p app) t L).2) := by
  induction L generalizing t with
  | nil => exact ⟨by simp [replayRun, votesOf], by simp [replayRun, votesOf],
      by simp [replayRun, votesOf], by simp [replayRun, votesOf]⟩
  | cons e L ih =>
    simp only [replayRun, votesOf_append]
    unfold replayStep
    split
    · -- skipped
      simpa [effectsOf, votesOf] using ih t wf
    · obtain ⟨wf', hflags, hv⟩ := toy_step_votes p app t e.toInput wf
      have hmono : t.height ≤ (Toy.step p app t e.toInput).1.height := toy_height_mono p app t _
      have g := ih _ wf'
      show ToyGood t (votesOf (effectsOf true (Toy.step p app t e.toInput).2) ++
        votesOf (replayRun (toyMachine p app) (Toy.step p app t e.toInput).1 L).2)
      rcases hv with h0 | ⟨r, id, h1, hf, hs, hh⟩ | ⟨r, id, h1, hf, hs, hh⟩
      · rw [h0, List.nil_append]
        refine ⟨fun v hv => Nat.le_trans hmono (g.ge v hv), ?_, ?_, g.uniq⟩
        · intro hp v hv hk hvh
          by_cases heq : (Toy.step p app t e.toInput).1.height = t.height
          · exact g.pv ((hflags heq).1 hp) v hv hk (by rw [heq]; exact hvh)
          · have := g.ge v hv; omega
        · intro hp v hv hk hvh
          by_cases heq : (Toy.step p app t e.toInput).1.height = t.height
          · exact g.pc ((hflags heq).2 hp) v hv hk (by rw [heq]; exact hvh)
          · have := g.ge v hv; omega
      · rw [h1]
        refine ⟨?_, ?_, ?_, ?_⟩
        · intro v hv
          simp only [List.singleton_append, List.mem_cons] at hv
          rcases hv with rfl | hv
          · exact Nat.le_refl _
          · exact Nat.le_trans hmono (g.ge v hv)
        · intro hp; rw [hf] at hp; cases hp
        · intro hp v hv hk hvh
          simp only [List.singleton_append, List.mem_cons] at hv
          rcases hv with rfl | hv
          · cases hk
          · exact g.pc ((hflags hh).2 hp) v hv hk (by rw [hh]; exact hvh)
        · intro v hv w hw hk hvw
          simp only [List.singleton_append, List.mem_cons] at hv hw
          rcases hv with rfl | hv <;> rcases hw with rfl | hw
          · rfl
          · exact absurd (by rw [hh]; exact hvw.symm) (g.pv hs w hw hk.symm)
          · exact absurd (by rw [hh]; exact hvw) (g.pv hs v hv hk)
          · exact g.uniq v hv w hw hk hvw
      · rw [h1]
        refine ⟨?_, ?_, ?_, ?_⟩
        · intro v hv
          simp only [List.singleton_append, List.mem_cons] at hv
          rcases hv with rfl | hv
          · exact Nat.le_refl _
          · exact Nat.le_trans hmono (g.ge v hv)
        · intro hp v hv hk hvh
          simp only [List.singleton_append, List.mem_cons] at hv
          rcases hv with rfl | hv
          · cases hk
          · exact g.pv ((hflags hh).1 hp) v hv hk (by rw [hh]; exact hvh)
        · intro hp; rw [hf] at hp; cases hp
        · intro v hv w hw hk hvw
          simp only [List.singleton_append, List.mem_cons] at hv hw
          rcases hv with rfl | hv <;> rcases hw with rfl | hw
          · rfl
          · exact absurd (by rw [hh]; exact hvw.symm) (g.pc hs w hw hk.symm)
          · exact absurd (by rw [hh]; exact hvw) (g.pc hs v hv hk)
          · exact g.uniq v hv w hw hk hvw

theorem toy_noEquivocation (p : Nat → Bool) (app : Nat → Nat) : NoEquivocation (toyMachine p app) := by
  intro h L _ v w hv hw hc
  have g := toy_run_good p app L (Toy.init h) (toy_wf_init h)
  obtain ⟨hk, hh, _, hid⟩ := hc
  exact hid (by rw [g.uniq v hv w hw hk hh])

end Juno.C13
