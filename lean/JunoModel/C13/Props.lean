import JunoModel.C13.ProofsToy2
import JunoModel.C13.ProofsImage
import JunoModel.C13.Tendermint
import JunoModel.C13.ProofsShape
import JunoModel.C13.ProofsInv
import JunoModel.C13.ProofsStop
import JunoModel.C13.ProofsStop2
import JunoModel.C13.ProofsCurrent
import JunoModel.C13.ProofsListen
import JunoModel.C13.ProofsCommit
import JunoModel.C13.ProofsSync
import JunoModel.C13.ProofsSync2
import JunoModel.C13.ProofsObs
/-!
C13 — property theorems (statements only; proofs are in `Proofs*.lean`, `UpTo.lean`,
`Tendermint.lean`). Every theorem in this module is an obligation listed in evidence/C13.json.

Vocabulary (Model.lean / Spec.lean): `M : Machine S` is a deterministic consensus state machine
(`step : S → Input → S × List Action`); `liveRun` is `driver.listen` (execute with
`isReplaying = false`), `replayRun` is `driver.replay`, `recover` is a process restart from the
crash image (flushed records only; machine created at `chainHeight + 1`).

`Moment M c0 n hist` (ProofsCrash4.lean): `n` is the node (log + chain) at a point where the
process can die, in a history with ANY NUMBER of earlier deaths and restarts, `hist` all effects
performed so far by all process instances: the first process is after any prefix of the effect
trace of any run (before/after every individual append, flush, broadcast, timer, delivery, prune);
or, from an earlier moment, the process died, was restarted and is after any prefix of its replay's
effects; or it completed the replay and is after any prefix of the effects of any further inputs; or (round 5)
a process — the first one or a restarted one — STOPPED between two inputs (context cancelled or a
listener closed in the select loop; or the `SetWALEntry` of the next input failed) and its `Close`
flushed the pending batch (`Moment.stoppedFirst`, `Moment.stoppedResumed`): these images are not
prefix images — entries that no visible effect had forced out become durable.

`ReplaySafeUpTo M r` (UpTo.lean): what recovery needs from the state machine, with state
comparisons up to a bisimulation `r` (`≈`): an input is ignored (state `≈` unchanged, no actions) or
logged first; commit is last, for the current height, and leaves a machine `≈` a fresh one for the
next height; messages before `start` and messages of future heights are only stored and commute
(up to `≈`) with lower-height ones. `ReplaySafe M` is the same with `=`.

What is NOT covered by a theorem about the current code: see the end of this file.
-/
namespace Juno.C13.Props
open Juno.C13

/-! ## Part 1 — every input with a visible effect is logged, and flushed first -/

/-- For EVERY state machine, every input sequence, every boot state `n` of the log and every point
of the effect trace: when a visible effect `x` (a broadcast or a commit delivery) is performed, no
log record is pending, and every entry the driver appended before `x` is among the FLUSHED records
that survive a crash at that very point — or is at/below the durable prune watermark (its height
was committed, delivered and pruned). This is the half "entry ⇒ flushed before anything visible";
the half "input with a visible effect ⇒ it has an entry" is the next theorem. -/
theorem visible_implies_logged {S} (M : Machine S) (s : S) (ins : List Input) (n : Node)
    (pre : List Effect) (x : Effect) (post : List Effect)
    (hsplit : (liveRun M s ins).2 = pre ++ x :: post) (hv : x.visible = true) :
    (applyEffects n pre).store.pending = [] ∧
    ∀ e, Effect.append e ∈ pre →
      Rec.entry e ∈ (applyEffects n pre).crash.store.flushed ∨
        e.height ≤ (applyEffects n pre).crash.store.pruned :=
  ⟨pending_empty_at_visible _ false n (by simp) (safe_liveRun M s ins false) pre x post hsplit hv,
   fun e hm => logged_before_visible _ false n (by simp) (safe_liveRun M s ins false)
      pre x post hsplit hv e hm⟩

/-- An input that makes ANYTHING visible has a log entry, written before everything else it
causes: under the listen discipline a step whose effects contain a broadcast or a delivery returns
`WriteWAL e` as its FIRST action, `e` re-feeds exactly that input, and the driver's first effect
for the input is `append e` (so, by `visible_implies_logged`, `e` is flushed before the visible
effect). Hypothesis: `logged_or_inert` of `ReplaySafeUpTo`. FALSE for juno's machine as it is:
`tm_future_quorum_precommit_not_logged` (finding F4) — there the unlogged input has no visible
effect in the same call, but is counted and contributes to later ones. -/
theorem input_with_visible_effect_is_logged {S} (M : Machine S) (r : Setoid S)
    (hs : ReplaySafeUpTo M r) (s : S) (i : Input)
    (hi : M.started s = true ∨ i = Input.start) (hvis : visA (M.step s i).2 ≠ []) :
    ∃ e rest, (M.step s i).2 = Action.writeWAL e :: rest ∧ e.toInput = i ∧
      effectsOf false (M.step s i).2 = Effect.append e :: effectsOf false rest := by
  rcases hs.logged_or_inert s i hi with ⟨_, h2⟩ | ⟨e, rest, h2, he, _, _, _⟩
  · rw [h2] at hvis; exact absurd rfl hvis
  · exact ⟨e, rest, h2, he, by rw [h2]; simp [effectsOf, Action.requiresWALFlush]⟩

/-! ## Part 2 — recovery, for histories with any number of crashes -/

/-- **Recovery reaches the state of the uncrashed live run** (`≈`). At EVERY moment of EVERY
history (any number of crashes, also during a recovery): if the process dies there and is
restarted, the recovered machine is `≈` the state of an UNCRASHED LIVE RUN — from the original boot
state, no replay, no skip rule — over some inputs `insd` whose log is exactly the flushed entries
of the image ("processes again exactly the inputs it had durably recorded, ending in the state it
would have reached without the crash"); every vote any earlier process instance ever broadcast is
a vote of that run; and the machine resumes at last delivered height + 1 (deliveries re-executed by
the replay included). -/
theorem recovery_equals_live_run {S} (M : Machine S) (r : Setoid S) (hs : ReplaySafeUpTo M r)
    (c0 : Nat) (n : Node) (hist : List Effect) (hm : Moment M c0 n hist) :
    (∃ insd, ListenOK M (M.init (c0 + 1)) insd ∧
      r.r (recover M n).1 (liveRun M (M.init (c0 + 1)) insd).1 ∧
      entriesOfRecs n.store.flushed = loggedEntries M (M.init (c0 + 1)) insd ∧
      (∀ v ∈ votesOf hist, v ∈ votesOf (liveRun M (M.init (c0 + 1)) insd).2)) ∧
    M.height (recover M n).1 = (recover M n).2.2.chainHeight + 1 := by
  refine ⟨recover_live_upTo hs c0 n hist hm, ?_⟩
  have := resume_height _ hs.quot n
  rw [quot_recover] at this
  exact this

/-- **no_conflicting_vote_after_recovery.** At EVERY moment of EVERY history: the process dies, is
restarted from the crash image and then processes ANY further inputs `cont`. No prevote or
precommit it broadcasts after the restart — while replaying or later — conflicts with (same kind,
height, round, different id) one that ANY earlier process instance broadcast. Hypotheses:
`ReplaySafeUpTo` (in particular: the machine used after the restart is the same function `step` —
the `Application` answers identically during replay) and `NoEquivocation` (one uncrashed execution
never equivocates). Without the first the statement is false:
`conflicting_prevote_when_value_source_changes`. -/
theorem no_conflicting_vote_after_recovery {S} (M : Machine S) (r : Setoid S)
    (hs : ReplaySafeUpTo M r) (ne : NoEquivocation M) (c0 : Nat) (n : Node) (hist : List Effect)
    (hm : Moment M c0 n hist) (cont : List Input) (okc : ListenOK M (recover M n).1 cont) :
    ∀ v ∈ votesOf hist, ∀ w ∈ votesOf ((recover M n).2.1 ++ (liveRun M (recover M n).1 cont).2),
      ¬ v.conflicts w :=
  no_conflict_upTo hs ne c0 n hist hm cont okc

/-- **Pending timers survive the restart.** A timer that was armed and has not fired has no log
entry of its own; it exists after a restart only because replay executes `ScheduleTimeout` again.
At every moment of every history: the restart arms (during replay) exactly the timers that the
uncrashed live run over the durably recorded inputs armed for the height the chain is waiting for
(`chainHeight + 1`), and arms no timer that run did not arm. The timers that already fired are the
ones with a `Timeout` entry in the (same) log, so the PENDING sets agree, too. (In the crash points
between the flush in front of a commit and its delivery the machine resumes one height further,
where neither side has armed anything yet.) -/
theorem recovered_timers_equal_live_timers {S} (M : Machine S) (r : Setoid S)
    (hs : ReplaySafeUpTo M r) (c0 : Nat) (n : Node) (hist : List Effect) (hm : Moment M c0 n hist) :
    ∃ insd, ListenOK M (M.init (c0 + 1)) insd ∧
      entriesOfRecs n.store.flushed = loggedEntries M (M.init (c0 + 1)) insd ∧
      (∀ t ∈ timersOf (recover M n).2.1, t ∈ timersOf (liveRun M (M.init (c0 + 1)) insd).2) ∧
      (∀ t ∈ timersOf (liveRun M (M.init (c0 + 1)) insd).2, t.h = n.chainHeight + 1 →
        t ∈ timersOf (recover M n).2.1) :=
  recover_timers_upTo hs c0 n hist hm

/-- **Error exits are crash points.** `execute` returns an error — and the driver performs nothing
further — when a `Flush` fails or the commit listener refuses a commit; `Run` returns and its
deferred `Close` flushes the pending batch (`closeOK`; or fails as well). For the first process and
for a process restarted at ANY moment of any history, at ANY flush or delivery of its live trace:
the image the stopped process leaves is the image of a process death at a boundary of the same
trace — a `Moment` — with the same votes broadcast. Hence `recovery_equals_live_run`,
`no_conflicting_vote_after_recovery`, `recovered_timers_equal_live_timers` hold for a restart after
an error stop, and nothing was made visible after the failing effect (`stop_visible`). -/
theorem error_stop_is_a_crash_point {S} (M : Machine S) (c0 : Nat) :
    (∀ (ins : List Input), ListenOK M (M.init (c0 + 1)) ins →
      ∀ (pre : List Effect) (x : Effect) (post : List Effect),
      (liveRun M (M.init (c0 + 1)) ins).2 = pre ++ x :: post →
      (x = Effect.flush ∨ ∃ h v, x = Effect.deliver h v) → ∀ closeOK : Bool,
      ∃ hist, Moment M c0 (applyEffects (Node.fresh c0)
          (stopTrace (liveRun M (M.init (c0 + 1)) ins).2 pre.length closeOK)) hist ∧
        votesOf hist = votesOf pre) ∧
    (∀ (n : Node) (hist : List Effect), Moment M c0 n hist →
      ∀ (cont : List Input), ListenOK M (recover M n).1 cont →
      ∀ (pre : List Effect) (x : Effect) (post : List Effect),
      (liveRun M (recover M n).1 cont).2 = pre ++ x :: post →
      (x = Effect.flush ∨ ∃ h v, x = Effect.deliver h v) → ∀ closeOK : Bool,
      ∃ hist', Moment M c0 (applyEffects (recover M n).2.2
          (stopTrace (liveRun M (recover M n).1 cont).2 pre.length closeOK)) hist' ∧
        votesOf hist' = votesOf (hist ++ (recover M n).2.1 ++ pre)) :=
  ⟨fun ins ok pre x post h hx c => error_stop_moment_first M c0 ins ok pre x post h hx c,
   fun n hist hm cont okc pre x post h hx c =>
     error_stop_moment_resumed M c0 n hist hm cont okc pre x post h hx c⟩

/-- **No conflicting vote after an error stop**: the first process stops because a `Flush` failed or
a commit was refused (at any such effect of its trace), is restarted and processes any inputs. -/
theorem no_conflicting_vote_after_error_stop {S} (M : Machine S) (r : Setoid S)
    (hs : ReplaySafeUpTo M r) (ne : NoEquivocation M) (c0 : Nat) (ins : List Input)
    (ok : ListenOK M (M.init (c0 + 1)) ins) (pre : List Effect) (x : Effect) (post : List Effect)
    (hsplit : (liveRun M (M.init (c0 + 1)) ins).2 = pre ++ x :: post)
    (hx : x = Effect.flush ∨ ∃ h v, x = Effect.deliver h v) (closeOK : Bool) (cont : List Input) :
    let n := applyEffects (Node.fresh c0)
      (stopTrace (liveRun M (M.init (c0 + 1)) ins).2 pre.length closeOK)
    ListenOK M (recover M n).1 cont →
    ∀ v ∈ votesOf pre, ∀ w ∈ votesOf ((recover M n).2.1 ++ (liveRun M (recover M n).1 cont).2),
      ¬ v.conflicts w := by
  intro n okc v hv
  obtain ⟨hist, hm, hvv⟩ := error_stop_moment_first M c0 ins ok pre x post hsplit hx closeOK
  exact no_conflict_upTo hs ne c0 n hist hm cont okc v (by rw [hvv]; exact hv)

/-- **Every other error exit, too** (round 5). `execute` also returns an error when
`DeleteWALEntries` fails (inside `commit`, behind the delivery) and when `SetWALEntry` fails. For the
first process and for a process restarted at ANY moment of any history:
* a failing prune leaves the image of the crash point in front of it (nothing is pending there,
  `Close` has nothing to flush) — for EVERY machine;
* a failing `SetWALEntry` for input `i`, when the call for `i` returns its log entry first (juno's
  machine does: `tendermint_fixed_logs_first`), stops the process at the INPUT BOUNDARY in front of
  `i`; `Close` flushes the pending batch. That image is a `Moment` (`stoppedFirst` / `stoppedResumed`)
  with exactly the votes broadcast before `i`.
Hence the recovery theorems hold after these stops as well. -/
theorem failed_log_write_stop_is_a_moment {S} (M : Machine S) (c0 : Nat) :
    (∀ (ins : List Input), ListenOK M (M.init (c0 + 1)) ins →
      ∀ (pre : List Effect) (h : Nat) (post : List Effect),
      (liveRun M (M.init (c0 + 1)) ins).2 = pre ++ Effect.prune h :: post → ∀ closeOK : Bool,
      Moment M c0 (applyEffects (Node.fresh c0)
        (stopTrace (liveRun M (M.init (c0 + 1)) ins).2 pre.length closeOK)) pre) ∧
    (∀ (n : Node) (hist : List Effect), Moment M c0 n hist →
      ∀ (cont : List Input), ListenOK M (recover M n).1 cont →
      ∀ (pre : List Effect) (h : Nat) (post : List Effect),
      (liveRun M (recover M n).1 cont).2 = pre ++ Effect.prune h :: post → ∀ closeOK : Bool,
      Moment M c0 (applyEffects (recover M n).2.2
        (stopTrace (liveRun M (recover M n).1 cont).2 pre.length closeOK))
        (hist ++ (recover M n).2.1 ++ pre)) ∧
    (∀ (ins : List Input) (i : Input) (rest : List Input),
      ListenOK M (M.init (c0 + 1)) (ins ++ i :: rest) → ∀ (e : Entry) (ar : List Action),
      (M.step (liveRun M (M.init (c0 + 1)) ins).1 i).2 = Action.writeWAL e :: ar → ∀ closeOK : Bool,
      ∃ hist, Moment M c0 (applyEffects (Node.fresh c0)
          (stopTrace (liveRun M (M.init (c0 + 1)) (ins ++ i :: rest)).2
            (liveRun M (M.init (c0 + 1)) ins).2.length closeOK)) hist ∧
        votesOf hist = votesOf (liveRun M (M.init (c0 + 1)) ins).2) ∧
    (∀ (n : Node) (hist : List Effect), Moment M c0 n hist →
      ∀ (ins : List Input) (i : Input) (rest : List Input),
      ListenOK M (recover M n).1 (ins ++ i :: rest) → ∀ (e : Entry) (ar : List Action),
      (M.step (liveRun M (recover M n).1 ins).1 i).2 = Action.writeWAL e :: ar → ∀ closeOK : Bool,
      ∃ hist', Moment M c0 (applyEffects (recover M n).2.2
          (stopTrace (liveRun M (recover M n).1 (ins ++ i :: rest)).2
            (liveRun M (recover M n).1 ins).2.length closeOK)) hist' ∧
        votesOf hist' =
          votesOf (hist ++ (recover M n).2.1 ++ (liveRun M (recover M n).1 ins).2)) :=
  ⟨fun ins ok pre h post hs c => prune_stop_moment_first M c0 ins ok pre h post hs c,
   fun n hist hm cont okc pre h post hs c =>
     prune_stop_moment_resumed M c0 n hist hm cont okc pre h post hs c,
   fun ins i rest ok e ar hstep c => append_stop_moment_first M c0 ins i rest ok e ar hstep c,
   fun n hist hm ins i rest okc e ar hstep c =>
     append_stop_moment_resumed M c0 n hist hm ins i rest okc e ar hstep c⟩

/-- **An error while the restarted process is still replaying** (the commit listener refuses a commit
that the replay re-executes, the prune or the flush behind it fails): `replay` returns the error of
`execute`, `Run` ends, `Close` runs. Whatever effect of the replay fails, the image is that of a
prefix of the replay's effects — a `Moment` — with the votes re-broadcast so far; so a second restart
recovers as after a crash during the replay. -/
theorem error_stop_during_replay_is_a_crash_point {S} (M : Machine S) (c0 : Nat) (n : Node)
    (hist : List Effect) (hm : Moment M c0 n hist) (q : List Effect) (x : Effect)
    (post : List Effect) (hsplit : (recover M n).2.1 = q ++ x :: post) (hx : x.canFail = true)
    (closeOK : Bool) :
    ∃ hist', Moment M c0
        (applyEffects n.crash (stopTrace (recover M n).2.1 q.length closeOK)) hist' ∧
      votesOf hist' = votesOf (hist ++ q) :=
  error_stop_moment_replaying M c0 n hist hm q x post hsplit hx closeOK

/-- **Stop between two inputs, restart, go on — any number of times.** A process (the first one, or
one restarted at ANY moment of any history and run over any further inputs `cont`) stops between two
inputs and `Close` flushes what is pending. The process restarted on that image, while replaying and
over ANY further inputs `cont2`, broadcasts no prevote / precommit that conflicts with one broadcast
by ANY earlier process instance. (For the first process alone the state is recovered exactly:
`regular_stop_recovers_exact_state`; this is the statement for histories in which regular stops,
error stops and crashes alternate.) -/
theorem no_conflicting_vote_after_stop_between_inputs {S} (M : Machine S) (r : Setoid S)
    (hs : ReplaySafeUpTo M r) (ne : NoEquivocation M) (c0 : Nat) (n : Node) (hist : List Effect)
    (hm : Moment M c0 n hist) (cont : List Input) (okc : ListenOK M (recover M n).1 cont)
    (cont2 : List Input) :
    let n2 := applyEffects (recover M n).2.2 ((liveRun M (recover M n).1 cont).2 ++ [Effect.flush])
    ListenOK M (recover M n2).1 cont2 →
    ∀ v ∈ votesOf (hist ++ (recover M n).2.1 ++ (liveRun M (recover M n).1 cont).2),
      ∀ w ∈ votesOf ((recover M n2).2.1 ++ (liveRun M (recover M n2).1 cont2).2),
        ¬ v.conflicts w := by
  intro n2 ok2 v hv
  have hm2 := Moment.stoppedResumed n hist hm cont okc
  exact no_conflict_upTo hs ne c0 n2 _ hm2 cont2 ok2 v
    (by simpa [votesOf_append, votesOf, Effect.vote?] using hv)

/-- **Regular stop and restart.** `Run` returns (context cancelled or a listener closed, both only
in the select loop) and its deferred `db.Close()` flushes the pending batch — also entries of
inputs that made nothing visible and were never flushed before. A process restarted on that image
is in exactly the state of the stopped one. -/
theorem regular_stop_recovers_exact_state {S} (M : Machine S) (hs : ReplaySafe M) (c0 : Nat)
    (ins : List Input) (ok : ListenOK M (M.init (c0 + 1)) ins) :
    (recover M (applyEffects (Node.fresh c0)
      ((liveRun M (M.init (c0 + 1)) ins).2 ++ [Effect.flush]))).1 =
      (liveRun M (M.init (c0 + 1)) ins).1 :=
  Juno.C13.regular_stop_recovers_exact_state M hs c0 ins ok

/-- The same for machines that satisfy the hypotheses up to `≈` only (as juno's): the process
restarted after a regular stop is `≈` the stopped one. -/
theorem regular_stop_recovers_state_up_to {S} (M : Machine S) (r : Setoid S)
    (hs : ReplaySafeUpTo M r) (c0 : Nat) (ins : List Input)
    (ok : ListenOK M (M.init (c0 + 1)) ins) :
    r.r (recover M (applyEffects (Node.fresh c0)
      ((liveRun M (M.init (c0 + 1)) ins).2 ++ [Effect.flush]))).1
      (liveRun M (M.init (c0 + 1)) ins).1 :=
  regular_stop_upTo hs c0 ins ok

/-- `LoadAllEntries` returns the log sorted by height, not in recording order (future-height
messages are moved behind everything of lower heights). Replaying the sorted log reaches the same
state and makes the same things visible, in the same order, as the live run. -/
theorem sorted_log_replays_like_live_run {S} (M : Machine S) (hs : ReplaySafe M) (s : S)
    (ins : List Input) (ok : ListenOK M s ins) :
    (replayRun M s (sortByHeight (loggedEntries M s ins))).1 = (liveRun M s ins).1 ∧
    visibleOf (replayRun M s (sortByHeight (loggedEntries M s ins))).2 =
      visibleOf (liveRun M s ins).2 := by
  obtain ⟨h1, h2, h3⟩ := live_eq_replay M hs ins s ok
  obtain ⟨g1, g2⟩ := replay_sorted_eq M hs s _ h3
  exact ⟨g1.trans h1.symm, g2.trans h2.symm⟩

/-! ## Part 3 — the hypotheses are satisfiable by a machine that votes -/

/-- The toy machine of `Model.lean` (proposer or not, any value source) satisfies the hypotheses —
literally, hence up to equality — and never equivocates. -/
theorem hypotheses_satisfiable_by_a_voting_machine (proposer : Nat → Bool) (app : Nat → Nat) :
    ReplaySafe (toyMachine proposer app) ∧ NoEquivocation (toyMachine proposer app) :=
  ⟨toy_replaySafe proposer app, toy_noEquivocation proposer app⟩

/-! ## Part 4 — juno's state machine (C12's transcription) -/

/-- **`NoEquivocation` holds for juno's state machine.** `tmMachine env node` is C12's executable
transcription of `consensus/tendermint` + `votecounter` (tied to the real code by C12's harness,
action for action, and — since this round — executed by `c13drv` in C13's own correspondence)
behind the driver's interface; C12's `run_no_double_vote` gives that it never sends two prevotes or
two precommits for the same height and round in one execution, for every validator set,
application, and every input sequence in which timeouts follow `start` (the replay discipline
`ReplayOK`, an invariant of the log). -/
theorem tendermint_never_equivocates (env : Juno.C12.Env) (node : Nat) :
    NoEquivocation (tmMachine env node) :=
  tm_noEquivocation env node

/-- juno's machine with the `TriggerSync` actions left out (what the driver's log / broadcast /
commit logic sees) never equivocates either. -/
theorem tendermint_quiet_never_equivocates (env : Juno.C12.Env) (node : Nat) :
    NoEquivocation (tmMachineQuiet env node) :=
  tmQuiet_noEquivocation env node

/-- **Every call of juno's machine (with the F5 fix) logs first.** For EVERY state of C12's
transcription — reachable or not, started or not — and every input the driver can hand over, the
call returns no action at all, or its first action is `WriteWAL e` with `e` re-feeding exactly this
input, and no second entry is written. This is `logged_or_inert`'s shape, hence the hypothesis of
`input_with_visible_effect_is_logged`, discharged for juno's machine. `tmMachineT` is the machine
with proposed-fixes/C13-ignored-timeout-runs-rules.diff; for the code before that fix the statement
is FALSE: `ignored_timeout_takes_pending_commit_unlogged`. -/
theorem tendermint_fixed_logs_first (env : Juno.C12.Env) (node : Nat) (m : Juno.C12.Machine)
    (i : Input) :
    ((tmMachineT env node).step m i).2 = [] ∨
    ∃ e rest, ((tmMachineT env node).step m i).2 = Action.writeWAL e :: rest ∧ e.toInput = i ∧
      walOf rest = [] :=
  tmT_logged_first env node m i

/-- **The machine "with the F5 fix" is the current code.** `tmMachineT` (round 4: C12's transcription
with `ProcessTimeout` returning nil when `onTimeout*` ignored the timeout) and the transcription
itself are the same machine since the repair was applied to /repo (cd6cea9) and C12's model followed
it. So `tendermint_fixed_logs_first`, `tendermint_fixed_never_equivocates`, `tendermint_fixed_shape`,
`tendermint_fixed_shape_on_invariant_states` and the `_partial` crash theorem below are statements
about juno's state machine AS IT IS; `tmMachineL`, `tm4L` are the code before cd6cea9. -/
theorem tendermint_fixed_is_the_current_code (env : Juno.C12.Env) (node : Nat) :
    tmMachineT env node = tmMachine env node ∧ tmQT env node = tmMachineQuiet env node := by
  refine ⟨tmMachineT_eq_tmMachine env node, ?_⟩
  show quietOf (tmMachineT env node) = _
  rw [tmMachineT_eq_tmMachine]
  rfl

/-- Hence, for the current code without any variant: every call of juno's state machine returns no
action at all or its log entry first, re-feeding exactly the input, and no second entry. -/
theorem tendermint_logs_first (env : Juno.C12.Env) (node : Nat) (m : Juno.C12.Machine) (i : Input) :
    ((tmMachine env node).step m i).2 = [] ∨
    ∃ e rest, ((tmMachine env node).step m i).2 = Action.writeWAL e :: rest ∧ e.toInput = i ∧
      walOf rest = [] := by
  rw [← tmMachineT_eq_tmMachine]
  exact tmT_logged_first env node m i

/-- juno's machine with the F5 fix never equivocates in one uncrashed execution (a run of it is the
run of C12's machine over the same entries minus the timeouts it ignores). -/
theorem tendermint_fixed_never_equivocates (env : Juno.C12.Env) (node : Nat) :
    NoEquivocation (tmQT env node) :=
  tmQuietT_noEquivocation env node

/-- **F5 — REGRESSION WITNESS for a defect FIXED in /repo (cd6cea9), on the model of the code BEFORE
the fix** (`tmMachineL`: `ProcessTimeout` runs the rules also for a timeout that `onTimeout*` ignored). Height 1, four equal validators, node 4: after the
inputs `pendIns` (round 0 ends nil; round 1 re-proposes 7 with valid round 0; two prevotes and two
precommits of round 1; then the third round-0 prevote arrives late) the node has broadcast its
round-1 precommit for 7 — its own vote completes the quorum — but `process` only checks the commit
rule for the round of the message just received (0), so the commit stays pending. The obsolete
propose timer of round 1 then fires: nothing is logged, the call returns `[Commit 1 7]`. With the fix
the same call returns nothing. -/
theorem ignored_timeout_takes_pending_commit_unlogged :
    (tm4L.step tmPend (.timeout 0 1 1)).2 = [Action.commit 1 7] ∧
    (tm4T.step tmPend (.timeout 0 1 1)).2 = [] ∧
    tmPend.isHeightStarted = true ∧
    ((liveRun tm4L (tm4L.init 1) pendIns).2.drop 22 =
      [.flush, .sendPrevote 1 1 (some 7), .setTimer 1 1 1, .flush, .sendPrecommit 1 1 (some 7),
       .setTimer 2 1 1]) :=
  tmL_ignored_timeout_takes_pending_commit

/-- REGRESSION WITNESS: hence juno's machine as it was BEFORE cd6cea9 satisfied the recovery hypotheses
for NO state equivalence (the crash theorems said nothing about it). The current code is the machine
with the fix: `tendermint_fixed_is_the_current_code`. -/
theorem tendermint_as_is_is_not_replay_safe (r : Setoid Juno.C12.Machine) :
    ¬ ReplaySafeUpTo (quietOf tm4L) r :=
  tmL_not_replaySafe_upTo r

/-- **The shape half of the recovery hypotheses holds for juno's machine (with the fix).** For
every validator set, application and node: `ReplaySafeUpTo (tmQT env node) r` follows from
`ReplaySafeRest` alone. PROVED here, for all states and inputs, without any invariant: an input is
not acted on at all or logged first with exactly its own entry (`tendermint_fixed_logs_first`); a
`Start` / timeout entry carries the current height; the height never decreases, stays without a
commit and moves by one with it; a commit is the LAST action, the only one, and leaves the next
height not started; every own vote and every timer carries the current height; before `start`
messages are only stored; a message or timeout of a future height makes nothing visible. -/
theorem tendermint_fixed_shape (env : Juno.C12.Env) (node : Nat) (r : Setoid Juno.C12.Machine)
    (h : ReplaySafeRest (tmQT env node) r) : ReplaySafeUpTo (tmQT env node) r :=
  tmQT_replaySafeUpTo env node r h

/-- **On the states that satisfy C12's invariant, only the state-relation part remains.**
`tmQTI env node` is `tmQT env node` restricted to the states satisfying `MInv` (the vote counter is at
the state's height; a stored proposal carries the height / round / proposer of its slot) — an
invariant that holds initially and is preserved by EVERY call, also by an undisciplined one
(`tmT_step_minv`); its runs perform literally the effects of `tmQT`'s. There the two facts
`ReplaySafeRest` leaves open are PROVED (`tmQT_entry_height`: an accepted message is not below the
current height; `tmQT_commit_height`: a commit is for the current height), so
`ReplaySafeUpTo (tmQTI env node) r` follows from `ReplaySafeRel` alone. -/
theorem tendermint_fixed_shape_on_invariant_states (env : Juno.C12.Env) (node : Nat)
    (r : Setoid { m : Juno.C12.Machine // Juno.C12.MInv env m })
    (h : ReplaySafeRel (tmQTI env node) r) : ReplaySafeUpTo (tmQTI env node) r :=
  tmQTI_replaySafeUpTo env node r h

/-- PARTIAL for juno's machine: the crash theorem for `tmQTI env node` — C12's transcription with the
F5 fix (`tmMachineT`), without the `TriggerSync` actions, on its invariant states — with
`ReplaySafeRel (tmQTI env node) r` as the only hypothesis. DISCHARGED for every validator set,
application and node: `NoEquivocation` (`tmQTI_noEquivocation`, from C12's `run_no_double_vote`) and
ALL shape fields of `ReplaySafeUpTo` (`tendermint_fixed_shape_on_invariant_states`). NOT discharged —
exactly `ReplaySafeRel`, the part about the state relation:
1. the relation `r m m'` := all fields equal except `lastTriggerSync`, `lastQuorum`, `valueCalls`, the
   vote counters equal up to EMPTY containers (`RoundData.empty`, `[]`), for environments with
   `totalPower h > 0` and a constant `appValue` (a replay-stable `Application.Value()`; without it the
   statement is false, F1), and `Bisim`: congruence w.r.t. `r` of the ~25 functions of C12's `Model`;
2. `inert_equiv`: a call that returns no action leaves an `r`-equivalent state (a rejected message
   creates at most an empty container);
3. `commute`: a future-height message only touches `future[h_a]`, a step on a lower-height input only
   `rounds` / `future[h_b]`, `startNewHeight` promotes exactly `future[h+1]`;
4. `commit_reset`: `startNewHeight` of a counter that only saw height `h` is `VoteCounter.new (h+1)`
   up to empty containers.
For the machine WITH `TriggerSync` the hypotheses are false for every `r`
(`tendermint_with_sync_actions_is_not_replay_safe`); for the machine WITHOUT the F5 fix, too
(`tendermint_as_is_is_not_replay_safe`). Until 1–4 are proved they are tested on the real code:
recovered state against the uncrashed live process and an uncrashed twin, pending timers and behaviour
in a silent network, on every crash point taken. -/
theorem no_conflicting_vote_after_recovery_tendermint_partial (env : Juno.C12.Env) (node : Nat)
    (r : Setoid { m : Juno.C12.Machine // Juno.C12.MInv env m })
    (hs : ReplaySafeRel (tmQTI env node) r) (c0 : Nat)
    (n : Node) (hist : List Effect) (hm : Moment (tmQTI env node) c0 n hist)
    (cont : List Input)
    (okc : ListenOK (tmQTI env node) (recover (tmQTI env node) n).1 cont) :
    ∀ v ∈ votesOf hist,
      ∀ w ∈ votesOf ((recover (tmQTI env node) n).2.1 ++
        (liveRun (tmQTI env node) (recover (tmQTI env node) n).1 cont).2),
      ¬ v.conflicts w :=
  no_conflict_upTo (tmQTI_replaySafeUpTo env node r hs) (tmQTI_noEquivocation env node) c0 n hist hm
    cont okc

/-- **The state relation of the recovery hypotheses need not be chosen, and its bisimulation property
need not be assumed.** Observational equivalence (`obsEq M`: no sequence of calls tells two states
apart by height, started flag or returned actions) is a bisimulation of EVERY machine, and the
state-relation hypotheses `ReplaySafeRel M r` hold for SOME equivalence `r` iff the three statements
`ObsSafe M` hold — about observational equivalence of concrete pairs of states: a call without actions
leaves an indistinguishable state; a future-height message and a lower-height entry commute; after a
commit, a machine that saw only its own height's entries is indistinguishable from a fresh machine of
the next height. A machine satisfying the literal hypotheses (the toy machine) satisfies them. -/
theorem state_relation_is_observational_equivalence {S} (M : Machine S) :
    Bisim M (obsEq M) ∧ (ObsSafe M ↔ ∃ r, ReplaySafeRel M r) ∧ (ReplaySafe M → ObsSafe M) :=
  ⟨obsEq_bisim M, obsSafe_iff_exists_rel M, ObsSafe.of_replaySafe⟩

/-- PARTIAL, in its weakest form: the crash theorem for juno's state machine (current code without the
`TriggerSync` actions, on the states satisfying C12's invariant) with `ObsSafe (tmQTI env node)` as
the ONLY hypothesis on the machine — no relation to choose, no bisimulation to assume, `NoEquivocation`
and all ten shape fields proved — and, instead of the discipline `ListenOK`, the fact that the calls
after the restart are a call sequence of `listen` (`driverSeq`: start first, start after every commit). What is missing is exactly: (1) a call of juno's machine that returns no action
cannot be noticed by later calls (a rejected message creates at most an empty container); (2) a
future-height message commutes with a lower-height entry (it only touches `future[h]`); (3)
`startNewHeight` of a vote counter that only saw height `h` behaves like `VoteCounter.new (h+1)`.
Tested on the real machine at every crash point (state equality up to empty containers implies
observational equivalence); false without a replay-stable `Application` (F1, F3). -/
theorem no_conflicting_vote_after_recovery_tendermint_obs_partial (env : Juno.C12.Env) (node : Nat)
    (hs : ObsSafe (tmQTI env node)) (c0 : Nat)
    (n : Node) (hist : List Effect) (hm : Moment (tmQTI env node) c0 n hist)
    (cont : List Input)
    (hd : driverSeq (tmQTI env node) true (recover (tmQTI env node) n).1 cont = true) :
    ∀ v ∈ votesOf hist,
      ∀ w ∈ votesOf ((recover (tmQTI env node) n).2.1 ++
        (liveRun (tmQTI env node) (recover (tmQTI env node) n).1 cont).2),
      ¬ v.conflicts w :=
  no_conflict_upTo (tmQTI_replaySafeUpTo env node _ hs.rel) (tmQTI_noEquivocation env node) c0 n hist hm
    cont (driverSeq_listenOK (tmQTI_startsHeights env node) cont _ true (fun hh => by cases hh) hd)

/-- NEGATION for the machine WITH its `TriggerSync` actions (current code): the arguments of
`TriggerSync` expose the sync bookkeeping (`lastTriggerSync`), which depends on whether a
quorum-completing future precommit was processed before or after a commit (live order vs the
height-sorted replay order: `TriggerSync 4 5` vs `TriggerSync 2 5`) and which a restart does not
restore. So no bisimulation preserving full action lists makes it `ReplaySafeUpTo`. Harmless for the
property (`TriggerSync` only starts a block fetch); it is why Part 4 is about `tmMachineQuiet`. -/
theorem tendermint_with_sync_actions_is_not_replay_safe (r : Setoid Juno.C12.Machine) :
    ¬ ReplaySafeUpTo tm4 r :=
  tm_replaySafeUpTo_fails_sync_bookkeeping r

/-- REGRESSION WITNESS for a defect FIXED in /repo (b154634, F4
`future-quorum-precommit-counted-but-not-logged`), on the variant of the machine before the fix
(`tmMachineBefore_b154634`), not about the current code: the third precommit for (height 3, round 0,
id 9) received at height 1 returned only `TriggerSync 1 3` — no `WriteWAL` — and a second delivery
returned nothing: it was counted. The current machine logs it (`tm_future_quorum_precommit_logged`). -/
theorem future_quorum_precommit_counted_but_not_logged_before_b154634 :
    (tm4Old.step tmS2 (.precommit 3 0 3 (some 9))).2 = [Action.triggerSync 1 3] ∧
    (tm4Old.step (tm4Old.step tmS2 (.precommit 3 0 3 (some 9))).1 (.precommit 3 0 3 (some 9))).2 = [] :=
  tm_future_quorum_precommit_not_logged_before_b154634

/-- REGRESSION WITNESS: hence that machine satisfied the recovery hypotheses for NO state equivalence. -/
theorem tm_replaySafe_failed_for_every_equivalence_before_b154634 (r : Setoid Juno.C12.Machine) :
    ¬ ReplaySafeUpTo tm4Old r :=
  tm_not_replaySafe_upTo_before_b154634 r

/-- Why the hypotheses compare states up to `≈` and `unstarted_silent` is about messages only:
(i) a rejected proposal creates an empty round entry in the vote counter (literal equality fails),
(ii) `ProcessTimeout` does not look at `isHeightStarted`. -/
theorem literal_hypotheses_fail_for_tendermint :
    ((tm4.step tmS0 (.proposal 1 5 2 (-1) 9)).2 = [] ∧
      (tm4.step tmS0 (.proposal 1 5 2 (-1) 9)).1.vc.rounds.length = 1 ∧ tmS0.vc.rounds.length = 0) ∧
    visA (tm4.step (tm4.init 1) (.timeout 0 1 0)).2 ≠ [] :=
  ⟨tm_rejected_input_changes_state_literally, tm_timeout_before_start_is_not_silent⟩

/-! ## Part 5 — the known defects as witnesses on the model -/

/-- **F1 (known).** `no_conflicting_vote_after_recovery` needs ONE `step` for the run and the
recovery. The log cannot enforce it: the value returned by `Application.Value()` is not logged, and
replay re-executes `startRound`, calls `Value()` again and re-broadcasts. A proposer whose value
source returns `101` before the crash and `102` after it: the process dies after broadcasting its
proposal and prevote for height 4 round 0; the recovered process broadcasts a prevote for a
different id at the same height and round (harness sig
`conflicting-prevote-after-recovery-own-proposal-value-changed`). -/
theorem conflicting_prevote_when_value_source_changes :
    let M := toyMachine (fun _ => true) (fun _ => 101)
    let M' := toyMachine (fun _ => true) (fun _ => 102)
    let pre := (liveRun M (M.init 4) [Input.start]).2
    ∃ v ∈ votesOf pre, ∃ w ∈ votesOf (recover M' (applyEffects (Node.fresh 3) pre)).2.1,
      v.conflicts w := by
  decide

/-- REGRESSION WITNESS for a defect FIXED in /repo (f170e6a), not about the current code: a `Start`
entry that carries the height AFTER a commit inside `ProcessStart` survives the prune and breaks
recovery (`aliased = true`); with the started height it does not (`aliased = false`). -/
theorem start_entry_with_next_height_breaks_replay_before_f170e6a :
    let M := eagerMachine true
    let M' := eagerMachine false
    let n := applyEffects (Node.fresh 3) (liveRun M (M.init 4) [Input.start]).2
    let n' := applyEffects (Node.fresh 3) (liveRun M' (M'.init 4) [Input.start]).2
    (recover M n).1 ≠ (liveRun M (M.init 4) [Input.start]).1 ∧
    (recover M' n').1 = (liveRun M' (M'.init 4) [Input.start]).1 := by
  decide

/-! ## Part 6 — the driver's block-sync logic (`ModelSync.lean`) -/

/-- **The sync logic is an overlay.** `executeX` is `driver.execute` with `TriggerSync` really
executed (`triggerSync`, `syncCurrentHeight`, `hasFutureQuorum`, the driver's `lastQuorum`). Whatever
`lastQuorum` and the machine's height are, its log / broadcast / timer / commit effects are exactly
`effectsOf` — so every theorem above (stated over `liveRun` / `replayRun`, where `TriggerSync` is
only recorded) holds for the driver with its sync logic; one turn of `listen` for a message or
timeout moves the machine as `liveRun` does and leaves `actions` = what the call returned. -/
theorem sync_logic_is_an_overlay {S} (M : Machine S) :
    (∀ (replaying : Bool) (smHeight : Nat) (d : Drv) (acts : List Action),
      baseOf (executeX replaying smHeight d acts).2 = effectsOf replaying acts) ∧
    (∀ (st : LState S) (i : Input),
      (listenStep M st (.msg i)).1.s = (M.step st.s i).1 ∧
      (listenStep M st (.msg i)).1.last = (M.step st.s i).2 ∧
      baseOf (listenStep M st (.msg i)).2 = effectsOf false (M.step st.s i).2) :=
  ⟨executeX_base, listenStep_msg M⟩

/-- **Fetch decisions.** Executing an action list launches a block fetch only for the state machine's
CURRENT height and only when a precommit quorum of a LATER height is known (`lastQuorum` after the
call is above it); at most one fetch per list (the first `TriggerSync` that finds no future quorum
known starts it); `lastQuorum` never decreases. -/
theorem block_fetch_only_for_current_height_with_future_quorum (replaying : Bool) (smHeight : Nat)
    (d : Drv) (acts : List Action) :
    (∀ x ∈ fetchesOf (executeX replaying smHeight d acts).2,
      x = smHeight ∧ (executeX replaying smHeight d acts).1.lastQuorum > smHeight) ∧
    (fetchesOf (executeX replaying smHeight d acts).2).length ≤ 1 ∧
    d.lastQuorum ≤ (executeX replaying smHeight d acts).1.lastQuorum :=
  ⟨fun x hx => executeX_fetch_spec replaying smHeight d acts x hx,
   executeX_at_most_one_fetch replaying smHeight d acts, executeX_mono replaying smHeight d acts⟩

/-- **A fetched block is processed like its messages, one by one.** `listen`'s sync branch hands the
block to `ProcessSync` (the proposal, then every precommit, action lists CONCATENATED) and executes
the result once; `execute` drops whatever follows a `Commit`. When no call of the block that follows a
committing call returns anything (`SyncOK`), the machine state and the log / broadcast / timer /
commit effects are exactly those of `liveRun` over the block's messages — so a history with fetched
blocks is a history of `liveRun`, to which Parts 1–2 apply. For juno's machine (states satisfying
C12's invariant `MInv`) `SyncOK` HOLDS for every block `consensus/sync` builds — the block's proposal
and one fabricated precommit of the same height: if the proposal's call already commits, the machine
is one height further and the precommit, now of a past height, returns nothing. (Not covered: the
re-execution of stale actions after a FAILED fetch, `stale_actions_after_failed_fetch_repeat_votes`.) -/
theorem fetched_block_is_processed_like_its_messages :
    (∀ {S} (M : Machine S) (st : LState S) (ins : List Input), SyncOK M st.s ins →
      (listenStep M st (.syncBlock ins)).1.s = (liveRun M st.s ins).1 ∧
      baseOf (listenStep M st (.syncBlock ins)).2 = (liveRun M st.s ins).2) ∧
    (∀ (env : Juno.C12.Env) (node : Nat) (m : Juno.C12.Machine), Juno.C12.MInv env m →
      ∀ (h : Nat) (r : Int) (s : Nat) (vr : Int) (v : Nat) (r' : Int) (s' : Nat) (id : Option Nat),
      SyncOK (tmQT env node) m [.proposal h r s vr v, .precommit h r' s' id]) :=
  ⟨fun M st ins h => listenStep_syncBlock_as_liveRun M st ins h,
   fun env node m hi h r s vr v r' s' id => tm_syncOK_block env node m hi h r s vr v r' s' id⟩

/-- **A failed block fetch re-executes the previous input's actions** (`listen`'s `actions` variable is
not reset in that branch — the code as it is): the state machine is not called, its state and
`actions` stay, and what the driver does is `execute(actions)` once more — a second `SetWALEntry` of
the same entry, the same broadcasts, the same timers. The votes it broadcasts are exactly the votes
of that action list, which were broadcast when it was executed the first time: no NEW vote, so a
trace without conflicting votes stays without. A gossiped message of the sync pseudo-sender changes
nothing at all. -/
theorem stale_actions_after_failed_fetch_repeat_votes {S} (M : Machine S) (st : LState S)
    (hist : List Effect)
    (hlast : ∀ v ∈ votesOf (effectsOf false st.last), v ∈ votesOf hist)
    (hok : ∀ v ∈ votesOf hist, ∀ w ∈ votesOf hist, ¬ v.conflicts w) :
    (listenStep M st .syncErr).1.s = st.s ∧ (listenStep M st .syncErr).1.last = st.last ∧
    baseOf (listenStep M st .syncErr).2 = effectsOf false st.last ∧
    (∀ v ∈ votesOf (hist ++ baseOf (listenStep M st .syncErr).2),
      ∀ w ∈ votesOf (hist ++ baseOf (listenStep M st .syncErr).2), ¬ v.conflicts w) ∧
    listenStep M st .pseudo = (st, []) := by
  obtain ⟨h1, h2, h3, h4⟩ := listenStep_syncErr M st
  refine ⟨h1, h2, h3, ?_, rfl⟩
  exact no_new_conflict_of_repeated hist _ (by rw [h4]; exact hlast) hok

/-! ## Part 7 — the listen discipline is a consequence of the loop structure of `driver.listen` -/

/-- **`ListenOK` is not an assumption about the driver.** `driverSeq M true s ins` says that `ins` is a
call sequence `driver.listen` can produce from machine state `s`: `ProcessStart(0)` first, then events
of the select (never a start) until a call returns a `Commit`, then `ProcessStart(0)` again — also
when the committing call was itself a `ProcessStart` (ModelListen.lean; the harness checks every
observed call of the real driver against it). For a machine in which `ProcessStart` starts the height
and a call without a commit does not un-start it (`StartsHeights`), every such sequence obeys the
discipline that the recovery theorems assume (`ListenOK`: a message or timeout only meets a started
height) — from ANY state `s`, in particular from a recovered one, started or not. -/
theorem driver_call_sequence_obeys_listen_discipline {S} (M : Machine S) (h : StartsHeights M)
    (s : S) (ins : List Input) (hd : driverSeq M true s ins = true) : ListenOK M s ins :=
  driverSeq_listenOK h ins s true (fun hh => by cases hh) hd

/-- **juno's state machine starts heights** (C12's transcription, current code, every validator set,
application, node, state and input): after `ProcessStart(0)` the height is started unless the call
itself committed it, and a call that returns no `Commit` leaves a started height started. So for the
real loop around juno's machine `ListenOK` holds: the hypothesis is discharged. -/
theorem tendermint_call_sequences_obey_listen_discipline (env : Juno.C12.Env) (node : Nat)
    (m : Juno.C12.Machine) (ins : List Input)
    (hd : driverSeq (tmMachineQuiet env node) true m ins = true) :
    StartsHeights (tmMachineQuiet env node) ∧ ListenOK (tmMachineQuiet env node) m ins :=
  ⟨tmQuiet_startsHeights env node,
   driverSeq_listenOK (tmQuiet_startsHeights env node) ins m true (fun hh => by cases hh) hd⟩

/-! ## Part 8 — behind `deliver`: the commit listener and `Driver.commit` (`ModelCommit.lean`) -/

/-- **The log of a height is pruned only when its block has been acknowledged by the persister.**
`commitListener.OnCommit` answers true exactly when the build result of the decided value is in the
proposal store, the persister took the block AND acknowledged it (then, and only then, the build
results of the height are dropped — `FinalizeHeight` — as the last step); in every other case (no
build result; the context ends before the hand-over or before the answer; the persister reports an
error) it answers false, nothing is finalized, and `Driver.commit` returns an error WITHOUT
`DeleteWALEntries` / `Flush` — the context's error if it ended, else "commit listener failed". This is
what `Effect.deliver` stands for in the driver model: the chain height a restarted process starts from
(`blockchain.Height()`) is the last height whose commit was `deliver`ed. -/
theorem commit_prunes_only_an_acknowledged_block (e : CommitEnv) (ctxEnded : Bool) (h v : Nat) :
    ((onCommit e).1 = true ↔ e.found = true ∧ e.handedOver = true ∧ e.persist = .ack) ∧
    ((onCommit e).1 = true → (onCommit e).2 = [.handover, .acked, .hooks, .finalize]) ∧
    ((onCommit e).1 = false → CStep.acked ∉ (onCommit e).2 ∧ CStep.finalize ∉ (onCommit e).2) ∧
    ((driverCommit e ctxEnded h v).1 = .ok →
      (driverCommit e ctxEnded h v).2 = [Effect.deliver h v, Effect.prune h, Effect.flush] ∧
      CStep.acked ∈ (onCommit e).2) ∧
    ((driverCommit e ctxEnded h v).1 ≠ .ok →
      (driverCommit e ctxEnded h v).2 = [] ∧ CStep.acked ∉ (onCommit e).2 ∧
      (driverCommit e ctxEnded h v).1 = (if ctxEnded then .ctxErr else .refused)) :=
  ⟨onCommit_true_iff e, onCommit_true_steps e,
   fun hf => ⟨(onCommit_false_steps e hf).1, (onCommit_false_steps e hf).2.1⟩,
   (driverCommit_spec e ctxEnded h v).2.1, (driverCommit_spec e ctxEnded h v).2.2⟩

/-! ## Non-vacuity -/

-- the crash theorem instantiated on a VOTING machine, on a history with two crashes, where votes
-- were broadcast before the crashes: first process dies after `sv:4:0:7` and `sc:4:0:7`, the
-- second dies in the middle of its replay
example :
    let M := toyMachine (fun _ => false) (fun _ => 0)
    let ins : List Input := [.start, .proposal 4 0 2 (-1) 7, .prevote 5 0 3 none, .prevote 4 0 3 (some 7)]
    let tr := (liveRun M (M.init 4) ins).2
    let n := applyEffects (Node.fresh 3) tr
    votesOf tr = [⟨.prevote, 4, 0, some 7⟩, ⟨.precommit, 4, 0, some 7⟩] ∧
      (recover M n).2.1.take 2 ++ (recover M n).2.1.drop 2 = (recover M n).2.1 ∧
      votesOf (recover M n).2.1 = [⟨.prevote, 4, 0, some 7⟩, ⟨.precommit, 4, 0, some 7⟩] := by
  decide

example (cont : List Input) :
    let M := toyMachine (fun _ => false) (fun _ => 0)
    let ins : List Input := [.start, .proposal 4 0 2 (-1) 7, .prevote 5 0 3 none, .prevote 4 0 3 (some 7)]
    let n := applyEffects (Node.fresh 3) (liveRun M (M.init 4) ins).2
    let n2 := applyEffects n.crash ((recover M n).2.1.take 2)
    ListenOK M (recover M n2).1 cont →
    ∀ v ∈ votesOf ((liveRun M (M.init 4) ins).2 ++ (recover M n).2.1.take 2),
      ∀ w ∈ votesOf ((recover M n2).2.1 ++ (liveRun M (recover M n2).1 cont).2), ¬ v.conflicts w := by
  intro M ins n n2 okc
  have ok : ListenOK M (M.init 4) ins := by
    show ListenOK (toyMachine (fun _ => false) (fun _ => 0)) (Toy.init 4)
      [.start, .proposal 4 0 2 (-1) 7, .prevote 5 0 3 none, .prevote 4 0 3 (some 7)]
    simp only [ListenOK]
    decide
  have m1 : Moment M 3 n (liveRun M (M.init 4) ins).2 :=
    Moment.first ins ok _ [] (List.append_nil _).symm
  have m2 : Moment M 3 n2 ((liveRun M (M.init 4) ins).2 ++ (recover M n).2.1.take 2) :=
    Moment.replaying n _ m1 _ ((recover M n).2.1.drop 2) (List.take_append_drop 2 _).symm
  have hs := toy_replaySafe (fun _ => false) (fun _ => 0)
  exact durable_no_conflict M hs (toy_noEquivocation _ _) 3 n2 _ (moment_durable M hs 3 n2 _ m2) cont okc

example : (liveRun (toyMachine (fun _ => true) (fun _ => 101)) (Toy.init 4) [Input.start]).2 =
    [.append (.start 4), .flush, .sendProposal 4 0 (-1) 101, .flush, .sendPrevote 4 0 (some 101)] := by
  decide

-- `error_stop_is_a_crash_point`: the toy proposer's second flush (in front of its prevote) fails;
-- `Close` flushes: the stopped node is the node after the first four effects, the prevote is not sent
example :
    let M := toyMachine (fun _ => true) (fun _ => 101)
    let tr := (liveRun M (M.init 4) [Input.start]).2
    tr = [.append (.start 4), .flush, .sendProposal 4 0 (-1) 101] ++ Effect.flush :: [.sendPrevote 4 0 (some 101)] ∧
      stopTrace tr 3 true = [.append (.start 4), .flush, .sendProposal 4 0 (-1) 101, .flush] ∧
      visibleOf (stopTrace tr 3 true) = [.sendProposal 4 0 (-1) 101] := by
  decide

-- the sync logic: a `TriggerSync 1 3` at height 1 with nothing known starts the fetch of block 1
-- and raises `lastQuorum` to 3; a second one does not fetch again; at height 3 nothing is fetched
example :
    executeX false 1 {} [.writeWAL (.precommit 3 0 3 (some 9)), .triggerSync 1 3, .triggerSync 2 5] =
      ({ lastQuorum := 5 }, [.base (.append (.precommit 3 0 3 (some 9))), .base (.sync 1 3), .fetch 1,
        .base (.sync 2 5)]) ∧
    fetchesOf (executeX false 3 { lastQuorum := 3 } [.triggerSync 1 3]).2 = [] := by
  decide

-- a failed fetch after the toy proposer's `start`: the proposal and the prevote are sent again
example :
    let M := toyMachine (fun _ => true) (fun _ => 101)
    let st : LState Toy := (listenStep M { s := M.init 4, d := {}, last := [] } (.msg .start)).1
    votesOf (baseOf (listenStep M st .syncErr).2) = [⟨.prevote, 4, 0, some 101⟩] ∧
      (listenStep M st .syncErr).1.s = st.s := by
  decide

-- `tendermint_fixed_logs_first` is not about empty action lists only: the late round-0 prevote of
-- the F5 scenario is logged first and followed by two broadcasts and two timers, no second entry
example :
    (tm4T.step (liveRun tm4T (tm4T.init 1) pendIns.dropLast).1 (.prevote 1 0 3 (some 7))).2 =
      [.writeWAL (.prevote 1 0 3 (some 7)), .broadcastPrevote 1 1 (some 7), .scheduleTimeout 1 1 1,
       .broadcastPrecommit 1 1 (some 7), .scheduleTimeout 2 1 1] := by
  decide

-- `failed_log_write_stop_is_a_moment`, SetWALEntry case: the toy non-proposer has prevoted 7; the
-- `SetWALEntry` for the next input (a prevote) fails. The call for that input returns its entry
-- first; the process performed exactly the effects of the two inputs before it, `Close` flushes
example :
    let M := toyMachine (fun _ => false) (fun _ => 0)
    let ins : List Input := [.start, .proposal 4 0 2 (-1) 7]
    let i : Input := .prevote 4 0 3 (some 7)
    (M.step (liveRun M (M.init 4) ins).1 i).2 =
        [.writeWAL (.prevote 4 0 3 (some 7)), .broadcastPrecommit 4 0 (some 7)] ∧
      stopTrace (liveRun M (M.init 4) (ins ++ [i])).2 (liveRun M (M.init 4) ins).2.length true =
        [.append (.start 4), .setTimer 0 4 0, .append (.proposal 4 0 2 (-1) 7), .flush,
         .sendPrevote 4 0 (some 7), .flush] ∧
      ListenOK M (M.init 4) [.start, .proposal 4 0 2 (-1) 7, .prevote 4 0 3 (some 7)] := by
  refine ⟨by decide, by decide, ?_⟩
  show ListenOK (toyMachine (fun _ => false) (fun _ => 0)) (Toy.init 4)
    [.start, .proposal 4 0 2 (-1) 7, .prevote 4 0 3 (some 7)]
  simp only [ListenOK]
  decide

-- DeleteWALEntries case: the toy machine commits height 4; the prune behind the delivery fails:
-- nothing is pending there, the image is that of the boundary in front of the prune
example :
    let M := toyMachine (fun _ => false) (fun _ => 0)
    let ins : List Input := [.start, .proposal 4 0 2 (-1) 7, .prevote 4 0 3 (some 7), .precommit 4 0 3 (some 7)]
    let tr := (liveRun M (M.init 4) ins).2
    tr = tr.take 11 ++ Effect.prune 4 :: [Effect.flush] ∧
      (applyEffects (Node.fresh 3) (stopTrace tr 11 true)).store.flushed =
        (applyEffects (Node.fresh 3) (tr.take 11)).store.flushed ∧
      (applyEffects (Node.fresh 3) (tr.take 11)).chainHeight = 4 := by
  decide

-- `error_stop_during_replay_is_a_crash_point`: the process died between the flush in front of the
-- commit and its delivery; the restarted process re-executes the commit while replaying and the
-- commit listener refuses it (the 4th effect of the replay)
example :
    let M := toyMachine (fun _ => false) (fun _ => 0)
    let ins : List Input := [.start, .proposal 4 0 2 (-1) 7, .prevote 4 0 3 (some 7), .precommit 4 0 3 (some 7)]
    let n := applyEffects (Node.fresh 3) ((liveRun M (M.init 4) ins).2.take 10)
    (recover M n).2.1 = [.setTimer 0 4 0, .sendPrevote 4 0 (some 7), .sendPrecommit 4 0 (some 7)] ++
        Effect.deliver 4 7 :: [.prune 4, .flush] ∧ (Effect.deliver 4 7).canFail = true := by
  decide

-- `no_conflicting_vote_after_stop_between_inputs` (here through its `=`-version of the hypotheses): a
-- history crash → restart → regular stop → restart, on the voting toy machine
example (cont2 : List Input) :
    let M := toyMachine (fun _ => false) (fun _ => 0)
    let ins : List Input := [.start, .proposal 4 0 2 (-1) 7]
    let n := applyEffects (Node.fresh 3) (liveRun M (M.init 4) ins).2
    let cont : List Input := [.start, .prevote 4 0 3 (some 7)]
    let n2 := applyEffects (recover M n).2.2 ((liveRun M (recover M n).1 cont).2 ++ [Effect.flush])
    ListenOK M (recover M n2).1 cont2 →
    ∀ v ∈ votesOf ((liveRun M (M.init 4) ins).2 ++ (recover M n).2.1 ++
        (liveRun M (recover M n).1 cont).2 ++ [Effect.flush]),
      ∀ w ∈ votesOf ((recover M n2).2.1 ++ (liveRun M (recover M n2).1 cont2).2), ¬ v.conflicts w := by
  intro M ins n cont n2 ok2
  have ok : ListenOK M (M.init 4) ins := by
    show ListenOK (toyMachine (fun _ => false) (fun _ => 0)) (Toy.init 4) [.start, .proposal 4 0 2 (-1) 7]
    simp only [ListenOK]
    decide
  have okc : ListenOK M (recover M n).1 cont := by
    show ListenOK (toyMachine (fun _ => false) (fun _ => 0))
      (recover (toyMachine (fun _ => false) (fun _ => 0)) (applyEffects (Node.fresh 3)
        (liveRun (toyMachine (fun _ => false) (fun _ => 0)) (Toy.init 4) [.start, .proposal 4 0 2 (-1) 7]).2)).1
      [.start, .prevote 4 0 3 (some 7)]
    simp only [ListenOK]
    decide
  have m1 : Moment M 3 n (liveRun M (M.init 4) ins).2 :=
    Moment.first ins ok _ [] (List.append_nil _).symm
  have m2 := Moment.stoppedResumed n _ m1 cont okc
  have hs := toy_replaySafe (fun _ => false) (fun _ => 0)
  exact durable_no_conflict M hs (toy_noEquivocation _ _) 3 n2 _ (moment_durable M hs 3 n2 _ m2) cont2 ok2

-- the stop in that history is not vacuous: votes were broadcast before the crash (prevote) and
-- before the stop (precommit), and the node restarted after the stop re-broadcasts both
example :
    let M := toyMachine (fun _ => false) (fun _ => 0)
    let ins : List Input := [.start, .proposal 4 0 2 (-1) 7]
    let n := applyEffects (Node.fresh 3) (liveRun M (M.init 4) ins).2
    let cont : List Input := [.start, .prevote 4 0 3 (some 7)]
    let n2 := applyEffects (recover M n).2.2 ((liveRun M (recover M n).1 cont).2 ++ [Effect.flush])
    votesOf (liveRun M (recover M n).1 cont).2 = [⟨.precommit, 4, 0, some 7⟩] ∧
      votesOf (recover M n2).2.1 = [⟨.prevote, 4, 0, some 7⟩, ⟨.precommit, 4, 0, some 7⟩] := by
  decide

-- `tendermint_logs_first` on the current transcription (no variant): the late round-0 prevote of the
-- F5 scenario is logged first and followed by two broadcasts and two timers
example :
    (tm4.step (liveRun tm4 (tm4.init 1) pendIns.dropLast).1 (.prevote 1 0 3 (some 7))).2 =
      [.writeWAL (.prevote 1 0 3 (some 7)), .broadcastPrevote 1 1 (some 7), .scheduleTimeout 1 1 1,
       .broadcastPrecommit 1 1 (some 7), .scheduleTimeout 2 1 1] ∧
    (tm4.step (liveRun tm4 (tm4.init 1) pendIns).1 (.timeout 0 1 1)).2 = [] := by
  decide

-- `driver_call_sequence_obeys_listen_discipline` on juno's machine: boot, a height decided after
-- messages (`pendIns` + the late messages), `ProcessStart` again — and a sequence that hands a message
-- to the machine right after a commit is NOT a call sequence of `listen`
example :
    driverSeq (tmMachineQuiet env4 4) true ((tmMachineQuiet env4 4).init 1)
        (pendIns ++ [.precommit 1 1 3 (some 7), .start, .prevote 2 0 1 (some 8)]) = true ∧
      driverSeq (tmMachineQuiet env4 4) true ((tmMachineQuiet env4 4).init 1)
        (pendIns ++ [.precommit 1 1 3 (some 7), .prevote 2 0 1 (some 8)]) = false ∧
      driverSeq (tmMachineQuiet env4 4) true ((tmMachineQuiet env4 4).init 1) [.prevote 1 0 1 (some 7)] = false := by
  decide

-- `commit_prunes_only_an_acknowledged_block`: the five environments the harness produces
example :
    driverCommit ⟨true, true, .ack⟩ false 4 7 = (.ok, [.deliver 4 7, .prune 4, .flush]) ∧
    driverCommit ⟨false, true, .ack⟩ false 4 7 = (.refused, []) ∧
    driverCommit ⟨true, false, .ack⟩ true 4 7 = (.ctxErr, []) ∧
    driverCommit ⟨true, true, .ctxDone⟩ true 4 7 = (.ctxErr, []) ∧
    driverCommit ⟨true, true, .error⟩ false 4 7 = (.refused, []) ∧
    (onCommit ⟨true, true, .error⟩).2 = [.handover] := by
  decide

-- `fetched_block_is_processed_like_its_messages`: a block (proposal + precommit) reaches the toy
-- machine in a started height; the precommit's call commits; effects = those of the two messages
example :
    let M := toyMachine (fun _ => false) (fun _ => 0)
    let st : LState Toy := (listenStep M { s := M.init 4, d := {}, last := [] } (.msg .start)).1
    let blk : List Input := [.proposal 4 0 2 (-1) 7, .precommit 4 0 3 (some 7)]
    baseOf (listenStep M st (.syncBlock blk)).2 = (liveRun M st.s blk).2 ∧
      (liveRun M st.s blk).2 = [.append (.proposal 4 0 2 (-1) 7), .flush, .sendPrevote 4 0 (some 7),
        .append (.precommit 4 0 3 (some 7)), .flush, .deliver 4 7, .prune 4, .flush] := by
  decide

-- and on juno's machine: the block of height 1 decides the height; the proposal's call does not
-- commit, the precommit of the sync pseudo-sender (power = total) does
example :
    let M := tmQT { env4 with power := fun _ a => if a = 99 then 4 else 1 } 4
    let m := (M.step (M.init 1) .start).1
    (syncStep M m [.proposal 1 0 1 (-1) 7, .precommit 1 0 99 (some 7)]).2 =
      [.writeWAL (.proposal 1 0 1 (-1) 7), .broadcastPrevote 1 0 (some 7),
       .writeWAL (.precommit 1 0 99 (some 7)), .scheduleTimeout 2 1 0, .commit 1 7] := by
  decide

-- `state_relation_is_observational_equivalence`: the hypotheses `ObsSafe` are satisfiable by a voting
-- machine, and observational equivalence identifies states that literal equality keeps apart only when
-- they behave the same (here: equal states)
example : ObsSafe (toyMachine (fun _ => false) (fun _ => 0)) :=
  ObsSafe.of_replaySafe (toy_replaySafe _ _)

/-
NOT covered by a theorem about the CURRENT code (see notes/C13.md, "Round 5 — limits that remain"):
* `ObsSafe` for juno's machine (`…_tendermint_obs_partial` above): observational equivalence of three
  kinds of state pairs — tested by the harness on every crash point, not proved;
* histories that contain the re-execution of stale actions after a FAILED block fetch (it appends an
  entry twice): `stale_actions_after_failed_fetch_repeat_votes` proves what the step does, `Moment`
  histories do not include it (tested: sync family). A fetched BLOCK is covered since round 5
  (`fetched_block_is_processed_like_its_messages`);
* the chain advancing without the driver (blocks stored by the sync service while the validator is
  down): only `recovery_equals_live_run`'s resume-height clause holds for arbitrary images;
* conflicting re-PROPOSALS (only prevotes and precommits are in `votesOf`, as in the property text);
* `Application.Valid()` / `Value()` changing across the restart (F1, F3) is outside `step` being one
  function;
* a `Flush` that fails INSIDE walstore: the model's store has no failing flush of its own (the failing
  effect simply does not happen, `stopTrace`); that walstore keeps the acknowledged records then is
  checked on the real store (fault family `wal-append-*`) and is C14's theorem.
-/

end Juno.C13.Props
