import JunoModel.C13.ProofsToy
import JunoModel.C13.ProofsCrash2
import JunoModel.C13.Tendermint
/-!
C13 — property theorems (statements only; helper lemmas are in `Proofs*.lean`).
Every theorem in this module is an obligation listed in evidence/C13.json with its axioms.

Vocabulary (Model.lean / Spec.lean): `M : Machine S` is ANY deterministic consensus state machine
(`step : S → Input → S × List Action`); `liveRun` is `driver.listen` (execute with
`isReplaying = false`), `replayRun` is `driver.replay`, `recover` is a process restart from the
crash image (flushed records only; machine created at `chainHeight + 1`). A crash point is a split
`trace = pre ++ post` of the effect trace: the process dies after the effects `pre`.
-/
namespace Juno.C13.Props
open Juno.C13

/-! ## Part 1 — for every state machine: visible ⇒ logged first -/

/-- **visible_implies_logged** (live). For every state machine, every input sequence and every
point of the effect trace: when a visible effect `x` (a broadcast or a commit delivery) is
performed, no log record is pending, and every entry the driver appended before `x` is among the
FLUSHED records that survive a crash at that very point — or is at/below the durable prune
watermark (its height was committed, delivered and pruned). The log handle at boot may be in any
state (`n` arbitrary). -/
theorem visible_implies_logged {S} (M : Machine S) (s : S) (ins : List Input) (n : Node)
    (pre : List Effect) (x : Effect) (post : List Effect)
    (hsplit : (liveRun M s ins).2 = pre ++ x :: post) (hv : x.visible = true) :
    (applyEffects n pre).store.pending = [] ∧
    ∀ e, Effect.append e ∈ pre →
      Rec.entry e ∈ (applyEffects n pre).crash.store.flushed ∨
        e.height ≤ (applyEffects n pre).crash.store.pruned :=
  ⟨pending_empty_at_visible _ false n (by simp) (safe_liveRun M s ins false) pre x post hsplit hv,
   fun e hm => logged_before_visible _ false n (by simp) (safe_liveRun M s ins false)
      pre x post hsplit hv e hm⟩

/-- **visible_implies_logged** (during recovery). While replaying, the driver writes no entry at
all, and at every visible effect of the replay nothing is pending (the only log write of a replay
is the prune of a replayed commit, flushed immediately). `n` is any node whose pending batch is
empty — in particular every crash image. -/
theorem replay_visible_nothing_pending {S} (M : Machine S) (s : S) (L : List Entry) (n : Node)
    (hn : n.store.pending = []) (pre : List Effect) (x : Effect) (post : List Effect)
    (hsplit : (replayRun M s L).2 = pre ++ x :: post) (hv : x.visible = true) :
    (applyEffects n pre).store.pending = [] ∧ ∀ e, Effect.append e ∉ (replayRun M s L).2 :=
  ⟨pending_empty_at_visible _ true n (fun _ => hn) (safe_replayRun M s L).1 pre x post hsplit hv,
   fun e => replayRun_no_append M s L e⟩

/-- What peers see does not depend on the mode: `execute` performs the same broadcasts and
deliveries, in the same order, whether replaying or not (so a replay RE-BROADCASTS). -/
theorem replay_rebroadcasts (acts : List Action) :
    visibleOf (effectsOf true acts) = visibleOf (effectsOf false acts) :=
  (visible_effectsOf_mode acts).symm

/-! ## Part 2 — for every state machine satisfying `ReplaySafe`: recovery is deterministic

`ReplaySafe M` (Spec.lean) collects what recovery needs from the state machine — all statements
about `step` alone: an input is ignored or logged first; commit is last, for the current height,
and leaves exactly a fresh machine for the next height; messages before `start` and messages of
future heights are only stored and commute with lower-height ones. `toy_replaySafe` shows the
hypotheses are satisfiable; the harness tests them on the real machine (shape of every action
list, live state = fresh machine fed the node's own log, recovered state = uncrashed twin). -/

/-- A live run is the replay of its own log: same final state, same visible effects in the same
order (inputs that wrote nothing to the log changed nothing). -/
theorem live_run_is_replay_of_its_log {S} (M : Machine S) (hs : ReplaySafe M) (s : S)
    (ins : List Input) (ok : ListenOK M s ins) :
    (liveRun M s ins).1 = (replayRun M s (loggedEntries M s ins)).1 ∧
    visibleOf (liveRun M s ins).2 = visibleOf (replayRun M s (loggedEntries M s ins)).2 :=
  ⟨(live_eq_replay M hs ins s ok).1, (live_eq_replay M hs ins s ok).2.1⟩

/-- `LoadAllEntries` returns the log sorted by height, not in recording order (future-height
messages are moved behind everything of lower heights). Replaying the sorted log reaches the same
state and makes the same things visible, in the same order, as the live run. -/
theorem sorted_log_replays_like_live_run {S} (M : Machine S) (hs : ReplaySafe M) (s : S)
    (ins : List Input) (ok : ListenOK M s ins) :
    (replayRun M s (sortByHeight (loggedEntries M s ins))).1 = (liveRun M s ins).1 ∧
    visibleOf (replayRun M s (sortByHeight (loggedEntries M s ins))).2 =
      visibleOf (liveRun M s ins).2 := by
  obtain ⟨h1, h2, h3⟩ := live_eq_replay M hs ins s ok
  obtain ⟨g1, g2⟩ := replay_sorted_eq M hs s _ h3
  exact ⟨g1.trans h1.symm, g2.trans h2.symm⟩

/-- **replay_deterministic.** The node boots with the chain at `c0` and an empty log and processes
ANY inputs `ins` (under the listen discipline). Take ANY crash image `n` in which the chain is one
below the machine's height and the durable live entries are the node's log above some watermark
`p ≤ chain` (pruning may lag behind the chain). Then the restarted node — fresh machine at
`chain + 1`, fed the height-sorted image — (1) ends in exactly the state of the uncrashed run,
(2) re-broadcasts, during replay, every vote the uncrashed run had broadcast at the current height
(prefix-consistent visible effects), and (3) resumes at `chain + 1` where `chain` is the last
delivered height INCLUDING commits completed during the replay. -/
theorem replay_deterministic {S} (M : Machine S) (hs : ReplaySafe M) (c0 : Nat) (ins : List Input)
    (ok : ListenOK M (M.init (c0 + 1)) ins) (n : Node) (p : Nat)
    (hchain : n.chainHeight + 1 = M.height (liveRun M (M.init (c0 + 1)) ins).1)
    (hp : p ≤ n.chainHeight)
    (hview : (view n.store.flushed).2 = above p (loggedEntries M (M.init (c0 + 1)) ins)) :
    (recover M n).1 = (liveRun M (M.init (c0 + 1)) ins).1 ∧
    (∀ v ∈ votesOf (liveRun M (M.init (c0 + 1)) ins).2,
      v.h = M.height (liveRun M (M.init (c0 + 1)) ins).1 → v ∈ votesOf (recover M n).2.1) ∧
    M.height (recover M n).1 = (recover M n).2.2.chainHeight + 1 := by
  have inv := liveInv_run M hs ins _ [] c0 [] (liveInv_init M hs c0) ok
  have hb : M.height (liveRun M (M.init (c0 + 1)) ins).1 - 1 = n.chainHeight := by omega
  rw [hb] at inv
  simp only [List.nil_append] at inv
  obtain ⟨r1, r2⟩ := recover_eq M hs n _ n.chainHeight p rfl hp hview
  refine ⟨by rw [r1, ← inv.state], ?_, ?_⟩
  · intro v hv hvh
    rw [r2]
    exact (inv.votes v hv).2 (by omega)
  · have := resume_height_run M hs n.crash.store.load (M.init (n.crash.chainHeight + 1)) n.crash
      (hs.height_init _)
    exact this

/-- The crash points between the flush in front of a commit and the delivery of that commit: the
machine has already moved to the next height but the chain has not. For the run `ins` followed by
one more input `i` (committing or not), an image that holds the log including `i`'s entry while the
chain is still one below the height BEFORE `i` recovers the state AFTER `i` (a commit is then
re-executed — and delivered — by the replay). -/
theorem replay_deterministic_commit_in_flight {S} (M : Machine S) (hs : ReplaySafe M) (c0 : Nat)
    (ins : List Input) (ok : ListenOK M (M.init (c0 + 1)) ins) (i : Input)
    (hi : M.started (liveRun M (M.init (c0 + 1)) ins).1 = true ∨ i = Input.start)
    (n : Node) (p : Nat)
    (hchain : n.chainHeight + 1 = M.height (liveRun M (M.init (c0 + 1)) ins).1)
    (hp : p ≤ n.chainHeight)
    (hview : (view n.store.flushed).2 = above p (loggedEntries M (M.init (c0 + 1)) ins ++
      walOf (M.step (liveRun M (M.init (c0 + 1)) ins).1 i).2)) :
    (recover M n).1 = (M.step (liveRun M (M.init (c0 + 1)) ins).1 i).1 := by
  have inv := liveInv_run M hs ins _ [] c0 [] (liveInv_init M hs c0) ok
  have hb : M.height (liveRun M (M.init (c0 + 1)) ins).1 - 1 = n.chainHeight := by omega
  rw [hb] at inv
  simp only [List.nil_append] at inv
  obtain ⟨r1, _⟩ := recover_eq M hs n _ n.chainHeight p rfl hp hview
  rcases hs.logged_or_inert _ i hi with ⟨h1, h2⟩ | ⟨e, ar, h2, he, hh, hstart, hw⟩
  · rw [r1, h1, h2]
    simp only [walOf, List.append_nil]
    exact inv.state.symm
  · have hwal : walOf (M.step (liveRun M (M.init (c0 + 1)) ins).1 i).2 = [e] := by
      rw [h2]; simp [walOf, hw]
    rw [r1, hwal]
    exact (liveInv_step M hs _ _ _ _ inv i e ar hi h2 he hh hstart).1.state.symm

/-- **resume_height.** Whatever the crash image, after recovery the machine's height is exactly one
above the last delivered height (deliveries performed while replaying included). -/
theorem resume_height {S} (M : Machine S) (hs : ReplaySafe M) (n : Node) :
    M.height (recover M n).1 = (recover M n).2.2.chainHeight + 1 :=
  resume_height_run M hs n.crash.store.load (M.init (n.crash.chainHeight + 1)) n.crash
    (hs.height_init _)

/-- No conflicting vote after recovery, stated for ANY crash image described by its content (the
crash-point form below is derived from it): the image holds the node's log above a watermark
`p ≤ chain`, the chain is one below the machine's height, and the votes broadcast before the crash
are among those of the run. -/
theorem no_conflicting_vote_after_recovery_from_image {S} (M : Machine S) (hs : ReplaySafe M)
    (ne : NoEquivocation M) (c0 : Nat) (ins : List Input) (ok : ListenOK M (M.init (c0 + 1)) ins)
    (n : Node) (p : Nat)
    (hchain : n.chainHeight + 1 = M.height (liveRun M (M.init (c0 + 1)) ins).1)
    (hp : p ≤ n.chainHeight)
    (hview : (view n.store.flushed).2 = above p (loggedEntries M (M.init (c0 + 1)) ins))
    (pre : List Effect)
    (hpre : ∀ v ∈ votesOf pre, v ∈ votesOf (liveRun M (M.init (c0 + 1)) ins).2)
    (cont : List Input) (okc : ListenOK M (recover M n).1 cont) :
    ∀ v ∈ votesOf pre, ∀ w ∈ votesOf ((recover M n).2.1 ++ (liveRun M (recover M n).1 cont).2),
      ¬ v.conflicts w := by
  have inv := liveInv_run M hs ins _ [] c0 [] (liveInv_init M hs c0) ok
  have hb : M.height (liveRun M (M.init (c0 + 1)) ins).1 - 1 = n.chainHeight := by omega
  rw [hb] at inv
  simp only [List.nil_append] at inv
  exact no_conflict_core M hs ne _ _ _ _ inv.toW n p rfl hp hview pre hpre cont okc

/-- **Every crash point yields a recoverable image** (the bookkeeping behind the next two
theorems). The process dies after ANY prefix `pre` of the effect trace of ANY run. Then the image
is that of an earlier moment of the run: there are a machine state `sd`, a log `Ed` and a trace
`trd` such that the image's live entries are `Ed` above a watermark `p ≤ chain`, its flushed entries
are exactly `Ed`, `sd` is the state of the replay of the sorted `Ed` above the chain from a fresh
machine at `chain + 1` and ALSO the state an uncrashed machine reaches on `Ed` in recording order,
and every vote broadcast in `pre` was broadcast by then. -/
theorem crash_image_durable {S} (M : Machine S) (hs : ReplaySafe M) (c0 : Nat) (ins : List Input)
    (ok : ListenOK M (M.init (c0 + 1)) ins) (pre post : List Effect)
    (hsplit : (liveRun M (M.init (c0 + 1)) ins).2 = pre ++ post) :
    Durable M c0 (applyEffects (Node.fresh c0) pre) pre := by
  simpa using durable_all M hs c0 ins _ [] c0 [] (Node.fresh c0) (Ctx.init M hs c0) ok pre post hsplit

/-- **replay_deterministic, for every crash point.** The process dies after ANY prefix `pre` of the
effect trace (before/after every individual append, flush, broadcast, timer, delivery, prune). The
restarted node — fresh machine at `chainHeight + 1`, fed the height-sorted, pruned image — ends in
exactly the state an uncrashed machine, started at the original boot height, reaches when it
processes exactly the durably recorded inputs (all flushed entries, prunes ignored) in the order
they were recorded; and it resumes at last delivered height + 1. -/
theorem recovery_equals_durable_history {S} (M : Machine S) (hs : ReplaySafe M) (c0 : Nat)
    (ins : List Input) (ok : ListenOK M (M.init (c0 + 1)) ins) (pre post : List Effect)
    (hsplit : (liveRun M (M.init (c0 + 1)) ins).2 = pre ++ post) :
    (recover M (applyEffects (Node.fresh c0) pre)).1 =
      (replayRun M (M.init (c0 + 1))
        (entriesOfRecs (applyEffects (Node.fresh c0) pre).store.flushed)).1 ∧
    M.height (recover M (applyEffects (Node.fresh c0) pre)).1 =
      (recover M (applyEffects (Node.fresh c0) pre)).2.2.chainHeight + 1 := by
  obtain ⟨sd, Ed, trd, p, hW, hp, hview, hent, _, htw⟩ :=
    crash_image_durable M hs c0 ins ok pre post hsplit
  obtain ⟨r1, _⟩ := recover_eq M hs _ Ed _ p rfl hp (by rw [hview])
  exact ⟨by rw [r1, ← hW.state, htw, hent], resume_height M hs _⟩

/-- **no_conflicting_vote_after_recovery, for every crash point.** The process dies after ANY
prefix `pre` of the effect trace of ANY run; it is restarted from the crash image and then
processes ANY further inputs `cont`. No prevote or precommit it broadcasts after the restart —
while replaying or later — conflicts with (same kind, height, round, different id) one it
broadcast before the crash. Hypotheses: `ReplaySafe` (the machine used for the recovery is the
same deterministic function) and `NoEquivocation` (a single uncrashed execution never equivocates).
Without the first the statement is false: `conflicting_prevote_when_value_source_changes`. -/
theorem no_conflicting_vote_after_recovery {S} (M : Machine S) (hs : ReplaySafe M)
    (ne : NoEquivocation M) (c0 : Nat) (ins : List Input)
    (ok : ListenOK M (M.init (c0 + 1)) ins) (pre post : List Effect)
    (hsplit : (liveRun M (M.init (c0 + 1)) ins).2 = pre ++ post) (cont : List Input)
    (okc : ListenOK M (recover M (applyEffects (Node.fresh c0) pre)).1 cont) :
    ∀ v ∈ votesOf pre,
      ∀ w ∈ votesOf ((recover M (applyEffects (Node.fresh c0) pre)).2.1 ++
        (liveRun M (recover M (applyEffects (Node.fresh c0) pre)).1 cont).2),
      ¬ v.conflicts w := by
  obtain ⟨sd, Ed, trd, p, hW, hp, hview, _, hv, _⟩ :=
    crash_image_durable M hs c0 ins ok pre post hsplit
  exact no_conflict_core M hs ne sd Ed _ trd hW _ p rfl hp (by rw [hview]) pre hv cont okc

/-- **Regular stop and restart.** `Run` returns (context cancelled or a listener closed, both only
in the select loop) and its deferred `db.Close()` flushes the pending batch — also entries of
inputs that made nothing visible and were never flushed before. A process restarted on that image
is in exactly the state of the stopped one, and resumes at the right height. -/
theorem regular_stop_recovers_exact_state {S} (M : Machine S) (hs : ReplaySafe M) (c0 : Nat)
    (ins : List Input) (ok : ListenOK M (M.init (c0 + 1)) ins) :
    (recover M (applyEffects (Node.fresh c0)
      ((liveRun M (M.init (c0 + 1)) ins).2 ++ [Effect.flush]))).1 =
      (liveRun M (M.init (c0 + 1)) ins).1 := by
  obtain ⟨hch, p, hp, hview⟩ := stopped_image M hs c0 ins ok
  exact (replay_deterministic M hs c0 ins ok _ p hch hp hview).1

/-- **`NoEquivocation` discharged for juno's state machine.** `tmMachine env node` is C12's
executable transcription of `consensus/tendermint` + `votecounter` (tied to the real code by C12's
harness, action for action) seen through the driver's interface; C12's `run_no_double_vote` gives
that it never sends two prevotes or two precommits for the same height and round in one execution
— for every validator set, application, and every input sequence in which timeouts follow `start`
(which is what the replay discipline `ReplayOK`, an invariant of the log, guarantees). -/
theorem tendermint_never_equivocates (env : Juno.C12.Env) (node : Nat) :
    NoEquivocation (tmMachine env node) :=
  tm_noEquivocation env node

/-- The crash-point theorem for juno's state machine: only `ReplaySafe` remains as hypothesis (its
fields are tested on the real machine by the harness; the one that fails in reality — the
application answering differently during replay — is finding F1). -/
theorem no_conflicting_vote_after_recovery_tendermint (env : Juno.C12.Env) (node : Nat)
    (hs : ReplaySafe (tmMachine env node)) (c0 : Nat) (ins : List Input)
    (ok : ListenOK (tmMachine env node) ((tmMachine env node).init (c0 + 1)) ins)
    (pre post : List Effect)
    (hsplit : (liveRun (tmMachine env node) ((tmMachine env node).init (c0 + 1)) ins).2 = pre ++ post)
    (cont : List Input)
    (okc : ListenOK (tmMachine env node)
      (recover (tmMachine env node) (applyEffects (Node.fresh c0) pre)).1 cont) :
    ∀ v ∈ votesOf pre,
      ∀ w ∈ votesOf ((recover (tmMachine env node) (applyEffects (Node.fresh c0) pre)).2.1 ++
        (liveRun (tmMachine env node)
          (recover (tmMachine env node) (applyEffects (Node.fresh c0) pre)).1 cont).2),
      ¬ v.conflicts w :=
  no_conflicting_vote_after_recovery _ hs (tm_noEquivocation env node) c0 ins ok pre post hsplit
    cont okc

/-- The hypotheses of Part 2 are satisfiable: the toy machine of `Model.lean` (proposer or not,
any value source) is `ReplaySafe`. -/
theorem replaySafe_satisfiable (proposer : Nat → Bool) (app : Nat → Nat) :
    ReplaySafe (toyMachine proposer app) := toy_replaySafe proposer app

/-- `ReplaySafe` and `NoEquivocation` are jointly satisfiable (by the machine that ignores every
input — a weak witness; `NoEquivocation` of a machine that votes is C12's `no_double_vote`). -/
theorem hypotheses_jointly_satisfiable : ReplaySafe idleMachine ∧ NoEquivocation idleMachine :=
  ⟨idle_replaySafe, idle_noEquivocation⟩

/-! ## Part 3 — the defect: the proposer's own value is not in the log

`no_conflicting_vote_after_recovery` needs that the machine used after the restart is the SAME
function `step` as before (the `Application` answers identically during replay). The log cannot
enforce this: the value returned by `Application.Value()` is not logged, and replay re-executes
`startRound`, calls `Value()` again and re-broadcasts. Witness on the model (the same scenario is
replayed on the real driver by the harness, sig `conflicting-prevote-after-recovery-own-proposal`):
-/

/-- **Negation witness.** A proposer whose value source returns `101` before the crash and `102`
after it: the process dies after broadcasting its proposal and prevote for height 4 round 0; the
recovered process broadcasts a prevote for a different id at the same height and round. -/
theorem conflicting_prevote_when_value_source_changes :
    let M := toyMachine (fun _ => true) (fun _ => 101)
    let M' := toyMachine (fun _ => true) (fun _ => 102)
    let pre := (liveRun M (M.init 4) [Input.start]).2
    ∃ v ∈ votesOf pre, ∃ w ∈ votesOf (recover M' (applyEffects (Node.fresh 3) pre)).2.1,
      v.conflicts w := by
  decide

/-- **Second witness: a `Start` entry that carries the next height.** `ReplaySafe.logged_or_inert`
demands that the entry of a `start` carries the height being started. The real `ProcessStart`
logs a POINTER to its height field; when the same call already commits the height, the entry is
written with the next height (harness sig `start-entry-logged-with-next-height`, fix in
`proposed-fixes/C13-start-entry-aliases-height.diff`). On the model: with the aliased entry the
log keeps a `Start` for the next height after the prune, the restarted node replays it (here it
even commits once more) and does NOT end in the state of the uncrashed run; with the entry
carrying the started height it does. -/
theorem start_entry_with_next_height_breaks_replay :
    let M := eagerMachine true
    let M' := eagerMachine false
    let n := applyEffects (Node.fresh 3) (liveRun M (M.init 4) [Input.start]).2
    let n' := applyEffects (Node.fresh 3) (liveRun M' (M'.init 4) [Input.start]).2
    (recover M n).1 ≠ (liveRun M (M.init 4) [Input.start]).1 ∧
    (recover M' n').1 = (liveRun M' (M'.init 4) [Input.start]).1 := by
  decide

-- non-vacuity / sanity of the definitions on concrete runs
example : (liveRun (toyMachine (fun _ => true) (fun _ => 101)) (Toy.init 4) [Input.start]).2 =
    [.append (.start 4), .flush, .sendProposal 4 0 (-1) 101, .flush, .sendPrevote 4 0 (some 101)] := by
  decide

example :
    let M := toyMachine (fun _ => false) (fun _ => 0)
    let tr := (liveRun M (M.init 4)
      [.start, .proposal 4 0 2 (-1) 7, .prevote 5 0 3 none, .prevote 4 0 3 (some 7),
       .precommit 4 0 3 (some 7), .start]).2
    -- crash in the middle of the commit: delivered, prune not yet flushed
    let n := applyEffects (Node.fresh 3) (tr.take 13)
    n.chainHeight = 4 ∧ n.crash.store.load.length = 5 ∧
      (recover M n).1 = Toy.init 5 ∧ (recover M n).2.1 = [] := by
  decide

-- non-vacuity of `replay_deterministic`'s hypotheses: a concrete run with a future-height message
-- in the log, crashed right after its last effect; the image satisfies `hchain`, `hp`, `hview`.
example :
    let M := toyMachine (fun _ => false) (fun _ => 0)
    let ins : List Input := [.start, .proposal 4 0 2 (-1) 7, .prevote 5 0 3 none, .prevote 4 0 3 (some 7)]
    let n := applyEffects (Node.fresh 3) (liveRun M (M.init 4) ins).2
    ListenOK M (M.init 4) ins ∧ n.chainHeight + 1 = M.height (liveRun M (M.init 4) ins).1 ∧
      (view n.store.flushed).2 = above 0 (loggedEntries M (M.init 4) ins) ∧
      (recover M n).1 = (liveRun M (M.init 4) ins).1 ∧
      votesOf (recover M n).2.1 = [⟨.prevote, 4, 0, some 7⟩, ⟨.precommit, 4, 0, some 7⟩] := by
  refine ⟨?_, by decide⟩
  simp only [ListenOK]
  decide

end Juno.C13.Props
