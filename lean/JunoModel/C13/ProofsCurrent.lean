import JunoModel.C13.ProofsInv
/-!
C13 — the model machine "with the F5 fix" IS the current code.

`tmMachineT` was introduced (round 4) as an explicit variant of C12's transcription: `ProcessTimeout`
returns nil, without running the rules, when `onTimeout*` ignored the timeout
(proposed-fixes/C13-ignored-timeout-runs-rules.diff). The repair was applied to /repo as cd6cea9 and
C12's transcription follows the code, so the variant and the transcription are now the same machine.
Everything proved about `tmMachineT` / `tmQT` / `tmQTI` is therefore about the code as it is;
`tmMachineL` (the loop runs on an ignored timeout) is the code BEFORE cd6cea9.
-/
namespace Juno.C13
open Juno

/-- `onTimeoutPropose/Prevote/Precommit` that returns no action leaves the machine untouched. -/
theorem onTimeout_ignored_state (env : C12.Env) (m : C12.Machine) (s : C12.Step) (h : Nat) (r : Int)
    (h0 : (m.onTimeout env s h r).2.isEmpty = true) : (m.onTimeout env s h r).1 = m := by
  unfold C12.Machine.onTimeout at h0 ⊢
  cases s <;> simp only at h0 ⊢ <;> split <;> simp_all

theorem tmMachineT_step_eq (env : C12.Env) (node : Nat) (m : C12.Machine) (i : Input) :
    (tmMachineT env node).step m i = (tmMachine env node).step m i := by
  by_cases hig : timeoutIgnored env m i = true
  · have hT : (tmMachineT env node).step m i = (m, []) := by simp [tmMachineT, hig]
    rw [hT]
    cases i with
    | timeout st h r =>
      simp only [timeoutIgnored] at hig
      cases hs : stepOfNat st with
      | none => simp [tmMachine, convInput, hs]
      | some s =>
        rw [hs] at hig
        simp only at hig
        have hst := onTimeout_ignored_state env m s h r hig
        have he : (m.onTimeout env s h r).2 = [] := by simpa using hig
        simp [tmMachine, convInput, hs, C12.Machine.step, C12.Machine.processTimeout, he, hst]
    | start => simp [timeoutIgnored] at hig
    | proposal => simp [timeoutIgnored] at hig
    | prevote => simp [timeoutIgnored] at hig
    | precommit => simp [timeoutIgnored] at hig
  · simp [tmMachineT, hig]

/-- **The machine with the fix is the current transcription of juno's state machine.** -/
theorem tmMachineT_eq_tmMachine (env : C12.Env) (node : Nat) :
    tmMachineT env node = tmMachine env node := by
  have hstep : (tmMachineT env node).step = (tmMachine env node).step := by
    funext m i; exact tmMachineT_step_eq env node m i
  show ({ tmMachine env node with step := _ } : Machine C12.Machine) = tmMachine env node
  cases hM : tmMachine env node with
  | mk init height started step =>
    have : (tmMachineT env node).step = step := by rw [hstep, hM]
    simp only [tmMachineT, hM] at this ⊢
    rw [this]

end Juno.C13
